//! Property C11: batch runs map files one-to-one, isolate failures and are deterministic.
//!
//! Real code: `darklua_core::process` + `WorkerTree::collect_errors` on `Resources::from_memory()`
//! and on a real temporary directory (`Resources::from_file_system()`).
//! CORRESPONDENCE: full before/after tree + error set against the Lean model (`c11.batch`), with
//! `T` measured from single-file real runs.
//! ORACLE (independent of the model): computed here from the property statement.
use crate::model::{hex, unhex, Model};
use crate::report::{hash_of, known_findings, Report, Violation};
use crate::rng::Rng;
use darklua_core::{Configuration, Options, Resources};
use serde_json::{json, Value};
use std::collections::{BTreeMap, BTreeSet};
use std::panic::{catch_unwind, AssertUnwindSafe};
use std::path::{Component, Path, PathBuf};

// ---------------------------------------------------------------------------------------------
// cases

#[derive(Clone, Debug, PartialEq, Eq, Hash)]
enum Ent {
    File(Vec<u8>),
    Dir,
}

#[derive(Clone, Debug, PartialEq, Eq, Hash)]
struct Case {
    fs: bool,
    /// paths relative to the case root (memory: the keys themselves)
    tree: Vec<(String, Ent)>,
    input: String,
    output: Option<String>,
    fail_fast: bool,
    config: usize,
    /// file-system only: run with the process working directory set to this sub-directory and
    /// relative input/output (only ever done in a child process)
    chdir: Option<String>,
}

const CONFIGS: [&str; 6] = [
    "{ generator: 'dense', rules: [] }",
    "{ generator: 'readable', rules: ['remove_assertions', 'remove_comments', 'remove_spaces'] }",
    "{ generator: 'dense', rules: [{ rule: 'convert_require', current: 'path', target: { name: 'luau' } }] }",
    "{ generator: 'dense', bundle: { require_mode: 'path' }, rules: [] }",
    // the two configurations of the `.luaurc` face: requires through an alias are resolved with the
    // closest `.luaurc` above the requiring file
    "{ generator: 'dense', rules: [{ rule: 'convert_require', current: 'path', target: { name: 'roblox', indexing_style: 'find_first_child' } }] }",
    "{ generator: 'dense', bundle: { require_mode: 'path' }, rules: ['remove_comments'] }",
];

fn config_reads_other_files(c: usize) -> bool {
    c >= 2
}

/// only the bundler fails on a require that cannot be resolved (convert_require leaves it alone)
fn config_fails_on_missing_require(c: usize) -> bool {
    c == 3 || c == 5
}

/// configuration 6: a user-defined rule registered through the public API (`Configuration::with_rule`)
/// that overrides `Rule::require_content`: processing `<dir>/wants-<name>` needs the content of the
/// work item `<dir>/<name>`, so the item is put on hold until that one is done. Its `process`
/// replaces the whole block with `return true`: every output must be exactly that.
const RULE_CONFIG: usize = 6;
const RULE_OUTPUT: &[u8] = b"return true";

#[derive(Debug, Default)]
struct WantsSiblingRule {
    metadata: darklua_core::rules::RuleMetadata,
}

impl darklua_core::rules::RuleConfiguration for WantsSiblingRule {
    fn configure(&mut self, _properties: darklua_core::rules::RuleProperties) -> Result<(), darklua_core::rules::RuleConfigurationError> {
        Ok(())
    }
    fn get_name(&self) -> &'static str {
        "c11-wants-sibling"
    }
    fn serialize_to_properties(&self) -> darklua_core::rules::RuleProperties {
        Default::default()
    }
    fn set_metadata(&mut self, metadata: darklua_core::rules::RuleMetadata) {
        self.metadata = metadata;
    }
    fn metadata(&self) -> &darklua_core::rules::RuleMetadata {
        &self.metadata
    }
}

impl darklua_core::rules::Rule for WantsSiblingRule {
    fn process(&self, block: &mut darklua_core::nodes::Block, _: &darklua_core::rules::Context) -> darklua_core::rules::RuleProcessResult {
        *block = darklua_core::nodes::Block::default()
            .with_last_statement(darklua_core::nodes::ReturnStatement::one(true));
        Ok(())
    }
    fn require_content(&self, current: &Path, _: &darklua_core::nodes::Block) -> Vec<PathBuf> {
        match current.file_name().and_then(|n| n.to_str()).and_then(|n| n.strip_prefix("wants-")) {
            Some(wanted) => vec![current.with_file_name(wanted)],
            None => Vec::new(),
        }
    }
}

fn configuration(c: usize) -> Configuration {
    if c == RULE_CONFIG {
        let rule: Box<dyn darklua_core::rules::Rule> = Box::new(WantsSiblingRule::default());
        return Configuration::empty()
            .with_generator(darklua_core::GeneratorParameters::default_dense())
            .with_rule(rule);
    }
    json5::from_str(CONFIGS[c]).expect("C11 harness configuration does not parse")
}

fn case_json(c: &Case) -> Value {
    json!({
        "fs": c.fs,
        "tree": c.tree.iter().map(|(p, e)| match e {
            Ent::File(b) => json!([p, hex(b)]),
            Ent::Dir => json!([p]),
        }).collect::<Vec<_>>(),
        "input": c.input, "output": c.output, "fail_fast": c.fail_fast, "config": c.config,
        "chdir": c.chdir,
    })
}

fn case_from_json(v: &Value) -> Option<Case> {
    let tree = v["tree"]
        .as_array()?
        .iter()
        .map(|e| {
            let a = e.as_array()?;
            let p = a.first()?.as_str()?.to_owned();
            Some(match a.get(1) {
                Some(h) => (p, Ent::File(unhex(h.as_str()?)?)),
                None => (p, Ent::Dir),
            })
        })
        .collect::<Option<Vec<_>>>()?;
    Some(Case {
        fs: v["fs"].as_bool()?,
        tree,
        input: v["input"].as_str()?.to_owned(),
        output: v["output"].as_str().map(str::to_owned),
        fail_fast: v["fail_fast"].as_bool()?,
        config: v["config"].as_u64()? as usize,
        chdir: v["chdir"].as_str().map(str::to_owned),
    })
}

// ---------------------------------------------------------------------------------------------
// the harness's own lexical path arithmetic (independent of darklua and of the Lean model)

fn lex_norm(p: &str) -> String {
    let abs = p.starts_with('/');
    let mut out: Vec<&str> = Vec::new();
    for piece in p.split('/') {
        match piece {
            "" | "." => {}
            ".." => {
                if matches!(out.last(), Some(l) if *l != "..") {
                    out.pop();
                } else if !abs {
                    out.push("..");
                }
            }
            other => out.push(other),
        }
    }
    let body = out.join("/");
    if abs {
        format!("/{}", body)
    } else {
        body
    }
}

fn is_under(p: &str, dir: &str) -> Option<String> {
    if dir.is_empty() {
        return if p.starts_with('/') { None } else { Some(p.to_owned()) };
    }
    if p == dir {
        return Some(String::new());
    }
    p.strip_prefix(dir)
        .and_then(|r| r.strip_prefix('/'))
        .map(str::to_owned)
}

fn has_lua_extension(path: &str) -> bool {
    let name = path.rsplit('/').next().unwrap_or("");
    for ext in [".lua", ".luau"] {
        if let Some(stem) = name.strip_suffix(ext) {
            if !stem.is_empty() {
                return true;
            }
        }
    }
    false
}

fn join_rel(a: &str, rel: &str) -> String {
    if rel.is_empty() {
        a.to_owned()
    } else if a.is_empty() {
        rel.to_owned()
    } else {
        format!("{}/{}", a.trim_end_matches('/'), rel)
    }
}

fn normalizes_to_dot(p: &str) -> bool {
    !p.starts_with('/') && lex_norm(p).is_empty() && !p.is_empty()
}

/// the source path darklua derives for the tree key `p` (= `<dir>/<r>`) when the process runs in
/// `dir` with the relative input `input`: the walk yields `normalize(input)/…`, normalised
fn relative_source_key(input: &str, _dir: &str, _p: &str, r: &str) -> String {
    let n = lex_norm(input);
    if n.starts_with("..") {
        // the input leaves the working directory: sources keep the `..` prefix
        let ups = n.split('/').take_while(|c| *c == "..").count();
        let dir_parts: Vec<&str> = _dir.split('/').collect();
        let p_parts: Vec<&str> = _p.split('/').collect();
        let keep = dir_parts.len().saturating_sub(ups);
        let mut out: Vec<String> = std::iter::repeat("..".to_owned()).take(ups).collect();
        out.extend(p_parts[keep.min(p_parts.len())..].iter().map(|x| (*x).to_owned()));
        out.join("/")
    } else {
        r.to_owned()
    }
}

/// canonical display of a path printed by darklua: `components()` re-joined
fn canon_display(p: &str) -> String {
    let mut out = PathBuf::new();
    for c in Path::new(p).components() {
        match c {
            Component::RootDir => out.push("/"),
            other => out.push(other.as_os_str()),
        }
    }
    out.to_string_lossy().into_owned()
}

// ---------------------------------------------------------------------------------------------
// running the real code

type Snapshot = BTreeMap<String, Option<Vec<u8>>>; // Some(bytes) = file, None = directory

#[derive(Clone, Debug, Default, PartialEq, Eq)]
struct RunResult {
    /// `process` returned Err (nothing is processed then)
    process_error: Option<String>,
    /// Display of every collected error
    errors: Vec<String>,
    after: Snapshot,
    panicked: bool,
}

static UNIQUE: std::sync::atomic::AtomicU64 = std::sync::atomic::AtomicU64::new(0);

fn fresh_base() -> PathBuf {
    let n = UNIQUE.fetch_add(1, std::sync::atomic::Ordering::SeqCst);
    let dir = std::env::temp_dir().join(format!("dlv-c11-{}-{}", std::process::id(), n));
    let _ = std::fs::remove_dir_all(&dir);
    std::fs::create_dir_all(&dir).expect("cannot create the temporary case directory");
    dir
}

struct TempTree {
    base: PathBuf,
}

impl Drop for TempTree {
    fn drop(&mut self) {
        // directories made read-only by a case would block the removal
        let _ = std::fs::remove_dir_all(&self.base);
    }
}

fn abs(base: &str, p: &str) -> String {
    if p.is_empty() {
        format!("{}/", base)
    } else {
        format!("{}/{}", base, p)
    }
}

fn materialize(base: &Path, tree: &[(String, Ent)], order: &[usize]) {
    for &i in order {
        let (p, e) = &tree[i];
        let full = base.join(p);
        match e {
            Ent::Dir => std::fs::create_dir_all(&full).expect("mkdir"),
            Ent::File(bytes) => {
                if let Some(parent) = full.parent() {
                    std::fs::create_dir_all(parent).expect("mkdir parent");
                }
                std::fs::write(&full, bytes).expect("write case file");
            }
        }
    }
}

fn snapshot_fs(base: &Path) -> Snapshot {
    let mut snap = Snapshot::new();
    let mut stack = vec![base.to_path_buf()];
    while let Some(dir) = stack.pop() {
        let entries = match std::fs::read_dir(&dir) {
            Ok(e) => e,
            Err(_) => continue,
        };
        for entry in entries.flatten() {
            let path = entry.path();
            let rel = path.strip_prefix(base).unwrap().to_string_lossy().into_owned();
            let meta = match std::fs::symlink_metadata(&path) {
                Ok(m) => m,
                Err(_) => continue,
            };
            if meta.is_dir() {
                snap.insert(rel, None);
                stack.push(path);
            } else {
                snap.insert(rel, Some(std::fs::read(&path).unwrap_or_default()));
            }
        }
    }
    snap
}

fn snapshot_memory(resources: &Resources) -> Snapshot {
    let mut snap = Snapshot::new();
    for path in resources.walk("") {
        let content = resources.get(&path).unwrap_or_default();
        snap.insert(path.to_string_lossy().into_owned(), Some(content.into_bytes()));
    }
    snap
}

fn initial_snapshot(case: &Case) -> Snapshot {
    let mut snap = Snapshot::new();
    for (p, e) in &case.tree {
        match e {
            Ent::File(b) => {
                snap.insert(p.clone(), Some(b.clone()));
            }
            Ent::Dir => {
                snap.insert(p.clone(), None);
            }
        }
        if case.fs {
            // every ancestor is a directory on a real tree
            let mut cur = p.as_str();
            while let Some(i) = cur.rfind('/') {
                cur = &cur[..i];
                snap.entry(cur.to_owned()).or_insert(None);
            }
        }
    }
    snap
}

fn make_options(input: &str, output: Option<&str>, fail_fast: bool, config: usize) -> Options {
    let mut options = Options::new(input).with_configuration(configuration(config));
    if let Some(out) = output {
        options = options.with_output(out);
    }
    if fail_fast {
        options = options.fail_fast();
    }
    options
}

fn run_process(resources: &Resources, options: Options) -> (Option<String>, Vec<String>, bool) {
    let outcome = catch_unwind(AssertUnwindSafe(|| match darklua_core::process(resources, options) {
        Ok(tree) => (None, tree.collect_errors().iter().map(|e| e.to_string()).collect::<Vec<_>>()),
        Err(err) => (Some(err.to_string()), Vec::new()),
    }));
    match outcome {
        Ok((pe, errors)) => (pe, errors, false),
        Err(_) => (None, Vec::new(), true),
    }
}

/// run the case on the real code; `order` = insertion / creation order of the tree entries.
/// File-system errors mention the temporary root: it is replaced by `<B>`.
fn run_real(case: &Case, order: &[usize]) -> RunResult {
    if case.chdir.is_some() && !IN_CHILD.load(std::sync::atomic::Ordering::SeqCst) {
        // the working directory is process-wide: such a case only ever runs in a child process
        return run_chdir_case_in_child(case, order);
    }
    run_real_here(case, order)
}

static IN_CHILD: std::sync::atomic::AtomicBool = std::sync::atomic::AtomicBool::new(false);

/// paths printed relative to the case's working directory are shown like the others: `<B>/…`
fn absolutize_error(case: &Case, message: String) -> String {
    let dir = match &case.chdir {
        Some(d) => d,
        None => return message,
    };
    let mut parts: Vec<String> = message.split('`').map(str::to_owned).collect();
    if parts.len() >= 3 && !parts[1].starts_with("<B>") && !parts[1].starts_with('/') {
        parts[1] = format!("<B>/{}", lex_norm(&format!("{}/{}", dir, parts[1])));
    }
    parts.join("`")
}

fn run_chdir_case_in_child(case: &Case, order: &[usize]) -> RunResult {
    let failed = RunResult { panicked: true, ..Default::default() };
    let answers = match run_in_child_with(std::slice::from_ref(case), Some(order)) {
        Some(a) if a.len() == 1 => a,
        _ => return failed,
    };
    let a = &answers[0];
    let mut after = Snapshot::new();
    if let Some(map) = a["after"].as_object() {
        for (k, v) in map {
            after.insert(k.clone(), v.as_str().and_then(unhex));
        }
    }
    RunResult {
        process_error: a["process_error"].as_str().map(|s| absolutize_error(case, s.to_owned())),
        errors: a["errors"].as_array().map(|e| e.iter().filter_map(|x| x.as_str()).map(|s| absolutize_error(case, s.to_owned())).collect()).unwrap_or_default(),
        after,
        panicked: a["panicked"].as_bool().unwrap_or(true),
    }
}

fn run_real_here(case: &Case, order: &[usize]) -> RunResult {
    if case.fs {
        let tmp = TempTree { base: fresh_base() };
        let base = tmp.base.to_string_lossy().into_owned();
        materialize(&tmp.base, &case.tree, order);
        let (input, output) = match &case.chdir {
            Some(dir) => {
                std::env::set_current_dir(tmp.base.join(dir)).expect("chdir");
                (case.input.clone(), case.output.clone())
            }
            None => (abs(&base, &case.input), case.output.as_ref().map(|o| abs(&base, o))),
        };
        let resources = Resources::from_file_system();
        let (process_error, errors, panicked) =
            run_process(&resources, make_options(&input, output.as_deref(), case.fail_fast, case.config));
        if case.chdir.is_some() {
            let _ = std::env::set_current_dir("/");
        }
        let after = snapshot_fs(&tmp.base);
        let strip = |s: String| s.replace(&base, "<B>");
        RunResult {
            process_error: process_error.map(strip),
            errors: errors.into_iter().map(strip).collect(),
            after,
            panicked,
        }
    } else {
        let resources = Resources::from_memory();
        for &i in order {
            if let (p, Ent::File(bytes)) = &case.tree[i] {
                resources
                    .write(p, std::str::from_utf8(bytes).expect("memory trees are UTF-8"))
                    .unwrap();
            }
        }
        let (process_error, errors, panicked) = run_process(
            &resources,
            make_options(&case.input, case.output.as_deref(), case.fail_fast, case.config),
        );
        RunResult { process_error, errors, after: snapshot_memory(&resources), panicked }
    }
}

/// error classes: (kind, path as printed, canonicalised)
fn classify_error(message: &str) -> (String, String) {
    let kind = if message.starts_with("unable to parse") {
        "parse"
    } else if message.starts_with("unable to find") {
        "notfound"
    } else if message.starts_with("IO error with") {
        "io"
    } else if message.starts_with("error processing") {
        "rule"
    } else {
        "other"
    };
    let path = message
        .split('`')
        .nth(1)
        .map(canon_display)
        .unwrap_or_default();
    (kind.to_owned(), path)
}

/// `T` for one file: the real code run on that file alone (same initial tree, output to a fresh
/// file with an extension so it is used verbatim). Ok(bytes) | Err(code): 1 parse, 2 rule,
/// 3 io (unreadable source, e.g. invalid UTF-8), 4 not found, 9 other.
struct TMeasure {
    fs_tree: Option<TempTree>,
    memory: Option<Resources>,
    counter: usize,
}

impl TMeasure {
    fn new(case: &Case) -> Self {
        let order: Vec<usize> = (0..case.tree.len()).collect();
        if case.fs {
            let tmp = TempTree { base: fresh_base() };
            materialize(&tmp.base, &case.tree, &order);
            TMeasure { fs_tree: Some(tmp), memory: None, counter: 0 }
        } else {
            let resources = Resources::from_memory();
            for (p, e) in &case.tree {
                if let Ent::File(bytes) = e {
                    resources.write(p, std::str::from_utf8(bytes).unwrap()).unwrap();
                }
            }
            TMeasure { fs_tree: None, memory: Some(resources), counter: 0 }
        }
    }

    /// `source` is the key of the file (relative to the case root)
    fn measure(&mut self, source: &str, config: usize) -> Result<Vec<u8>, u32> {
        if config == RULE_CONFIG {
            // the rule applied to ANY file that parses gives `return true`; a single-file run
            // cannot be used (a `wants-` file alone waits for content nobody produces)
            return self.measure(source, 0).map(|_| RULE_OUTPUT.to_vec());
        }
        self.counter += 1;
        let out_rel = format!("zz-c11-t-out/o{}.lua", self.counter);
        let (resources, input, output) = match (&self.fs_tree, &self.memory) {
            (Some(tmp), _) => {
                let base = tmp.base.to_string_lossy().into_owned();
                (Resources::from_file_system(), abs(&base, source), abs(&base, &out_rel))
            }
            (_, Some(mem)) => (mem.clone(), source.to_owned(), out_rel.clone()),
            _ => unreachable!(),
        };
        let (process_error, errors, panicked) =
            run_process(&resources, make_options(&input, Some(&output), false, config));
        if panicked || process_error.is_some() {
            return Err(9);
        }
        if let Some(first) = errors.first() {
            return Err(match classify_error(first).0.as_str() {
                "parse" => 1,
                "rule" => 2,
                "io" => 3,
                "notfound" => 4,
                _ => 9,
            });
        }
        let result = match &self.fs_tree {
            Some(tmp) => std::fs::read(tmp.base.join(&out_rel)).map_err(|_| 9),
            None => resources.get(&output).map(String::into_bytes).map_err(|_| 9),
        };
        // keep the measuring tree equal to the initial tree
        match &self.fs_tree {
            Some(tmp) => {
                let _ = std::fs::remove_dir_all(tmp.base.join("zz-c11-t-out"));
            }
            None => {
                let _ = resources.remove(&output);
            }
        }
        result
    }
}

// ---------------------------------------------------------------------------------------------
// the model side

#[derive(Debug, Default)]
struct ModelAnswer {
    collect_error: Option<String>,
    work: Vec<(String, String)>,
    store: BTreeMap<String, Option<Option<Vec<u8>>>>, // None = absent, Some(None) = dir
    errors: BTreeSet<(String, String)>,
    tmiss: u64,
    raw: String,
}

fn path_hex(s: &str) -> String {
    hex(s.as_bytes())
}

fn unhex_str(s: &str) -> Option<String> {
    unhex(s).map(|b| String::from_utf8_lossy(&b).into_owned())
}

fn model_prefix(case: &Case, base: &str, cwd: &str) -> String {
    let mut tree = String::from("(TREE");
    if case.fs {
        tree.push_str(&format!(" (d {})", path_hex(base)));
        let snap = initial_snapshot(case);
        for (p, e) in &snap {
            match e {
                Some(bytes) => tree.push_str(&format!(" (f {} {})", path_hex(&abs(base, p)), hex(bytes))),
                None => tree.push_str(&format!(" (d {})", path_hex(&abs(base, p)))),
            }
        }
    } else {
        for (p, e) in &case.tree {
            if let Ent::File(bytes) = e {
                tree.push_str(&format!(" (f {} {})", path_hex(p), hex(bytes)));
            }
        }
    }
    tree.push(')');
    let (input, output) = if case.fs && case.chdir.is_none() {
        (abs(base, &case.input), case.output.as_ref().map(|o| abs(base, o)))
    } else {
        (case.input.clone(), case.output.clone())
    };
    format!(
        "(B {} {}) {} {} {}",
        case.fs,
        path_hex(cwd),
        tree,
        path_hex(&input),
        output.map(|o| path_hex(&o)).unwrap_or_else(|| "-".to_owned())
    )
}

/// minimal S-expression reader for the driver's answers
#[derive(Debug, Clone)]
enum Sx {
    Atom(String),
    List(Vec<Sx>),
}

fn parse_sx(text: &str) -> Vec<Sx> {
    let mut stack: Vec<Vec<Sx>> = vec![Vec::new()];
    let mut token = String::new();
    let flush = |token: &mut String, stack: &mut Vec<Vec<Sx>>| {
        if !token.is_empty() {
            stack.last_mut().unwrap().push(Sx::Atom(std::mem::take(token)));
        }
    };
    for ch in text.chars() {
        match ch {
            '(' => {
                flush(&mut token, &mut stack);
                stack.push(Vec::new());
            }
            ')' => {
                flush(&mut token, &mut stack);
                let done = stack.pop().unwrap_or_default();
                if let Some(top) = stack.last_mut() {
                    top.push(Sx::List(done));
                } else {
                    stack.push(vec![Sx::List(done)]);
                }
            }
            ' ' => flush(&mut token, &mut stack),
            c => token.push(c),
        }
    }
    flush(&mut token, &mut stack);
    stack.pop().unwrap_or_default()
}

fn atoms(list: &[Sx]) -> Vec<String> {
    list.iter()
        .filter_map(|s| match s {
            Sx::Atom(a) => Some(a.clone()),
            _ => None,
        })
        .collect()
}

fn ask_batch_model(
    model: &mut Model,
    case: &Case,
    base: &str,
    cwd: &str,
    table: &[(String, Vec<u8>, Result<Vec<u8>, u32>)],
    perm: Option<&[usize]>,
) -> ModelAnswer {
    let mut t = String::from("(T");
    for (p, content, result) in table {
        // the model keys `T` by the item's (normalised) source path: relative to the working
        // directory when the case runs with relative paths
        let key = match &case.chdir {
            Some(d) => match p.strip_prefix(&format!("{}/", d)) {
                Some(r) if normalizes_to_dot(&case.input) || !case.input.starts_with('/') => relative_source_key(&case.input, d, p, r),
                _ => abs(base, p),
            },
            None if case.fs => abs(base, p),
            None => p.clone(),
        };
        match result {
            Ok(bytes) => t.push_str(&format!(" ({} {} ok {})", path_hex(&key), hex(content), hex(bytes))),
            Err(code) => t.push_str(&format!(" ({} {} err {})", path_hex(&key), hex(content), code)),
        }
    }
    t.push(')');
    let perm_text = match perm {
        None => "(PERM id)".to_owned(),
        Some(p) => format!("(PERM {})", p.iter().map(|i| i.to_string()).collect::<Vec<_>>().join(" ")),
    };
    let line = format!(
        "c11.batch {} {} {} {}",
        model_prefix(case, base, cwd),
        case.fail_fast,
        t,
        perm_text
    );
    let raw = model.ask(&line);
    let mut answer = ModelAnswer { raw: raw.clone(), ..Default::default() };
    if let Some(rest) = raw.strip_prefix("collect-error ") {
        answer.collect_error = Some(rest.split(' ').next().unwrap_or("").to_owned());
        return answer;
    }
    if !raw.starts_with("ok ") {
        answer.collect_error = Some(format!("driver:{}", raw));
        return answer;
    }
    let strip = |s: String| -> String {
        if case.fs {
            match s.strip_prefix(base) {
                Some(r) => r.trim_start_matches('/').to_owned(),
                None => format!("<outside>{}", s),
            }
        } else {
            s
        }
    };
    for section in parse_sx(&raw[3..]) {
        if let Sx::List(items) = section {
            let name = match items.first() {
                Some(Sx::Atom(a)) => a.clone(),
                _ => continue,
            };
            for item in &items[1..] {
                match (name.as_str(), item) {
                    ("work", Sx::List(l)) => {
                        let a = atoms(l);
                        if a.len() == 2 {
                            answer.work.push((
                                unhex_str(&a[0]).unwrap_or_default(),
                                unhex_str(&a[1]).unwrap_or_default(),
                            ));
                        }
                    }
                    ("store", Sx::List(l)) => {
                        let a = atoms(l);
                        if a.len() >= 2 {
                            let p = unhex_str(&a[0]).unwrap_or_default();
                            if case.fs && (p == base || !p.starts_with(base)) {
                                continue; // the case root and everything above it
                            }
                            let v = match a[1].as_str() {
                                "f" => Some(Some(unhex(&a[2]).unwrap_or_default())),
                                "d" => Some(None),
                                _ => None,
                            };
                            answer.store.insert(strip(p), v);
                        }
                    }
                    ("errors", Sx::List(l)) => {
                        let a = atoms(l);
                        if a.len() == 4 {
                            let path = unhex_str(&a[2]).unwrap_or_default();
                            let path = if case.fs { path.replace(base, "<B>") } else { path };
                            let path = match &case.chdir {
                                Some(d) if !path.starts_with("<B>") && !path.starts_with('/') => format!("<B>/{}", lex_norm(&format!("{}/{}", d, path))),
                                _ => path,
                            };
                            let kind = match (a[1].as_str(), a[3].as_str()) {
                                ("read", _) => "notfound",
                                ("write", _) => "io",
                                ("transform", "1") => "parse",
                                ("transform", "2") => "rule",
                                ("transform", "3") => "io",
                                ("transform", "4") => "notfound",
                                _ => "other",
                            };
                            answer.errors.insert((kind.to_owned(), path));
                        }
                    }
                    ("tmiss", Sx::Atom(n)) => answer.tmiss = n.parse().unwrap_or(0),
                    _ => {}
                }
            }
        }
    }
    answer
}

#[derive(Debug, Clone, Copy, Default)]
struct Region {
    h: bool,
    dot: bool,
    overlap: bool,
    indep: bool,
}

fn ask_region(model: &mut Model, case: &Case, base: &str, cwd: &str) -> Region {
    let answer = model.ask(&format!("c11.h {}", model_prefix(case, base, cwd)));
    let get = |k: &str| answer.split(' ').any(|kv| kv == format!("{}=true", k));
    Region { h: get("h"), dot: get("dot"), overlap: get("overlap"), indep: get("indep") }
}

// ---------------------------------------------------------------------------------------------
// generators

#[derive(Clone, Copy, Debug, PartialEq, Eq)]
enum Fault {
    Healthy,
    Syntax,
    BadUtf8,
    MissingRequire,
}

fn healthy_content(rng: &mut Rng, siblings: &[String]) -> String {
    match rng.below(7) {
        0 => "return 1".to_owned(),
        1 => format!("local x = {}\nreturn x + 1\n", rng.below(100)),
        2 => "-- comment\nlocal function f(a, b)\n  assert(a, b)\n  return a\nend\nreturn f\n".to_owned(),
        3 => "local select, type = 1, 2\nlocal v = assert(f(), 'msg', select, type)\nreturn v\n".to_owned(),
        4 => "return { 'é', \"日本\", 3 }\n".to_owned(),
        5 if !siblings.is_empty() => {
            let s = rng.pick(siblings);
            // the full file name: a `.lua`/`.luau` extension is taken verbatim by the path require mode
            let name = s.rsplit('/').next().unwrap();
            format!("local m = require('./{}')\nreturn m\n", name)
        }
        _ => format!("print('{}')\n", rng.below(1000)),
    }
}

fn fault_content(fault: Fault, rng: &mut Rng) -> Vec<u8> {
    match fault {
        Fault::Syntax => (*rng.pick(&["local = 1", "return )", "x = = 2\n", "function("])).as_bytes().to_vec(),
        Fault::BadUtf8 => vec![b'r', b'e', b't', b'u', b'r', b'n', b' ', b'"', 0xff, 0xfe, b'"'],
        Fault::MissingRequire => b"local m = require('./zz-does-not-exist')\nreturn m\n".to_vec(),
        Fault::Healthy => unreachable!(),
    }
}

const LUA_NAMES: [&str; 12] = [
    "a.lua", "b.luau", "with space.lua", "dots.v1.2.lua", "\u{fc}n\u{ef}.lua", "\u{65e5}\u{672c}.luau",
    ".hidden.lua", "init.lua", "x..lua", "UP.lua", "m-1.luau", "z.lua.luau",
];
const OTHER_NAMES: [&str; 8] = [
    "readme.txt", "data.json", ".lua", "noext", "x.lua.txt", "UPPER.LUA", "lua", "a.lua~",
];
const DIR_NAMES: [&str; 8] = ["sub", "deep dir", "x.lua", "v1.2", "\u{e9}t\u{e9}", "n", ".hidden", ".cfg.d"];

struct Generated {
    case: Case,
    /// ground truth by construction: source key -> fault kind, for files under the input
    faults: BTreeMap<String, Fault>,
    /// destinations blocked on purpose (file-system only): source key
    blocked: BTreeSet<String>,
    shape: String,
}

/// files already present in an existing output directory right beside the destinations: stale
/// outputs (legitimately overwritten) and foreign files sharing a destination's stem
/// (`<stem>.tmp`, `.bak`, `<name>~`, `.txt`), which must survive the run untouched
fn preseed_output_directory(rng: &mut Rng, tree: &mut Vec<(String, Ent)>, lua_keys: &[String], input_norm: &str, out: &str) {
    for key in lua_keys {
        let rel = match is_under(key, input_norm) {
            Some(r) if !r.is_empty() => r,
            Some(_) => key.rsplit('/').next().unwrap_or("").to_owned(), // single-file input
            None => continue,
        };
        if !rng.chance(1, 3) {
            continue;
        }
        let (dir, name) = match rel.rsplit_once('/') {
            Some((d, n)) => (format!("{}/{}", out, d), n.to_owned()),
            None => (out.to_owned(), rel.clone()),
        };
        let stem = name.rsplit_once('.').map(|x| x.0.to_owned()).unwrap_or_else(|| name.clone());
        if stem.is_empty() {
            continue;
        }
        let path = match rng.below(6) {
            0 | 1 => format!("{}/{}.tmp", dir, stem),
            2 => format!("{}/{}.bak", dir, stem),
            3 => format!("{}/{}~", dir, name),
            4 => format!("{}/{}.tmp", dir, name),
            _ => format!("{}/{}", dir, name), // a stale output
        };
        if !tree.iter().any(|(p, _)| *p == path) {
            tree.push((path, Ent::File(b"return 'pre-existing'".to_vec())));
        }
    }
}

fn generate(rng: &mut Rng, fs: bool, allow_finding_classes: bool) -> Generated {
    let root = if rng.chance(1, 4) { "proj/src" } else { "src" };
    let mut tree: Vec<(String, Ent)> = Vec::new();
    let mut faults = BTreeMap::new();
    let config = if rng.chance(1, 2) { rng.below(2) } else { rng.below(6) };
    // directories
    let mut dirs = vec![root.to_owned()];
    for _ in 0..rng.below(4) {
        let parent = rng.pick(&dirs).clone();
        let d = format!("{}/{}", parent, rng.pick(&DIR_NAMES));
        if !dirs.contains(&d) {
            dirs.push(d);
        }
    }
    // lua files
    let n_lua = 1 + rng.below(6);
    let mut lua_keys: Vec<String> = Vec::new();
    for _ in 0..n_lua {
        let key = format!("{}/{}", rng.pick(&dirs), rng.pick(&LUA_NAMES));
        if !lua_keys.contains(&key) && !dirs.contains(&key) {
            lua_keys.push(key);
        }
    }
    let fault_rate = *rng.pick(&[0u32, 0, 1, 2, 3]);
    for key in &lua_keys {
        let fault = if rng.chance(fault_rate, 6) {
            match rng.below(if fs { 3 } else { 2 }) {
                0 => Fault::Syntax,
                1 => Fault::MissingRequire,
                _ => Fault::BadUtf8,
            }
        } else {
            Fault::Healthy
        };
        let content = match fault {
            Fault::Healthy => {
                let dir = key.rsplit_once('/').map(|x| x.0).unwrap_or("");
                // only siblings already known to be healthy and free of requires themselves
                let siblings: Vec<String> = lua_keys
                    .iter()
                    .filter(|k| *k != key && k.rsplit_once('/').map(|x| x.0).unwrap_or("") == dir)
                    .filter(|k| faults.get(*k) == Some(&Fault::Healthy))
                    .filter(|k| tree.iter().any(|(p, e)| p == *k && matches!(e, Ent::File(b) if !String::from_utf8_lossy(b).contains("require") && String::from_utf8_lossy(b).contains("return"))))
                    .cloned()
                    .collect();
                healthy_content(rng, &siblings).into_bytes()
            }
            f => fault_content(f, rng),
        };
        tree.push((key.clone(), Ent::File(content)));
        faults.insert(key.clone(), fault);
    }
    // the `.luaurc` face: nested `.luaurc` files that give the alias `@dep` a different meaning per
    // directory, and users of the alias at every depth (so that both processing orders
    // ancestor-first / descendant-first occur)
    if config >= 4 {
        for (i, d) in dirs.iter().enumerate() {
            if i == 0 || rng.chance(2, 3) {
                let dep = format!("{}/dep_{}.lua", d, i);
                tree.push((dep.clone(), Ent::File(format!("return 'dep {}'\n", i).into_bytes())));
                faults.insert(dep.clone(), Fault::Healthy);
                lua_keys.push(dep);
                let rc = format!("{}/.luaurc", d);
                tree.push((rc.clone(), Ent::File(format!("{{ \"aliases\": {{ \"dep\": \"dep_{}.lua\" }} }}", i).into_bytes())));
                // only ever a work item when given as the single input file: then it does not parse
                faults.insert(rc, Fault::Syntax);
            }
        }
        for d in dirs.iter() {
            let user = format!("{}/uses-dep.lua", d);
            tree.push((user.clone(), Ent::File(b"local dep = require('@dep')\nreturn dep\n".to_vec())));
            faults.insert(user.clone(), Fault::Healthy);
            lua_keys.push(user);
        }
    }
    // siblings that share a Lua file's stem (`a.tmp`, `a.bak`, `a.lua~`, `a.txt`, `a.luau` beside
    // `a.lua`): scratch names an implementation might be tempted to use next to a destination.
    // Non-Lua ones must never change; a `.lua`/`.luau` twin is a work item of its own.
    if rng.chance(1, 2) {
        for key in lua_keys.clone() {
            if !rng.chance(1, 2) {
                continue;
            }
            let (dir, name) = key.rsplit_once('/').unwrap_or(("", key.as_str()));
            let stem = name.rsplit_once('.').map(|x| x.0).unwrap_or(name);
            if stem.is_empty() {
                continue;
            }
            let sibling = match rng.below(7) {
                0 | 1 => format!("{}/{}.tmp", dir, stem),
                2 => format!("{}/{}.bak", dir, stem),
                3 => format!("{}/{}~", dir, name),
                4 => format!("{}/{}.txt", dir, stem),
                5 => format!("{}/{}.tmp", dir, name),
                _ => format!("{}/{}.{}", dir, stem, if name.ends_with(".lua") { "luau" } else { "lua" }),
            };
            if tree.iter().any(|(p, _)| *p == sibling) || dirs.contains(&sibling) {
                continue;
            }
            if has_lua_extension(&sibling) {
                tree.push((sibling.clone(), Ent::File(format!("return 'twin of {}'\n", stem).into_bytes())));
                faults.insert(sibling.clone(), Fault::Healthy);
                lua_keys.push(sibling);
            } else {
                tree.push((sibling.clone(), Ent::File(format!("scratch sibling of {}", name).into_bytes())));
                faults.insert(sibling, Fault::Syntax);
            }
        }
    }
    // non-lua files and empty directories
    for _ in 0..rng.below(3) {
        let key = format!("{}/{}", rng.pick(&dirs), rng.pick(&OTHER_NAMES));
        if !tree.iter().any(|(p, _)| *p == key) && !dirs.contains(&key) {
            // only ever a work item when given as the single input file: then it does not parse
            faults.insert(key.clone(), Fault::Syntax);
            tree.push((key, Ent::File(b"not lua {".to_vec())));
        }
    }
    if fs {
        for d in &dirs {
            if !tree.iter().any(|(p, _)| p.starts_with(&format!("{}/", d))) {
                tree.push((d.clone(), Ent::Dir));
            }
        }
    }
    // a file next to the input root that must never be touched
    tree.push(("outside.lua".to_owned(), Ent::File(b"return 'outside'".to_vec())));

    // input form
    let mut shape = String::new();
    let single_file = rng.chance(1, 6);
    let input = if single_file {
        shape.push_str("in=file");
        let any_file: Vec<&String> = tree.iter().filter(|(p, e)| matches!(e, Ent::File(_)) && p.starts_with(root)).map(|(p, _)| p).collect();
        (*rng.pick(&any_file)).clone()
    } else {
        match rng.below(8) {
            0 => { shape.push_str("in=./dir"); format!("./{}", root) }
            1 => { shape.push_str("in=dir/"); format!("{}/", root) }
            2 if dirs.len() > 1 => { shape.push_str("in=dir/sub/.."); format!("{}/..", dirs[1]) }
            3 if dirs.len() > 1 => { shape.push_str("in=subdir"); dirs[1].clone() }
            4 => { shape.push_str("in=missing"); "nowhere".to_owned() }
            _ => { shape.push_str("in=dir"); root.to_owned() }
        }
    };
    // output form
    let mut blocked = BTreeSet::new();
    let input_norm = lex_norm(&input);
    let output: Option<String> = match rng.below(if allow_finding_classes { 12 } else { 9 }) {
        0 | 1 => { shape.push_str(" out=absent"); None }
        2 => { shape.push_str(" out=new"); Some("out".to_owned()) }
        3 => { shape.push_str(" out=./new/deep"); Some("./out/deep".to_owned()) }
        4 => {
            // an existing directory, also one whose name looks like it has an extension
            let name = *rng.pick(&["dist", "dist.v2", "build.d", "dist"]);
            shape.push_str(if name.contains('.') { " out=existing-dir.dotted" } else { " out=existing-dir" });
            tree.push((format!("{}/keep.txt", name), Ent::File(b"keep".to_vec())));
            tree.push((format!("{}/sub/old.lua", name), Ent::File(b"return 'old'".to_vec())));
            preseed_output_directory(rng, &mut tree, &lua_keys, &input_norm, name);
            Some(name.to_owned())
        }
        5 => {
            shape.push_str(" out=existing-file");
            tree.push(("dist.lua".to_owned(), Ent::File(b"return 'previous'".to_vec())));
            Some("dist.lua".to_owned())
        }
        6 => { shape.push_str(" out=new.ext"); Some("out/result.lua".to_owned()) }
        7 => { shape.push_str(" out=same-as-input"); Some(input.clone()) }
        8 if fs && !single_file => {
            // unwritable destinations: a directory in the way / a file where a directory is needed
            shape.push_str(" out=blocked");
            for key in lua_keys.iter() {
                if let Some(rel) = is_under(key, &input_norm) {
                    if rel.is_empty() { continue; }
                    if rng.chance(1, 3) {
                        if rng.chance(1, 2) || !rel.contains('/') {
                            tree.push((format!("dist/{}/in-the-way.txt", rel), Ent::File(b"x".to_vec())));
                            blocked.insert(key.clone());
                        } else {
                            let top = rel.split('/').next().unwrap();
                            if !tree.iter().any(|(p, _)| *p == format!("dist/{}", top)) {
                                tree.push((format!("dist/{}", top), Ent::File(b"file in the way".to_vec())));
                            }
                        }
                    }
                }
            }
            // everything below a blocking file is blocked
            for key in lua_keys.iter() {
                if let Some(rel) = is_under(key, &input_norm) {
                    let top = rel.split('/').next().unwrap_or("");
                    if rel.contains('/') && tree.iter().any(|(p, e)| *p == format!("dist/{}", top) && matches!(e, Ent::File(_))) {
                        blocked.insert(key.clone());
                    }
                }
            }
            tree.push(("dist/keep.txt".to_owned(), Ent::File(b"keep".to_vec())));
            preseed_output_directory(rng, &mut tree, &lua_keys, &input_norm, "dist");
            Some("dist".to_owned())
        }
        8 => { shape.push_str(" out=new"); Some("out2".to_owned()) }
        9 => { shape.push_str(" out=inside-input"); Some(format!("{}/sub", input_norm)) }
        10 => { shape.push_str(" out=parent-of-input"); Some(input_norm.rsplit_once('/').map(|x| x.0.to_owned()).unwrap_or_default()) }
        _ => {
            shape.push_str(" in=dot");
            if rng.chance(1, 2) { Some("out".to_owned()) } else { None }
        }
    };
    let input = if shape.ends_with("in=dot") { ".".to_owned() } else { input };
    let fail_fast = rng.chance(1, 4);
    // drop the tree entries that a file-system tree cannot hold (a file below a file)
    let mut clean: Vec<(String, Ent)> = Vec::new();
    for (p, e) in tree {
        let conflict = clean.iter().any(|(q, qe)| {
            *q == p
                || (fs && matches!(qe, Ent::File(_)) && p.starts_with(&format!("{}/", q)))
                || (fs && matches!(e, Ent::File(_)) && q.starts_with(&format!("{}/", p)))
        });
        if !conflict {
            clean.push((p, e));
        }
    }
    faults.retain(|k, _| clean.iter().any(|(p, _)| p == k));
    blocked.retain(|k| clean.iter().any(|(p, _)| p == k));
    let case = Case { fs, tree: clean, input, output, fail_fast, config, chdir: None };
    Generated { case, faults, blocked, shape }
}

/// the `require_content` face: configuration 6 on an ordinary generated tree (directory input,
/// no destination that cannot be written) plus `wants-<name>` files beside healthy Lua files: each
/// is put on hold until `<name>` is done whenever it is visited first
fn generate_rule_face(rng: &mut Rng, fs: bool) -> Generated {
    loop {
        let mut g = generate(rng, fs, false);
        if g.shape.contains("in=file") || g.shape.contains("blocked") || (fs && g.shape.contains("existing-file")) {
            continue;
        }
        g.case.config = RULE_CONFIG;
        let healthy: Vec<String> = g
            .faults
            .iter()
            .filter(|(k, f)| matches!(f, Fault::Healthy | Fault::MissingRequire) && has_lua_extension(k))
            .map(|(k, _)| k.clone())
            .collect();
        let mut added = 0;
        for key in healthy {
            if added > 0 && !rng.chance(2, 3) {
                continue;
            }
            let (dir, name) = match key.rsplit_once('/') {
                Some(x) => x,
                None => continue,
            };
            let wants = format!("{}/wants-{}", dir, name);
            if g.case.tree.iter().any(|(p, _)| *p == wants || p.starts_with(&format!("{}/", wants))) {
                continue;
            }
            g.case.tree.push((wants.clone(), Ent::File(format!("return 'wants {}'\n", name).into_bytes())));
            g.faults.insert(wants, Fault::Healthy);
            added += 1;
        }
        if added == 0 {
            continue;
        }
        g.shape = format!("require_content face: {}", g.shape);
        return g;
    }
}

/// fail-fast × one failure of a given kind among `n` files (read: invalid UTF-8 source, parse:
/// syntax error, transform: rule error of the bundler, write: a directory sits at the destination);
/// the position of the faulty file in the visiting order is not controllable (HashMap / read_dir)
/// so names and the faulty index are drawn at random and the position is measured afterwards
fn generate_fail_fast(rng: &mut Rng, fs: bool, kind: &str) -> Generated {
    let n = 3 + rng.below(3);
    let mut names: Vec<&str> = LUA_NAMES.to_vec();
    rng.shuffle(&mut names);
    names.truncate(n);
    let bad_index = rng.below(n);
    let mut tree: Vec<(String, Ent)> = Vec::new();
    let mut faults = BTreeMap::new();
    let nested = rng.chance(1, 3);
    for (i, name) in names.iter().enumerate() {
        let key = if nested && i % 2 == 1 { format!("src/sub/{}", name) } else { format!("src/{}", name) };
        let (content, fault): (Vec<u8>, Fault) = if i == bad_index {
            match kind {
                "read" => (fault_content(Fault::BadUtf8, rng), Fault::BadUtf8),
                "parse" => (fault_content(Fault::Syntax, rng), Fault::Syntax),
                "transform" => (fault_content(Fault::MissingRequire, rng), Fault::MissingRequire),
                _ => (format!("return {}\n", i).into_bytes(), Fault::Healthy),
            }
        } else {
            (format!("local v = {}\nreturn v\n", i).into_bytes(), Fault::Healthy)
        };
        if kind == "write" && i == bad_index {
            let rel = key.strip_prefix("src/").unwrap();
            if rng.chance(1, 2) || !rel.contains('/') {
                tree.push((format!("dist/{}/in-the-way.txt", rel), Ent::File(b"x".to_vec())));
            } else {
                tree.push(("dist/sub".to_owned(), Ent::File(b"a file where a directory is needed".to_vec())));
            }
        }
        tree.push((key.clone(), Ent::File(content)));
        faults.insert(key, fault);
    }
    tree.push(("src/notes.txt".to_owned(), Ent::File(b"not lua {".to_vec())));
    tree.push(("outside.lua".to_owned(), Ent::File(b"return 'outside'".to_vec())));
    let (output, config) = match kind {
        "write" => { tree.push(("dist/keep.txt".to_owned(), Ent::File(b"keep".to_vec()))); (Some("dist".to_owned()), rng.below(2)) }
        "transform" => (Some("out".to_owned()), if rng.chance(1, 2) { 3 } else { 5 }),
        _ => (if rng.chance(1, 5) { None } else { Some("out".to_owned()) }, rng.below(2)),
    };
    // a file below a file cannot exist on a real tree: keep the first of two conflicting entries
    let mut clean: Vec<(String, Ent)> = Vec::new();
    for (p, e) in tree {
        let conflict = clean.iter().any(|(q, qe)| {
            *q == p
                || (matches!(qe, Ent::File(_)) && p.starts_with(&format!("{}/", q)))
                || (matches!(e, Ent::File(_)) && q.starts_with(&format!("{}/", p)))
        });
        if !conflict {
            clean.push((p, e));
        }
    }
    faults.retain(|k, _| clean.iter().any(|(p, _)| p == k));
    let case = Case { fs, tree: clean, input: "src".to_owned(), output, fail_fast: true, config, chdir: None };
    Generated { case, faults, blocked: BTreeSet::new(), shape: format!("fail-fast face: {}", kind) }
}

/// a file-system case run from inside the tree with relative paths (`darklua process . ../out`):
/// the generated case is re-expressed relative to its input root, which becomes the working
/// directory. Only ever executed in a child process.
fn generate_chdir(rng: &mut Rng) -> Generated {
    let mut g = generate(rng, true, false);
    let root = if g.case.tree.iter().any(|(p, _)| p.starts_with("proj/src")) { "proj/src" } else { "src" };
    let ups = "../".repeat(root.split('/').count());
    let rel = |p: &str| -> String {
        let n = p.trim_start_matches("./");
        if n == root || n == format!("{}/", root) {
            (*["."].first().unwrap()).to_owned()
        } else if let Some(r) = n.strip_prefix(&format!("{}/", root)) {
            r.to_owned()
        } else {
            format!("{}{}", ups, n)
        }
    };
    g.case.input = rel(&g.case.input);
    if g.case.input == "." && rng.chance(1, 3) {
        g.case.input = (*rng.pick(&["./", "./.", "sub/..", ""])).to_owned();
        if g.case.input.is_empty() || (g.case.input == "sub/.." && !g.case.tree.iter().any(|(p, _)| p.starts_with(&format!("{}/sub/", root)))) {
            g.case.input = ".".to_owned();
        }
    }
    g.case.output = g.case.output.as_ref().map(|o| rel(o));
    g.case.chdir = Some(root.to_owned());
    g.shape = format!("chdir {}", g.shape);
    g
}

// ---------------------------------------------------------------------------------------------
// one case: correspondence + oracle

#[derive(Default)]
struct Outcome {
    violations: Vec<Violation>,
    hists: Vec<(String, String)>,
    nontrivial_key: Option<u64>,
    sample: Option<Value>,
    finding_hits: Vec<(String, String)>, // (class, what)
    counters: Vec<(String, u64)>,
}

fn sorted_errors(errors: &[String]) -> BTreeSet<(String, String)> {
    errors.iter().map(|e| classify_error(e)).collect()
}

fn snapshot_digest(snap: &Snapshot, errors: &[String]) -> u64 {
    let mut e: Vec<&String> = errors.iter().collect();
    e.sort();
    hash_of(&(snap, e))
}

/// the oracle's expectation, from the property statement alone
struct Expectation {
    /// (source key, destination key); None = the statement does not fix it (single-file input)
    items: Vec<(String, String)>,
    in_place: bool,
    single_file: bool,
}

fn expectation(case: &Case) -> Expectation {
    let initial = initial_snapshot(case);
    let at = |p: &str| -> String {
        match &case.chdir {
            Some(d) if !p.starts_with('/') => lex_norm(&format!("{}/{}", d, p)),
            _ => lex_norm(p),
        }
    };
    let input = at(&case.input);
    let is_file = matches!(initial.get(&input), Some(Some(_)));
    let out = case.output.as_ref().map(|o| at(o));
    if is_file {
        let name = input.rsplit('/').next().unwrap().to_owned();
        let dest = match &out {
            None => input.clone(),
            Some(o) => {
                let o_is_dir = matches!(initial.get(o), Some(None))
                    || initial.keys().any(|k| k.starts_with(&format!("{}/", o)));
                let o_is_file = matches!(initial.get(o), Some(Some(_)));
                let has_ext = o.rsplit('/').next().map(|n| n.rfind('.').map(|i| i > 0).unwrap_or(false)).unwrap_or(false);
                if o_is_dir { join_rel(o, &name) } else if o_is_file || has_ext { o.clone() } else { join_rel(o, &name) }
            }
        };
        let in_place = dest == input;
        if out.is_none() && !has_lua_extension(&input) {
            // without an output the input is walked and filtered by extension like a directory
            return Expectation { items: Vec::new(), in_place, single_file: true };
        }
        return Expectation { items: vec![(input, dest)], in_place, single_file: true };
    }
    let mut items = Vec::new();
    for (p, e) in &initial {
        if e.is_some() && has_lua_extension(p) {
            if let Some(rel) = is_under(p, &input) {
                if rel.is_empty() { continue; }
                let dest = match &out {
                    None => p.clone(),
                    Some(o) => join_rel(o, &rel),
                };
                items.push((p.clone(), dest));
            }
        }
    }
    let in_place = out.is_none() || out.as_deref() == Some(input.as_str());
    Expectation { items, in_place, single_file: false }
}

fn violation(kind: &str, check: &str, what: String, case: &Case, found: bool) -> Violation {
    Violation { kind: kind.to_owned(), check: check.to_owned(), what, input: case_json(case), failing_input_found: found }
}

/// sources whose destination cannot be written on a real file system: the destination is an
/// existing directory, or a strict ancestor of it is a regular file
fn blocked_sources(case: &Case, exp: &Expectation, initial: &Snapshot) -> BTreeSet<String> {
    let mut blocked = BTreeSet::new();
    if !case.fs {
        return blocked;
    }
    for (src, dest) in &exp.items {
        let mut is_blocked = matches!(initial.get(dest), Some(None));
        let mut cur = dest.as_str();
        while let Some(i) = cur.rfind('/') {
            cur = &cur[..i];
            if matches!(initial.get(cur), Some(Some(_))) {
                is_blocked = true;
            }
        }
        if is_blocked {
            blocked.insert(src.clone());
        }
    }
    blocked
}

/// judge the property on the real behaviour; returns the list of broken clauses
fn oracle(case: &Case, gen_faults: &BTreeMap<String, Fault>, real: &RunResult, second: &RunResult) -> Vec<(String, String)> {
    let mut broken: Vec<(String, String)> = Vec::new();
    let initial = initial_snapshot(case);
    let exp = expectation(case);
    let blocked = &blocked_sources(case, &exp, &initial);
    if real.panicked {
        broken.push(("panic".into(), "process panicked".into()));
        return broken;
    }
    if let Some(err) = &real.process_error {
        if !exp.items.is_empty() {
            broken.push(("whole-run-error".into(), format!("process returned Err({}) although {} file(s) lie under the input", err, exp.items.len())));
        }
        if real.after != initial {
            broken.push(("whole-run-error-wrote".into(), "process returned Err but the tree changed".into()));
        }
        return broken;
    }
    let is_bad = |src: &str| -> bool {
        let f = gen_faults.get(src).copied().unwrap_or(Fault::Healthy);
        blocked.contains(src)
            || matches!(f, Fault::Syntax | Fault::BadUtf8)
            || (f == Fault::MissingRequire && config_fails_on_missing_require(case.config))
    };
    let bad: Vec<&(String, String)> = exp.items.iter().filter(|(s, _)| is_bad(s)).collect();
    let healthy: Vec<&(String, String)> = exp.items.iter().filter(|(s, _)| !is_bad(s)).collect();
    let dests: BTreeSet<&String> = exp.items.iter().map(|(_, d)| d).collect();
    let errors = sorted_errors(&real.errors);

    // every bad file is reported with its path, and nothing is written for it
    for (src, dest) in &bad {
        let want_src = if case.fs { format!("<B>/{}", src) } else { (*src).clone() };
        let want_dest = if case.fs { format!("<B>/{}", dest) } else { (*dest).clone() };
        let reported = errors.iter().any(|(_, p)| {
            *p == want_src || *p == want_dest || (blocked.contains(src.as_str()) && want_dest.starts_with(&format!("{}/", p)))
        });
        if !case.fail_fast && !reported {
            broken.push(("bad-not-reported".into(), format!("faulty file {} is not reported with its path; errors: {:?}", src, real.errors)));
        }
        if real.after.get(dest.as_str()) != initial.get(dest.as_str()) && !healthy.iter().any(|(_, d)| d == dest) {
            broken.push(("bad-wrote".into(), format!("something was written at {} for the faulty file {}", dest, src)));
        }
    }
    if !case.fail_fast && real.errors.len() != bad.len() {
        broken.push(("error-count".into(), format!("{} error(s) for {} faulty file(s): {:?}", real.errors.len(), bad.len(), real.errors)));
    }
    if case.fail_fast {
        // whatever fail-fast reports must be about a file that really is faulty
        for (kind, p) in errors.iter() {
            let about_bad = bad.iter().any(|(src, dest)| {
                let want_src = if case.fs { format!("<B>/{}", src) } else { (*src).clone() };
                let want_dest = if case.fs { format!("<B>/{}", dest) } else { (*dest).clone() };
                *p == want_src || *p == want_dest || (blocked.contains(src.as_str()) && want_dest.starts_with(&format!("{}/", p)))
            });
            if !about_bad {
                broken.push(("fail-fast-wrong-file".into(), format!("fail-fast reported ({}, {}) which is not one of the faulty files {:?}", kind, p, bad.iter().map(|(s, _)| s).collect::<Vec<_>>())));
            }
        }
    }
    if case.fail_fast && errors.len() > 1 {
        broken.push(("fail-fast-many".into(), format!("fail-fast reported {} errors", errors.len())));
    }
    if case.fail_fast && !bad.is_empty() && errors.is_empty() {
        broken.push(("fail-fast-none".into(), "fail-fast run with faulty files reported nothing".into()));
    }
    // exactly one output per healthy file at the mirrored path (all of them unless fail-fast stopped)
    if !case.fail_fast || bad.is_empty() {
        for (src, dest) in &healthy {
            match real.after.get(dest.as_str()) {
                Some(Some(_)) => {}
                other => broken.push(("missing-output".into(), format!("no output file at {} for {} (found {:?})", dest, src, other.map(|o| o.is_some())))),
            }
        }
    }
    // nothing else new or changed (directories above destinations may appear)
    for (p, v) in &real.after {
        if initial.get(p) == Some(v) {
            continue;
        }
        if dests.contains(p) {
            continue;
        }
        if v.is_none() && dests.iter().any(|d| d.starts_with(&format!("{}/", p))) && !initial.contains_key(p) {
            continue;
        }
        broken.push(("stray-write".into(), format!("{} is new or changed but is not a mirrored destination", p)));
    }
    for p in initial.keys() {
        if !real.after.contains_key(p) {
            broken.push(("deleted".into(), format!("{} disappeared", p)));
        }
    }
    // inputs are byte-identical when an output location is given (and is not the input itself)
    if !exp.in_place {
        for (src, _) in &exp.items {
            if real.after.get(src) != initial.get(src) {
                broken.push(("input-modified".into(), format!("input {} was modified although an output location is given", src)));
            }
        }
    }
    // repeated run / other insertion order: byte-identical (fail-fast runs with a fault are
    // order-dependent by design: see `fail_fast_spec`)
    if (!case.fail_fast || bad.is_empty()) && (real.after != second.after || sorted_errors(&real.errors) != sorted_errors(&second.errors)) {
        let diff: Vec<&String> = real.after.iter().filter(|(p, v)| second.after.get(*p) != Some(v)).map(|(p, _)| p).collect();
        broken.push(("nondeterministic".into(), format!("two runs (different creation/insertion order) differ at {:?}", diff)));
    }
    broken
}

/// healthy files must come out exactly as in a run where the bad files are absent
fn oracle_isolation(case: &Case, gen_faults: &BTreeMap<String, Fault>, real: &RunResult) -> Vec<(String, String)> {
    let mut broken = Vec::new();
    // with a configuration whose rules read other files (bundling, require conversion) a healthy
    // file may legitimately depend on a file that is "bad" only as a work item (e.g. its
    // destination is blocked): the deletion form of the statement is for per-file configurations
    if case.fail_fast || real.process_error.is_some() || real.panicked || config_reads_other_files(case.config) {
        return broken;
    }
    let exp = expectation(case);
    let blocked = &blocked_sources(case, &exp, &initial_snapshot(case));
    let is_bad = |src: &str| -> bool {
        let f = gen_faults.get(src).copied().unwrap_or(Fault::Healthy);
        blocked.contains(src)
            || matches!(f, Fault::Syntax | Fault::BadUtf8)
            || (f == Fault::MissingRequire && config_fails_on_missing_require(case.config))
    };
    let bad: BTreeSet<&String> = exp.items.iter().map(|(s, _)| s).filter(|s| is_bad(s)).collect();
    if bad.is_empty() {
        return broken;
    }
    let mut reduced = case.clone();
    reduced.tree.retain(|(p, _)| !bad.contains(p));
    if expectation(&reduced).single_file != exp.single_file {
        return broken;
    }
    let order: Vec<usize> = (0..reduced.tree.len()).collect();
    let clean = run_real(&reduced, &order);
    for (src, dest) in exp.items.iter().filter(|(s, _)| !bad.contains(s)) {
        if clean.after.get(dest) != real.after.get(dest) {
            broken.push(("not-isolated".into(), format!("output {} of healthy {} differs from the run without the faulty files", dest, src)));
        }
    }
    broken
}

fn run_case(model: &mut Model, g: &Generated, rng: &mut Rng, listed: &BTreeSet<String>) -> Outcome {
    let case = &g.case;
    let mut out = Outcome::default();
    let n = case.tree.len();
    let order1: Vec<usize> = (0..n).collect();
    let mut order2 = order1.clone();
    rng.shuffle(&mut order2);

    let real = run_real(case, &order1);
    let second = run_real(case, &order2);

    // ---- region and T
    let base = "/dlv-c11-root"; // the model sees file-system trees under a fixed absolute root
    let cwd = case.chdir.as_ref().map(|d| format!("{}/{}", base, d)).unwrap_or_else(|| "/".to_owned());
    let cwd = cwd.as_str();
    let region = ask_region(model, case, base, cwd);
    let mut tm = TMeasure::new(case);
    let mut table = Vec::new();
    for (p, e) in &case.tree {
        if let Ent::File(content) = e {
            table.push((p.clone(), content.clone(), tm.measure(p, case.config)));
        }
    }
    drop(tm);

    // ---- correspondence
    let first = ask_batch_model(model, case, base, cwd, &table, None);
    let mut perm: Option<Vec<usize>> = None;
    if first.collect_error.is_none() {
        let wl = &first.work;
        let k = wl.len();
        if case.fail_fast && k > 0 {
            // the visiting order is not observable: written items first, then the failing one
            let initial = initial_snapshot(case);
            let real_err_paths: Vec<String> = real.errors.iter().map(|e| classify_error(e).1).collect();
            let strip = |s: &str| -> String {
                match (&case.chdir, s.starts_with('/')) {
                    (Some(d), false) => lex_norm(&format!("{}/{}", d, s)),
                    _ if case.fs => lex_norm(s.strip_prefix(base).unwrap_or(s).trim_start_matches('/')),
                    _ => lex_norm(s),
                }
            };
            let mut written = Vec::new();
            let mut failing = Vec::new();
            let mut rest = Vec::new();
            for (i, (src, dest)) in wl.iter().enumerate() {
                let (s, d) = (strip(src), strip(dest));
                let s_shown = if case.fs { format!("<B>/{}", s) } else { s.clone() };
                let d_shown = if case.fs { format!("<B>/{}", d) } else { d.clone() };
                let d_parent = d_shown.rsplit_once('/').map(|x| x.0.to_owned()).unwrap_or_default();
                // an error naming the source comes from reading/transforming it; an error naming the
                // destination (or its parent) comes from the final write, i.e. from an item whose
                // transformation succeeded
                let t_ok = table.iter().any(|(p, _, r)| *p == s && r.is_ok());
                let by_source = real_err_paths.iter().any(|p| *p == s_shown) && !t_ok;
                let by_dest = real_err_paths.iter().any(|p| *p == d_shown || *p == d_parent) && t_ok;
                if by_source || by_dest {
                    failing.push(i);
                } else if real.after.get(&d) != initial.get(&d) {
                    written.push(i);
                } else {
                    rest.push(i);
                }
            }
            let mut p = written;
            p.extend(failing);
            p.extend(rest);
            perm = Some(p);
        } else if k > 1 {
            let mut p: Vec<usize> = (0..k).collect();
            rng.shuffle(&mut p);
            perm = Some(p);
        }
    }
    let answer = if perm.is_some() { ask_batch_model(model, case, base, cwd, &table, perm.as_deref()) } else { first };

    let mut mismatch: Option<String> = None;
    match (&answer.collect_error, &real.process_error) {
        (Some(kind), Some(msg)) => {
            let real_kind = if msg.contains("unable to remove path prefix") { "strip-prefix" } else if msg.contains("unable to extract file name") { "no-file-name" } else { "other" };
            if kind != real_kind {
                mismatch = Some(format!("model collect error {} vs real `{}`", kind, msg));
            }
        }
        (Some(kind), None) => mismatch = Some(format!("model predicts collect error {} but process returned Ok", kind)),
        (None, Some(msg)) => mismatch = Some(format!("process returned Err(`{}`) but the model collects work", msg)),
        (None, None) => {
            if real.panicked {
                mismatch = Some("process panicked".to_owned());
            } else if answer.tmiss > 0 && region.overlap && listed.contains("C11-F2") {
                // inside the overlap class an output can become another item's source; `T` was
                // only measured on the initial contents
                out.counters.push(("explored_overlap_runs_needing_unmeasured_T".into(), 1));
            } else if answer.tmiss > 0 {
                mismatch = Some(format!("the model asked T for {} unmeasured (path, content) pair(s)", answer.tmiss));
            } else {
                // full tree comparison
                for (p, v) in &real.after {
                    let model_v = answer.store.get(p);
                    let same = match (model_v, v) {
                        (Some(Some(Some(mb))), Some(rb)) => mb == rb,
                        (Some(Some(None)), None) => true,
                        _ => false,
                    };
                    if !same {
                        mismatch = Some(format!("after the run `{}` is {} in the real tree but {} in the model", p,
                            if v.is_some() { "a file" } else { "a directory" },
                            match model_v { None => "unknown (never a candidate)".to_owned(), Some(None) => "absent".to_owned(), Some(Some(None)) => "a directory".to_owned(), Some(Some(Some(_))) => "a file with other content".to_owned() }));
                        break;
                    }
                }
                if mismatch.is_none() {
                    for (p, v) in &answer.store {
                        if v.is_some() && !real.after.contains_key(p) && !(case.fs == false && matches!(v, Some(None))) {
                            mismatch = Some(format!("the model has `{}` after the run, the real tree does not", p));
                            break;
                        }
                    }
                }
                if mismatch.is_none() {
                    let real_errors = sorted_errors(&real.errors);
                    if real_errors != answer.errors {
                        mismatch = Some(format!("error sets differ: real {:?} vs model {:?}", real_errors, answer.errors));
                    }
                }
            }
        }
    }

    // ---- oracle
    let mut broken = oracle(case, &g.faults, &real, &second);
    broken.extend(oracle_isolation(case, &g.faults, &real));
    if case.config == RULE_CONFIG && real.process_error.is_none() && !real.panicked {
        // every output equals the rule applied to its input: `return true`, whichever item was
        // put on hold for another one's content
        let exp = expectation(case);
        let initial = initial_snapshot(case);
        for (src, dest) in &exp.items {
            let healthy = matches!(g.faults.get(src), Some(Fault::Healthy) | Some(Fault::MissingRequire) | None);
            let present = real.after.get(dest);
            let written = present != initial.get(dest) || exp.in_place;
            if healthy && (!case.fail_fast || written) {
                if let Some(Some(bytes)) = present {
                    if bytes.as_slice() != RULE_OUTPUT && !(case.fail_fast && present == initial.get(dest)) {
                        broken.push(("rule-not-applied".into(), format!("the output {} of {} is `{}`, not the rule applied to its input (`return true`)", dest, src, String::from_utf8_lossy(bytes))));
                    }
                }
            }
        }
    }
    if case.fail_fast && real.process_error.is_none() && !real.panicked {
        // what a fail-fast run did write must be what the ordinary run writes, and it must have
        // stopped: the position of the stopping file is read off the number of outputs written
        let mut plain = case.clone();
        plain.fail_fast = false;
        let ordinary = run_real(&plain, &order1);
        let exp = expectation(case);
        let initial = initial_snapshot(case);
        let mut written = 0usize;
        for (src, dest) in &exp.items {
            if real.after.get(dest) != initial.get(dest) {
                written += 1;
                if real.after.get(dest) != ordinary.after.get(dest) {
                    broken.push(("fail-fast-content".into(), format!("fail-fast wrote {} for {} differently from the run without fail-fast", dest, src)));
                }
            }
        }
        if real.errors.len() == 1 && !exp.in_place && exp.items.len() >= 3 {
            let (kind, _) = classify_error(&real.errors[0]);
            let kind = match kind.as_str() {
                "io" if g.faults.values().any(|f| *f == Fault::BadUtf8) => "read",
                "io" => "write",
                "parse" => "parse",
                "rule" => "transform",
                other => other,
            }
            .to_owned();
            let position = if written == 0 { "first" } else if written + 1 == exp.items.len() { "last" } else { "middle" };
            out.hists.push(("fail-fast kind×position of the stopping file".into(), format!("{} {} {}", kind, position, if case.fs { "fs" } else { "mem" })));
        }
    }
    // runs that read other work items' files (bundling / require resolution) in place are outside
    // the statement's per-file model (DESIGN: "for non-bundling configurations")
    let reads_others_in_place = config_reads_other_files(case.config) && expectation(case).in_place;

    let class = if region.overlap { Some("C11-F2") } else if region.dot { Some("dot") } else { None };
    out.hists.push(("shape".into(), format!("{} {}", if case.fs { "fs" } else { "mem" }, g.shape)));
    out.hists.push(("region".into(), format!("h={} indep={} class={}", region.h, region.indep, class.unwrap_or("-"))));
    out.hists.push(("faults".into(), format!("{}", real.errors.len().min(6))));
    out.hists.push(("config".into(), format!("{}{}", case.config, if case.fail_fast { " fail-fast" } else { "" })));
    out.hists.push(("errors-reported".into(), format!("{}", real.errors.len().min(4))));

    if !broken.is_empty() {
        let what = broken.iter().map(|(c, w)| format!("[{}] {}", c, w)).collect::<Vec<_>>().join("; ");
        match class {
            Some(id) if listed.contains(id) => out.finding_hits.push((id.to_owned(), what)),
            _ if reads_others_in_place && !region.h => out.counters.push(("explored_in_place_reading_config_oracle_diffs".into(), 1)),
            _ => out.violations.push(violation("oracle", &broken[0].0, what, case, true)),
        }
    }
    if let Some(what) = mismatch {
        // a correspondence break: is the property itself broken on this input?
        let found = !broken.is_empty();
        if !(found && class.map(|id| listed.contains(id)).unwrap_or(false)) {
            out.violations.push(violation("correspondence", "batch", format!("{} | model: {}", what, truncate(&answer.raw, 300)), case, false));
        } else {
            out.counters.push(("correspondence_diff_inside_known_finding_class".into(), 1));
        }
    }
    if region.indep && !case.fail_fast {
        out.counters.push(("cases_inside_proved_region".into(), 1));
    }
    let nontrivial = real.process_error.is_none() && answer.work.len() >= 2;
    if nontrivial {
        out.nontrivial_key = Some(hash_of(case));
    }
    out.sample = Some(json!({"shape": g.shape, "fs": case.fs, "input": case.input, "output": case.output, "fail_fast": case.fail_fast,
        "config": case.config, "files": case.tree.len(), "work": answer.work.len(), "errors": real.errors.len(), "h": region.h, "indep": region.indep}));
    out
}

fn truncate(s: &str, n: usize) -> String {
    if s.len() <= n { s.to_owned() } else { format!("{}…", s.chars().take(n).collect::<String>()) }
}

// ---------------------------------------------------------------------------------------------
// child process: determinism across processes (another HashMap RandomState), chdir witnesses

fn child_digests(cases: &[Case], order: Option<&[usize]>) -> Vec<Value> {
    cases
        .iter()
        .map(|case| {
            let default_order: Vec<usize> = (0..case.tree.len()).collect();
            let order = match order {
                Some(o) if o.len() == case.tree.len() => o.to_vec(),
                _ => default_order,
            };
            let r = run_real(case, &order);
            let mut v = json!({
                "digest": format!("{:016x}", snapshot_digest(&r.after, &r.errors)),
                "process_error": r.process_error,
                "errors": r.errors,
                "changed": r.after != initial_snapshot(case),
                "panicked": r.panicked,
            });
            if case.chdir.is_some() {
                let after: serde_json::Map<String, Value> = r.after.iter().map(|(k, c)| (k.clone(), match c { Some(b) => Value::String(hex(b)), None => Value::Null })).collect();
                v["after"] = Value::Object(after);
            }
            v
        })
        .collect()
}

fn run_in_child(cases: &[Case]) -> Option<Vec<Value>> {
    run_in_child_with(cases, None)
}

fn run_in_child_with(cases: &[Case], order: Option<&[usize]>) -> Option<Vec<Value>> {
    let exe = std::env::current_exe().ok()?;
    let n = UNIQUE.fetch_add(1, std::sync::atomic::Ordering::SeqCst);
    let req = std::env::temp_dir().join(format!("dlv-c11-child-{}-{}.json", std::process::id(), n));
    let out = std::env::temp_dir().join(format!("dlv-c11-child-{}-{}.out.json", std::process::id(), n));
    std::fs::write(&req, serde_json::to_string(&json!({"c11_child": true, "order": order, "cases": cases.iter().map(case_json).collect::<Vec<_>>()})).ok()?).ok()?;
    let status = std::process::Command::new(exe)
        .args(["C11", "--replay", req.to_str()?, "--out", out.to_str()?])
        .status()
        .ok()?;
    let text = std::fs::read_to_string(&out).ok();
    let _ = std::fs::remove_file(&req);
    let _ = std::fs::remove_file(&out);
    if !status.success() {
        return None;
    }
    let v: Value = serde_json::from_str(&text?).ok()?;
    v["samples"].as_array().cloned()
}

// ---------------------------------------------------------------------------------------------
// known findings

fn replay_known_findings(report: &mut Report, model: &mut Model) -> BTreeSet<String> {
    let mut listed = BTreeSet::new();
    for f in known_findings("C11") {
        let id = f["id"].as_str().unwrap_or("?").to_owned();
        if f["status"] != "known" {
            // a fixed finding excuses nothing: its witness lives in corpus/C11 and must pass
            continue;
        }
        listed.insert(id.clone());
        let case = match case_from_json(&f["witness"]) {
            Some(c) => c,
            None => {
                report.notes.push(format!("known finding {} has no replayable witness", id));
                continue;
            }
        };
        let still = if case.chdir.is_some() {
            // needs its own working directory: run in a child process
            match run_in_child(std::slice::from_ref(&case)) {
                Some(rs) if rs.len() == 1 => {
                    let expected = f["expected_wrong"].as_str().unwrap_or("");
                    let pe = rs[0]["process_error"].as_str().unwrap_or("");
                    if !pe.is_empty() && expected.contains("unable to remove path prefix") && pe.contains("unable to remove path prefix") {
                        Some(format!("`{}`", pe))
                    } else {
                        None
                    }
                }
                _ => None,
            }
        } else {
            let order: Vec<usize> = (0..case.tree.len()).collect();
            let mut order2 = order.clone();
            order2.reverse();
            let mut found = None;
            // order-dependent witnesses may need several attempts (HashMap order is random)
            for _ in 0..40 {
                let real = run_real(&case, &order);
                let second = run_real(&case, &order2);
                let broken = oracle(&case, &BTreeMap::new(), &real, &second);
                if !broken.is_empty() {
                    found = Some(broken.iter().map(|(c, _)| c.clone()).collect::<BTreeSet<_>>().into_iter().collect::<Vec<_>>().join(","));
                    break;
                }
            }
            found
        };
        if let Some(what) = still {
            let region = ask_region(model, &case, "/dlv-c11-root", &case.chdir.as_ref().map(|d| format!("/dlv-c11-root/{}", d)).unwrap_or_else(|| "/".to_owned()));
            // the model reproduces the defect too (it mirrors the code, bugs included)
            let cwd = case.chdir.as_ref().map(|d| format!("/dlv-c11-root/{}", d)).unwrap_or_else(|| "/".to_owned());
            let m = ask_batch_model(model, &case, "/dlv-c11-root", &cwd, &[], None);
            if case.chdir.is_some() && f["expected_wrong"].as_str().unwrap_or("").contains("unable to remove path prefix") && m.collect_error.as_deref() != Some("strip-prefix") {
                report.violation(Violation {
                    kind: "correspondence".into(), check: "known-finding-model".into(),
                    what: format!("the model does not reproduce {}: {}", id, truncate(&m.raw, 200)), input: case_json(&case), failing_input_found: false });
            }
            if region.h {
                report.violation(Violation {
                    kind: "finding-changed".into(), check: "known-finding-inside-H".into(),
                    what: format!("witness of {} lies inside H11", id), input: case_json(&case), failing_input_found: true });
            }
            report.known_finding(&id, &format!("{} still reproduces: {} ({})", f["site"].as_str().unwrap_or(""), what, f["expected_wrong"].as_str().unwrap_or("")));
        }
    }
    listed
}

// ---------------------------------------------------------------------------------------------
// reserved globals of remove_call_match (remove_assertions)

fn reserved_globals_check(report: &mut Report, model: &mut Model) {
    // `select` shadowed or not × number of multi-argument asserts: the drained map is visible as
    // the `local __DARKLUA_REMOVE_CALL_RESERVED_n = select` statement the rule prepends
    for shadowed in [false, true] {
        for calls in 0..4usize {
            for nested in [false, true] {
                let mut code = String::new();
                if shadowed {
                    code.push_str("local select, type, assert_ = 1, 2, 3\n");
                }
                for i in 0..calls {
                    if nested {
                        code.push_str(&format!("do local v{} = assert(a{}, 'm', select) end\n", i, i));
                    } else {
                        code.push_str(&format!("local v{} = assert(a{}, 'm')\n", i, i));
                    }
                }
                code.push_str("return 1\n");
                let resources = Resources::from_memory();
                resources.write("m.lua", &code).unwrap();
                let config: Configuration = json5::from_str("{ generator: 'dense', rules: ['remove_assertions'] }").unwrap();
                let mut outputs = BTreeSet::new();
                for _ in 0..3 {
                    let (pe, errs, panicked) = run_process(&resources, Options::new("m.lua").with_output("o.lua").with_configuration(config.clone_via_json()));
                    if pe.is_some() || !errs.is_empty() || panicked {
                        report.violation(Violation { kind: "correspondence".into(), check: "reserved-run".into(), what: format!("remove_assertions failed: {:?} {:?}", pe, errs), input: json!({"code": code}), failing_input_found: false });
                    }
                    outputs.insert(resources.get("o.lua").unwrap_or_default());
                }
                let output = outputs.iter().next().cloned().unwrap_or_default();
                let real_entries = output.matches("__DARKLUA_REMOVE_CALL_RESERVED_").map(|_| ()).count();
                let declared: BTreeSet<&str> = output.split(|c: char| !(c.is_alphanumeric() || c == '_')).filter(|w| w.starts_with("__DARKLUA_REMOVE_CALL_RESERVED_")).collect();
                let bits: String = (0..calls).map(|_| if shadowed { '1' } else { '0' }).collect();
                let answer = model.ask(&format!("c11.reserved assert {}", bits));
                let model_entries = answer.matches("(x").count();
                report.case(Some(("reserved", shadowed, calls, nested)));
                report.hist("reserved-entries", &format!("{}", declared.len()));
                if outputs.len() != 1 {
                    report.violation(Violation { kind: "oracle".into(), check: "reserved-deterministic".into(), what: "remove_assertions output differs between runs".into(), input: json!({"code": code}), failing_input_found: true });
                }
                if declared.len() > 1 {
                    report.violation(Violation { kind: "oracle".into(), check: "reserved-le-one".into(), what: format!("{} reserved globals declared: order of HashMap::drain reaches the output", declared.len()), input: json!({"code": code}), failing_input_found: true });
                }
                if declared.len() != model_entries || (real_entries == 0) != (model_entries == 0) {
                    report.violation(Violation { kind: "correspondence".into(), check: "reserved".into(), what: format!("model drains {} entries, the generated code declares {}: {}", model_entries, declared.len(), output), input: json!({"code": code}), failing_input_found: false });
                }
            }
        }
    }
    report.exhaustive.insert("reserved globals: select shadowed × 0..3 matching calls × nesting".into(), true);
}

trait CloneViaJson {
    fn clone_via_json(&self) -> Configuration;
}
impl CloneViaJson for Configuration {
    fn clone_via_json(&self) -> Configuration {
        let text = serde_json::to_string(self).expect("configuration serialises");
        json5::from_str(&text).expect("configuration round-trips")
    }
}

// ---------------------------------------------------------------------------------------------
// path primitives: model vs std (the trusted part of the model is checked too)

fn path_primitives_check(report: &mut Report, model: &mut Model, rng: &mut Rng) {
    let pieces = ["a", "b.lua", ".", "..", "", "c d", ".x", "x.", "e.luau", "\u{e9}"];
    let mut lines = Vec::new();
    let mut inputs = Vec::new();
    for _ in 0..400 {
        let n = 1 + rng.below(5);
        let mut s = String::new();
        if rng.chance(1, 4) {
            s.push('/');
        }
        for i in 0..n {
            if i > 0 {
                s.push('/');
            }
            s.push_str(*rng.pick(&pieces[..]));
        }
        lines.push(format!("c11.ext {}", path_hex(&s)));
        inputs.push(s);
    }
    let answers = model.ask_batch(&lines);
    for (s, a) in inputs.iter().zip(answers) {
        let real = Path::new(s).extension().map(|e| e.to_string_lossy().into_owned());
        let model_ext = a.strip_prefix("some ").and_then(unhex_str);
        report.case(None::<u64>);
        if real != model_ext {
            report.violation(Violation { kind: "correspondence".into(), check: "extension".into(), what: format!("Path::extension({:?}) = {:?}, model {:?}", s, real, a), input: json!({"path": s}), failing_input_found: false });
        }
    }
}

// ---------------------------------------------------------------------------------------------

pub fn run(report: &mut Report, replay: Option<&str>) {
    // ---- child mode / replay
    if let Some(path) = replay {
        let text = std::fs::read_to_string(path).unwrap_or_default();
        let v: Value = serde_json::from_str(&text).unwrap_or(Value::Null);
        if v["c11_child"] == true {
            let cases: Vec<Case> = v["cases"].as_array().map(|a| a.iter().filter_map(case_from_json).collect()).unwrap_or_default();
            report.max_samples = usize::MAX;
            IN_CHILD.store(true, std::sync::atomic::Ordering::SeqCst);
            let order: Option<Vec<usize>> = v["order"].as_array().map(|a| a.iter().filter_map(|x| x.as_u64().map(|n| n as usize)).collect());
            for d in child_digests(&cases, order.as_deref()) {
                report.sample(d);
            }
            return;
        }
        if let Some(case) = case_from_json(&v["input"]).or_else(|| case_from_json(&v)) {
            let mut model = Model::spawn();
            let listed: BTreeSet<String> = known_findings("C11").iter().filter(|f| f["status"] == "known").filter_map(|f| f["id"].as_str().map(str::to_owned)).collect();
            let g = Generated { case, faults: BTreeMap::new(), blocked: BTreeSet::new(), shape: "replay".into() };
            let mut rng = Rng::new(report.seed);
            let o = run_case(&mut model, &g, &mut rng, &listed);
            for v in o.violations {
                report.violation(v);
            }
            report.case(o.nontrivial_key);
            return;
        }
        report.notes.push("replay file not understood".into());
        return;
    }

    report.rule = "random directory trees (nesting, non-Lua files, names with spaces/dots/unicode, a directory named x.lua) × input as file/dir/./dir/dir/ /dir/sub/.. /missing × output absent/new/existing dir/existing file/with extension/same as input/blocked destinations (+ the finding classes: output inside input, input inside output, input `.`) × fault subsets (syntax, invalid UTF-8, missing require under convert_require/bundle, directory or file in the way) × fail-fast (random, plus a directed face: one failure of each kind read/parse/transform/write among 3–5 files, position of the stopping file measured) × non-Lua siblings sharing a Lua file's stem (`a.tmp`, `a.bak`, `a.lua~`, `a.txt`, `a.lua.tmp`, a `.luau` twin) in input trees and pre-seeded beside the destinations of existing output directories × 7 configurations (one is a user-defined rule registered through Configuration::with_rule whose require_content names another work item `wants-<name>` → `<name>` and whose process rewrites the block to `return true`: every output must be exactly that; two of them resolve `@dep` through nested `.luaurc` files: convert_require to roblox and bundling), on memory resources and on a real temporary directory; non-trivial = process succeeded as a whole and the work list has ≥ 2 items".to_owned();

    let mut model = Model::spawn();
    let listed = replay_known_findings(report, &mut model);
    reserved_globals_check(report, &mut model);
    let mut rng = Rng::new(hash_of(&("C11", report.seed)));
    path_primitives_check(report, &mut model, &mut rng);
    drop(model);

    // ---- corpus: finding witnesses and fixed layouts, replayed first
    {
        let dir = concat!(env!("CARGO_MANIFEST_DIR"), "/../corpus/C11");
        let mut files: Vec<_> = std::fs::read_dir(dir).map(|d| d.flatten().map(|e| e.path()).collect()).unwrap_or_default();
        files.sort();
        let mut model = Model::spawn();
        for f in files {
            let v: Value = serde_json::from_str(&std::fs::read_to_string(&f).unwrap_or_default()).unwrap_or(Value::Null);
            if let Some(case) = case_from_json(&v) {
                let g = Generated { case, faults: BTreeMap::new(), blocked: BTreeSet::new(), shape: "corpus".into() };
                let o = run_case(&mut model, &g, &mut rng, &listed);
                report.case(o.nontrivial_key);
                report.count("corpus_cases", 1);
                for v in o.violations {
                    report.violation(v);
                }
            }
        }
    }
    let thorough = report.is_thorough();
    let threads = 12usize;
    let (mem_cases, fs_cases) = if thorough { (48_000usize, 12_000usize) } else { (12_000usize, 3_600usize) };
    let mut handles = Vec::new();
    for t in 0..threads {
        let mut trng = Rng(rng.next_u64());
        let listed = listed.clone();
        let (m, f) = (mem_cases / threads, fs_cases / threads);
        handles.push(std::thread::spawn(move || {
            let mut model = Model::spawn();
            let mut outcomes = Vec::new();
            let mut cross = Vec::new();
            for i in 0..(m + f) {
                let fs = i >= m;
                let allow_classes = trng.chance(1, 5);
                let g = generate(&mut trng, fs, allow_classes);
                let o = run_case(&mut model, &g, &mut trng, &listed);
                if i % 9 == t % 9 && !g.case.fail_fast {
                    cross.push(g.case.clone());
                }
                outcomes.push(o);
            }
            (outcomes, cross)
        }));
    }
    let mut cross_cases = Vec::new();
    for h in handles {
        let (outcomes, cross) = h.join().expect("worker thread panicked");
        cross_cases.extend(cross);
        for o in outcomes {
            report.case(o.nontrivial_key);
            for (n, b) in o.hists {
                report.hist(&n, &b);
            }
            for (n, c) in o.counters {
                report.count(&n, c);
            }
            for (id, what) in o.finding_hits {
                report.count(&format!("oracle_failures_attributed_to_{}", id), 1);
                if report.counters.get(&format!("oracle_failures_attributed_to_{}", id)) == Some(&1) {
                    report.notes.push(format!("first generated case attributed to {}: {}", id, truncate(&what, 240)));
                }
            }
            if let Some(s) = o.sample {
                report.sample(s);
            }
            for v in o.violations {
                report.violation(v);
            }
        }
    }

    // ---- a user-defined rule whose `require_content` names another work item of the batch
    {
        let mut model = Model::spawn();
        let (mem_n, fs_n) = if thorough { (400, 160) } else { (110, 50) };
        for i in 0..(mem_n + fs_n) {
            let g = generate_rule_face(&mut rng, i >= mem_n);
            let o = run_case(&mut model, &g, &mut rng, &listed);
            report.case(o.nontrivial_key);
            report.count("require_content_face_cases", 1);
            for (n, b) in o.hists {
                report.hist(&n, &b);
            }
            for (n, c) in o.counters {
                report.count(&n, c);
            }
            for (id, _) in o.finding_hits {
                report.count(&format!("oracle_failures_attributed_to_{}", id), 1);
            }
            for v in o.violations {
                report.violation(v);
            }
        }
    }

    // ---- fail-fast × failure kind × position of the stopping file
    {
        let mut model = Model::spawn();
        let repeats = if thorough { 60 } else { 20 };
        for (fs, kind) in [(true, "read"), (false, "parse"), (true, "parse"), (false, "transform"), (true, "transform"), (true, "write")] {
            for _ in 0..repeats {
                let g = generate_fail_fast(&mut rng, fs, kind);
                let o = run_case(&mut model, &g, &mut rng, &listed);
                report.case(o.nontrivial_key);
                report.count("fail_fast_face_cases", 1);
                for (n, b) in o.hists {
                    report.hist(&n, &b);
                }
                for (n, c) in o.counters {
                    report.count(&n, c);
                }
                for v in o.violations {
                    report.violation(v);
                }
            }
        }
        let seen = report.histograms.get("fail-fast kind×position of the stopping file").cloned().unwrap_or_default();
        let mut missing = Vec::new();
        for kind in ["read", "parse", "transform", "write"] {
            for position in ["first", "middle", "last"] {
                if !seen.keys().any(|k| k.starts_with(&format!("{} {} ", kind, position))) {
                    missing.push(format!("{} {}", kind, position));
                }
            }
        }
        report.exhaustive.insert("fail-fast: failure kind (read, parse, transform, write) × position of the stopping file (first, middle, last) all observed".into(), missing.is_empty());
        if !missing.is_empty() {
            report.notes.push(format!("fail-fast cells not observed in this run (the visiting order is not controllable): {:?}", missing));
        }
    }

    // ---- runs from inside the tree with relative paths (each real run in a child process)
    {
        let mut model = Model::spawn();
        let n = if thorough { 240 } else { 48 };
        for _ in 0..n {
            let g = generate_chdir(&mut rng);
            let o = run_case(&mut model, &g, &mut rng, &listed);
            report.case(o.nontrivial_key);
            report.count("chdir_cases", 1);
            for (n, b) in o.hists {
                report.hist(&n, &b);
            }
            for (n, c) in o.counters {
                report.count(&n, c);
            }
            for (id, _) in o.finding_hits {
                report.count(&format!("oracle_failures_attributed_to_{}", id), 1);
            }
            for v in o.violations {
                report.violation(v);
            }
        }
    }

    // ---- two processes: another RandomState for every HashMap
    let mut model = Model::spawn();
    let mine = child_digests(&cross_cases, None);
    match run_in_child(&cross_cases) {
        Some(theirs) if theirs.len() == mine.len() => {
            for ((case, a), b) in cross_cases.iter().zip(&mine).zip(&theirs) {
                report.count("cross_process_cases", 1);
                if a["digest"] != b["digest"] {
                    let region = ask_region(&mut model, case, "/dlv-c11-root", "/");
                    let class = if region.overlap { "C11-F2" } else if region.dot { "dot" } else { "-" };
                    let in_place_reader = config_reads_other_files(case.config) && expectation(case).in_place;
                    if listed.contains(class) {
                        report.count(&format!("cross_process_differences_attributed_to_{}", class), 1);
                    } else if in_place_reader && !region.h {
                        report.count("explored_in_place_reading_config_oracle_diffs", 1);
                    } else {
                        report.violation(violation("oracle", "cross-process", format!("two processes give different trees/errors: {} vs {}", a, b), case, true));
                    }
                }
            }
        }
        _ => report.notes.push("the child process run failed; cross-process determinism not checked".into()),
    }
    report.notes.push("real-file-system-only behaviour (permissions: the harness runs as root so read-only files are writable; symlinks; non-UTF-8 file names) is explored only, not modelled".into());
}
