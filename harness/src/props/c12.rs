//! Property C12 "No input or configuration crashes darklua".
//!
//! Two parts, reported separately in the evidence:
//!  * correspondence (ties the Lean theorems to the code): `Token::read` / `Trivia::read`, the
//!    token operations and the two token rules, real code vs the Lean model (`c12.*` ops);
//!  * exploration (NOT a proof): crash/hang freedom of `Parser::parse` and `darklua_core::process`
//!    over generated inputs × rule sequences × generators × column spans, every call under
//!    `catch_unwind` and a wall-clock watchdog; nesting bounded by a depth measured in child
//!    processes of this binary (a native stack overflow cannot be caught).
mod luagen;
mod pool;
mod tokens;

use crate::model::{hex, Model};
use crate::report::{hash_of, known_findings, Report, Violation};
use crate::rng::Rng;
use darklua_core::generator::{LuaGenerator, TokenBasedLuaGenerator};
use darklua_core::nodes::{Block, Token};
use darklua_core::verif_hooks as hooks;
use darklua_core::{Configuration, Options, Parser, Resources};
use pool::{guarded, Done, PanicInfo, HANG_SECS, STACK_BYTES};
use serde_json::{json, Value};
use std::collections::BTreeMap;
use std::time::{Duration, Instant};
use tokens::{debug_structure, describe, tokens_of_debug, Pos, Tok, Triv, METHOD_TYPES_MARKER};

/// a nesting depth counts as safe only if the whole pipeline finishes within this time
const PROBE_SECS: u64 = 5;
const ENTRY: &str = "src/main.lua";
const OUTPUT: &str = "out/main.lua";

// =============================================================================================
// cases
// =============================================================================================

#[derive(Clone, Debug)]
struct Case {
    class: String,
    text: String,
    /// extra resources (required modules, other batch members)
    files: Vec<(String, String)>,
    /// configurations (json5 text) to run when the text parses; empty = parse only
    configs: Vec<String>,
}

impl Case {
    fn input(&self, config: Option<&str>) -> Value {
        json!({
            "kind": "case",
            "class": self.class,
            "text": self.text,
            "files": self.files.iter().map(|(p, c)| json!([p, c])).collect::<Vec<_>>(),
            "config": config,
        })
    }
    fn from_input(v: &Value) -> Option<Case> {
        Some(Case {
            class: v["class"].as_str().unwrap_or("replay").to_owned(),
            text: v["text"].as_str()?.to_owned(),
            files: v["files"]
                .as_array()
                .map(|a| {
                    a.iter()
                        .filter_map(|e| Some((e[0].as_str()?.to_owned(), e[1].as_str()?.to_owned())))
                        .collect()
                })
                .unwrap_or_default(),
            configs: v["config"].as_str().map(|c| vec![c.to_owned()]).unwrap_or_default(),
        })
    }
}

#[derive(Clone, Debug)]
struct Failure {
    /// panic | hang | reparse | missing-output | error-without-file | reference-survives | token-out-of-range
    kind: String,
    stage: String,
    panic: Option<PanicInfo>,
    detail: String,
    config: Option<String>,
    /// the parsed tree does not reproduce the text (modulo whitespace): the parser dependency
    /// accepted a text it did not understand (H6 of the re-parse oracle is false)
    uncovered_tree: bool,
    /// the parsed tree has a method call with a type instantiation (H3 is false)
    method_types: bool,
    /// the text (entry or a required module) contains `--` (H7 needs it)
    text_has_comment: bool,
    /// the entry text (H9 needs it)
    text: String,
}

#[derive(Default)]
struct CaseResult {
    /// (configuration, outcome of process()) for every configuration that was run
    outcomes: Vec<(String, &'static str)>,
    text_has_comment: bool,
    uncovered_tree: bool,
    method_types: bool,
    parsed: bool,
    failures: Vec<Failure>,
    hists: Vec<(&'static str, String)>,
    pipelines: u64,
    keys: Vec<u64>,
    tokens_checked: u64,
}

/// spec-level range check (independent of `str::get`): inside the text, on char boundaries
fn in_range(code: &[u8], pos: &Pos) -> bool {
    let boundary = |p: usize| p == 0 || p == code.len() || (p < code.len() && code[p] >> 6 != 0b10);
    match pos {
        Pos::Ref(s, e, _) => s <= e && *e <= code.len() && boundary(*s) && boundary(*e),
        _ => true,
    }
}

/// H6: the reference positions of the parsed tree (tokens and trivia), sorted by start, are
/// pairwise disjoint, in range, and cover every non-whitespace byte of the text — i.e. the parser
/// dependency really accounted for the whole text. Independent of the generators.
fn tree_covers_text(toks: &[Tok], text: &str) -> bool {
    let code = text.as_bytes();
    let mut ranges: Vec<(usize, usize)> = Vec::new();
    for tok in toks {
        for pos in all_positions(tok) {
            match pos {
                Pos::Ref(s, e, _) => {
                    if !in_range(code, pos) {
                        return false;
                    }
                    if s < e {
                        ranges.push((*s, *e));
                    }
                }
                _ => {}
            }
        }
    }
    ranges.sort();
    let mut at = 0usize;
    for (s, e) in ranges {
        if s < at {
            return false; // overlap or duplicate
        }
        if text.get(at..s).map(|gap| !gap.chars().all(char::is_whitespace)).unwrap_or(true) {
            return false;
        }
        at = e;
    }
    text.get(at..).map(|gap| gap.chars().all(char::is_whitespace)).unwrap_or(false)
}

fn all_positions(tok: &Tok) -> impl Iterator<Item = &Pos> {
    std::iter::once(&tok.pos)
        .chain(tok.leading.iter().map(|t| &t.pos))
        .chain(tok.trailing.iter().map(|t| &t.pos))
}

fn token_based(block: &Block, code: &str) -> String {
    let mut generator = TokenBasedLuaGenerator::new(code);
    generator.write_block(block);
    generator.into_string()
}

/// token-based generation together with what was written, piece by piece: every primitive
/// write of the generator (token contents, trivia, symbols, padding new lines, uncomment
/// breaks, raw spaces) in order — everything except the separators of the space rule (`space`
/// events) and the bookkeeping `reference` events. Since /repo 7ae2b90 the space rule is skipped
/// between two tokens read from adjacent source ranges, so a tree whose references were replaced
/// by contents may legitimately get a few more single-space separators than the referenced tree.
fn token_based_pieces(block: &Block, code: &str) -> (String, Vec<(String, String, i64)>, usize) {
    hooks::trace_start();
    let text = token_based(block, code);
    let trace = hooks::trace_take();
    let spaces = trace.iter().filter(|op| op.op == "space").count();
    let pieces = trace
        .into_iter()
        .filter(|op| op.op != "space" && op.op != "reference")
        .map(|op| (op.op.to_owned(), op.text, op.detail))
        .collect();
    (text, pieces, spaces)
}

/// `longer` is `shorter` with exactly `extra` single spaces inserted (and nothing else changed)
fn differs_only_by_inserted_spaces(shorter: &str, longer: &str, extra: usize) -> bool {
    let (a, b) = (shorter.as_bytes(), longer.as_bytes());
    if b.len() != a.len() + extra {
        return false;
    }
    let (mut i, mut j) = (0, 0);
    while j < b.len() {
        if i < a.len() && a[i] == b[j] {
            i += 1;
            j += 1;
        } else if b[j] == b' ' {
            j += 1;
        } else {
            return false;
        }
    }
    i == a.len()
}

/// the error values must name a file of the run
fn names_a_file(message: &str, case: &Case) -> bool {
    message.contains(ENTRY)
        || message.contains("main.lua")
        || case.files.iter().any(|(p, _)| {
            message.contains(p.as_str()) || p.rsplit('/').next().map(|n| message.contains(n)).unwrap_or(false)
        })
}

fn run_pipeline(case: &Case, config_text: &str, result: &mut CaseResult) {
    let fail = |result: &mut CaseResult, kind: &str, stage: &str, panic: Option<PanicInfo>, detail: String| {
        result.failures.push(Failure {
            kind: kind.to_owned(),
            stage: stage.to_owned(),
            panic,
            detail,
            config: Some(config_text.to_owned()),
            uncovered_tree: result.uncovered_tree,
            method_types: result.method_types,
            text_has_comment: result.text_has_comment,
            text: case.text.clone(),
        });
    };
    let configuration = match guarded(|| json5::from_str::<Configuration>(config_text)) {
        Err(panic) => return fail(result, "panic", "configuration", Some(panic), String::new()),
        Ok(Err(err)) => {
            // an error value: acceptable; make sure it renders
            if let Err(panic) = guarded(|| err.to_string()) {
                fail(result, "panic", "configuration-error-display", Some(panic), String::new());
            }
            if std::env::var("DLV_C12_DEBUG").is_ok() {
                eprintln!("CONFIG REJECTED: {} :: {}", err, config_text.chars().take(300).collect::<String>());
            }
            result.hists.push(("pipeline_outcome", "configuration-rejected".to_owned()));
            result.outcomes.push((config_text.to_owned(), "configuration-rejected"));
            return;
        }
        Ok(Ok(c)) => c,
    };
    let resources = Resources::from_memory();
    let _ = resources.write(ENTRY, &case.text);
    for (path, content) in &case.files {
        let _ = resources.write(path, content);
    }
    let batch = case.class.starts_with("batch");
    let (input, output) = if batch { ("src", "out") } else { (ENTRY, OUTPUT) };
    let outcome = guarded(|| {
        darklua_core::process(&resources, Options::new(input).with_output(output).with_configuration(configuration))
            .map(|tree| tree.result())
    });
    result.pipelines += 1;
    match outcome {
        Err(panic) => fail(result, "panic", "process", Some(panic), String::new()),
        Ok(Err(err)) => {
            let message = match guarded(|| err.to_string()) {
                Ok(m) => m,
                Err(panic) => return fail(result, "panic", "error-display", Some(panic), String::new()),
            };
            result.hists.push(("pipeline_outcome", "setup-error-value".to_owned()));
            result.outcomes.push((config_text.to_owned(), "setup-error-value"));
            if message.trim().is_empty() {
                fail(result, "error-without-file", "process", None, "empty error message".to_owned());
            }
        }
        Ok(Ok(Err(errors))) => {
            result.hists.push(("pipeline_outcome", "error-values".to_owned()));
            result.outcomes.push((config_text.to_owned(), "error-values"));
            for err in &errors {
                match guarded(|| err.to_string()) {
                    Err(panic) => fail(result, "panic", "error-display", Some(panic), String::new()),
                    Ok(message) => {
                        if !names_a_file(&message, case) {
                            fail(result, "error-without-file", "process", None, message);
                        }
                    }
                }
            }
            if batch {
                check_batch_outputs(case, &resources, config_text, result);
            }
        }
        Ok(Ok(Ok(()))) => {
            result.hists.push(("pipeline_outcome", "ok".to_owned()));
            result.outcomes.push((config_text.to_owned(), "ok"));
            let outputs: Vec<String> = if batch {
                std::iter::once("out/main.lua".to_owned())
                    .chain(case.files.iter().filter(|(p, _)| p.ends_with(".lua")).map(|(p, _)| p.replacen("src/", "out/", 1)))
                    .collect()
            } else {
                vec![OUTPUT.to_owned()]
            };
            for path in outputs {
                match resources.get(&path) {
                    Err(_) => fail(result, "missing-output", "process", None, format!("no output at {}", path)),
                    Ok(code) => match guarded(|| Parser::default().parse(&code).map(|_| ())) {
                        Err(panic) => fail(result, "panic", "reparse", Some(panic), code),
                        Ok(Err(err)) => fail(result, "reparse", "process", None, format!("{} :: output = {:?}", err, code)),
                        Ok(Ok(())) => {}
                    },
                }
            }
        }
    }
}

/// a batch with one bad member: the good members must still have been written
fn check_batch_outputs(case: &Case, resources: &Resources, config_text: &str, result: &mut CaseResult) {
    let members = std::iter::once((ENTRY.to_owned(), case.text.clone())).chain(case.files.iter().cloned());
    for (path, content) in members {
        if !path.ends_with(".lua") || !path.starts_with("src/") {
            continue;
        }
        let good = guarded(|| Parser::default().parse(&content).is_ok()).unwrap_or(false);
        let out = path.replacen("src/", "out/", 1);
        if good && resources.get(&out).is_err() {
            result.failures.push(Failure {
                kind: "missing-output".to_owned(),
                stage: "batch".to_owned(),
                panic: None,
                detail: format!("batch member {} parses but has no output although another member failed", path),
                config: Some(config_text.to_owned()),
                uncovered_tree: false,
                method_types: false,
                text_has_comment: false,
                text: case.text.clone(),
            });
        }
    }
}

fn run_case(case: &Case) -> CaseResult {
    let mut result = CaseResult::default();
    let text = case.text.as_str();
    result.text_has_comment = text.contains("--") || case.files.iter().any(|(_, c)| c.contains("--"));
    let fail = |result: &mut CaseResult, kind: &str, stage: &str, panic: Option<PanicInfo>, detail: String| {
        let (uncovered_tree, method_types, text_has_comment) = (result.uncovered_tree, result.method_types, result.text_has_comment);
        result.failures.push(Failure { kind: kind.to_owned(), stage: stage.to_owned(), panic, detail, config: None, uncovered_tree, method_types, text_has_comment, text: case.text.clone() });
    };
    // ---- Parser::parse, both modes
    let plain = guarded(|| Parser::default().parse(text));
    let preserving = guarded(|| Parser::default().preserve_tokens().parse(text));
    let mut parsed_block = None;
    for (stage, outcome) in [("parse", plain), ("parse-preserve-tokens", preserving)] {
        match outcome {
            Err(panic) => fail(&mut result, "panic", stage, Some(panic), String::new()),
            Ok(Err(err)) => {
                if let Err(panic) = guarded(|| err.to_string()) {
                    fail(&mut result, "panic", "parser-error-display", Some(panic), String::new());
                }
            }
            Ok(Ok(block)) => {
                if stage == "parse-preserve-tokens" {
                    parsed_block = Some(block);
                }
                result.parsed = true;
            }
        }
    }
    result.hists.push(("parse_outcome", if result.parsed { "parses" } else { "error-value" }.to_owned()));
    result.keys.push(hash_of(&("parse", text)));
    // ---- tokens of the parsed tree: in range for the text; the rule clears every reference
    if let Some(block) = parsed_block {
        let rendering = format!("{:?}", block);
        result.method_types = debug_structure(&rendering).contains(METHOD_TYPES_MARKER);
        match guarded(|| tokens_of_debug(&rendering).map(|toks| tree_covers_text(&toks, text))) {
            Ok(Ok(covers)) => {
                result.uncovered_tree = !covers;
                if !covers && std::env::var("DLV_C12_DEBUG").is_ok() {
                    eprintln!("UNCOVERED text={:?}", text);
                }
            }
            Ok(Err(e)) => fail(&mut result, "harness", "debug-rendering", None, e),
            Err(panic) => fail(&mut result, "panic", "debug-rendering", Some(panic), String::new()),
        }
        result.hists.push(("parsed_tree_covers_text", (!result.uncovered_tree).to_string()));
        let checks = guarded(|| -> Result<u64, (String, String)> {
            let toks = tokens_of_debug(&rendering).map_err(|e| ("harness".to_owned(), e))?;
            for tok in &toks {
                if let Some(bad) = all_positions(tok).find(|p| !in_range(text.as_bytes(), p)) {
                    return Err(("token-out-of-range".to_owned(), format!("{:?}", bad)));
                }
            }
            let mut replaced = block.clone();
            hooks::rule_replace_referenced_tokens(&mut replaced, text);
            let left = tokens_of_debug(&format!("{:?}", replaced)).map_err(|e| ("harness".to_owned(), e))?;
            if let Some(tok) = left.iter().find(|t| t.has_reference()) {
                return Err(("reference-survives".to_owned(), tok.sexp()));
            }
            // what the generator writes for the replaced tree under a FOREIGN code must be what it
            // writes for the referenced tree under its own code: the same pieces (token contents,
            // trivia, symbols, padding) in the same order — the real-code side of
            // `replace_referenced_preserves_text` — and a text that differs at most by the
            // single-space separators the space rule adds once tokens no longer know their
            // source range (never fewer separators, nothing else)
            let (before, before_pieces, before_spaces) = token_based_pieces(&block, text);
            for other in ["", "\u{e9}"] {
                let (after, after_pieces, after_spaces) = token_based_pieces(&replaced, other);
                if after_pieces != before_pieces {
                    let at = before_pieces.iter().zip(after_pieces.iter()).position(|(x, y)| x != y);
                    return Err((
                        "reference-survives".to_owned(),
                        format!(
                            "written pieces changed when generated against {:?}: first difference at {:?}: {:?} vs {:?}",
                            other,
                            at,
                            at.and_then(|i| after_pieces.get(i)),
                            at.and_then(|i| before_pieces.get(i))
                        ),
                    ));
                }
                if after_spaces < before_spaces
                    || !differs_only_by_inserted_spaces(&before, &after, after_spaces - before_spaces)
                {
                    return Err((
                        "reference-survives".to_owned(),
                        format!(
                            "text changed by more than space-rule separators when generated against {:?}: {:?} vs {:?}",
                            other, after, before
                        ),
                    ));
                }
            }
            Ok(toks.len() as u64)
        });
        match checks {
            Err(panic) => fail(&mut result, "panic", "replace-referenced-tokens", Some(panic), String::new()),
            Ok(Err((kind, detail))) => fail(&mut result, &kind, "parsed-tree-tokens", None, detail),
            Ok(Ok(n)) => result.tokens_checked += n,
        }
    }
    // ---- the pipeline
    if result.parsed || case.class.starts_with("batch") {
        for config in &case.configs {
            run_pipeline(case, config, &mut result);
            result.keys.push(hash_of(&("pipeline", text, config)));
        }
    }
    result
}

// =============================================================================================
// known findings, classification, minimisation
// =============================================================================================

struct Known {
    id: String,
    /// signature.kind: "panic" (file suffix + message prefix) | "reference-survives-method-types"
    /// | "pipeline-on-uncovered-tree"
    signature: String,
    file: String,
    message_prefix: String,
    what: String,
    witness: Value,
}

fn load_known() -> Vec<Known> {
    known_findings("C12")
        .into_iter()
        .filter(|e| e["status"] == "known")
        .map(|e| Known {
            id: e["id"].as_str().unwrap_or("?").to_owned(),
            signature: e["signature"]["kind"].as_str().unwrap_or("").to_owned(),
            file: e["signature"]["file"].as_str().unwrap_or("").to_owned(),
            message_prefix: e["signature"]["message_prefix"].as_str().unwrap_or("").to_owned(),
            what: e["expected_wrong"].as_str().unwrap_or("").to_owned(),
            witness: e["witness"].clone(),
        })
        .collect()
}

fn classify<'k>(known: &'k [Known], failure: &Failure) -> Option<&'k Known> {
    known.iter().find(|k| match k.signature.as_str() {
        "panic" => failure
            .panic
            .as_ref()
            .map(|p| !k.file.is_empty() && p.file().ends_with(&k.file) && p.message.starts_with(&k.message_prefix))
            .unwrap_or(false),
        "pipeline-on-uncovered-tree" => {
            failure.uncovered_tree && failure.config.is_some() && failure.kind != "hang" && failure.stage != "configuration"
        }
        _ => false,
    })
}

fn same_failure(a: &Failure, b: &Failure) -> bool {
    a.kind == b.kind
        && match (&a.panic, &b.panic) {
            (Some(x), Some(y)) => x.file() == y.file() && x.message.split(':').next() == y.message.split(':').next(),
            (None, None) => a.stage == b.stage,
            _ => false,
        }
}

/// shrink the text (and the rule list) of a failing case while the same failure reproduces
fn minimise(case: &Case, failure: &Failure, budget: Duration) -> (Case, Option<String>) {
    let start = Instant::now();
    let mut best = case.clone();
    best.configs = failure.config.iter().cloned().collect();
    let reproduces = |c: &Case| -> bool { run_case(c).failures.iter().any(|f| same_failure(f, failure)) };
    if !reproduces(&best) {
        return (best.clone(), best.configs.first().cloned());
    }
    // rules first
    if let Some(config) = best.configs.first().cloned() {
        if let Ok(mut value) = serde_json::from_str::<Value>(&config) {
            let mut i = 0;
            while value["rules"].as_array().map(|a| i < a.len()).unwrap_or(false) {
                let mut candidate = value.clone();
                candidate["rules"].as_array_mut().unwrap().remove(i);
                let mut c = best.clone();
                c.configs = vec![candidate.to_string()];
                if reproduces(&c) {
                    value = candidate;
                    best = c;
                } else {
                    i += 1;
                }
            }
        }
    }
    // then the text: remove chunks of decreasing size
    let mut chunk = (best.text.chars().count() / 2).max(1);
    while chunk >= 1 && start.elapsed() < budget {
        let chars: Vec<char> = best.text.chars().collect();
        let mut at = 0;
        let mut progressed = false;
        while at < chars.len() && start.elapsed() < budget {
            let current: Vec<char> = best.text.chars().collect();
            if at >= current.len() {
                break;
            }
            let end = (at + chunk).min(current.len());
            let candidate: String = current[..at].iter().chain(current[end..].iter()).collect();
            let mut c = best.clone();
            c.text = candidate;
            if reproduces(&c) {
                best = c;
                progressed = true;
            } else {
                at += chunk;
            }
        }
        if chunk == 1 && !progressed {
            break;
        }
        chunk = if chunk == 1 { if progressed { 1 } else { 0 } } else { chunk / 2 };
        if chunk == 0 {
            break;
        }
    }
    let config = best.configs.first().cloned();
    (best, config)
}

// =============================================================================================
// nesting depth probe (child processes of this binary)
// =============================================================================================

fn probe_configs() -> Vec<String> {
    let mut rng = Rng::new(12);
    let rules: Vec<Value> = darklua_core::rules::get_all_rule_names()
        .into_iter()
        .filter(|n| *n != "convert_require")
        .map(|n| luagen::rule_entry(&mut rng, n))
        .collect();
    luagen::GENERATORS
        .iter()
        .map(|g| luagen::configuration(&rules, g, 80, false))
        .collect()
}

/// child side: run the whole pipeline on one nested text, on a thread with the worker stack size
fn probe_child(spec: &str) -> ! {
    let mut parts = spec.split(':');
    let kind = parts.next().unwrap_or("");
    let depth: usize = parts.next().and_then(|d| d.parse().ok()).unwrap_or(1);
    let case = Case { class: "nesting".to_owned(), text: luagen::nested(kind, depth), files: Vec::new(), configs: probe_configs() };
    let handle = std::thread::Builder::new()
        .stack_size(STACK_BYTES)
        .spawn(move || {
            let result = run_case(&case);
            if result.failures.iter().any(|f| f.kind == "panic") {
                3
            } else {
                0
            }
        })
        .expect("spawn");
    let code = handle.join().unwrap_or(3);
    std::process::exit(code);
}

#[derive(Clone, Copy, PartialEq, Eq, Debug)]
enum Probe {
    Survives,
    Panics,
    Crashes,
    Slow,
}

fn probe(kind: &str, depth: usize) -> Probe {
    let exe = match std::env::current_exe() {
        Ok(e) => e,
        Err(_) => return Probe::Crashes,
    };
    let mut child = match std::process::Command::new(exe)
        .args(["C12", "--replay", &format!("probe:{}:{}", kind, depth)])
        .stdout(std::process::Stdio::null())
        .stderr(std::process::Stdio::null())
        .spawn()
    {
        Ok(c) => c,
        Err(_) => return Probe::Crashes,
    };
    let start = Instant::now();
    loop {
        match child.try_wait() {
            Ok(Some(status)) => {
                return match status.code() {
                    Some(0) => Probe::Survives,
                    Some(3) => Probe::Panics,
                    _ => Probe::Crashes,
                }
            }
            Ok(None) => {
                if start.elapsed() > Duration::from_secs(PROBE_SECS) {
                    let _ = child.kill();
                    let _ = child.wait();
                    return Probe::Slow;
                }
                std::thread::sleep(Duration::from_millis(5));
            }
            Err(_) => return Probe::Crashes,
        }
    }
}

/// largest depth (up to `cap`) found to survive, by doubling then bisection; and what stopped it
fn measure_depth(kind: &str, cap: usize, refine: u32) -> (usize, String) {
    let mut ok = 0usize;
    let mut bad = None;
    let mut why = "cap reached".to_owned();
    let mut d = 16usize;
    loop {
        let depth = d.min(cap);
        match probe(kind, depth) {
            Probe::Survives => {
                ok = depth;
                if depth == cap {
                    break;
                }
                d *= 2;
            }
            other => {
                bad = Some(depth);
                why = format!("{:?} at depth {}", other, depth);
                break;
            }
        }
    }
    if let Some(mut hi) = bad {
        let mut lo = ok;
        for _ in 0..refine {
            if hi - lo <= 1 {
                break;
            }
            let mid = lo + (hi - lo) / 2;
            match probe(kind, mid) {
                Probe::Survives => lo = mid,
                other => {
                    hi = mid;
                    why = format!("{:?} at depth {}", other, mid);
                }
            }
        }
        ok = lo;
    }
    (ok, why)
}

// =============================================================================================
// case generation
// =============================================================================================

fn random_configs(rng: &mut Rng, all_rules: &[&'static str], count: usize, allow_bundle: bool) -> Vec<String> {
    (0..count)
        .map(|_| {
            let n = rng.below(5);
            let rules: Vec<Value> = (0..n)
                .map(|_| {
                    let name = *rng.pick(all_rules);
                    luagen::rule_entry(rng, name)
                })
                .collect();
            let generator = *rng.pick(luagen::GENERATORS);
            let span = if rng.chance(1, 10) { *rng.pick(&[2usize, 3, 7, 20, 1000]) } else { *rng.pick(luagen::SPANS) };
            luagen::configuration(&rules, generator, span, allow_bundle && rng.chance(3, 4))
        })
        .collect()
}

fn generate_cases(rng: &mut Rng, thorough: bool, safe_depth: &BTreeMap<String, usize>) -> Vec<Case> {
    let all_rules = darklua_core::rules::get_all_rule_names();
    let scale = if thorough { 60 } else { 3 };
    let mut cases = Vec::new();
    // 1. every (generator × span) with every single rule and with no rule, on one fixed program
    let fixed = luagen::SNIPPETS[0].to_owned() + luagen::SNIPPETS[1];
    for generator in luagen::GENERATORS {
        for span in luagen::SPANS {
            if *generator == "retain_lines" && *span != 80 {
                continue;
            }
            let mut configs = vec![luagen::configuration(&[], generator, *span, false)];
            for rule in &all_rules {
                configs.push(luagen::configuration(&[luagen::rule_entry(rng, rule)], generator, *span, false));
            }
            cases.push(Case { class: "each-rule-alone".to_owned(), text: fixed.clone(), files: Vec::new(), configs });
        }
    }
    // 2. grammar-derived programs × random rule sequences
    for _ in 0..(220 * scale) {
        let size = 3 + rng.below(25) as i32;
        let text = luagen::Gen::program(rng, size);
        let configs = random_configs(rng, &all_rules, 3, false);
        cases.push(Case { class: "grammar".to_owned(), text, files: Vec::new(), configs });
    }
    // 3. grammar-derived then mutated
    for _ in 0..(500 * scale) {
        let size = 2 + rng.below(12) as i32;
        let text = luagen::Gen::program(rng, size);
        let edits = 1 + rng.below(4);
        let text = luagen::mutate(rng, &text, edits);
        let configs = random_configs(rng, &all_rules, 1, false);
        cases.push(Case { class: "grammar-mutated".to_owned(), text, files: Vec::new(), configs });
    }
    // 4. random text
    for _ in 0..(400 * scale) {
        let (text, class) = luagen::random_text(rng);
        let configs = random_configs(rng, &all_rules, 1, false);
        cases.push(Case { class: class.to_owned(), text, files: Vec::new(), configs });
    }
    // 5. truncation at every byte offset of the snippet corpus (prefixes; lossy at non-boundaries)
    for (index, snippet) in luagen::SNIPPETS.iter().enumerate() {
        let bytes = snippet.as_bytes();
        for cut in 0..=bytes.len() {
            let text = String::from_utf8_lossy(&bytes[..cut]).into_owned();
            let configs = if cut % 7 == index || cut == bytes.len() { random_configs(rng, &all_rules, 1, false) } else { Vec::new() };
            cases.push(Case { class: "truncated-prefix".to_owned(), text, files: Vec::new(), configs });
        }
        if thorough {
            for cut in 1..bytes.len() {
                let text = String::from_utf8_lossy(&bytes[cut..]).into_owned();
                cases.push(Case { class: "truncated-suffix".to_owned(), text, files: Vec::new(), configs: Vec::new() });
            }
        }
    }
    // 6. a multi-byte character at every token boundary
    for (index, snippet) in luagen::SNIPPETS.iter().enumerate() {
        let boundaries = luagen::token_boundaries(snippet);
        for (k, at) in boundaries.iter().enumerate() {
            let after_backslash = *at > 0 && snippet.as_bytes()[*at - 1] == b'\\';
            let chars: Vec<&str> = if thorough || after_backslash { luagen::MULTIBYTE_CHARS.to_vec() } else { vec![luagen::MULTIBYTE_CHARS[(k + index) % luagen::MULTIBYTE_CHARS.len()]] };
            for c in chars {
                let mut text = snippet.to_string();
                text.insert_str(*at, c);
                let configs = if k % 5 == 0 { random_configs(rng, &all_rules, 1, false) } else { Vec::new() };
                cases.push(Case { class: "multibyte-at-token-boundary".to_owned(), text, files: Vec::new(), configs });
            }
        }
    }
    // 7. nesting up to half the measured safe depth, through the probe's configurations
    let nesting_configs = probe_configs();
    for kind in luagen::NESTING_KINDS {
        let safe = safe_depth.get(*kind).copied().unwrap_or(0) / 2;
        let mut depths: Vec<usize> = vec![1, 2, 3, 5, 8, 13, 21, 34, 55, 89, 144];
        depths.push(safe);
        depths.push(safe * 3 / 4);
        depths.retain(|d| *d >= 1 && *d <= safe);
        depths.sort();
        depths.dedup();
        for depth in depths {
            cases.push(Case {
                class: format!("nesting:{}", kind),
                text: luagen::nested(kind, depth),
                files: Vec::new(),
                configs: nesting_configs.clone(),
            });
        }
    }
    // 8. bundling: the entry requires generated modules (multi-byte content, comments) and data
    //    files whose keys cover the identifier boundary classes; members are regenerated until
    //    they parse, so that bundling really happens
    let parses = |text: &str| guarded(|| Parser::default().parse(text).is_ok()).unwrap_or(false);
    for _ in 0..(60 * scale) {
        let mut module = String::new();
        for _ in 0..12 {
            module = luagen::Gen::program(rng, 6) + "\ndo end\nreturn { ['é'] = 'é', [''] = -'1', ['end'] = '' .. 1 }\n";
            if parses(&module) {
                break;
            }
            module = "return { ['é'] = 'é' }\n".to_owned();
        }
        let other = "-- é€ header\nlocal M = {} --[[ 𝄞 ]]\nfunction M.f() return `é{1}` end\nM['été'] = M.f\nreturn M\n".to_owned();
        let header = "local m = require('./m') -- é\nlocal o = require(\"./other.lua\")\nlocal d = require('./data.json')\nlocal y = require('./data.yml')\nlocal t = require('./data.toml')\nlocal s = require('./text.txt')\n";
        let mut text = String::new();
        for _ in 0..12 {
            text = format!("{}{}\n", header, luagen::Gen::program(rng, 6));
            if parses(&text) {
                break;
            }
            text = format!("{}return m, o, d, y, t, s\n", header);
        }
        let files = vec![
            ("src/m.lua".to_owned(), module),
            ("src/other.lua".to_owned(), other),
            (
                "src/data.json".to_owned(),
                "{\"a\": [1, 2, {\"é\": null}], \"clé\": 1, \"été\": 2, \"end\": 3, \"1a\": 4, \"\": 5, \" \": 6, \"名前\": 7, \"ok_1\": 8}".to_owned(),
            ),
            ("src/data.yml".to_owned(), "clé: 1\nété: [1, 2]\nend: x\n\"1a\": 4\nключ: {größe_2: true}\nok: ''\n".to_owned()),
            ("src/data.toml".to_owned(), "ok = 1\n\"clé\" = 2\n\"end\" = 3\n[\"名前\"]\n\"1a\" = ''\n".to_owned()),
            ("src/text.txt".to_owned(), "été\n]] ]=] \"é\" 'x'\n".to_owned()),
        ];
        let configs = random_configs(rng, &all_rules, 2, true);
        cases.push(Case { class: "bundle".to_owned(), text, files, configs });
    }
    // 10. boundary-class string literals in every operand / key / argument position, through each
    //     rule alone and through all rules together (enumerated, not random)
    for (index, content) in luagen::CLASS_CONTENTS.iter().enumerate() {
        let text = luagen::class_program(content, index);
        let mut configs = Vec::new();
        for (k, rule) in all_rules.iter().enumerate() {
            if *rule == "convert_require" {
                continue;
            }
            let generator = luagen::GENERATORS[(k + index) % 3];
            configs.push(luagen::configuration(&[luagen::rule_entry(rng, rule)], generator, luagen::SPANS[(k + index) % 3], false));
        }
        configs.extend(probe_configs());
        cases.push(Case { class: "literal-classes".to_owned(), text, files: Vec::new(), configs });
    }
    // 11. literals spanning several lines (backtick parts with `\\`+newline / `\\z`+newline, quoted
    //     and long strings): each generator without rules, then every rule alone
    for (index, text) in luagen::MULTILINE_TEXTS.iter().chain(luagen::BACKSLASH_SEGMENT_TEXTS.iter()).enumerate() {
        let mut configs: Vec<String> = Vec::new();
        for generator in luagen::GENERATORS {
            for span in luagen::SPANS {
                if *generator == "retain_lines" && *span != 80 {
                    continue;
                }
                configs.push(luagen::configuration(&[], generator, *span, false));
            }
        }
        for (k, rule) in all_rules.iter().enumerate() {
            if *rule == "convert_require" {
                continue;
            }
            let generator = if k % 2 == 0 { "retain_lines" } else { luagen::GENERATORS[1 + (k + index) % 2] };
            configs.push(luagen::configuration(&[luagen::rule_entry(rng, rule)], generator, 80, false));
        }
        cases.push(Case { class: "multiline-literals".to_owned(), text: text.to_string(), files: Vec::new(), configs });
    }
    // 12. a backslash followed by one representative of every character class, in every string
    //     form, through both parser modes (and, when the text parses, each generator)
    for after in luagen::AFTER_BACKSLASH {
        for text in luagen::escape_programs(after) {
            let configs = luagen::GENERATORS.iter().map(|g| luagen::configuration(&[], g, 80, false)).collect();
            cases.push(Case { class: "escape-classes".to_owned(), text, files: Vec::new(), configs });
        }
    }
    // 13. interpolated-string value segments whose left spine (binary operators / type casts, 0-3 levels)
    //     ends in a table, through every generator and span, with no rule and after remove_types is
    //     skipped: `{` of the segment and `{` of the table must stay apart at every depth (seeded C12-m9)
    {
        let spines: &[&str] = &[
            "{}", "{} + 1", "{} + 1 + 2", "{} + 1 + 2 + 3", "{} :: any", "{} :: any == nil", "{} :: any :: any",
            "{} :: any .. 'a' .. 'b'", "{1} .. 'a' == nil and x", "{} == {} == {}", "({}) + 1 + 2", "({}).x + 1 + 2",
        ];
        let mut text = String::new();
        for (i, spine) in spines.iter().enumerate() {
            text.push_str(&format!("local v{} = `{{ {} }}`\nlocal w{} = `a{{ {} }}b{{ {} }}`\n", i, spine, i, spine, spine));
        }
        text.push_str("return v0\n");
        let mut configs = Vec::new();
        for generator in luagen::GENERATORS {
            for span in luagen::SPANS {
                configs.push(luagen::configuration(&[], generator, *span, false));
            }
        }
        configs.extend(probe_configs());
        cases.push(Case { class: "interp-table-spine".to_owned(), text: text.clone(), files: Vec::new(), configs: configs.clone() });
        for spine in spines {
            cases.push(Case { class: "interp-table-spine".to_owned(), text: format!("return `{{ {} }}`\n", spine), files: Vec::new(), configs: configs.clone() });
        }
    }
    // 9. batches with one bad member: errors are values naming the file, the rest is written
    for _ in 0..(25 * scale) {
        let good = luagen::Gen::program(rng, 5);
        let good2 = luagen::Gen::program(rng, 5);
        let edits = 1 + rng.below(2);
        let bad = luagen::mutate(rng, "local x = (", edits);
        let files = vec![("src/bad.lua".to_owned(), bad), ("src/lib/good2.lua".to_owned(), good2)];
        let configs = random_configs(rng, &all_rules, 1, false);
        cases.push(Case { class: "batch-one-bad".to_owned(), text: good, files, configs });
    }
    cases
}

// =============================================================================================
// correspondence with the Lean model
// =============================================================================================

const CODES: &[&str] = &["", "a", "é", "aé€b", "x𝄞y", "return true", "--é\nlocal €=1", "\u{feff}a"];

fn random_pos(rng: &mut Rng, code_len: usize, allow_ln: bool) -> Pos {
    let line = match rng.below(8) {
        0 => 0,
        1 => usize::MAX,
        2 => usize::MAX - 1,
        _ => rng.below(9),
    };
    let content = |rng: &mut Rng| -> Vec<u8> {
        rng.pick(&["", "x", "é", "--c", " ", "\n", "€𝄞", "\"q\"\\"]).as_bytes().to_vec()
    };
    match rng.below(if allow_ln { 4 } else { 3 }) {
        0 | 1 => {
            let s = rng.below(code_len + 3);
            let e = if rng.chance(3, 4) { s + rng.below(code_len + 3 - s.min(code_len + 2)) } else { rng.below(code_len + 3) };
            Pos::Ref(s, e, line)
        }
        2 => Pos::Any(content(rng)),
        _ => Pos::Ln(content(rng), line),
    }
}

fn random_tok(rng: &mut Rng, code_len: usize) -> Tok {
    let triv = |rng: &mut Rng| Triv { comment: rng.chance(1, 2), pos: random_pos(rng, code_len, false) };
    Tok {
        pos: random_pos(rng, code_len, true),
        leading: (0..rng.below(3)).map(|_| triv(rng)).collect(),
        trailing: (0..rng.below(3)).map(|_| triv(rng)).collect(),
    }
}

/// real `read` of everything `write_token` reads; `None` = panic
fn real_read_all(token: &Token, code: &str) -> Option<Vec<Vec<u8>>> {
    guarded(|| {
        let mut out = Vec::new();
        for t in token.iter_leading_trivia() {
            out.push(t.read(code).as_bytes().to_vec());
        }
        out.push(token.read(code).as_bytes().to_vec());
        for t in token.iter_trailing_trivia() {
            out.push(t.read(code).as_bytes().to_vec());
        }
        out
    })
    .ok()
}

struct Corr<'a> {
    report: &'a mut Report,
    model: Model,
    /// (check, request line, real answer rendered like the model's, input json)
    pending: Vec<(String, String, String, Value)>,
}

impl<'a> Corr<'a> {
    fn push(&mut self, check: &str, request: String, real: String, input: Value) {
        self.pending.push((check.to_owned(), request, real, input));
        if self.pending.len() >= 4000 {
            self.flush();
        }
    }
    fn flush(&mut self) {
        let pending = std::mem::take(&mut self.pending);
        let lines: Vec<String> = pending.iter().map(|p| p.1.clone()).collect();
        let answers = self.model.ask_batch(&lines);
        for ((check, request, real, input), answer) in pending.into_iter().zip(answers) {
            self.report.count("correspondence_requests", 1);
            if answer != real {
                // The property itself (no crash for an in-range token / a replaced tree) is judged
                // on the real code: a disagreement where the real code panics although the spec
                // says "in range" is an oracle failure; anything else is a correspondence break.
                let oracle = input["spec_in_range"] == json!(true) && real == "none";
                self.report.violation(Violation {
                    kind: if oracle { "oracle" } else { "correspondence" }.to_owned(),
                    check,
                    what: format!("model answered {} but the code gave {} for `{}`", answer, real, request),
                    input,
                    failing_input_found: oracle,
                });
            }
        }
    }
}

fn render_read(r: &Option<Vec<Vec<u8>>>) -> String {
    match r {
        None => "none".to_owned(),
        Some(bs) => format!("(some ({}))", bs.iter().map(|b| hex(b)).collect::<Vec<_>>().join(" ")),
    }
}

fn correspondence(report: &mut Report, rng: &mut Rng) {
    let thorough = report.is_thorough();
    let mut corr = Corr { report, model: Model::spawn(), pending: Vec::new() };
    // ---- read: exhaustive over (start, end) for the fixed codes
    for code in CODES {
        let len = code.len();
        for s in 0..=len + 1 {
            for e in 0..=len + 1 {
                let tok = Tok { pos: Pos::Ref(s, e, 1), leading: vec![], trailing: vec![] };
                let real = real_read_all(&tok.real().unwrap(), code);
                let spec = in_range(code.as_bytes(), &tok.pos);
                corr.report.case(Some(("read", *code, s, e)));
                corr.report.hist("read", if real.is_some() { "defined" } else { "panics" });
                if spec != real.is_some() {
                    corr.report.violation(Violation {
                        kind: "oracle".to_owned(),
                        check: "read_total/spec".to_owned(),
                        what: format!("Token::read defined = {} but the range spec says {}", real.is_some(), spec),
                        input: json!({"kind": "read", "code": code, "token": tok.sexp()}),
                        failing_input_found: true,
                    });
                }
                corr.push(
                    "read",
                    format!("c12.read {} {}", hex(code.as_bytes()), tok.sexp()),
                    render_read(&real),
                    json!({"kind": "read", "code": code, "token": tok.sexp(), "spec_in_range": spec}),
                );
                for index in [s, e] {
                    corr.push(
                        "boundary",
                        format!("c12.boundary {} {}", hex(code.as_bytes()), index),
                        code.is_char_boundary(index).to_string(),
                        json!({"kind": "boundary", "code": code, "index": index}),
                    );
                }
            }
        }
    }
    corr.report.exhaustive.insert("Token::read over all (start,end) in 0..=len+1 of 8 fixed codes".to_owned(), true);
    // ---- random tokens with trivia: read + every operation
    let rounds = if thorough { 40_000 } else { 5_000 };
    for round in 0..rounds {
        let code: String = if round % 3 == 0 {
            (*rng.pick(CODES)).to_owned()
        } else {
            (0..rng.below(8)).map(|_| *rng.pick(&['a', ' ', '\n', 'é', '€', '𝄞', '-', '"'])).collect()
        };
        let tok = random_tok(rng, code.len());
        let mut buildable = tok.clone();
        if let Pos::Ln(c, l) = &buildable.pos {
            // reachable through the public API as from_position(LineNumber{..})
            buildable.pos = Pos::Ln(c.clone(), *l);
        }
        let real_token = match buildable.real() {
            Some(t) => t,
            None => continue,
        };
        debug_assert_eq!(describe(&real_token), tok);
        let input = |op: &str| json!({"kind": "token-op", "op": op, "code": code, "token": tok.sexp()});
        let code_hex = hex(code.as_bytes());
        let spec = all_positions(&tok).all(|p| in_range(code.as_bytes(), p));
        let real = real_read_all(&real_token, &code);
        corr.report.case(Some(("tok", code.clone(), tok.clone())));
        corr.report.hist("random_token_in_range", if spec { "in-range" } else { "out-of-range" });
        let mut read_input = input("read");
        read_input["spec_in_range"] = json!(spec);
        corr.push("read", format!("c12.read {} {}", code_hex, tok.sexp()), render_read(&real), read_input);
        corr.push("inrange", format!("c12.inrange {} {}", code_hex, tok.sexp()), spec.to_string(), input("inrange"));
        // operations
        let apply = |f: &dyn Fn(&mut Token)| -> String {
            let mut t = real_token.clone();
            match guarded(|| {
                f(&mut t);
            }) {
                Ok(()) => describe(&t).sexp(),
                Err(_) => "none".to_owned(),
            }
        };
        let content = *rng.pick(&["", "new", "é€", "\n"]);
        corr.push(
            "replace_with_content",
            format!("c12.op replace_with_content {} {}", hex(content.as_bytes()), tok.sexp()),
            apply(&|t| t.replace_with_content(content.to_owned())),
            input("replace_with_content"),
        );
        let amount: isize = match rng.below(8) {
            0 => 0,
            1 => isize::MAX,
            2 => isize::MIN,
            3 => -1,
            4 => 1,
            _ => rng.range(-12, 12) as isize,
        };
        corr.push(
            "shift_token_line",
            format!("c12.op shift_token_line {} {}", amount, tok.sexp()),
            apply(&|t| hooks::token_shift_token_line(t, amount)),
            input("shift_token_line"),
        );
        corr.push("clear_comments", format!("c12.op clear_comments {}", tok.sexp()), apply(&|t| t.clear_comments()), input("clear_comments"));
        corr.push("clear_whitespaces", format!("c12.op clear_whitespaces {}", tok.sexp()), apply(&|t| t.clear_whitespaces()), input("clear_whitespaces"));
        corr.push(
            "filter_comments",
            format!("c12.op filter_comments_keep_none {}", tok.sexp()),
            apply(&|t| hooks::token_filter_comments(t, |_| false)),
            input("filter_comments_keep_none"),
        );
        corr.push(
            "filter_comments",
            format!("c12.op filter_comments_keep_all {}", tok.sexp()),
            apply(&|t| hooks::token_filter_comments(t, |_| true)),
            input("filter_comments_keep_all"),
        );
        corr.push(
            "filter_comments",
            format!("c12.op filter_comments_keep_content {}", tok.sexp()),
            apply(&|t| hooks::token_filter_comments(t, |tr| tr.try_read().is_some())),
            input("filter_comments_keep_content"),
        );
        corr.push(
            "drain_trivia",
            format!("c12.op drain_leading_trivia {}", tok.sexp()),
            apply(&|t| {
                let _ = t.drain_leading_trivia().count();
            }),
            input("drain_leading_trivia"),
        );
        corr.push(
            "drain_trivia",
            format!("c12.op drain_trailing_trivia {}", tok.sexp()),
            apply(&|t| {
                let _ = t.drain_trailing_trivia().count();
            }),
            input("drain_trailing_trivia"),
        );
        let trivia = Triv { comment: rng.chance(1, 2), pos: random_pos(rng, code.len(), false) };
        let index = rng.below(tok.leading.len() + 3);
        for (name, f) in [
            ("push_leading_trivia", &(|t: &mut Token| t.push_leading_trivia(trivia.real().unwrap())) as &dyn Fn(&mut Token)),
            ("push_trailing_trivia", &|t: &mut Token| t.push_trailing_trivia(trivia.real().unwrap())),
            ("insert_leading_trivia", &|t: &mut Token| t.insert_leading_trivia(index, trivia.real().unwrap())),
        ] {
            corr.push(
                name,
                format!("c12.optrivia {} {} ({} {})", name, index, trivia.sexp(), tok.sexp()),
                apply(f),
                json!({"kind": "token-op", "op": name, "index": index, "trivia": trivia.sexp(), "token": tok.sexp()}),
            );
        }
        // replace_referenced_tokens: panics exactly when the token is out of range
        let replaced = apply(&|t| hooks::token_replace_referenced_tokens(t, &code));
        corr.report.hist("replace_referenced_tokens", if replaced == "none" { "panics" } else { "defined" });
        if spec != (replaced != "none") {
            corr.report.violation(Violation {
                kind: "oracle".to_owned(),
                check: "replace_referenced_defined_iff/spec".to_owned(),
                what: format!("replace_referenced_tokens defined = {} but the range spec says {}", replaced != "none", spec),
                input: input("replace_referenced_tokens"),
                failing_input_found: true,
            });
        }
        corr.push(
            "replace_referenced_tokens",
            format!("c12.op replace_referenced_tokens {} {}", code_hex, tok.sexp()),
            replaced,
            input("replace_referenced_tokens"),
        );
    }
    corr.flush();
    // ---- the two rules on real parsed trees (tokens recovered from Debug output, visiting order = field order)
    let programs = if thorough { 1500 } else { 250 };
    for round in 0..programs {
        let size = 3 + rng.below(10) as i32;
        let text = if round < luagen::SNIPPETS.len() { luagen::SNIPPETS[round].to_owned() } else { luagen::Gen::program(rng, size) };
        let block = match guarded(|| Parser::default().preserve_tokens().parse(&text)) {
            Ok(Ok(b)) => b,
            _ => continue, // error value, or a parser panic (those are judged by the exploration)
        };
        let toks = match tokens_of_debug(&format!("{:?}", block)) {
            Ok(t) => t,
            Err(_) => continue,
        };
        if toks.is_empty() {
            continue;
        }
        corr.report.hist(
            "rule_tree",
            if debug_structure(&format!("{:?}", block)).contains(METHOD_TYPES_MARKER) { "with a method-call type instantiation" } else { "plain" },
        );
        let tree = format!("(node ({}) ())", toks.iter().map(Tok::sexp).collect::<Vec<_>>().join(" "));
        let render = |b: &Block| -> String {
            match tokens_of_debug(&format!("{:?}", b)) {
                Ok(t) => format!("(node ({}) ())", t.iter().map(Tok::sexp).collect::<Vec<_>>().join(" ")),
                Err(e) => format!("harness-error {}", e),
            }
        };
        corr.report.case(Some(("tree", text.clone())));
        corr.report.hist("tree_tokens", &format!("{}", (toks.len() / 25) * 25));
        // the rule under the right code, and under wrong codes (a prefix, a text with a shifted multi-byte char)
        let mut wrong: Vec<String> = vec![text.clone(), String::new(), format!("é{}", text)];
        let cut = rng.below(text.len() + 1);
        wrong.push(String::from_utf8_lossy(&text.as_bytes()[..cut]).into_owned());
        for code in wrong {
            let mut b = block.clone();
            let real = match guarded(|| hooks::rule_replace_referenced_tokens(&mut b, &code)) {
                Ok(()) => format!("(some {})", render(&b)),
                Err(_) => "none".to_owned(),
            };
            corr.report.hist("rule_replace_referenced_tokens", if real == "none" { "panics (foreign code)" } else { "defined" });
            corr.push(
                "rule:replace_referenced_tokens",
                format!("c12.replace {} {}", hex(code.as_bytes()), tree),
                real,
                json!({"kind": "rule", "rule": "replace_referenced_tokens", "text": text, "code": code}),
            );
        }
        let amount = rng.range(-5, 40) as isize;
        let mut b = block.clone();
        hooks::rule_shift_token_line(&mut b, amount);
        corr.push(
            "rule:shift_token_line",
            format!("c12.shift {} {}", amount, tree),
            render(&b),
            json!({"kind": "rule", "rule": "shift_token_line", "text": text, "amount": amount}),
        );
    }
    corr.flush();
    let requests = corr.model.requests;
    corr.report.count("model_requests", requests);
}

// =============================================================================================
// orchestration
// =============================================================================================

fn report_failure(report: &mut Report, known: &[Known], case: &Case, failure: &Failure, known_hits: &mut BTreeMap<String, u64>, minimise_budget: Duration) {
    if let Some(k) = classify(known, failure) {
        *known_hits.entry(k.id.clone()).or_default() += 1;
        return;
    }
    let (small, config) = if failure.kind == "hang" { (case.clone(), failure.config.clone()) } else { minimise(case, failure, minimise_budget) };
    let what = match &failure.panic {
        Some(p) => format!("{} in stage `{}`: {}", failure.kind, failure.stage, p.describe()),
        None => format!("{} in stage `{}`: {}", failure.kind, failure.stage, failure.detail.chars().take(600).collect::<String>()),
    };
    let mut input = small.input(config.as_deref());
    input["original_text"] = json!(case.text);
    input["original_config"] = json!(failure.config);
    report.violation(Violation {
        kind: "oracle".to_owned(),
        check: format!("{}:{}", failure.kind, failure.stage),
        what,
        input,
        failing_input_found: true,
    });
}

/// minimal share (percent) of process() runs of a class that must succeed
fn ok_share_floor(class: &str) -> u64 {
    match class {
        "bundle" | "input:bundle" => 40,
        "input:batch-one-bad" => 60,
        c if c.starts_with("input:") => 0, // random / mutated classes may legitimately fail often
        _ => 30,
    }
}

fn corpus_dir() -> std::path::PathBuf {
    std::path::Path::new(env!("CARGO_MANIFEST_DIR")).join("../corpus/C12")
}

pub fn run(report: &mut Report, replay: Option<&str>) {
    if let Some(spec) = replay.and_then(|r| r.strip_prefix("probe:")) {
        pool::install_panic_hook();
        probe_child(spec);
    }
    pool::install_panic_hook();
    // orchestration (replays, minimisation, Debug renderings) runs on a roomy stack; the cases
    // of the exploration themselves run on the 8 MiB workers the depth probe was measured with
    std::thread::scope(|scope| {
        std::thread::Builder::new()
            .name("c12-orchestrator".to_owned())
            .stack_size(512 * 1024 * 1024)
            .spawn_scoped(scope, || run_on_big_stack(report, replay))
            .expect("cannot spawn the orchestration thread")
            .join()
            .expect("orchestration thread panicked");
    });
}

fn run_on_big_stack(report: &mut Report, replay: Option<&str>) {
    let start = Instant::now();
    let thorough = report.is_thorough();
    let known = load_known();
    let mut known_hits: BTreeMap<String, u64> = BTreeMap::new();
    report.rule = "correspondence: Token::read exhaustively over (start,end) of 8 fixed codes, then random tokens with \
        trivia (3 position kinds, multi-byte codes) through every token operation and the two token rules on parsed \
        trees, real code vs Lean model; exploration: Parser::parse (both modes) on random / grammar-derived-mutated / \
        truncated / multi-byte-at-token-boundary / nested texts, and for texts that parse darklua_core::process over \
        rule sequences (length <= 4, all rules, randomised accepted properties) x 3 generators x column_span {0,1,80,…}, \
        bundles and batches. Non-trivial = distinct text that reached the parser, distinct (text, configuration) pair \
        that ran through process(), distinct token/tree sent to the model."
        .to_owned();
    report.notes.push(
        "PROVED (Lean, all inputs): token-range invariant (read_total, read_defined_iff, token_ops_preserve_range, \
         replace_referenced_*, bundle_obligation, shift_token_line_preserves) and generator bookkeeping \
         (dense_no_underflow, indentation_balanced, separators_total). EXPLORED, NOT PROVED: crash and hang freedom of the \
         Rust runtime (parser dependency, rules, generators) — counts and distributions below."
            .to_owned(),
    );

    // ---- replay of a stored input
    if let Some(path) = replay {
        let stored: Value = std::fs::read_to_string(path).ok().and_then(|t| serde_json::from_str(&t).ok()).unwrap_or(Value::Null);
        let input = if stored["input"].is_object() { stored["input"].clone() } else { stored.clone() };
        if let Some(case) = Case::from_input(&input) {
            let case2 = case.clone();
            match pool::run_limited(move || run_case(&case2)) {
                None => report.violation(Violation {
                    kind: "oracle".to_owned(),
                    check: "hang:replay".to_owned(),
                    what: format!("case still exceeds {} s", HANG_SECS),
                    input,
                    failing_input_found: true,
                }),
                Some(result) => {
                    report.case(Some(&case.text));
                    for failure in &result.failures {
                        report_failure(report, &known, &case, failure, &mut known_hits, Duration::from_secs(0));
                    }
                }
            }
        } else {
            // token-level inputs are re-checked by the correspondence pass below
            let mut rng = Rng::new(report.seed);
            correspondence(report, &mut rng);
        }
        return;
    }

    // ---- 1. corpus of minimised crashers and regression inputs
    if let Ok(entries) = std::fs::read_dir(corpus_dir()) {
        let mut paths: Vec<_> = entries.filter_map(|e| e.ok()).map(|e| e.path()).filter(|p| p.extension().map(|x| x == "json").unwrap_or(false)).collect();
        paths.sort();
        for path in paths {
            let Some(stored) = std::fs::read_to_string(&path).ok().and_then(|t| serde_json::from_str::<Value>(&t).ok()) else { continue };
            let Some(case) = Case::from_input(&stored) else { continue };
            let expect = stored["expect"].as_str().unwrap_or("ok").to_owned();
            let case2 = case.clone();
            report.count("corpus_cases", 1);
            report.case(Some(("corpus", &case.text)));
            match pool::run_limited(move || run_case(&case2)) {
                None => report.violation(Violation {
                    kind: "oracle".to_owned(),
                    check: "hang:corpus".to_owned(),
                    what: format!("corpus case {} exceeds {} s", path.display(), HANG_SECS),
                    input: case.input(case.configs.first().map(|s| s.as_str())),
                    failing_input_found: true,
                }),
                Some(result) => {
                    for failure in &result.failures {
                        match classify(&known, failure) {
                            Some(k) if k.id == expect => *known_hits.entry(k.id.clone()).or_default() += 1,
                            _ => report_failure(report, &known, &case, failure, &mut known_hits, Duration::from_secs(0)),
                        }
                    }
                }
            }
        }
    }

    // ---- 2. known findings: replay each witness
    for k in &known {
        if k.witness["kind"] == "exponential-time" {
            let timed = |text: &str| -> Option<Duration> {
                let case = Case {
                    class: "known-finding".to_owned(),
                    text: text.to_owned(),
                    files: Vec::new(),
                    configs: k.witness["config"].as_str().map(|c| vec![c.to_owned()]).unwrap_or_default(),
                };
                let begin = Instant::now();
                pool::run_limited(move || run_case(&case)).map(|_| begin.elapsed())
            };
            let small = timed(k.witness["text_small"].as_str().unwrap_or(""));
            let large = timed(k.witness["text_large"].as_str().unwrap_or(""));
            let still = match (small, large) {
                (_, None) => true,
                (Some(s), Some(l)) => l > Duration::from_millis(100) && l > s * 8,
                (None, Some(_)) => false,
            };
            report.notes.push(format!("{}: {:?} for the small witness, {:?} for the large one (8 more terms; linear time would be x1.5, the measured ratio is what counts)", k.id, small, large));
            if still {
                report.known_finding(&k.id, &k.what);
            }
            continue;
        }
        let Some(case) = Case::from_input(&k.witness) else { continue };
        let case2 = case.clone();
        let result = pool::run_limited(move || run_case(&case2));
        let still = result.map(|r| r.failures.iter().any(|f| classify(&known, f).map(|x| x.id == k.id).unwrap_or(false))).unwrap_or(false);
        if still {
            report.known_finding(&k.id, &k.what);
        }
    }

    // ---- 3. correspondence with the Lean model
    let mut rng = Rng::new(report.seed);
    let mut corr_rng = rng.fork();
    correspondence(report, &mut corr_rng);
    report.count("correspondence_wall_ms", start.elapsed().as_millis() as u64);

    // ---- 4. measured safe nesting depth (child processes; 8 MiB stacks)
    let probe_start = Instant::now();
    let (cap, refine) = if thorough { (1 << 16, 5) } else { (1 << 11, 2) };
    let mut safe_depth: BTreeMap<String, usize> = BTreeMap::new();
    let mut depth_notes: BTreeMap<String, String> = BTreeMap::new();
    {
        let kinds: Vec<String> = luagen::NESTING_KINDS.iter().map(|k| k.to_string()).collect();
        let handles: Vec<_> = kinds
            .into_iter()
            .map(|kind| std::thread::spawn(move || {
                let (depth, why) = measure_depth(&kind, cap, refine);
                (kind, depth, why)
            }))
            .collect();
        for h in handles {
            if let Ok((kind, depth, why)) = h.join() {
                safe_depth.insert(kind.clone(), depth);
                depth_notes.insert(kind, why);
            }
        }
    }
    report.notes.push(format!(
        "measured safe nesting depth in THIS build (child processes, {} MiB thread stack, whole pipeline: parse both modes + {} rules x 3 generators, each within {} s; search cap {}): {}",
        STACK_BYTES / (1024 * 1024),
        darklua_core::rules::get_all_rule_names().len() - 1,
        PROBE_SECS,
        cap,
        safe_depth.iter().map(|(k, d)| format!("{}={} ({})", k, d, depth_notes.get(k).cloned().unwrap_or_default())).collect::<Vec<_>>().join("; ")
    ));
    for (k, d) in &safe_depth {
        report.count(&format!("safe_depth:{}", k), *d as u64);
        if depth_notes.get(k).map(|w| w.starts_with("Panics")).unwrap_or(false) {
            report.notes.push(format!("nesting kind {} stops with a caught panic rather than a stack overflow: see violations", k));
        }
    }
    report.notes.push("nesting cases of the exploration go up to HALF the measured depth of each kind; deeper nesting exhausts the native stack (an abort that cannot be caught) and is outside the claim".to_owned());
    report.count("depth_probe_wall_ms", probe_start.elapsed().as_millis() as u64);

    // ---- 5. exploration
    let cases = generate_cases(&mut rng, thorough, &safe_depth);
    let threads = std::thread::available_parallelism().map(|n| n.get()).unwrap_or(8).min(16);
    let mut failures: Vec<(Case, Failure)> = Vec::new();
    let mut slowest = Duration::from_secs(0);
    let mut shares: BTreeMap<String, (u64, u64)> = BTreeMap::new();
    {
        let report_ref = &mut *report;
        pool::run_pool(cases, threads, run_case, |done, case| match done {
            Done::Hung(_) => {
                report_ref.case(Some(("hang", &case.text)));
                failures.push((
                    case.clone(),
                    Failure {
                        kind: "hang".to_owned(),
                        stage: "case".to_owned(),
                        panic: None,
                        detail: format!("case exceeded {} s", HANG_SECS),
                        config: case.configs.first().cloned(),
                        uncovered_tree: false,
                        method_types: false,
                        text_has_comment: false,
                        text: case.text.clone(),
                    },
                ));
            }
            Done::Finished(_, result, elapsed) => {
                slowest = slowest.max(elapsed);
                report_ref.hist("input_class", case.class.split(':').next().unwrap_or(""));
                if case.class.starts_with("nesting:") {
                    report_ref.hist("nesting_kind", &case.class[8..]);
                }
                report_ref.hist("text_bytes", &format!("{:>5}+", (case.text.len() / 64) * 64));
                for (name, bucket) in &result.hists {
                    report_ref.hist(name, bucket);
                }
                for config in &case.configs {
                    if let Ok(v) = serde_json::from_str::<Value>(config) {
                        let rules = v["rules"].as_array().map(|a| a.len()).unwrap_or(0);
                        if result.parsed {
                            report_ref.hist("rule_sequence_length", &rules.to_string());
                            let g = v["generator"]["name"].as_str().or(v["generator"].as_str()).unwrap_or("?").to_owned();
                            let span = v["generator"]["column_span"].as_u64().map(|s| s.to_string()).unwrap_or("-".to_owned());
                            report_ref.hist("generator_x_span", &format!("{} span={}", g, span));
                            for r in v["rules"].as_array().into_iter().flatten() {
                                let name = r["rule"].as_str().or(r.as_str()).unwrap_or("?");
                                report_ref.hist("rule_used", name);
                            }
                            if v["bundle"].is_object() {
                                report_ref.hist("bundled", "yes");
                            }
                        }
                    }
                }
                // share of Ok results per configuration class (an exploration that always takes
                // the error path explores nothing)
                let batch = case.class.starts_with("batch");
                let batch_fine = !result.failures.iter().any(|f| f.kind == "missing-output");
                for (config, outcome) in &result.outcomes {
                    let ok = if batch { *outcome == "error-values" && batch_fine } else { *outcome == "ok" };
                    let mut classes: Vec<String> = vec![format!("input:{}", case.class.split(':').next().unwrap_or(""))];
                    if let Ok(v) = serde_json::from_str::<Value>(config) {
                        let g = v["generator"]["name"].as_str().or(v["generator"].as_str()).unwrap_or("?");
                        classes.push(format!("generator:{}", g));
                        for r in v["rules"].as_array().into_iter().flatten() {
                            classes.push(format!("rule:{}", r["rule"].as_str().or(r.as_str()).unwrap_or("?")));
                        }
                        if v["bundle"].is_object() {
                            classes.push("bundle".to_owned());
                        }
                    }
                    classes.sort();
                    classes.dedup();
                    for class in classes {
                        let entry = shares.entry(class).or_insert((0u64, 0u64));
                        entry.1 += 1;
                        if ok {
                            entry.0 += 1;
                        }
                    }
                }
                report_ref.count("process_calls", result.pipelines);
                report_ref.count("parse_calls", 2);
                report_ref.count("parsed_tree_tokens_checked_in_range", result.tokens_checked);
                for key in &result.keys {
                    report_ref.case(Some(*key));
                }
                if report_ref.samples.len() < 8 && result.parsed && !case.configs.is_empty() && case.text.len() < 160 {
                    report_ref.sample(json!({"class": case.class, "text": case.text, "config": case.configs[0]}));
                }
                for failure in result.failures {
                    failures.push((case.clone(), failure));
                }
            }
        });
    }
    report.count("slowest_case_ms", slowest.as_millis() as u64);
    // self-check: every configuration class must reach the success path often enough
    let mut table = Vec::new();
    for (class, (ok, total)) in &shares {
        let pct = ok * 100 / (*total).max(1);
        report.count(&format!("ok_share_pct:{}", class), pct);
        report.count(&format!("ok_share_runs:{}", class), *total);
        table.push(format!("{}={}% of {}", class, pct, total));
        let floor = ok_share_floor(class);
        if *total >= 15 && pct < floor {
            report.violation(Violation {
                kind: "self-check".to_owned(),
                check: format!("ok-share:{}", class),
                what: format!(
                    "only {}% of the {} process() runs of configuration class `{}` reached the success path (floor {}%): the exploration of this class is not exploring the code it claims to",
                    pct, total, class, floor
                ),
                input: json!({"kind": "self-check", "class": class, "ok": ok, "total": total}),
                failing_input_found: false,
            });
        }
    }
    for required in ["bundle", "input:batch-one-bad", "input:bundle", "generator:retain_lines", "generator:dense", "generator:readable"] {
        if !shares.contains_key(required) {
            report.violation(Violation {
                kind: "self-check".to_owned(),
                check: format!("ok-share:{}", required),
                what: format!("configuration class `{}` was never run", required),
                input: json!({"kind": "self-check", "class": required}),
                failing_input_found: false,
            });
        }
    }
    report.notes.push(format!("share of process() runs reaching the success path, per configuration class (batch: the good members written while the bad one is reported): {}", table.join("; ")));
    // a case that exceeded the watchdog while 16 workers (and whatever else runs on the machine)
    // competed for the CPU is re-run alone with a 6x limit before it is called a hang
    let suspects: Vec<(Case, Failure)> = failures.iter().filter(|(_, f)| f.kind == "hang").cloned().collect();
    failures.retain(|(_, f)| f.kind != "hang");
    for (case, failure) in suspects {
        report.count("watchdog_suspects", 1);
        let case2 = case.clone();
        match pool::run_limited_for(Duration::from_secs(6 * HANG_SECS), move || run_case(&case2)) {
            None => failures.push((case, failure)),
            Some(result) => {
                report.count("watchdog_suspects_finished_when_rerun_alone", 1);
                for f in result.failures {
                    failures.push((case.clone(), f));
                }
            }
        }
    }
    if std::env::var("DLV_C12_DEBUG").is_ok() {
        let mut seen: Vec<String> = Vec::new();
        for (case, failure) in &failures {
            let key = format!("{} {} {}", failure.kind, failure.stage, failure.panic.as_ref().map(|p| p.describe()).unwrap_or_else(|| failure.detail.chars().take(200).collect()));
            if !seen.contains(&key) {
                eprintln!("FAILURE {} :: class={} text={:?} config={:?}", key, case.class, case.text.chars().take(300).collect::<String>(), failure.config);
                seen.push(key);
            }
        }
    }
    // classify, minimise (bounded), report
    let mut reported: Vec<Failure> = Vec::new();
    let mut minimise_left = 8;
    for (case, failure) in &failures {
        report.hist("failure_kind", &failure.kind);
        if classify(&known, failure).is_none() && reported.iter().any(|f| same_failure(f, failure)) {
            report.count("duplicate_failures_not_reported", 1);
            continue;
        }
        let budget = if minimise_left > 0 { Duration::from_secs(6) } else { Duration::from_secs(0) };
        let before = report.violations.len();
        report_failure(report, &known, case, failure, &mut known_hits, budget);
        if report.violations.len() > before {
            reported.push(failure.clone());
            minimise_left -= 1;
        }
    }
    for (id, n) in &known_hits {
        report.count(&format!("known_finding_instances:{}", id), *n);
    }
    report.count("exploration_wall_ms", start.elapsed().as_millis() as u64);
}
