//! C14: document generator (abstract documents `G`, rendered as JSON / JSON5 / YAML / TOML
//! text) and `P`, the parsed data of each format's value type read by plain pattern matching
//! (not through `Serialize`), which is what the oracle compares Lua values with.
use crate::rng::Rng;

#[derive(Clone, Copy, Debug, PartialEq, Eq, Hash)]
pub enum Fmt {
    Json,
    Json5,
    Yaml,
    Toml,
}
impl Fmt {
    pub fn name(self) -> &'static str {
        match self {
            Fmt::Json => "json",
            Fmt::Json5 => "json5",
            Fmt::Yaml => "yaml",
            Fmt::Toml => "toml",
        }
    }
    pub fn from_name(s: &str) -> Option<Fmt> {
        match s {
            "json" => Some(Fmt::Json),
            "json5" => Some(Fmt::Json5),
            "yaml" | "yml" => Some(Fmt::Yaml),
            "toml" => Some(Fmt::Toml),
            _ => None,
        }
    }
}

/// a number as the document author means it
#[derive(Clone, Debug)]
pub enum GNum {
    /// integer, decimal digits with optional sign
    Int(String),
    /// decimal text with fraction and/or exponent, e.g. `-1.5e-7`
    Dec(String),
    /// non-negative hexadecimal integer (JSON5 / YAML / TOML)
    Hex(u64),
    Inf(bool),
    NaN,
}

impl GNum {
    /// the nearest double to what is written (Rust's correctly rounded decimal parser)
    pub fn expected(&self) -> f64 {
        match self {
            GNum::Int(t) | GNum::Dec(t) => t.parse::<f64>().expect("generator number text"),
            GNum::Hex(v) => v.to_string().parse::<f64>().unwrap(),
            GNum::Inf(neg) => {
                if *neg {
                    f64::NEG_INFINITY
                } else {
                    f64::INFINITY
                }
            }
            GNum::NaN => f64::NAN,
        }
    }
}

#[derive(Clone, Debug)]
pub enum GKey {
    Str(String),
    Bool(bool),
    Num(GNum),
    Null,
}

#[derive(Clone, Debug)]
pub enum G {
    Null,
    Bool(bool),
    Num(GNum),
    Str(String),
    Arr(Vec<G>),
    Obj(Vec<(GKey, G)>),
}

/// parsed data (see module doc)
#[derive(Clone, Debug)]
pub enum P {
    Null,
    Bool(bool),
    Int(i128),
    Float(f64),
    Str(String),
    Arr(Vec<P>),
    Obj(Vec<(P, P)>),
    /// a byte array (serde-level values only); a Lua string on the other side
    Bytes(Vec<u8>),
    /// something the property does not speak about (TOML datetime, YAML tag)
    Opaque(&'static str),
}

pub fn g_to_p(g: &G) -> P {
    fn num(n: &GNum) -> P {
        match n {
            GNum::Int(t) => match t.parse::<i128>() {
                Ok(v) => P::Int(v),
                Err(_) => P::Float(t.parse::<f64>().unwrap()),
            },
            GNum::Hex(v) => P::Int(*v as i128),
            other => P::Float(other.expected()),
        }
    }
    match g {
        G::Null => P::Null,
        G::Bool(b) => P::Bool(*b),
        G::Num(n) => num(n),
        G::Str(s) => P::Str(s.clone()),
        G::Arr(xs) => P::Arr(xs.iter().map(g_to_p).collect()),
        G::Obj(kvs) => P::Obj(
            kvs.iter()
                .map(|(k, v)| {
                    let k = match k {
                        GKey::Str(s) => P::Str(s.clone()),
                        GKey::Bool(b) => P::Bool(*b),
                        GKey::Num(n) => num(n),
                        GKey::Null => P::Null,
                    };
                    (k, g_to_p(v))
                })
                .collect(),
        ),
    }
}

pub fn json_to_p(v: &serde_json::Value) -> P {
    use serde_json::Value as J;
    match v {
        J::Null => P::Null,
        J::Bool(b) => P::Bool(*b),
        J::Number(n) => {
            if let Some(u) = n.as_u64() {
                P::Int(u as i128)
            } else if let Some(i) = n.as_i64() {
                P::Int(i as i128)
            } else {
                P::Float(n.as_f64().unwrap_or(f64::NAN))
            }
        }
        J::String(s) => P::Str(s.clone()),
        J::Array(xs) => P::Arr(xs.iter().map(json_to_p).collect()),
        J::Object(m) => P::Obj(m.iter().map(|(k, v)| (P::Str(k.clone()), json_to_p(v))).collect()),
    }
}

pub fn yaml_to_p(v: &serde_yaml::Value) -> P {
    use serde_yaml::Value as Y;
    match v {
        Y::Null => P::Null,
        Y::Bool(b) => P::Bool(*b),
        Y::Number(n) => {
            if let Some(u) = n.as_u64() {
                P::Int(u as i128)
            } else if let Some(i) = n.as_i64() {
                P::Int(i as i128)
            } else {
                P::Float(n.as_f64().unwrap_or(f64::NAN))
            }
        }
        Y::String(s) => P::Str(s.clone()),
        Y::Sequence(xs) => P::Arr(xs.iter().map(yaml_to_p).collect()),
        Y::Mapping(m) => P::Obj(m.iter().map(|(k, v)| (yaml_to_p(k), yaml_to_p(v))).collect()),
        Y::Tagged(_) => P::Opaque("yaml-tag"),
    }
}

pub fn toml_to_p(v: &toml::Value) -> P {
    use toml::Value as T;
    match v {
        T::String(s) => P::Str(s.clone()),
        T::Integer(i) => P::Int(*i as i128),
        T::Float(f) => P::Float(*f),
        T::Boolean(b) => P::Bool(*b),
        T::Datetime(_) => P::Opaque("toml-datetime"),
        T::Array(xs) => P::Arr(xs.iter().map(toml_to_p).collect()),
        T::Table(m) => P::Obj(m.iter().map(|(k, v)| (P::Str(k.clone()), toml_to_p(v))).collect()),
    }
}

// ---------------------------------------------------------------------------------------
// generation

pub const KEYWORDS: [&str; 21] = [
    "and", "break", "do", "else", "elseif", "end", "false", "for", "function", "if", "in", "local", "nil", "not",
    "or", "repeat", "return", "then", "true", "until", "while",
];

/// code points whose UTF-8 encodings together contain every byte value that valid UTF-8 can
/// contain (00–7F, 80–BF, C2–DF, E0–EF, F0–F4)
pub fn all_byte_code_points() -> Vec<char> {
    let mut v: Vec<char> = (0u32..0x80).filter_map(char::from_u32).collect();
    for lead in 0xC2u32..=0xDF {
        for cont in [0x80u32, 0xBF, 0x80 + (lead & 0x3f)] {
            v.push(char::from_u32(((lead & 0x1f) << 6) | (cont & 0x3f)).unwrap());
        }
    }
    for lead in 0xE0u32..=0xEF {
        let second = if lead == 0xE0 { 0xA0 } else if lead == 0xED { 0x80 } else { 0x9A & 0xBF };
        v.push(char::from_u32(((lead & 0x0f) << 12) | ((second & 0x3f) << 6) | 0x2b).unwrap());
    }
    for cp in [0x10000u32, 0x1F600, 0x40000, 0x80000, 0xC0000, 0x100000, 0x10FFFF] {
        v.push(char::from_u32(cp).unwrap());
    }
    v
}

const AWKWARD_STRINGS: [&str; 40] = [
    "", "a", "_", "do", "end", "nil", "1", "1a", "a1", "a b", "a-b", "a.b", "'", "\"", "'\"", "\\", "\\n", "\n", "\r",
    "\r\n", "\t", "\0", "\01", "\u{1}9", "\u{7f}", "é", "\u{130}0", "\u{2028}", "\u{ffff}", "\u{10ffff}", "😀",
    "]]", "]=]", "--", "[[x]]", "\\u{41}", "${x}", "`", "{", "a\0b",
];

pub struct Caps {
    pub nulls: bool,
    pub scalar_keys: bool,
    pub nonfinite: bool,
    pub hex: bool,
    /// largest magnitude for integer literals written as integers: u64 / i64 range of the parsers
    pub int_min: i128,
    pub int_max: i128,
    /// F15 region allowed (null / NaN keys, keys equal as Lua numbers)
    pub defective_keys: bool,
}

pub fn caps(fmt: Fmt) -> Caps {
    match fmt {
        Fmt::Json => Caps { nulls: true, scalar_keys: false, nonfinite: false, hex: false, int_min: i64::MIN as i128, int_max: u64::MAX as i128, defective_keys: false },
        Fmt::Json5 => Caps { nulls: true, scalar_keys: false, nonfinite: false, hex: true, int_min: i64::MIN as i128, int_max: u64::MAX as i128, defective_keys: false },
        Fmt::Yaml => Caps { nulls: true, scalar_keys: true, nonfinite: true, hex: true, int_min: i64::MIN as i128, int_max: u64::MAX as i128, defective_keys: false },
        Fmt::Toml => Caps { nulls: false, scalar_keys: false, nonfinite: true, hex: true, int_min: i64::MIN as i128, int_max: i64::MAX as i128, defective_keys: false },
    }
}

pub fn gen_string(rng: &mut Rng) -> String {
    match rng.below(10) {
        0 | 1 => (*rng.pick(&AWKWARD_STRINGS)).to_owned(),
        2 => (*rng.pick(&KEYWORDS)).to_owned(),
        3 => {
            // identifier-like
            let n = 1 + rng.below(6);
            let mut s = String::new();
            for i in 0..n {
                let alphabet: &[u8] = if i == 0 && rng.chance(7, 8) { b"abcXYZ_" } else { b"abcXYZ_0123456789" };
                s.push(*rng.pick(alphabet) as char);
            }
            s
        }
        4 => {
            // long: candidates for long-bracket output (>= 20 bytes with >= 6 newlines, or >= 60 bytes)
            let n = 18 + rng.below(60);
            let mut s = String::new();
            if rng.chance(1, 4) {
                s.push('\n');
            }
            // mostly printable text and line feeds (the long-bracket form); sometimes other line
            // breaks and white space (CR, CR LF, LF CR, TAB, FF), which must keep the string quoted
            let other_breaks = rng.chance(1, 3);
            for _ in 0..n {
                if other_breaks && rng.chance(1, 10) {
                    s.push_str(*rng.pick(&["\r", "\r\n", "\n\r", "\r", "\t", "\u{c}", "\u{b}"]));
                } else {
                    s.push(*rng.pick(b"abc xyz\n\n'\"-[=]") as char);
                }
            }
            s
        }
        5 => {
            // every byte class
            let cps = all_byte_code_points();
            let n = 1 + rng.below(5);
            (0..n).map(|_| *rng.pick(&cps)).collect()
        }
        _ => {
            let n = rng.below(9);
            let mut s = String::new();
            for _ in 0..n {
                match rng.below(12) {
                    0 => s.push(char::from_u32(rng.below(0x20) as u32).unwrap()),
                    1 => s.push(*rng.pick(&['\'', '"', '\\', '\n', '\r', '\t', '\0', '\u{7f}'])),
                    2 => s.push(*rng.pick(&['é', 'ß', '\u{80}', '\u{a0}', '\u{7ff}', '\u{800}', '\u{2028}', '\u{2029}', '\u{feff}', '\u{fffd}', '\u{ffff}', '😀', '\u{10ffff}', '\u{85}'])),
                    3 => s.push(*rng.pick(b"0123456789") as char),
                    4 => s.push(*rng.pick(b"]=[-{}`$#:,&*!|>%@?") as char),
                    _ => s.push(*rng.pick(b"abcdefXYZ_ ") as char),
                }
            }
            s
        }
    }
}

pub fn gen_num(rng: &mut Rng, c: &Caps) -> GNum {
    let clamp = |v: i128| -> GNum {
        if v < c.int_min || v > c.int_max {
            GNum::Dec(format!("{}.0", v))
        } else {
            GNum::Int(v.to_string())
        }
    };
    match rng.below(12) {
        0 => clamp(rng.range(-20, 20) as i128),
        1 => {
            // around 2^53 and beyond
            let base: i128 = 1i128 << (53 + rng.below(11));
            let v = base + rng.range(-3, 3) as i128;
            clamp(if rng.chance(1, 2) { -v } else { v })
        }
        2 => clamp(*rng.pick(&[
            i64::MAX as i128, i64::MIN as i128, u64::MAX as i128, (1i128 << 53) + 1, (1i128 << 53) - 1, -(1i128 << 53) - 1,
            (1i128 << 63), (1i128 << 63) + 1025, u64::MAX as i128 - 1023, u64::MAX as i128 - 1024, 9007199254740993, 0,
        ])),
        3 => clamp(rng.next_u64() as i128 >> rng.below(64)),
        4 => clamp(-((rng.next_u64() >> 1) as i128 >> rng.below(63))),
        5 => {
            let a = rng.range(-9999, 9999);
            let b = rng.below(100000);
            GNum::Dec(format!("{}.{}", a, b))
        }
        6 => {
            let m = rng.range(-999, 999);
            let f = rng.below(1000);
            let e = rng.range(-320, 300);
            let (ech, sign) = (*rng.pick(&["e", "E"]), if e >= 0 && rng.chance(1, 2) { "+" } else { "" });
            GNum::Dec(format!("{}.{}{}{}{}", m, f, ech, sign, e))
        }
        7 => GNum::Dec((*rng.pick(&[
            "0.1", "-0.0", "0.0", "1.0e21", "1.0e-7", "5.0e-324", "1.7976931348623157e308", "2.2250738585072014e-308",
            "0.30000000000000004", "123456789012345678901234567890.0", "9007199254740993.0", "1.0e22", "1.0e23", "0.5",
        ]))
        .to_owned()),
        8 if c.hex => GNum::Hex(if rng.chance(1, 2) { rng.below(256) as u64 } else { rng.next_u64() >> rng.below(64) }.min(c.int_max as u64)),
        9 if c.nonfinite => match rng.below(3) {
            0 => GNum::Inf(false),
            1 => GNum::Inf(true),
            _ => GNum::NaN,
        },
        _ => clamp(rng.range(-1000000, 1000000) as i128),
    }
}

fn lua_key_of(k: &GKey) -> Option<String> {
    // identity used to keep keys of one object distinct *as Lua keys*
    match k {
        GKey::Str(s) => Some(format!("s{}", s)),
        GKey::Bool(b) => Some(format!("b{}", b)),
        GKey::Num(n) => {
            let f = n.expected();
            if f.is_nan() {
                None
            } else if f == 0.0 {
                Some("n0".into())
            } else {
                Some(format!("n{:016x}", f.to_bits()))
            }
        }
        GKey::Null => None,
    }
}

pub fn gen_doc(rng: &mut Rng, fmt: Fmt, depth: usize, c: &Caps) -> G {
    let leaf = depth == 0 || rng.chance(2, 5);
    if leaf {
        return match rng.below(10) {
            0 if c.nulls => G::Null,
            1 => G::Bool(rng.chance(1, 2)),
            2 | 3 | 4 => G::Num(gen_num(rng, c)),
            5 => {
                if rng.chance(1, 2) {
                    G::Arr(vec![])
                } else {
                    G::Obj(vec![])
                }
            }
            _ => G::Str(gen_string(rng)),
        };
    }
    if rng.chance(1, 2) {
        let n = rng.below(6);
        G::Arr((0..n).map(|_| gen_doc(rng, fmt, depth - 1, c)).collect())
    } else {
        let n = rng.below(7);
        let mut seen = std::collections::HashSet::new();
        let mut kvs = Vec::new();
        for _ in 0..n {
            let k = if c.scalar_keys && rng.chance(1, 4) {
                match rng.below(if c.defective_keys { 4 } else { 2 }) {
                    0 => GKey::Bool(rng.chance(1, 2)),
                    1 => {
                        let mut n = gen_num(rng, c);
                        if !c.defective_keys && matches!(n, GNum::NaN) {
                            n = GNum::Int("7".into());
                        }
                        GKey::Num(n)
                    }
                    2 => GKey::Null,
                    _ => GKey::Num(GNum::NaN),
                }
            } else {
                GKey::Str(gen_string(rng))
            };
            let id = lua_key_of(&k);
            let fresh = match &id {
                Some(id) => seen.insert(id.clone()),
                None => seen.insert(format!("?{:?}", k)),
            };
            if fresh {
                kvs.push((k, gen_doc(rng, fmt, depth - 1, c)));
            }
        }
        G::Obj(kvs)
    }
}

// ---------------------------------------------------------------------------------------
// rendering

fn json_string(s: &str, rng: &mut Rng, out: &mut String, five: bool) {
    let single = five && rng.chance(1, 3);
    let q = if single { '\'' } else { '"' };
    out.push(q);
    for ch in s.chars() {
        let cp = ch as u32;
        if ch == q {
            out.push('\\');
            out.push(q);
        } else if ch == '\\' {
            out.push_str("\\\\");
        } else if cp < 0x20 || cp == 0x7f || (five && (cp == 0x2028 || cp == 0x2029) && rng.chance(1, 2)) {
            match ch {
                '\n' if rng.chance(1, 2) => out.push_str("\\n"),
                '\t' if rng.chance(1, 2) => out.push_str("\\t"),
                '\r' if rng.chance(1, 2) => out.push_str("\\r"),
                '\u{8}' if rng.chance(1, 2) => out.push_str("\\b"),
                '\u{c}' if rng.chance(1, 2) => out.push_str("\\f"),
                '\0' if five && rng.chance(1, 3) => out.push_str("\\x00"),
                _ if five && cp < 0x100 && rng.chance(1, 3) => out.push_str(&format!("\\x{:02x}", cp)),
                _ => out.push_str(&format!("\\u{:04x}", cp)),
            }
        } else if cp >= 0x80 && rng.chance(1, 3) {
            let mut buf = [0u16; 2];
            for u in ch.encode_utf16(&mut buf) {
                out.push_str(&format!("\\u{:04X}", u));
            }
        } else if ch == '/' && rng.chance(1, 4) {
            out.push_str("\\/");
        } else {
            out.push(ch);
        }
    }
    out.push(q);
}

fn is_ident(s: &str) -> bool {
    let mut it = s.chars();
    match it.next() {
        Some(c) if c.is_ascii_alphabetic() || c == '_' => it.all(|c| c.is_ascii_alphanumeric() || c == '_'),
        _ => false,
    }
}

fn num_text(n: &GNum, fmt: Fmt, rng: &mut Rng) -> String {
    match (n, fmt) {
        (GNum::Int(t), Fmt::Json5) if !t.starts_with('-') && rng.chance(1, 6) => format!("+{}", t),
        (GNum::Int(t), Fmt::Yaml) | (GNum::Int(t), Fmt::Toml) if !t.starts_with('-') && rng.chance(1, 8) => format!("+{}", t),
        (GNum::Int(t), Fmt::Toml) if t.len() > 4 && rng.chance(1, 6) => {
            // underscores between digits
            let (sign, digits) = if let Some(d) = t.strip_prefix('-') { ("-", d) } else { ("", t.as_str()) };
            let cut = digits.len() - 3;
            format!("{}{}_{}", sign, &digits[..cut], &digits[cut..])
        }
        (GNum::Int(t), _) => t.clone(),
        (GNum::Dec(t), Fmt::Json5) if t.starts_with("0.") && !t.contains('e') && rng.chance(1, 4) => t[1..].to_owned(),
        (GNum::Dec(t), _) => t.clone(),
        (GNum::Hex(v), Fmt::Json5) => {
            if rng.chance(1, 2) {
                format!("0x{:x}", v)
            } else {
                format!("0X{:X}", v)
            }
        }
        (GNum::Hex(v), Fmt::Yaml) | (GNum::Hex(v), Fmt::Toml) => format!("0x{:x}", v),
        (GNum::Hex(v), Fmt::Json) => v.to_string(),
        (GNum::Inf(neg), Fmt::Yaml) => (if *neg { "-.inf" } else { *rng.pick(&[".inf", ".Inf", "+.inf"]) }).to_owned(),
        (GNum::Inf(neg), Fmt::Toml) => (if *neg { "-inf" } else { *rng.pick(&["inf", "+inf"]) }).to_owned(),
        (GNum::Inf(neg), _) => (if *neg { "-Infinity" } else { "Infinity" }).to_owned(),
        (GNum::NaN, Fmt::Yaml) => (*rng.pick(&[".nan", ".NaN", ".NAN"])).to_owned(),
        (GNum::NaN, Fmt::Toml) => (*rng.pick(&["nan", "+nan", "-nan"])).to_owned(),
        (GNum::NaN, _) => "NaN".to_owned(),
    }
}

fn render_json(g: &G, five: bool, rng: &mut Rng, out: &mut String) {
    let fmt = if five { Fmt::Json5 } else { Fmt::Json };
    let sp = |rng: &mut Rng, out: &mut String| {
        if rng.chance(1, 4) {
            out.push_str(*rng.pick(&[" ", "\n", "\t", "  "]));
        }
        if five && rng.chance(1, 20) {
            out.push_str(*rng.pick(&["/* c */", "// c\n"]));
        }
    };
    match g {
        G::Null => out.push_str("null"),
        G::Bool(b) => out.push_str(if *b { "true" } else { "false" }),
        G::Num(n) => out.push_str(&num_text(n, fmt, rng)),
        G::Str(s) => json_string(s, rng, out, five),
        G::Arr(xs) => {
            out.push('[');
            for (i, x) in xs.iter().enumerate() {
                if i > 0 {
                    out.push(',');
                }
                sp(rng, out);
                render_json(x, five, rng, out);
                sp(rng, out);
            }
            if five && !xs.is_empty() && rng.chance(1, 4) {
                out.push(',');
            }
            out.push(']');
        }
        G::Obj(kvs) => {
            out.push('{');
            for (i, (k, v)) in kvs.iter().enumerate() {
                if i > 0 {
                    out.push(',');
                }
                sp(rng, out);
                let ks = match k {
                    GKey::Str(s) => s.clone(),
                    other => format!("{:?}", other),
                };
                if five && is_ident(&ks) && rng.chance(1, 2) {
                    out.push_str(&ks);
                } else {
                    json_string(&ks, rng, out, five);
                }
                sp(rng, out);
                out.push(':');
                sp(rng, out);
                render_json(v, five, rng, out);
                sp(rng, out);
            }
            if five && !kvs.is_empty() && rng.chance(1, 4) {
                out.push(',');
            }
            out.push('}');
        }
    }
}

fn yaml_string(s: &str, rng: &mut Rng, out: &mut String) {
    const SPECIAL: [&str; 14] = ["true", "false", "null", "yes", "no", "on", "off", "y", "n", "nan", "inf", "~", "nil", "none"];
    if is_ident(s) && !SPECIAL.contains(&s.to_ascii_lowercase().as_str()) && rng.chance(1, 3) {
        out.push_str(s);
        return;
    }
    let printable = |ch: char| {
        let cp = ch as u32;
        (0x20..=0x7e).contains(&cp) || ((0xa0..=0xd7ff).contains(&cp) && cp != 0x2028 && cp != 0x2029) || ((0xe000..=0xfffd).contains(&cp) && cp != 0xfeff) || cp >= 0x10000
    };
    if !s.is_empty() && s.chars().all(|c| printable(c) && c != '\n') && rng.chance(1, 4) {
        // single-quoted: only '' is special
        out.push('\'');
        out.push_str(&s.replace('\'', "''"));
        out.push('\'');
        return;
    }
    out.push('"');
    for ch in s.chars() {
        let cp = ch as u32;
        match ch {
            '"' => out.push_str("\\\""),
            '\\' => out.push_str("\\\\"),
            '\0' if rng.chance(1, 2) => out.push_str("\\0"),
            '\n' if rng.chance(1, 2) => out.push_str("\\n"),
            '\t' if rng.chance(1, 2) => out.push_str("\\t"),
            '\r' if rng.chance(1, 2) => out.push_str("\\r"),
            '\u{7}' if rng.chance(1, 2) => out.push_str("\\a"),
            '\u{1b}' if rng.chance(1, 2) => out.push_str("\\e"),
            '\u{85}' if rng.chance(1, 2) => out.push_str("\\N"),
            '\u{a0}' if rng.chance(1, 2) => out.push_str("\\_"),
            '\u{2028}' if rng.chance(1, 2) => out.push_str("\\L"),
            '\u{2029}' if rng.chance(1, 2) => out.push_str("\\P"),
            _ if printable(ch) && !rng.chance(1, 6) => out.push(ch),
            _ if cp < 0x100 => out.push_str(&format!("\\x{:02x}", cp)),
            _ if cp < 0x10000 => out.push_str(&format!("\\u{:04x}", cp)),
            _ => out.push_str(&format!("\\U{:08x}", cp)),
        }
    }
    out.push('"');
}

fn render_yaml_flow(g: &G, rng: &mut Rng, out: &mut String) {
    match g {
        G::Null => out.push_str(*rng.pick(&["null", "~", "Null", "NULL"])),
        G::Bool(b) => out.push_str(if *b { *rng.pick(&["true", "True", "TRUE"]) } else { *rng.pick(&["false", "False", "FALSE"]) }),
        G::Num(n) => out.push_str(&num_text(n, Fmt::Yaml, rng)),
        G::Str(s) => yaml_string(s, rng, out),
        G::Arr(xs) => {
            out.push('[');
            for (i, x) in xs.iter().enumerate() {
                if i > 0 {
                    out.push_str(", ");
                }
                render_yaml_flow(x, rng, out);
            }
            out.push(']');
        }
        G::Obj(kvs) => {
            out.push('{');
            for (i, (k, v)) in kvs.iter().enumerate() {
                if i > 0 {
                    out.push_str(", ");
                }
                yaml_key(k, rng, out);
                out.push_str(": ");
                render_yaml_flow(v, rng, out);
            }
            out.push('}');
        }
    }
}

fn yaml_key(k: &GKey, rng: &mut Rng, out: &mut String) {
    match k {
        GKey::Str(s) => yaml_string(s, rng, out),
        GKey::Bool(b) => out.push_str(if *b { "true" } else { "false" }),
        GKey::Num(n) => out.push_str(&num_text(n, Fmt::Yaml, rng)),
        GKey::Null => out.push_str(*rng.pick(&["~", "null"])),
    }
}

fn render_yaml(g: &G, rng: &mut Rng, out: &mut String) {
    // block style at the top level now and then, flow style below
    match g {
        G::Obj(kvs) if !kvs.is_empty() && rng.chance(1, 3) => {
            for (k, v) in kvs {
                yaml_key(k, rng, out);
                out.push_str(": ");
                render_yaml_flow(v, rng, out);
                out.push('\n');
            }
        }
        G::Arr(xs) if !xs.is_empty() && rng.chance(1, 3) => {
            for x in xs {
                out.push_str("- ");
                render_yaml_flow(x, rng, out);
                out.push('\n');
            }
        }
        _ => {
            render_yaml_flow(g, rng, out);
            out.push('\n');
        }
    }
}

fn toml_string(s: &str, rng: &mut Rng, out: &mut String, key: bool) {
    let literal_ok = !s.contains('\'') && s.chars().all(|c| c == '\t' || ((c as u32) >= 0x20 && c as u32 != 0x7f));
    if literal_ok && rng.chance(1, 4) {
        out.push('\'');
        out.push_str(s);
        out.push('\'');
        return;
    }
    if !key && s.contains('\n') && !s.contains("\"\"\"") && !s.contains('\r') && rng.chance(1, 3) {
        // multi-line basic string; a newline right after the opening delimiter is trimmed
        out.push_str("\"\"\"\n");
        for ch in s.chars() {
            let cp = ch as u32;
            match ch {
                '\\' => out.push_str("\\\\"),
                '"' => out.push_str("\\\""),
                '\n' => out.push('\n'),
                _ if cp < 0x20 && ch != '\t' || cp == 0x7f => out.push_str(&format!("\\u{:04x}", cp)),
                _ => out.push(ch),
            }
        }
        out.push_str("\"\"\"");
        return;
    }
    out.push('"');
    for ch in s.chars() {
        let cp = ch as u32;
        match ch {
            '"' => out.push_str("\\\""),
            '\\' => out.push_str("\\\\"),
            '\n' if rng.chance(1, 2) => out.push_str("\\n"),
            '\t' if rng.chance(1, 2) => out.push_str("\\t"),
            '\r' if rng.chance(1, 2) => out.push_str("\\r"),
            '\u{8}' if rng.chance(1, 2) => out.push_str("\\b"),
            '\u{c}' if rng.chance(1, 2) => out.push_str("\\f"),
            _ if (cp < 0x20 && ch != '\t') || cp == 0x7f => out.push_str(&format!("\\u{:04X}", cp)),
            _ if cp >= 0x80 && rng.chance(1, 4) => {
                if cp < 0x10000 {
                    out.push_str(&format!("\\u{:04x}", cp))
                } else {
                    out.push_str(&format!("\\U{:08x}", cp))
                }
            }
            _ => out.push(ch),
        }
    }
    out.push('"');
}

fn toml_key(s: &str, rng: &mut Rng, out: &mut String) {
    let bare = !s.is_empty() && s.chars().all(|c| c.is_ascii_alphanumeric() || c == '_' || c == '-');
    if bare && rng.chance(2, 3) {
        out.push_str(s);
    } else {
        toml_string(s, rng, out, true);
    }
}

fn render_toml_value(g: &G, rng: &mut Rng, out: &mut String) {
    match g {
        G::Null => out.push_str("\"<null>\""), // never generated for TOML
        G::Bool(b) => out.push_str(if *b { "true" } else { "false" }),
        G::Num(n) => out.push_str(&num_text(n, Fmt::Toml, rng)),
        G::Str(s) => toml_string(s, rng, out, false),
        G::Arr(xs) => {
            out.push('[');
            for (i, x) in xs.iter().enumerate() {
                if i > 0 {
                    out.push_str(", ");
                }
                render_toml_value(x, rng, out);
            }
            out.push(']');
        }
        G::Obj(kvs) => {
            out.push_str("{ ");
            for (i, (k, v)) in kvs.iter().enumerate() {
                if i > 0 {
                    out.push_str(", ");
                }
                if let GKey::Str(s) = k {
                    toml_key(s, rng, out);
                }
                out.push_str(" = ");
                render_toml_value(v, rng, out);
            }
            out.push_str(" }");
        }
    }
}

fn render_toml(g: &G, rng: &mut Rng, out: &mut String) {
    let kvs = match g {
        G::Obj(kvs) => kvs,
        _ => unreachable!("TOML documents are tables"),
    };
    // plain keys first, then some object-valued keys as [sections]
    let mut sections = Vec::new();
    for (k, v) in kvs {
        let name = match k {
            GKey::Str(s) => s,
            _ => continue,
        };
        if let G::Obj(inner) = v {
            if rng.chance(1, 2) {
                sections.push((name, inner));
                continue;
            }
        }
        toml_key(name, rng, out);
        out.push_str(" = ");
        render_toml_value(v, rng, out);
        out.push('\n');
    }
    for (name, inner) in sections {
        out.push('[');
        toml_key(name, rng, out);
        out.push_str("]\n");
        for (k, v) in inner {
            if let GKey::Str(s) = k {
                toml_key(s, rng, out);
                out.push_str(" = ");
                render_toml_value(v, rng, out);
                out.push('\n');
            }
        }
    }
}

pub fn render(g: &G, fmt: Fmt, rng: &mut Rng) -> String {
    let mut out = String::new();
    match fmt {
        Fmt::Json => render_json(g, false, rng, &mut out),
        Fmt::Json5 => render_json(g, true, rng, &mut out),
        Fmt::Yaml => render_yaml(g, rng, &mut out),
        Fmt::Toml => render_toml(g, rng, &mut out),
    }
    out
}

/// a document for `fmt` (TOML: the root is a table)
pub fn gen_document(rng: &mut Rng, fmt: Fmt, c: &Caps) -> G {
    let depth = 1 + rng.below(4);
    if fmt == Fmt::Toml {
        loop {
            let g = gen_doc(rng, fmt, depth, c);
            if let G::Obj(_) = g {
                return g;
            }
        }
    }
    gen_doc(rng, fmt, depth, c)
}
