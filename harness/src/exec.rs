//! Execution oracle plumbing shared by the rule properties: parse Lua text with darklua's own
//! parser, apply real rules to the AST, run trees on the Lean reference semantics.
use crate::model::Model;
use darklua_core::nodes::Block;
use darklua_core::rules::{ContextBuilder, Rule};
use darklua_core::Resources;

pub fn parse(code: &str) -> Result<Block, String> {
    darklua_core::Parser::default().parse(code).map_err(|e| format!("{:?}", e))
}

pub fn parse_with_tokens(code: &str) -> Result<Block, String> {
    darklua_core::Parser::default().preserve_tokens().parse(code).map_err(|e| format!("{:?}", e))
}

/// a rule by name with JSON5 properties, e.g. rule_from_json("'remove_empty_do'") or
/// rule_from_json("{ rule: 'inject_global_value', identifier: 'X', value: 1 }")
pub fn rule_from_json(text: &str) -> Result<Box<dyn Rule>, String> {
    json5::from_str::<Box<dyn Rule>>(text).map_err(|e| e.to_string())
}

/// Apply rules in order to a block, the way `Worker::apply_rules` does (one context per rule).
pub fn apply_rules(block: &mut Block, rules: &[Box<dyn Rule>], code: &str) -> Result<(), String> {
    let resources = Resources::from_memory();
    for rule in rules {
        let context = ContextBuilder::new("src/test.lua", &resources, code).build();
        rule.process(block, &context)?;
    }
    Ok(())
}

fn extern_list() -> String {
    let names: Vec<String> = crate::progen::EXTERNS.iter().map(|n| crate::model::hex(n.as_bytes())).collect();
    format!("({})", names.join(" "))
}

/// Run a block on the Lean reference semantics at the given level; returns the outcome S-expression
/// `(ok (values…) (trace…))`, `(err value (trace…))`, `timeout`, or a protocol error token.
pub fn run_block(model: &mut Model, level: u32, block: &Block) -> String {
    let sexp = crate::astsexp::block_to_sexp(block);
    model.ask(&format!("sem.run {} {} {}", level, extern_list(), sexp))
}

pub fn run_request(level: u32, block: &Block) -> String {
    format!("sem.run {} {} {}", level, extern_list(), crate::astsexp::block_to_sexp(block))
}

pub fn outcome_ok(outcome: &str) -> bool {
    outcome.starts_with("(ok ")
}
