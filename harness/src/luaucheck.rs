//! Shared by C06 and C07 (the Luau-lowering rules): rule correspondence + execution oracle as in
//! `rulecheck.rs`, extended with
//!  * the hypothesis `H` of the partial theorems (`c06.hyp`): programs outside `H` are listed
//!    defect regions — an oracle failure there is counted, not reported,
//!  * an INDEPENDENT feature census over the wire S-expression of the real output tree (a plain
//!    traversal of the S-expression: neither darklua's visitor nor the Lean census).
use crate::astsexp::{self, Sexp};
use crate::exec;
use crate::model::{hex, Model};
use crate::report::{Report, Violation};
use crate::rulecheck::{self, CaseResult};
use darklua_core::rules::Rule;
use serde_json::json;

pub const RULES: [&str; 9] = [
    "remove_continue",
    "remove_types",
    "remove_compound_assignment",
    "remove_if_expression",
    "remove_interpolated_string",
    "remove_floor_division",
    "convert_luau_number",
    "make_assignment_local",
    "remove_attribute",
];

fn head_is(s: &Sexp, name: &str) -> bool {
    match s {
        Sexp::List(items) => matches!(items.first(), Some(Sexp::Atom(a)) if a == name),
        _ => false,
    }
}

/// Independent census over the wire tree: occurrences of the construct each rule targets.
pub fn sexp_census(rule: &str, s: &Sexp) -> usize {
    let mut n = 0;
    match s {
        Sexp::Atom(a) => {
            if rule == "remove_continue" && a == "continue" {
                n += 1;
            }
        }
        Sexp::List(items) => {
            let head = match items.first() {
                Some(Sexp::Atom(a)) => a.as_str(),
                _ => "",
            };
            let second = match items.get(1) {
                Some(Sexp::Atom(a)) => a.as_str(),
                _ => "",
            };
            let own = match rule {
                "remove_compound_assignment" => head == "cassign",
                "remove_if_expression" => head == "ifx",
                "remove_interpolated_string" => head == "interp",
                "remove_floor_division" => (head == "bin" || head == "cassign") && second == "idiv",
                "make_assignment_local" => (head == "local" || head == "localfn") && second == "const",
                "remove_types" => matches!(head, "cast" | "inst" | "typedecl" | "typefn" | "ty" | "typeof"),
                _ => false,
            };
            if own {
                n += 1;
            }
            if head == "fnbody" && items.len() == 8 {
                // (fnbody params variadic varTy ret generics attrs body)
                if rule == "remove_types" {
                    if let Sexp::List(g) = &items[5] {
                        n += g.len();
                    }
                }
                if rule == "remove_attribute" {
                    if let Sexp::List(a) = &items[6] {
                        n += a.len();
                    }
                }
            }
            for item in items {
                n += sexp_census(rule, item);
            }
        }
    }
    n
}

pub fn sexp_census_all(s: &Sexp) -> usize {
    RULES.iter().map(|r| sexp_census(r, s)).sum()
}

pub struct LuauCase<'a> {
    pub rule_name: &'a str,
    pub rule_json: &'a str,
    /// the name the Lean driver knows the configuration by (e.g. "remove_interpolated_string:tostring")
    pub model_name: &'a str,
    /// report census failures (C07) / behaviour failures (C06)
    pub check_census: bool,
    pub check_behaviour: bool,
}

fn model_rule(model: &mut Model, model_name: &str, sexp0: &str) -> String {
    // (the verdicts of the static evaluator are computed by the Lean model of the evaluator now)
    model.ask(&format!("c06.rule {} {}", hex(model_name.as_bytes()), sexp0))
}

fn lean_hypothesis(model: &mut Model, model_name: &str, sexp0: &str) -> bool {
    let base = model_name.split(':').next().unwrap_or(model_name);
    model.ask(&format!("c06.hyp {} {}", hex(base.as_bytes()), sexp0)) == "true"
}

/// every `continue` is inside a loop of the same function (hypothesis of the C07 theorem for remove_continue)
pub fn continue_in_loops(model: &mut Model, sexp0: &str) -> bool {
    lean_hypothesis(model, "remove_continue", sexp0)
}

pub fn continue_in_loops_code(model: &mut Model, code: &str) -> bool {
    match exec::parse(code) {
        Ok(b) => continue_in_loops(model, &astsexp::block_to_sexp(&b)),
        Err(_) => false,
    }
}

/// C07: is the program inside the hypothesis of `census_zero_<rule>`?
pub fn census_hypothesis(model: &mut Model, model_name: &str, sexp0: &str) -> bool {
    if model_name.starts_with("remove_continue") {
        continue_in_loops(model, sexp0)
    } else if model_name.starts_with("remove_if_expression") {
        // the decidable fuel hypothesis of census_zero_remove_if_expression (never false in practice)
        model.ask(&format!("c06.fuelok {}", sexp0)) == "true"
    } else {
        true
    }
}

fn contains_atom(s: &Sexp, atom: &str) -> bool {
    match s {
        Sexp::Atom(a) => a == atom,
        Sexp::List(items) => items.iter().any(|i| contains_atom(i, atom)),
    }
}

fn mentions_var(s: &Sexp, name_atom: &str) -> bool {
    match s {
        Sexp::Atom(_) => false,
        Sexp::List(items) => {
            if items.len() == 2 && head_is(s, "var") {
                if let Sexp::Atom(a) = &items[1] {
                    if a == name_atom {
                        return true;
                    }
                }
            }
            items.iter().any(|i| mentions_var(i, name_atom))
        }
    }
}

/// Finding F9's region: some `repeat` whose body contains `continue` and whose `until`
/// condition reads a variable declared by a `local` statement directly in the body.
pub fn f9_region(s: &Sexp) -> bool {
    if let Sexp::List(items) = s {
        if head_is(s, "repeat") && items.len() == 3 {
            let body = &items[1];
            let cond = &items[2];
            if contains_atom(body, "continue") {
                if let Sexp::List(b) = body {
                    if let Some(Sexp::List(stmts)) = b.get(1) {
                        for st in stmts {
                            if let Sexp::List(parts) = st {
                                if head_is(st, "local") && parts.len() == 4 {
                                    if let Sexp::List(names) = &parts[2] {
                                        for n in names {
                                            if let Sexp::List(np) = n {
                                                if let Some(Sexp::Atom(name)) = np.get(1) {
                                                    if mentions_var(cond, name) {
                                                        return true;
                                                    }
                                                }
                                            }
                                        }
                                    }
                                }
                                if head_is(st, "localfn") && parts.len() == 4 {
                                    if let Sexp::Atom(name) = &parts[2] {
                                        if mentions_var(cond, name) {
                                            return true;
                                        }
                                    }
                                }
                            }
                        }
                    }
                }
            }
        }
        items.iter().any(f9_region)
    } else {
        false
    }
}

/// C06: is the program inside the hypothesis of the behaviour theorems of that rule?
/// remove_continue: no `continue` outside loops and not the F9 shape; remove_floor_division: no
/// `__idiv` metamethod (F26). (F25 and F28 were fixed in /repo.)
pub fn behaviour_hypothesis(model: &mut Model, model_name: &str, sexp0: &str, code: &str) -> bool {
    if model_name.starts_with("remove_continue") {
        continue_in_loops(model, sexp0) && !Sexp::parse(sexp0).map(|t| f9_region(&t)).unwrap_or(true)
    } else if model_name.starts_with("remove_floor_division") {
        // F26 (`__idiv`, inherent); F25 and F28 are fixed: nothing is excused for them any more
        !code.contains("__idiv")
    } else {
        true
    }
}

pub fn behaviour_hypothesis_all(model: &mut Model, sexp0: &str, code: &str) -> bool {
    RULES.iter().all(|r| behaviour_hypothesis(model, r, sexp0, code))
}

/// One program through one rule: WF of the input tree, correspondence with the Lean model,
/// independent census of the REAL output (C07), execution oracle (C06).
pub fn check_program(model: &mut Model, report: &mut Report, case: &LuauCase, code: &str) -> CaseResult {
    let block0 = match exec::parse(code) {
        Ok(b) => b,
        Err(_) => return CaseResult::Skipped("parse"),
    };
    let rule = match exec::rule_from_json(case.rule_json) {
        Ok(r) => r,
        Err(e) => panic!("bad rule configuration {}: {}", case.rule_json, e),
    };
    let rules: Vec<Box<dyn Rule>> = vec![rule];
    let sexp0 = astsexp::block_to_sexp(&block0);
    let mut block1 = block0.clone();
    let applied = std::panic::catch_unwind(std::panic::AssertUnwindSafe(|| exec::apply_rules(&mut block1, &rules, code)));
    match applied {
        Ok(Ok(())) => {}
        Ok(Err(_)) => return CaseResult::Skipped("rule-error"),
        Err(_) => {
            report.violation(Violation {
                kind: "oracle".into(),
                check: format!("{}:panic", case.rule_name),
                what: format!("rule {} panicked", case.rule_name),
                input: json!({"rule": case.rule_json, "code": code}),
                failing_input_found: true,
            });
            return CaseResult::Skipped("panic");
        }
    }
    let sexp1 = astsexp::block_to_sexp(&block1);
    let fired = sexp0 != sexp1;
    let inside_hc = census_hypothesis(model, case.model_name, &sexp0);
    let inside_h = behaviour_hypothesis(model, case.model_name, &sexp0, code);
    if !inside_h {
        report.count("outside_behaviour_hypothesis", 1);
    }
    if !inside_hc {
        report.count("outside_census_hypothesis", 1);
    }
    if case.check_behaviour && case.rule_name == "remove_continue" && fired {
        // the second, loop-by-loop model of remove_continue (Rules/RemoveContinuePost.lean, the one the
        // whole-rule behaviour theorem is about) must produce the REAL tree too, inside its hypothesis
        if !code.contains("__DARKLUA_CONTINUE") && model.ask(&format!("c06.posthyp {}", sexp0)) == "true" {
            let post = model.ask(&format!("c06.rule {} {}", hex("remove_continue:post".as_bytes()), sexp0));
            report.count("remove_continue_post_model_compared", 1);
            if post != sexp1 {
                report.violation(Violation {
                    kind: "correspondence".into(),
                    check: "remove_continue:post-model".into(),
                    what: "the loop-by-loop Lean model of remove_continue and the real rule produce different trees".into(),
                    input: json!({"rule": case.rule_json, "code": code, "model": post, "real": sexp1}),
                    failing_input_found: true,
                });
            }
        } else {
            report.count("remove_continue_post_model_outside_hypothesis", 1);
        }
    }
    if case.check_behaviour && case.rule_name == "remove_compound_assignment" && fired {
        // how much of what is generated lies inside the guard of the whole-rule theorem `compound_partial`
        // (decidable form `Compound.gB`, evaluated by the Lean driver); programs outside it are still judged
        if model.ask(&format!("c06.guard {}", sexp0)) == "true" {
            report.count("compound_partial_guard_holds", 1);
        } else {
            report.count("compound_partial_guard_fails", 1);
        }
    }

    // ---- the trees the theorems quantify over: every parsed program must be well-formed
    if model.ask(&format!("c06.wf {}", sexp0)) != "true" {
        report.violation(Violation {
            kind: "correspondence".into(),
            check: "wf".into(),
            what: "a tree produced by darklua's parser is not well-formed in the sense of Rules.wfB (the theorems assume it)".into(),
            input: json!({"code": code}),
            failing_input_found: false,
        });
    }

    // ---- C07 oracle: independent census of the real output
    let mut oracle_failed = false;
    if case.check_census && inside_hc {
        if let Ok(tree1) = Sexp::parse(&sexp1) {
            let left = sexp_census(case.rule_name, &tree1);
            if left != 0 {
                oracle_failed = true;
                let rule_name = case.rule_name.to_owned();
                let model_name = case.model_name.to_owned();
                let mut fails = |text: &str| -> bool {
                    let b0 = match exec::parse(text) { Ok(b) => b, Err(_) => return false };
                    let mut b1 = b0.clone();
                    if exec::apply_rules(&mut b1, &rules, text).is_err() { return false; }
                    if !census_hypothesis(model, &model_name, &astsexp::block_to_sexp(&b0)) { return false; }
                    match Sexp::parse(&astsexp::block_to_sexp(&b1)) {
                        Ok(t) => sexp_census(&rule_name, &t) != 0,
                        Err(_) => false,
                    }
                };
                let small = rulecheck::shrink_lines(code, &mut fails);
                report.violation(Violation {
                    kind: "oracle".into(),
                    check: format!("{}:census", case.rule_name),
                    what: format!("{} occurrence(s) of the construct remain in the real output of {}", left, case.rule_name),
                    input: json!({"rule": case.rule_json, "code": small}),
                    failing_input_found: true,
                });
            }
            report.count("census_checked", 1);
        }
        // the same question on the TEXT of the real output
        let mut dense = darklua_core::generator::DenseLuaGenerator::default();
        darklua_core::generator::LuaGenerator::write_block(&mut dense, &block1);
        let text = darklua_core::generator::LuaGenerator::into_string(dense);
        let left = text_census(case.rule_name, &text);
        if left != 0 {
            oracle_failed = true;
            report.violation(Violation {
                kind: "oracle".into(),
                check: format!("{}:text-census", case.rule_name),
                what: format!("{} Luau-only token(s) of the construct remain in the dense text of the real output of {}", left, case.rule_name),
                input: json!({"rule": case.rule_json, "code": code, "output": text}),
                failing_input_found: true,
            });
        }
        report.count("text_census_checked", 1);
        // … and on the TOKEN-CARRYING tree (what `darklua process` really transforms): parse with tokens, apply the
        // real rule, write with the token-based generator (retain_lines), scan the text. The Lean model and the tree
        // census work on the token-free tree, where spellings do not exist.
        if let Ok(mut tblock) = exec::parse_with_tokens(code) {
            let applied = std::panic::catch_unwind(std::panic::AssertUnwindSafe(|| exec::apply_rules(&mut tblock, &rules, code)));
            if let Ok(Ok(())) = applied {
                let mut generator = darklua_core::generator::TokenBasedLuaGenerator::new(code);
                darklua_core::generator::LuaGenerator::write_block(&mut generator, &tblock);
                let ttext = darklua_core::generator::LuaGenerator::into_string(generator);
                let left = text_census(case.rule_name, &ttext);
                if left != 0 {
                    oracle_failed = true;
                    report.violation(Violation {
                        kind: "oracle".into(),
                        check: format!("{}:token-text-census", case.rule_name),
                        what: format!(
                            "{} Luau-only token(s) of the construct remain in the token-based (retain_lines) text of the real output of {} applied to the token-carrying tree",
                            left, case.rule_name
                        ),
                        input: json!({"rule": case.rule_json, "code": code, "output": ttext}),
                        failing_input_found: true,
                    });
                }
                report.count("token_text_census_checked", 1);
            }
        }
    }

    // ---- C06 oracle: behaviour of the real output
    if case.check_behaviour {
        if let Some((o0, o1)) = rulecheck::oracle_compare(model, &block0, &block1) {
            if o0 != o1 {
                if inside_h {
                    oracle_failed = true;
                    let model_name = case.model_name.to_owned();
                    let mut fails = |text: &str| -> bool {
                        if rulecheck::oracle_fails(model, &rules, text).is_none() { return false; }
                        match exec::parse(text) {
                            Ok(b) => behaviour_hypothesis(model, &model_name, &astsexp::block_to_sexp(&b), text),
                            Err(_) => false,
                        }
                    };
                    let small = rulecheck::shrink_lines(code, &mut fails);
                    let detail = rulecheck::oracle_fails(model, &rules, &small);
                    report.violation(Violation {
                        kind: "oracle".into(),
                        check: format!("{}:behaviour", case.rule_name),
                        what: format!("rule {} changes the behaviour of a program whose original run is error-free", case.rule_name),
                        input: json!({"rule": case.rule_json, "code": small,
                            "original_outcome": detail.as_ref().map(|d| d.0.clone()),
                            "transformed_outcome": detail.as_ref().map(|d| d.1.clone()),
                            "transformed_tree": detail.as_ref().map(|d| d.2.clone())}),
                        failing_input_found: true,
                    });
                } else {
                    report.count("behaviour_differs_outside_hypothesis", 1);
                }
            }
            report.count("oracle_compared", 1);
        } else {
            report.count("oracle_skipped_original_not_error_free", 1);
        }
    }

    // ---- correspondence with the Lean rule model
    let answer = model_rule(model, case.model_name, &sexp0);
    if answer != sexp1 {
        let model_name = case.model_name.to_owned();
        let mut differs = |text: &str| -> bool {
            let b0 = match exec::parse(text) { Ok(b) => b, Err(_) => return false };
            let mut b1 = b0.clone();
            if exec::apply_rules(&mut b1, &rules, text).is_err() { return false; }
            let s0 = astsexp::block_to_sexp(&b0);
            model_rule(model, &model_name, &s0) != astsexp::block_to_sexp(&b1)
        };
        let small = rulecheck::shrink_lines(code, &mut differs);
        let small_real = exec::parse(&small).ok().map(|b0| {
            let mut b1 = b0.clone();
            let _ = exec::apply_rules(&mut b1, &rules, &small);
            astsexp::block_to_sexp(&b1)
        });
        let small_model = exec::parse(&small).ok().map(|b0| model_rule(model, case.model_name, &astsexp::block_to_sexp(&b0)));
        report.violation(Violation {
            kind: "correspondence".into(),
            check: format!("{}:model", case.rule_name),
            what: format!("Lean model of rule {} and the real rule produce different trees; the theorems about the model no longer speak about this code", case.rule_name),
            input: json!({"rule": case.rule_json, "code": small, "real": small_real, "model": small_model}),
            failing_input_found: oracle_failed,
        });
    }
    report.count("correspondence_compared", 1);
    if fired { CaseResult::Fired } else { CaseResult::Trivial }
}


// ------------------------------------------------------------------------------------------
// census over TEXT: a small Luau-aware scanner (skips strings, comments, long brackets)
// ------------------------------------------------------------------------------------------

fn luau_tokens(text: &str) -> Vec<String> {
    let b = text.as_bytes();
    let mut out = Vec::new();
    let mut i = 0;
    let puncts = ["...", "..=", "//=", "..", "//", "+=", "-=", "*=", "/=", "%=", "^=", "==", "~=", "<=", ">=", "::", "->", "<<", ">>"];
    while i < b.len() {
        let c = b[i];
        if c.is_ascii_whitespace() {
            i += 1;
            continue;
        }
        if c == b'-' && i + 1 < b.len() && b[i + 1] == b'-' {
            // comment (long or short)
            i += 2;
            if i < b.len() && b[i] == b'[' {
                let mut j = i + 1;
                while j < b.len() && b[j] == b'=' {
                    j += 1;
                }
                if j < b.len() && b[j] == b'[' {
                    let level = j - i - 1;
                    let close = format!("]{}]", "=".repeat(level));
                    match text[j..].find(&close) {
                        Some(k) => i = j + k + close.len(),
                        None => i = b.len(),
                    }
                    continue;
                }
            }
            while i < b.len() && b[i] != b'\n' {
                i += 1;
            }
            continue;
        }
        if c == b'[' {
            let mut j = i + 1;
            while j < b.len() && b[j] == b'=' {
                j += 1;
            }
            if j < b.len() && b[j] == b'[' {
                let level = j - i - 1;
                let close = format!("]{}]", "=".repeat(level));
                match text[j..].find(&close) {
                    Some(k) => i = j + k + close.len(),
                    None => i = b.len(),
                }
                out.push("<string>".to_owned());
                continue;
            }
        }
        if c == b'"' || c == b'\'' {
            i += 1;
            while i < b.len() && b[i] != c {
                if b[i] == b'\\' {
                    i += 1;
                }
                i += 1;
            }
            i += 1;
            out.push("<string>".to_owned());
            continue;
        }
        if c == b'`' {
            // interpolated string: skip to the closing backtick (nested braces / quotes skipped roughly)
            out.push("`".to_owned());
            i += 1;
            let mut depth = 0usize;
            while i < b.len() {
                match b[i] {
                    b'\\' => i += 1,
                    b'{' => depth += 1,
                    b'}' => depth = depth.saturating_sub(1),
                    b'`' if depth == 0 => break,
                    _ => {}
                }
                i += 1;
            }
            i += 1;
            continue;
        }
        if c.is_ascii_alphabetic() || c == b'_' {
            let start = i;
            while i < b.len() && (b[i].is_ascii_alphanumeric() || b[i] == b'_') {
                i += 1;
            }
            out.push(text[start..i].to_owned());
            continue;
        }
        if c.is_ascii_digit() || (c == b'.' && i + 1 < b.len() && b[i + 1].is_ascii_digit()) {
            let start = i;
            while i < b.len()
                && (b[i].is_ascii_alphanumeric()
                    || b[i] == b'_'
                    || (b[i] == b'.' && !(i + 1 < b.len() && b[i + 1] == b'.'))
                    || ((b[i] == b'+' || b[i] == b'-') && (b[i - 1] == b'e' || b[i - 1] == b'E') && !text[start..i].starts_with("0x") && !text[start..i].starts_with("0X")))
            {
                i += 1;
            }
            out.push(format!("#{}", &text[start..i]));
            continue;
        }
        let mut matched = false;
        for p in puncts.iter() {
            if text[i..].starts_with(p) {
                out.push((*p).to_owned());
                i += p.len();
                matched = true;
                break;
            }
        }
        if !matched {
            let ch = text[i..].chars().next().unwrap();
            out.push(ch.to_string());
            i += ch.len_utf8();
        }
    }
    out
}

/// occurrences of the Luau-only TOKENS of the rule's construct in `text`
pub fn text_census(rule: &str, text: &str) -> usize {
    let toks = luau_tokens(text);
    let mut n = 0;
    for (i, t) in toks.iter().enumerate() {
        let next = toks.get(i + 1).map(|s| s.as_str()).unwrap_or("<eof>");
        let hit = match rule {
            "remove_compound_assignment" => matches!(t.as_str(), "+=" | "-=" | "*=" | "/=" | "//=" | "%=" | "^=" | "..="),
            "remove_floor_division" => t == "//" || t == "//=",
            "remove_interpolated_string" => t == "`",
            "remove_continue" => t == "continue" && matches!(next, "end" | "else" | "elseif" | "until" | "<eof>" | ";"),
            "convert_luau_number" => t.starts_with('#') && (t.contains('_') || t.starts_with("#0b") || t.starts_with("#0B")),
            "make_assignment_local" => {
                t == "const"
                    && (next == "function" || next.chars().next().map(|c| c.is_ascii_alphabetic() || c == '_').unwrap_or(false))
                    && !matches!(next, "and" | "or" | "then" | "do" | "end" | "else" | "elseif" | "until" | "in")
            }
            "remove_types" => t == "::" || t == "->" || t == "<<",
            "remove_attribute" => t == "@",
            _ => false,
        };
        if hit {
            n += 1;
        }
    }
    n
}

/// Replay the witnesses of known_findings.json for `property`: still failing as described ⇒
/// `KNOWN-FINDING`; no longer failing ⇒ silence.
/// Region of known finding F31 (C07): does a QUOTED string literal of the source contain an escape that is Luau /
/// Lua 5.2+ only (`\x..`, `\u{..}`, `\z`)? Comments, long-bracket strings and backtick strings are skipped (the
/// value of an interpolated string is re-encoded by the rule; only quoted string TOKENS are kept as written).
pub fn has_luau_string_escape(code: &str) -> bool {
    let b = code.as_bytes();
    scan_code(b, 0, false).0
}

fn long_open(b: &[u8], i: usize) -> Option<usize> {
    // `[`, `=`*, `[` at i: returns the level
    if b.get(i) != Some(&b'[') {
        return None;
    }
    let mut j = i + 1;
    while b.get(j) == Some(&b'=') {
        j += 1;
    }
    if b.get(j) == Some(&b'[') { Some(j - i - 1) } else { None }
}

fn skip_long(b: &[u8], mut i: usize, level: usize) -> usize {
    i += level + 2;
    while i < b.len() {
        if b[i] == b']' {
            let mut j = i + 1;
            while b.get(j) == Some(&b'=') {
                j += 1;
            }
            if j - i - 1 == level && b.get(j) == Some(&b']') {
                return j + 1;
            }
        }
        i += 1;
    }
    i
}

/// scans code from `i`; with `in_value` it stops behind the `}` that closes an interpolated value. Returns
/// (a quoted string with a Luau-only escape was seen, position after the scanned part)
fn scan_code(b: &[u8], mut i: usize, in_value: bool) -> (bool, usize) {
    let mut depth = 0usize;
    while i < b.len() {
        match b[i] {
            b'-' if b.get(i + 1) == Some(&b'-') => {
                if let Some(level) = long_open(b, i + 2) {
                    i = skip_long(b, i + 2, level);
                } else {
                    while i < b.len() && b[i] != b'\n' {
                        i += 1;
                    }
                }
            }
            b'[' => {
                if let Some(level) = long_open(b, i) {
                    i = skip_long(b, i, level);
                } else {
                    i += 1;
                }
            }
            b'{' => {
                depth += 1;
                i += 1;
            }
            b'}' => {
                if depth == 0 && in_value {
                    return (false, i + 1);
                }
                depth = depth.saturating_sub(1);
                i += 1;
            }
            q @ (b'"' | b'\'') => {
                i += 1;
                while i < b.len() && b[i] != q {
                    if b[i] == b'\\' {
                        match b.get(i + 1) {
                            Some(b'x') | Some(b'z') => return (true, i),
                            Some(b'u') if b.get(i + 2) == Some(&b'{') => return (true, i),
                            _ => {}
                        }
                        i += 2;
                    } else {
                        i += 1;
                    }
                }
                i += 1;
            }
            b'`' => {
                // the text of an interpolated string is re-encoded by the rule; its VALUES are code
                i += 1;
                while i < b.len() && b[i] != b'`' {
                    if b[i] == b'\\' {
                        i += 2;
                    } else if b[i] == b'{' {
                        let (found, next) = scan_code(b, i + 1, true);
                        if found {
                            return (true, next);
                        }
                        i = next;
                    } else {
                        i += 1;
                    }
                }
                i += 1;
            }
            _ => i += 1,
        }
    }
    (false, i)
}

/// all nine rules through `darklua_core::process` with the given generator: the text, or None
pub fn process_all(code: &str, generator: &str) -> Option<String> {
    let resources = darklua_core::Resources::from_memory();
    resources.write("src/main.lua", code).ok()?;
    let rule_list: Vec<String> = RULES.iter().map(|r| format!("'{}'", r)).collect();
    let config_text = format!("{{ generator: '{}', rules: [{}] }}", generator, rule_list.join(", "));
    let config: darklua_core::Configuration = json5::from_str(&config_text).ok()?;
    let result = std::panic::catch_unwind(std::panic::AssertUnwindSafe(|| {
        darklua_core::process(&resources, darklua_core::Options::new("src").with_configuration(config))
    }));
    match result {
        Ok(Ok(r)) => {
            if r.result().is_ok() {
                resources.get("src/main.lua").ok()
            } else {
                None
            }
        }
        _ => None,
    }
}

pub fn replay_known_findings(model: &mut Model, report: &mut Report, property: &str) {
    for entry in crate::report::known_findings(property) {
        if entry["status"] == "fixed" {
            // a fixed finding excuses nothing: its witness lives in corpus/ and must pass like any program
            continue;
        }
        let id = entry["id"].as_str().unwrap_or("?").to_owned();
        let witness = &entry["witness"];
        let code = match witness["code"].as_str() {
            Some(c) => c,
            None => continue,
        };
        let rule_json = witness["rule"].as_str().unwrap_or("'remove_continue'");
        let rule = match exec::rule_from_json(rule_json) {
            Ok(r) => r,
            Err(_) => continue,
        };
        let rules = vec![rule];
        let kind = witness["kind"].as_str().unwrap_or("behaviour");
        let still = if kind == "lua51-process" {
            // the whole pipeline (process) with the generator named by the witness
            let generator = witness["generator"].as_str().unwrap_or("retain_lines");
            match process_all(code, generator) {
                Some(text) => crate::lua51check::check(&text).is_err(),
                None => false,
            }
        } else if kind == "lua51-text" {
            // all nine rules, then the dense text must be strict Lua 5.1
            match exec::parse(code) {
                Ok(b0) => {
                    let all: Vec<Box<dyn Rule>> = RULES.iter().map(|r| exec::rule_from_json(&format!("'{}'", r)).unwrap()).collect();
                    let mut b1 = b0.clone();
                    if exec::apply_rules(&mut b1, &all, code).is_ok() {
                        let mut dense = darklua_core::generator::DenseLuaGenerator::default();
                        darklua_core::generator::LuaGenerator::write_block(&mut dense, &b1);
                        let text = darklua_core::generator::LuaGenerator::into_string(dense);
                        crate::lua51check::check(&text).is_err()
                    } else {
                        false
                    }
                }
                Err(_) => false,
            }
        } else if kind == "census" {
            let name = rules[0].get_name().to_owned();
            match exec::parse(code) {
                Ok(b0) => {
                    let mut b1 = b0.clone();
                    exec::apply_rules(&mut b1, &rules, code).is_ok()
                        && Sexp::parse(&astsexp::block_to_sexp(&b1)).map(|t| sexp_census(&name, &t) != 0).unwrap_or(false)
                }
                Err(_) => false,
            }
        } else {
            rulecheck::oracle_fails(model, &rules, code).is_some()
        };
        if still {
            report.known_finding(&id, entry["expected_wrong"].as_str().unwrap_or(""));
        }
    }
}
