//! Shared by C06 and C07 (the Luau-lowering rules): rule correspondence + execution oracle as in
//! `rulecheck.rs`, extended with
//!  * the table of truthy verdicts of the REAL `Evaluator` that the Lean model of
//!    `remove_if_expression` takes as a parameter (the static evaluator is C08's subject),
//!  * the hypothesis `H` of the partial theorems (`c06.hyp`): programs outside `H` are listed
//!    defect regions — an oracle failure there is counted, not reported,
//!  * an INDEPENDENT feature census over the wire S-expression of the real output tree (a plain
//!    traversal of the S-expression: neither darklua's visitor nor the Lean census).
use crate::astsexp::{self, Sexp};
use crate::exec;
use crate::model::{hex, Model};
use crate::report::{Report, Violation};
use crate::rulecheck::{self, CaseResult};
use darklua_core::process::Evaluator;
use darklua_core::rules::Rule;
use serde_json::json;
use std::collections::BTreeSet;

pub const RULES: [&str; 9] = [
    "remove_types",
    "remove_compound_assignment",
    "remove_continue",
    "remove_if_expression",
    "remove_interpolated_string",
    "remove_floor_division",
    "convert_luau_number",
    "make_assignment_local",
    "remove_attribute",
];

fn head_is(s: &Sexp, name: &str) -> bool {
    match s {
        Sexp::List(items) => matches!(items.first(), Some(Sexp::Atom(a)) if a == name),
        _ => false,
    }
}

/// every `(ifx c t ((c t)*) e)` node: the branch results `t`
fn collect_if_results<'a>(s: &'a Sexp, out: &mut Vec<&'a Sexp>) {
    if let Sexp::List(items) = s {
        if head_is(s, "ifx") && items.len() == 5 {
            out.push(&items[2]);
            if let Sexp::List(elifs) = &items[3] {
                for pair in elifs {
                    if let Sexp::List(p) = pair {
                        if p.len() == 2 {
                            out.push(&p[1]);
                        }
                    }
                }
            }
        }
        for item in items {
            collect_if_results(item, out);
        }
    }
}

/// `(e1 e2 …)`: the if-expression branch results on which the REAL static evaluator answers
/// `is_truthy() == Some(true)`
pub fn truthy_table(block_sexp: &str) -> String {
    let tree = match Sexp::parse(block_sexp) {
        Ok(t) => t,
        Err(_) => return "()".to_owned(),
    };
    let mut results = Vec::new();
    collect_if_results(&tree, &mut results);
    let evaluator = Evaluator::default();
    let mut seen = BTreeSet::new();
    let mut items = Vec::new();
    for r in results {
        let text = r.to_string();
        if !seen.insert(text.clone()) {
            continue;
        }
        if let Ok(expr) = astsexp::tree_to_expr(r) {
            if evaluator.evaluate(&expr).is_truthy() == Some(true) {
                items.push(text);
            }
        }
    }
    format!("({})", items.join(" "))
}

/// Independent census over the wire tree: occurrences of the construct each rule targets.
pub fn sexp_census(rule: &str, s: &Sexp) -> usize {
    let mut n = 0;
    match s {
        Sexp::Atom(a) => {
            if rule == "remove_continue" && a == "continue" {
                n += 1;
            }
        }
        Sexp::List(items) => {
            let head = match items.first() {
                Some(Sexp::Atom(a)) => a.as_str(),
                _ => "",
            };
            let second = match items.get(1) {
                Some(Sexp::Atom(a)) => a.as_str(),
                _ => "",
            };
            let own = match rule {
                "remove_compound_assignment" => head == "cassign",
                "remove_if_expression" => head == "ifx",
                "remove_interpolated_string" => head == "interp",
                "remove_floor_division" => (head == "bin" || head == "cassign") && second == "idiv",
                "make_assignment_local" => (head == "local" || head == "localfn") && second == "const",
                "remove_types" => matches!(head, "cast" | "inst" | "typedecl" | "typefn" | "ty" | "typeof"),
                _ => false,
            };
            if own {
                n += 1;
            }
            if head == "fnbody" && items.len() == 8 {
                // (fnbody params variadic varTy ret generics attrs body)
                if rule == "remove_types" {
                    if let Sexp::List(g) = &items[5] {
                        n += g.len();
                    }
                }
                if rule == "remove_attribute" {
                    if let Sexp::List(a) = &items[6] {
                        n += a.len();
                    }
                }
            }
            for item in items {
                n += sexp_census(rule, item);
            }
        }
    }
    n
}

pub fn sexp_census_all(s: &Sexp) -> usize {
    RULES.iter().map(|r| sexp_census(r, s)).sum()
}

pub struct LuauCase<'a> {
    pub rule_name: &'a str,
    pub rule_json: &'a str,
    /// the name the Lean driver knows the configuration by (e.g. "remove_interpolated_string:tostring")
    pub model_name: &'a str,
    /// report census failures (C07) / behaviour failures (C06)
    pub check_census: bool,
    pub check_behaviour: bool,
}

fn model_rule(model: &mut Model, model_name: &str, sexp0: &str) -> String {
    let table = if model_name == "remove_if_expression" { truthy_table(sexp0) } else { "()".to_owned() };
    model.ask(&format!("c06.rule {} {} {}", hex(model_name.as_bytes()), sexp0, table))
}

pub fn in_hypothesis(model: &mut Model, model_name: &str, sexp0: &str) -> bool {
    let base = model_name.split(':').next().unwrap_or(model_name);
    model.ask(&format!("c06.hyp {} {}", hex(base.as_bytes()), sexp0)) == "true"
}

/// One program through one rule: WF of the input tree, correspondence with the Lean model,
/// independent census of the REAL output (C07), execution oracle (C06).
pub fn check_program(model: &mut Model, report: &mut Report, case: &LuauCase, code: &str) -> CaseResult {
    let block0 = match exec::parse(code) {
        Ok(b) => b,
        Err(_) => return CaseResult::Skipped("parse"),
    };
    let rule = match exec::rule_from_json(case.rule_json) {
        Ok(r) => r,
        Err(e) => panic!("bad rule configuration {}: {}", case.rule_json, e),
    };
    let rules: Vec<Box<dyn Rule>> = vec![rule];
    let sexp0 = astsexp::block_to_sexp(&block0);
    let mut block1 = block0.clone();
    let applied = std::panic::catch_unwind(std::panic::AssertUnwindSafe(|| exec::apply_rules(&mut block1, &rules, code)));
    match applied {
        Ok(Ok(())) => {}
        Ok(Err(_)) => return CaseResult::Skipped("rule-error"),
        Err(_) => {
            report.violation(Violation {
                kind: "oracle".into(),
                check: format!("{}:panic", case.rule_name),
                what: format!("rule {} panicked", case.rule_name),
                input: json!({"rule": case.rule_json, "code": code}),
                failing_input_found: true,
            });
            return CaseResult::Skipped("panic");
        }
    }
    let sexp1 = astsexp::block_to_sexp(&block1);
    let fired = sexp0 != sexp1;
    let inside_h = in_hypothesis(model, case.model_name, &sexp0);
    if !inside_h {
        report.count("outside_hypothesis", 1);
    }

    // ---- the trees the theorems quantify over: every parsed program must be well-formed
    if model.ask(&format!("c06.wf {}", sexp0)) != "true" {
        report.violation(Violation {
            kind: "correspondence".into(),
            check: "wf".into(),
            what: "a tree produced by darklua's parser is not well-formed in the sense of Rules.wfB (the theorems assume it)".into(),
            input: json!({"code": code}),
            failing_input_found: false,
        });
    }

    // ---- C07 oracle: independent census of the real output
    let mut oracle_failed = false;
    if case.check_census && inside_h {
        if let Ok(tree1) = Sexp::parse(&sexp1) {
            let left = sexp_census(case.rule_name, &tree1);
            if left != 0 {
                oracle_failed = true;
                let rule_name = case.rule_name.to_owned();
                let model_name = case.model_name.to_owned();
                let mut fails = |text: &str| -> bool {
                    let b0 = match exec::parse(text) { Ok(b) => b, Err(_) => return false };
                    let mut b1 = b0.clone();
                    if exec::apply_rules(&mut b1, &rules, text).is_err() { return false; }
                    if !in_hypothesis(model, &model_name, &astsexp::block_to_sexp(&b0)) { return false; }
                    match Sexp::parse(&astsexp::block_to_sexp(&b1)) {
                        Ok(t) => sexp_census(&rule_name, &t) != 0,
                        Err(_) => false,
                    }
                };
                let small = rulecheck::shrink_lines(code, &mut fails);
                report.violation(Violation {
                    kind: "oracle".into(),
                    check: format!("{}:census", case.rule_name),
                    what: format!("{} occurrence(s) of the construct remain in the real output of {}", left, case.rule_name),
                    input: json!({"rule": case.rule_json, "code": small}),
                    failing_input_found: true,
                });
            }
            report.count("census_checked", 1);
        }
    }

    // ---- C06 oracle: behaviour of the real output
    if case.check_behaviour {
        if let Some((o0, o1)) = rulecheck::oracle_compare(model, &block0, &block1) {
            if o0 != o1 {
                if inside_h {
                    oracle_failed = true;
                    let model_name = case.model_name.to_owned();
                    let mut fails = |text: &str| -> bool {
                        if rulecheck::oracle_fails(model, &rules, text).is_none() { return false; }
                        match exec::parse(text) {
                            Ok(b) => in_hypothesis(model, &model_name, &astsexp::block_to_sexp(&b)),
                            Err(_) => false,
                        }
                    };
                    let small = rulecheck::shrink_lines(code, &mut fails);
                    let detail = rulecheck::oracle_fails(model, &rules, &small);
                    report.violation(Violation {
                        kind: "oracle".into(),
                        check: format!("{}:behaviour", case.rule_name),
                        what: format!("rule {} changes the behaviour of a program whose original run is error-free", case.rule_name),
                        input: json!({"rule": case.rule_json, "code": small,
                            "original_outcome": detail.as_ref().map(|d| d.0.clone()),
                            "transformed_outcome": detail.as_ref().map(|d| d.1.clone()),
                            "transformed_tree": detail.as_ref().map(|d| d.2.clone())}),
                        failing_input_found: true,
                    });
                } else {
                    report.count("behaviour_differs_outside_hypothesis", 1);
                }
            }
            report.count("oracle_compared", 1);
        } else {
            report.count("oracle_skipped_original_not_error_free", 1);
        }
    }

    // ---- correspondence with the Lean rule model
    let answer = model_rule(model, case.model_name, &sexp0);
    if answer != sexp1 {
        let model_name = case.model_name.to_owned();
        let mut differs = |text: &str| -> bool {
            let b0 = match exec::parse(text) { Ok(b) => b, Err(_) => return false };
            let mut b1 = b0.clone();
            if exec::apply_rules(&mut b1, &rules, text).is_err() { return false; }
            let s0 = astsexp::block_to_sexp(&b0);
            model_rule(model, &model_name, &s0) != astsexp::block_to_sexp(&b1)
        };
        let small = rulecheck::shrink_lines(code, &mut differs);
        let small_real = exec::parse(&small).ok().map(|b0| {
            let mut b1 = b0.clone();
            let _ = exec::apply_rules(&mut b1, &rules, &small);
            astsexp::block_to_sexp(&b1)
        });
        let small_model = exec::parse(&small).ok().map(|b0| model_rule(model, case.model_name, &astsexp::block_to_sexp(&b0)));
        report.violation(Violation {
            kind: "correspondence".into(),
            check: format!("{}:model", case.rule_name),
            what: format!("Lean model of rule {} and the real rule produce different trees; the theorems about the model no longer speak about this code", case.rule_name),
            input: json!({"rule": case.rule_json, "code": small, "real": small_real, "model": small_model}),
            failing_input_found: oracle_failed,
        });
    }
    report.count("correspondence_compared", 1);
    if fired { CaseResult::Fired } else { CaseResult::Trivial }
}
