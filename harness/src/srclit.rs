//! Source-text literals, decoded INDEPENDENTLY of darklua's parser.
//!
//! `exec::parse` reads programs with darklua's own parser and `astsexp` serialises
//! `StringExpression::get_value()` / `NumberExpression::compute_value()`: a literal that the parser
//! decodes wrongly (an escape, a numeric spelling) reaches the reference semantics already wrong, on the
//! original AND on the processed program, so no behavioural oracle can see it. This module closes that gap:
//! the program is parsed with `preserve_tokens()`, the TEXT of every string, number and interpolated-string
//! segment token is decoded by the Lean reference decoder of property C13 (`Spec.decodeLiteral`,
//! `Spec.decodeInterpSegment`, `Spec.numberValue` through the driver ops `c13.decode luau`, `c13.dseg`,
//! `c13.pnum`) and
//!  * compared with the value darklua computed (`LitMismatch`), and
//!  * written into the tree in place of darklua's value, so that the ORIGINAL program can be executed on
//!    the reference semantics with the values its source text denotes (`independent_block`).
//! Token texts the reference rejects (not a well-formed Luau token) are left as darklua read them and
//! counted in `undecided`.
use crate::model::Model;
use darklua_core::nodes::{
    Block, DecimalNumber, InterpolatedStringExpression, InterpolationSegment, NumberExpression,
    StringExpression, StringSegment,
};
use darklua_core::process::{DefaultVisitor, NodeProcessor, NodeVisitor};
use std::collections::HashMap;

#[derive(Clone, Debug)]
pub struct LitMismatch {
    /// "string" | "number" | "interp"
    pub kind: &'static str,
    pub token_text: String,
    /// what darklua's parser computed (hex bytes / f64 bits)
    pub darklua_value: String,
    /// what the text denotes by the reference decoder
    pub reference_value: String,
}

#[derive(Default)]
pub struct LitReport {
    pub mismatches: Vec<LitMismatch>,
    pub strings: usize,
    pub numbers: usize,
    pub segments: usize,
    /// tokens the reference decoder does not accept (left as darklua read them)
    pub undecided: usize,
}

fn hex_bytes(bytes: &[u8]) -> String {
    let mut s = String::with_capacity(1 + 2 * bytes.len());
    s.push('x');
    for b in bytes {
        s.push_str(&format!("{:02x}", b));
    }
    s
}

fn unhex(text: &str) -> Option<Vec<u8>> {
    let t = text.strip_prefix('x')?;
    if t.len() % 2 != 0 {
        return None;
    }
    (0..t.len() / 2).map(|i| u8::from_str_radix(&t[2 * i..2 * i + 2], 16).ok()).collect()
}

/// memo of reference decodings per token text (one per thread, next to its `Model`)
#[derive(Default)]
pub struct LitCache {
    strings: HashMap<String, Option<Vec<u8>>>,
    segments: HashMap<String, Option<Vec<u8>>>,
    numbers: HashMap<String, Option<u64>>,
}

impl LitCache {
    /// the bytes a quoted / long-bracket string token denotes (Luau)
    pub fn string(&mut self, model: &mut Model, text: &str) -> Option<Vec<u8>> {
        if let Some(v) = self.strings.get(text) {
            return v.clone();
        }
        let answer = model.ask(&format!("c13.decode luau {}", hex_bytes(text.as_bytes())));
        let v = answer.strip_prefix("some ").and_then(unhex);
        self.strings.insert(text.to_owned(), v.clone());
        v
    }

    /// the bytes the text of one string section of an interpolated string denotes
    pub fn segment(&mut self, model: &mut Model, text: &str) -> Option<Vec<u8>> {
        if let Some(v) = self.segments.get(text) {
            return v.clone();
        }
        // the section ends at the first unescaped '`' or '{': append a terminator and expect it back
        let mut bytes = text.as_bytes().to_vec();
        bytes.push(b'`');
        let answer = model.ask(&format!("c13.dseg {}", hex_bytes(&bytes)));
        let v = answer.strip_prefix("some ").and_then(|rest| {
            let mut parts = rest.split(' ');
            let out = parts.next().and_then(unhex)?;
            let tail = parts.next().and_then(unhex)?;
            if tail == b"`" {
                Some(out)
            } else {
                None
            }
        });
        self.segments.insert(text.to_owned(), v.clone());
        v
    }

    /// the f64 (bits) a number token denotes
    pub fn number(&mut self, model: &mut Model, text: &str) -> Option<u64> {
        if let Some(v) = self.numbers.get(text) {
            return *v;
        }
        let answer = model.ask(&format!("c13.pnum {}", hex_bytes(text.as_bytes())));
        let v = answer
            .split(' ')
            .last()
            .and_then(|field| field.strip_prefix("some:f"))
            .and_then(|bits| u64::from_str_radix(bits, 16).ok());
        self.numbers.insert(text.to_owned(), v);
        v
    }
}

struct Redecode<'a> {
    model: &'a mut Model,
    cache: &'a mut LitCache,
    code: &'a str,
    report: LitReport,
}

impl NodeProcessor for Redecode<'_> {
    fn process_string_expression(&mut self, string: &mut StringExpression) {
        let Some(token) = string.get_token() else { return };
        let text = token.read(self.code).to_owned();
        self.report.strings += 1;
        match self.cache.string(self.model, &text) {
            Some(reference) => {
                if reference.as_slice() != string.get_value() {
                    self.report.mismatches.push(LitMismatch {
                        kind: "string",
                        token_text: text,
                        darklua_value: hex_bytes(string.get_value()),
                        reference_value: hex_bytes(&reference),
                    });
                }
                *string = StringExpression::from_value(reference);
            }
            None => self.report.undecided += 1,
        }
    }

    fn process_number_expression(&mut self, number: &mut NumberExpression) {
        let Some(token) = number.get_token() else { return };
        let text = token.read(self.code).to_owned();
        self.report.numbers += 1;
        match self.cache.number(self.model, &text) {
            Some(bits) => {
                let darklua = number.compute_value().to_bits();
                let same = darklua == bits || (f64::from_bits(darklua).is_nan() && f64::from_bits(bits).is_nan());
                if !same {
                    self.report.mismatches.push(LitMismatch {
                        kind: "number",
                        token_text: text,
                        darklua_value: format!("f{:016x}", darklua),
                        reference_value: format!("f{:016x}", bits),
                    });
                    *number = DecimalNumber::new(f64::from_bits(bits)).into();
                }
            }
            None => self.report.undecided += 1,
        }
    }

    fn process_interpolated_string_expression(&mut self, string: &mut InterpolatedStringExpression) {
        for segment in string.iter_mut_segments() {
            if let InterpolationSegment::String(section) = segment {
                let Some(token) = section.get_token() else { continue };
                let text = token.read(self.code).to_owned();
                self.report.segments += 1;
                match self.cache.segment(self.model, &text) {
                    Some(reference) => {
                        if reference.as_slice() != section.get_value() {
                            self.report.mismatches.push(LitMismatch {
                                kind: "interp",
                                token_text: text,
                                darklua_value: hex_bytes(section.get_value()),
                                reference_value: hex_bytes(&reference),
                            });
                        }
                        *section = StringSegment::from_value(reference);
                    }
                    None => self.report.undecided += 1,
                }
            }
        }
    }
}

/// Parse `code` keeping tokens, re-decode every literal token with the reference decoder.
/// Returns the block with the independently decoded values in place, and the report.
pub fn independent_block(model: &mut Model, cache: &mut LitCache, code: &str) -> Result<(Block, LitReport), String> {
    let mut block = crate::exec::parse_with_tokens(code)?;
    let mut redecode = Redecode { model, cache, code, report: LitReport::default() };
    DefaultVisitor::visit_block(&mut block, &mut redecode);
    Ok((block, redecode.report))
}

/// only the comparison
pub fn check_source_literals(model: &mut Model, cache: &mut LitCache, code: &str) -> Result<Vec<LitMismatch>, String> {
    independent_block(model, cache, code).map(|(_, report)| report.mismatches)
}

/// does the text contain anything whose value depends on a decoder: an escape, a long bracket, an
/// interpolated string, or a numeric spelling other than plain decimal digits
pub fn has_interesting_literal(code: &str) -> bool {
    let bytes = code.as_bytes();
    let mut i = 0;
    while i < bytes.len() {
        let c = bytes[i];
        if c == b'\\' || c == b'`' {
            return true;
        }
        if c == b'[' && i + 1 < bytes.len() && (bytes[i + 1] == b'[' || bytes[i + 1] == b'=') {
            return true;
        }
        if c.is_ascii_digit() {
            let prev_ident = i > 0 && (bytes[i - 1].is_ascii_alphanumeric() || bytes[i - 1] == b'_');
            let start = i;
            while i < bytes.len() && (bytes[i].is_ascii_alphanumeric() || bytes[i] == b'_' || bytes[i] == b'.') {
                i += 1;
            }
            if !prev_ident && !bytes[start..i].iter().all(|b| b.is_ascii_digit()) {
                return true;
            }
            continue;
        }
        i += 1;
    }
    false
}
