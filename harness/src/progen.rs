//! Type-directed generator of executable Lua / Luau programs (source text).
//!
//! Every generated program is error-free by construction on the reference semantics: the
//! generator tracks a small static type for every variable in scope and only emits
//! operations that are defined on those types. All observable effects go through the
//! external functions `emit…`, `get…` (returns a number) and `flag…` (returns a boolean).
//! Objects (`Obj`) are tables whose metatable defines EVERY metamethod; each metamethod
//! emits an event before returning a well-typed value.
use crate::rng::Rng;

#[derive(Clone, Copy, Debug, PartialEq, Eq)]
pub enum Ty {
    Int,  // integer-valued number (safe to concatenate / format)
    Num,  // any number
    Bool,
    Str,
    Nil,
    Arr,  // table used as an array of Int
    Rec,  // table with fields `x` (Int) and `s` (Str)
    Obj,  // table with the all-metamethods metatable
    Fn1,  // function (Int) -> Int, may emit
    Fn2,  // function (Int, Int) -> Int, Int
    FnV,  // function (...) -> Int  (returns select('#', ...))
}

#[derive(Clone, Debug)]
struct Var {
    name: String,
    ty: Ty,
    assignable: bool,
}

#[derive(Clone, Debug, Default)]
pub struct Features {
    pub luau: bool,        // compound assignment, continue, if-expressions, interpolated strings, //
    pub types: bool,       // type annotations / declarations (only with luau)
    pub metatables: bool,
    pub dead_code: bool,   // constant conditions, unused locals, empty do, early returns
    pub methods: bool,
}

impl Features {
    pub fn lua51() -> Self {
        Features { luau: false, types: false, metatables: true, dead_code: true, methods: true }
    }
    pub fn luau() -> Self {
        Features { luau: true, types: true, metatables: true, dead_code: true, methods: true }
    }
}

pub struct Gen<'a> {
    rng: &'a mut Rng,
    feat: Features,
    scopes: Vec<Vec<Var>>,
    counter: usize,
    out: String,
    indent: usize,
    in_loop: Vec<LoopKind>,
    fn_depth: usize,
    budget: i64,
    pub used: std::collections::BTreeSet<&'static str>,
    has_obj_mt: bool,
}

#[derive(Clone, Copy, PartialEq, Eq, Debug)]
enum LoopKind {
    While,
    For,
    Repeat,
    None, // function boundary
}

pub const EXTERNS: [&str; 8] = ["emit", "emit2", "get1", "get2", "flag1", "flag2", "emitv", "sink"];

impl<'a> Gen<'a> {
    pub fn new(rng: &'a mut Rng, feat: Features, budget: i64) -> Self {
        Gen {
            rng,
            feat,
            scopes: vec![Vec::new()],
            counter: 0,
            out: String::new(),
            indent: 0,
            in_loop: Vec::new(),
            fn_depth: 0,
            budget,
            used: Default::default(),
            has_obj_mt: false,
        }
    }

    pub fn program(mut self) -> (String, std::collections::BTreeSet<&'static str>) {
        if self.feat.metatables && self.rng.chance(2, 3) {
            self.emit_obj_metatable();
        }
        if self.rng.chance(1, 2) {
            self.line("local rec0 = { x = 1, s = 'r' }");
            self.declare("rec0", Ty::Rec);
        }
        let n = 3 + self.rng.below(8);
        for _ in 0..n {
            self.statement();
        }
        // final return of some values
        let k = self.rng.below(3);
        let mut vals = Vec::new();
        for _ in 0..k {
            let t = self.pick_value_ty();
            vals.push(self.expr(t, 2));
        }
        if self.rng.chance(1, 4) {
            if let Some(f) = self.find_var(Ty::Fn2) {
                vals.push(format!("{}(1, 2)", f));
                self.used.insert("multi-return-last");
            }
        }
        self.line(&format!("return {}", vals.join(", ")));
        (self.out, self.used)
    }

    // ---- helpers
    fn fresh(&mut self, base: &str) -> String {
        self.counter += 1;
        // occasionally reuse a short name to create shadowing
        if self.rng.chance(1, 5) {
            let pool = ["a", "b", "c", "x", "y"];
            return (*self.rng.pick(&pool)).to_owned();
        }
        format!("{}{}", base, self.counter)
    }
    fn line(&mut self, s: &str) {
        for _ in 0..self.indent {
            self.out.push_str("  ");
        }
        self.out.push_str(s);
        self.out.push('\n');
    }
    fn declare(&mut self, name: &str, ty: Ty) {
        let scope = self.scopes.last_mut().unwrap();
        scope.retain(|v| v.name != name);
        scope.push(Var { name: name.to_owned(), ty, assignable: true });
    }
    fn visible(&self) -> Vec<Var> {
        let mut seen = std::collections::HashSet::new();
        let mut result = Vec::new();
        for scope in self.scopes.iter().rev() {
            for v in scope.iter().rev() {
                if seen.insert(v.name.clone()) {
                    result.push(v.clone());
                }
            }
        }
        result
    }
    fn vars_of(&self, ty: Ty) -> Vec<Var> {
        self.visible()
            .into_iter()
            .filter(|v| v.ty == ty || (ty == Ty::Num && v.ty == Ty::Int))
            .collect()
    }
    fn find_var(&mut self, ty: Ty) -> Option<String> {
        let vs = self.vars_of(ty);
        if vs.is_empty() {
            None
        } else {
            Some(vs[self.rng.below(vs.len())].name.clone())
        }
    }
    fn push_scope(&mut self) {
        self.scopes.push(Vec::new());
    }
    fn pop_scope(&mut self) {
        self.scopes.pop();
    }
    fn pick_value_ty(&mut self) -> Ty {
        *self.rng.pick(&[Ty::Int, Ty::Int, Ty::Num, Ty::Bool, Ty::Str, Ty::Str, Ty::Nil])
    }

    fn emit_obj_metatable(&mut self) {
        self.has_obj_mt = true;
        self.used.insert("metatable");
        self.line("local OBJ_MT = {}");
        for (name, params, ret) in [
            ("__add", "a, b", "1"),
            ("__sub", "a, b", "2"),
            ("__mul", "a, b", "3"),
            ("__div", "a, b", "4"),
            ("__mod", "a, b", "5"),
            ("__pow", "a, b", "6"),
            ("__unm", "a", "7"),
            ("__concat", "a, b", "'cat'"),
            ("__len", "a", "8"),
            ("__eq", "a, b", "true"),
            ("__lt", "a, b", "true"),
            ("__le", "a, b", "false"),
            ("__call", "self, a", "9"),
            ("__tostring", "a", "'obj'"),
            ("__index", "t, k", "10"),
        ] {
            self.line(&format!(
                "OBJ_MT.{} = function({}) emit('{}') return {} end",
                name, params, name, ret
            ));
        }
        if self.feat.luau {
            self.line("OBJ_MT.__idiv = function(a, b) emit('__idiv') return 11 end");
        }
        self.line("OBJ_MT.__newindex = function(t, k, v) emit('__newindex', k, v) end");
        self.line("local obj0 = setmetatable({}, OBJ_MT)");
        self.declare("obj0", Ty::Obj);
    }

    // ---- expressions
    pub fn expr(&mut self, ty: Ty, depth: usize) -> String {
        self.budget -= 1;
        let leaf = depth == 0 || self.budget < 0;
        match ty {
            Ty::Int => self.int_expr(leaf, depth),
            Ty::Num => self.num_expr(leaf, depth),
            Ty::Bool => self.bool_expr(leaf, depth),
            Ty::Str => self.str_expr(leaf, depth),
            Ty::Nil => "nil".to_owned(),
            Ty::Arr => {
                if let (Some(v), true) = (self.find_var(Ty::Arr), self.rng.chance(1, 2)) {
                    v
                } else {
                    let n = self.rng.below(4);
                    let items: Vec<String> = (0..n).map(|_| self.expr(Ty::Int, depth.saturating_sub(1))).collect();
                    format!("{{{}}}", items.join(", "))
                }
            }
            Ty::Rec => {
                if let (Some(v), true) = (self.find_var(Ty::Rec), self.rng.chance(1, 2)) {
                    v
                } else {
                    let x = self.expr(Ty::Int, depth.saturating_sub(1));
                    let s = self.expr(Ty::Str, depth.saturating_sub(1));
                    match self.rng.below(3) {
                        0 => format!("{{x = {}, s = {}}}", x, s),
                        1 => format!("{{['x'] = {}, s = {}}}", x, s),
                        _ => format!("{{s = {}; x = {}}}", s, x),
                    }
                }
            }
            Ty::Obj => {
                if let Some(v) = self.find_var(Ty::Obj) {
                    v
                } else {
                    "setmetatable({}, OBJ_MT)".to_owned()
                }
            }
            Ty::Fn1 | Ty::Fn2 | Ty::FnV => {
                if let Some(v) = self.find_var(ty) {
                    v
                } else {
                    self.function_expr(ty)
                }
            }
        }
    }

    fn int_lit(&mut self) -> String {
        let v = self.rng.range(0, 12);
        match self.rng.below(12) {
            0 => format!("{}", v * 100),
            1 if self.feat.luau => "0b101".to_owned(),
            2 => "0x10".to_owned(),
            3 if self.feat.luau => "1_000".to_owned(),
            _ => format!("{}", v),
        }
    }

    fn int_expr(&mut self, leaf: bool, depth: usize) -> String {
        if leaf {
            if let (Some(v), true) = (self.find_var(Ty::Int), self.rng.chance(2, 3)) {
                return v;
            }
            return self.int_lit();
        }
        let d = depth - 1;
        let choice = self.rng.below(22);
        match choice {
            0..=2 => {
                let a = self.expr(Ty::Int, d);
                let b = self.expr(Ty::Int, d);
                let op = *self.rng.pick(&["+", "-", "*"]);
                self.used.insert("arith");
                format!("{} {} {}", self.paren_if_needed(a), op, self.paren_if_needed(b))
            }
            3 => {
                let a = self.expr(Ty::Int, d);
                let m = self.rng.range(2, 7);
                self.used.insert("mod");
                format!("{} % {}", self.paren_if_needed(a), m)
            }
            4 => {
                let a = self.expr(Ty::Int, d);
                format!("-{}", self.paren_always(a))
            }
            5 => {
                let s = self.expr(Ty::Str, d);
                self.used.insert("len");
                format!("#{}", self.paren_always(s))
            }
            6 => {
                if let Some(t) = self.find_var(Ty::Arr) {
                    self.used.insert("len");
                    format!("#{}", t)
                } else {
                    self.int_lit()
                }
            }
            7 => {
                if let Some(t) = self.find_var(Ty::Rec) {
                    self.used.insert("field");
                    if self.rng.chance(1, 2) { format!("{}.x", t) } else { format!("{}['x']", t) }
                } else {
                    self.int_lit()
                }
            }
            8 => {
                if let Some(f) = self.find_var(Ty::Fn1) {
                    let a = self.expr(Ty::Int, d);
                    self.used.insert("call");
                    format!("{}({})", f, a)
                } else {
                    self.int_lit()
                }
            }
            9 => {
                if let Some(f) = self.find_var(Ty::Fn2) {
                    // call in a single-value context: truncated to the first result
                    let a = self.expr(Ty::Int, d);
                    self.used.insert("call-truncated");
                    format!("({}({}, 1))", f, a)
                } else {
                    self.int_lit()
                }
            }
            10 => {
                if let Some(f) = self.find_var(Ty::FnV) {
                    let n = self.rng.below(4);
                    let args: Vec<String> = (0..n).map(|_| self.expr(Ty::Int, 0)).collect();
                    self.used.insert("vararg-call");
                    format!("{}({})", f, args.join(", "))
                } else {
                    self.int_lit()
                }
            }
            11 => {
                self.used.insert("extern-value");
                format!("get{}()", 1 + self.rng.below(2))
            }
            12 if self.feat.luau => {
                let c = self.expr(Ty::Bool, d);
                let a = self.expr(Ty::Int, d);
                let b = self.expr(Ty::Int, d);
                self.used.insert("if-expression");
                if self.rng.chance(1, 3) {
                    let c2 = self.expr(Ty::Bool, d);
                    let e = self.expr(Ty::Int, d);
                    format!("(if {} then {} elseif {} then {} else {})", c, a, c2, e, b)
                } else {
                    format!("(if {} then {} else {})", c, a, b)
                }
            }
            13 if self.feat.luau => {
                let a = self.expr(Ty::Int, d);
                let m = self.rng.range(1, 5);
                self.used.insert("floor-division");
                format!("{} // {}", self.paren_if_needed(a), m)
            }
            14 => {
                // and/or selecting between ints with a boolean guard (result is Int because the
                // middle operand is never false/nil)
                let c = self.expr(Ty::Bool, d);
                let a = self.expr(Ty::Int, d);
                let b = self.expr(Ty::Int, d);
                self.used.insert("and-or");
                format!("({} and {} or {})", self.paren_if_needed(c), self.paren_if_needed(a), self.paren_if_needed(b))
            }
            15 if self.has_obj_mt => {
                if let Some(o) = self.find_var(Ty::Obj) {
                    self.used.insert("metamethod-arith");
                    let a = self.expr(Ty::Int, 0);
                    match self.rng.below(7) {
                        0 => format!("({} + {})", o, a),
                        1 => format!("({} - {})", a, o),
                        2 => format!("({} * {})", o, o),
                        3 => format!("(-{})", o),
                        4 => format!("(#{})", o),
                        5 => format!("{}({})", o, a),
                        _ => format!("{}.missing", o),
                    }
                } else {
                    self.int_lit()
                }
            }
            16 => {
                let a = self.expr(Ty::Int, d);
                format!("({})", a)
            }
            17 => {
                let xs: Vec<String> = (0..self.rng.below(3)).map(|_| self.expr(Ty::Int, 0)).collect();
                self.used.insert("select-count");
                format!("select('#', {})", if xs.is_empty() { "nil".to_owned() } else { xs.join(", ") })
            }
            18 => {
                let a = self.expr(Ty::Int, d);
                self.used.insert("math-floor");
                format!("math.floor({} / 2)", self.paren_if_needed(a))
            }
            _ => {
                if let Some(v) = self.find_var(Ty::Int) {
                    v
                } else {
                    self.int_lit()
                }
            }
        }
    }

    fn num_expr(&mut self, leaf: bool, depth: usize) -> String {
        if leaf || self.rng.chance(1, 2) {
            if self.rng.chance(1, 2) {
                return self.int_expr(leaf, depth);
            }
            return (*self.rng.pick(&["0.5", "1.25", "2.5", "1e2", "0.25", "3", "1.5e1"])).to_owned();
        }
        let d = depth - 1;
        let a = self.expr(Ty::Num, d);
        match self.rng.below(4) {
            0 => {
                let b = self.expr(Ty::Num, d);
                let op = *self.rng.pick(&["+", "-", "*"]);
                format!("{} {} {}", self.paren_if_needed(a), op, self.paren_if_needed(b))
            }
            1 => format!("{} / {}", self.paren_if_needed(a), *self.rng.pick(&["2", "4", "8", "0.5"])),
            2 => format!("{} ^ 2", self.paren_always(a)),
            _ => format!("-{}", self.paren_always(a)),
        }
    }

    fn bool_expr(&mut self, leaf: bool, depth: usize) -> String {
        if leaf {
            if let (Some(v), true) = (self.find_var(Ty::Bool), self.rng.chance(1, 2)) {
                return v;
            }
            return (*self.rng.pick(&["true", "false"])).to_owned();
        }
        let d = depth - 1;
        match self.rng.below(10) {
            0..=2 => {
                let a = self.expr(Ty::Int, d);
                let b = self.expr(Ty::Int, d);
                let op = *self.rng.pick(&["<", "<=", ">", ">=", "==", "~="]);
                self.used.insert("comparison");
                format!("{} {} {}", self.paren_if_needed(a), op, self.paren_if_needed(b))
            }
            3 => {
                let a = self.expr(Ty::Str, d);
                let b = self.expr(Ty::Str, d);
                let op = *self.rng.pick(&["==", "~=", "<"]);
                format!("{} {} {}", self.paren_if_needed(a), op, self.paren_if_needed(b))
            }
            4 => {
                let a = self.expr(Ty::Bool, d);
                format!("not {}", self.paren_always(a))
            }
            5 => {
                let a = self.expr(Ty::Bool, d);
                let b = self.expr(Ty::Bool, d);
                let op = *self.rng.pick(&["and", "or"]);
                format!("({} {} {})", self.paren_if_needed(a), op, self.paren_if_needed(b))
            }
            6 => {
                self.used.insert("extern-value");
                format!("flag{}()", 1 + self.rng.below(2))
            }
            7 if self.has_obj_mt => {
                if let Some(o) = self.find_var(Ty::Obj) {
                    self.used.insert("metamethod-compare");
                    match self.rng.below(3) {
                        0 => format!("({} < {})", o, o),
                        1 => format!("({} <= setmetatable({{}}, OBJ_MT))", o),
                        _ => format!("({} == setmetatable({{}}, OBJ_MT))", o),
                    }
                } else {
                    "true".to_owned()
                }
            }
            8 => {
                let t = self.pick_value_ty();
                let a = self.expr(t, d);
                format!("({} == nil)", self.paren_if_needed(a))
            }
            _ => {
                let t = self.pick_value_ty();
                let a = self.expr(t, d);
                let name = *self.rng.pick(&["number", "string", "nil", "boolean"]);
                self.used.insert("type-call");
                format!("(type({}) == '{}')", a, name)
            }
        }
    }

    fn str_lit(&mut self) -> String {
        // spellings whose VALUE depends on the decoder (decimal escapes followed by a digit,
        // long brackets with a level / a leading newline): the source-text leg of the rule properties
        // (harness/src/srclit.rs) compares what the parser computed with an independent decoding.
        // Only spellings that are valid Lua 5.1 here (C07 demands strict Lua 5.1 output, and no rule lowers `\\x`/`\\u{}`/`\\z`):
        // the Luau-only escapes are in progen_c01::STRING_SPELLINGS
        if self.rng.chance(1, 6) {
            return (*self.rng.pick(&["\"\\0011\"", "'\\0120'", "\"\\65\\066\"", "'\\0490'", "\"a\\tb\"", "[==[lo]]ng]==]", "[[\nnl]]", "'\\9\\10'"])).to_owned();
        }
        (*self.rng.pick(&["'a'", "\"b\"", "'hello'", "''", "'x y'", "\"it's\"", "'1'", "[[long]]", "'%d'", "'a\\nb'"])).to_owned()
    }

    fn str_expr(&mut self, leaf: bool, depth: usize) -> String {
        if leaf {
            if let (Some(v), true) = (self.find_var(Ty::Str), self.rng.chance(1, 2)) {
                return v;
            }
            return self.str_lit();
        }
        let d = depth - 1;
        match self.rng.below(12) {
            0..=2 => {
                let a = if self.rng.chance(1, 3) { self.expr(Ty::Int, d) } else { self.expr(Ty::Str, d) };
                let b = if self.rng.chance(1, 3) { self.expr(Ty::Int, d) } else { self.expr(Ty::Str, d) };
                self.used.insert("concat");
                format!("{} .. {}", self.paren_concat(a), self.paren_concat(b))
            }
            3 => {
                let a = self.expr(Ty::Int, d);
                self.used.insert("tostring");
                format!("tostring({})", a)
            }
            4 if self.feat.luau => {
                self.used.insert("interpolated-string");
                let mut s = String::from("`");
                for _ in 0..(1 + self.rng.below(3)) {
                    match self.rng.below(4) {
                        0 => s.push_str("txt "),
                        1 => {
                            let e = self.expr(Ty::Int, d);
                            s.push_str(&format!("{{{}}}", e));
                        }
                        2 => {
                            let e = self.expr(Ty::Str, d);
                            s.push_str(&format!("{{{}}}", e));
                        }
                        _ => {
                            let e = self.expr(Ty::Bool, d);
                            s.push_str(&format!("{{{}}}", e));
                        }
                    }
                }
                s.push('`');
                s
            }
            5 => {
                let a = self.expr(Ty::Str, d);
                self.used.insert("string-method");
                match self.rng.below(3) {
                    0 => format!("({}):rep(2)", a),
                    1 => format!("({}):upper()", a),
                    _ => format!("string.sub({}, 1, 2)", a),
                }
            }
            6 => {
                if let Some(t) = self.find_var(Ty::Rec) {
                    format!("{}.s", t)
                } else {
                    self.str_lit()
                }
            }
            7 if self.has_obj_mt => {
                if let Some(o) = self.find_var(Ty::Obj) {
                    self.used.insert("metamethod-concat");
                    match self.rng.below(3) {
                        0 => format!("({} .. 'z')", o),
                        1 => format!("tostring({})", o),
                        _ if self.feat.luau => format!("`<{{{}}}>`", o),
                        _ => format!("('y' .. {})", o),
                    }
                } else {
                    self.str_lit()
                }
            }
            8 => {
                let a = self.expr(Ty::Int, d);
                let b = self.expr(Ty::Str, d);
                self.used.insert("string-format");
                format!("string.format('%d:%s%%', {}, {})", a, b)
            }
            9 => {
                let c = self.expr(Ty::Bool, d);
                let a = self.expr(Ty::Str, d);
                let b = self.expr(Ty::Str, d);
                format!("({} and {} or {})", self.paren_if_needed(c), self.paren_if_needed(a), self.paren_if_needed(b))
            }
            _ => self.str_lit(),
        }
    }

    fn is_atomic(s: &str) -> bool {
        let b = s.as_bytes();
        if b.is_empty() {
            return true;
        }
        // identifiers, numbers, already parenthesised, simple calls without operators
        let mut depth = 0i32;
        for (i, c) in b.iter().enumerate() {
            match c {
                b'(' | b'{' | b'[' => depth += 1,
                b')' | b'}' | b']' => depth -= 1,
                b' ' if depth == 0 => return false,
                b'-' | b'#' if depth == 0 && i == 0 => return false,
                _ => {}
            }
        }
        !s.starts_with("not ")
    }
    fn paren_if_needed(&self, s: String) -> String {
        if Self::is_atomic(&s) { s } else { format!("({})", s) }
    }
    fn paren_always(&self, s: String) -> String {
        if s.bytes().all(|c| c.is_ascii_alphanumeric() || c == b'_') && !s.is_empty() { s } else { format!("({})", s) }
    }
    fn paren_concat(&self, s: String) -> String {
        // a number literal directly before `..` would lex as a malformed number
        if s.bytes().all(|c| c.is_ascii_digit()) { format!("({})", s) } else { self.paren_if_needed(s) }
    }

    fn function_expr(&mut self, ty: Ty) -> String {
        // single-line function expression
        self.used.insert("closure");
        match ty {
            Ty::Fn1 => {
                let p = self.fresh("p");
                self.push_scope();
                self.in_loop.push(LoopKind::None);
                self.declare(&p, Ty::Int);
                let e = self.expr(Ty::Int, 2);
                let body = if self.rng.chance(1, 2) {
                    format!("emit('fn1', {}) return {}", p, e)
                } else {
                    format!("return {}", e)
                };
                self.in_loop.pop();
                self.pop_scope();
                format!("function({}) {} end", p, body)
            }
            Ty::Fn2 => {
                let p = self.fresh("p");
                let q = self.fresh("q");
                let (p, q) = if p == q { (p, format!("{}2", q)) } else { (p, q) };
                self.push_scope();
                self.in_loop.push(LoopKind::None);
                self.declare(&p, Ty::Int);
                self.declare(&q, Ty::Int);
                let e1 = self.expr(Ty::Int, 1);
                let e2 = self.expr(Ty::Int, 1);
                self.in_loop.pop();
                self.pop_scope();
                format!("function({}, {}) return {}, {} end", p, q, e1, e2)
            }
            _ => {
                self.used.insert("vararg");
                match self.rng.below(3) {
                    0 => "function(...) return select('#', ...) end".to_owned(),
                    1 => "function(...) local a1, a2 = ... emitv(a1, a2) return select('#', ...) end".to_owned(),
                    _ => "function(...) emitv(...) local t = {...} return #t end".to_owned(),
                }
            }
        }
    }

    // ---- statements
    pub fn block(&mut self, n: usize) {
        self.push_scope();
        self.indent += 1;
        for _ in 0..n {
            self.statement();
        }
        self.indent -= 1;
        self.pop_scope();
    }

    fn emit_stmt(&mut self) {
        let n = 1 + self.rng.below(3);
        let mut args = Vec::new();
        for _ in 0..n {
            let t = self.pick_value_ty();
            args.push(self.expr(t, 2));
        }
        if self.rng.chance(1, 5) {
            if let Some(f) = self.find_var(Ty::Fn2) {
                args.push(format!("{}(3, 4)", f));
                self.used.insert("multi-return-last-arg");
            }
        }
        if self.rng.chance(1, 8) {
            if let Some(f) = self.find_var(Ty::Fn2) {
                args.insert(0, format!("{}(5, 6)", f));
                self.used.insert("multi-return-nonlast-arg");
            }
        }
        let name = *self.rng.pick(&["emit", "emit", "emit2"]);
        self.line(&format!("{}({})", name, args.join(", ")));
    }

    pub fn statement(&mut self) {
        self.budget -= 2;
        if self.budget < 0 {
            self.emit_stmt();
            return;
        }
        if matches!(self.in_loop.last(), Some(LoopKind::While) | Some(LoopKind::For) | Some(LoopKind::Repeat))
            && self.rng.chance(1, 6)
        {
            self.break_or_continue();
            return;
        }
        let choice = self.rng.below(40);
        match choice {
            0..=6 => self.emit_stmt(),
            7..=11 => self.local_decl(),
            12..=13 => self.assignment(),
            14..=15 => self.if_stmt(),
            16 => self.while_stmt(),
            17..=18 => self.for_stmt(),
            19 => self.repeat_stmt(),
            20 => self.do_stmt(),
            21..=22 => self.function_decl(),
            23 => self.generic_for(),
            24 if self.feat.dead_code => self.dead_code(),
            25 if self.feat.dead_code => self.dead_code(),
            26 if self.feat.luau => self.compound_assign(),
            27 if self.feat.luau => self.compound_assign(),
            28 if self.feat.methods => self.method_stuff(),
            29 if self.feat.metatables && self.has_obj_mt => {
                let n = self.fresh("o");
                self.line(&format!("local {} = setmetatable({{}}, OBJ_MT)", n));
                self.declare(&n, Ty::Obj);
                if self.rng.chance(1, 2) {
                    let v = self.expr(Ty::Int, 1);
                    self.line(&format!("{}.field = {}", n, v));
                    self.used.insert("metamethod-newindex");
                }
            }
            30 => self.break_or_continue(),
            31 if self.feat.types && self.feat.luau => {
                self.used.insert("type-syntax");
                let n = self.fresh("T");
                match self.rng.below(3) {
                    0 => self.line(&format!("type {} = number | string", n)),
                    1 => self.line(&format!("type {} = {{ x: number, s: string? }}", n)),
                    _ => self.line(&format!("export type {}<U> = (U, ...number) -> (boolean, ...string)", n)),
                }
            }
            32 => {
                // table field / index assignment
                if let Some(t) = self.find_var(Ty::Rec) {
                    let v = self.expr(Ty::Int, 2);
                    if self.rng.chance(1, 2) {
                        self.line(&format!("{}.x = {}", t, v));
                    } else {
                        self.line(&format!("{}['x'] = {}", t, v));
                    }
                    self.used.insert("field-assign");
                } else if let (Some(t), true) = (self.find_var(Ty::Arr), self.in_loop.iter().all(|l| *l == LoopKind::None)) {
                    let v = self.expr(Ty::Int, 2);
                    self.line(&format!("{}[#{} + 1] = {}", t, t, v));
                    self.used.insert("index-assign");
                } else {
                    self.local_decl();
                }
            }
            33 => {
                // call statement with string / table call sugar
                match self.rng.below(3) {
                    0 => self.line("emit 'sugar'"),
                    1 => self.line("emit { 1, 2 }"),
                    _ => self.line("sink(get1())"),
                }
                self.used.insert("call-sugar");
            }
            34 => {
                // early return from a function through a nested do (only inside functions)
                if self.fn_depth > 0 && self.in_loop.last() == Some(&LoopKind::None) && self.rng.chance(1, 3) {
                    // handled in function_decl bodies
                }
                self.emit_stmt();
            }
            _ => self.local_decl(),
        }
    }

    fn annot(&mut self, ty: Ty) -> String {
        if self.feat.types && self.feat.luau && self.rng.chance(1, 4) {
            self.used.insert("type-syntax");
            match ty {
                Ty::Int | Ty::Num => ": number".to_owned(),
                Ty::Str => ": string".to_owned(),
                Ty::Bool => ": boolean".to_owned(),
                _ => ": any".to_owned(),
            }
        } else {
            String::new()
        }
    }

    fn local_decl(&mut self) {
        match self.rng.below(10) {
            0..=4 => {
                let ty = *self.rng.pick(&[Ty::Int, Ty::Int, Ty::Num, Ty::Bool, Ty::Str, Ty::Arr, Ty::Rec, Ty::Nil]);
                let e = self.expr(ty, 3);
                let n = self.fresh("v");
                let a = self.annot(ty);
                if ty == Ty::Nil && self.rng.chance(1, 2) {
                    self.line(&format!("local {}", n));
                } else {
                    self.line(&format!("local {}{} = {}", n, a, e));
                }
                self.declare(&n, ty);
            }
            5..=6 => {
                // several names, several values, later initialisers may read earlier outer names
                let t1 = self.pick_value_ty();
                let t2 = self.pick_value_ty();
                let e1 = self.expr(t1, 2);
                let e2 = self.expr(t2, 2);
                let n1 = self.fresh("m");
                let mut n2 = self.fresh("n");
                if n1 == n2 {
                    n2 = format!("{}_", n2);
                }
                match self.rng.below(3) {
                    0 => {
                        self.line(&format!("local {}, {} = {}, {}", n1, n2, e1, e2));
                        self.declare(&n1, t1);
                        self.declare(&n2, t2);
                    }
                    1 => {
                        // fewer values than names
                        self.line(&format!("local {}, {} = {}", n1, n2, e1));
                        self.declare(&n1, t1);
                        self.declare(&n2, Ty::Nil);
                        self.used.insert("local-missing-values");
                    }
                    _ => {
                        // extra value (evaluated, discarded)
                        let e3 = self.expr(Ty::Int, 1);
                        self.line(&format!("local {} = {}, {}", n1, e1, e3));
                        self.declare(&n1, t1);
                        self.used.insert("local-extra-values");
                    }
                }
            }
            7 => {
                if let Some(f) = self.find_var(Ty::Fn2) {
                    let n1 = self.fresh("r");
                    let mut n2 = self.fresh("s");
                    if n1 == n2 {
                        n2 = format!("{}_", n2);
                    }
                    let a = self.expr(Ty::Int, 1);
                    self.line(&format!("local {}, {} = {}({}, 2)", n1, n2, f, a));
                    self.declare(&n1, Ty::Int);
                    self.declare(&n2, Ty::Int);
                    self.used.insert("multi-assign-from-call");
                } else {
                    self.function_decl();
                }
            }
            _ => {
                let ty = *self.rng.pick(&[Ty::Fn1, Ty::Fn2, Ty::FnV]);
                let f = self.function_expr(ty);
                let n = self.fresh("f");
                self.line(&format!("local {} = {}", n, f));
                self.declare(&n, ty);
            }
        }
    }

    fn assignment(&mut self) {
        let candidates: Vec<Var> = self
            .visible()
            .into_iter()
            .filter(|v| matches!(v.ty, Ty::Int | Ty::Str | Ty::Bool) && v.assignable)
            // no string assignment inside loops: `s = (s .. a) .. (s .. b)` doubles the string on every
            // iteration and nested loops make the reference run need exponential memory
            .filter(|v| v.ty != Ty::Str || self.in_loop.iter().all(|l| *l == LoopKind::None))
            .collect();
        if candidates.is_empty() {
            self.local_decl();
            return;
        }
        let v = candidates[self.rng.below(candidates.len())].clone();
        let e = self.expr(v.ty, 2);
        if self.rng.chance(1, 4) && candidates.len() >= 2 {
            let w = candidates[self.rng.below(candidates.len())].clone();
            if w.name != v.name {
                let e2 = self.expr(w.ty, 2);
                self.line(&format!("{}, {} = {}, {}", v.name, w.name, e, e2));
                self.used.insert("multi-assign");
                return;
            }
        }
        self.line(&format!("{} = {}", v.name, e));
        self.used.insert("assign");
    }

    fn compound_assign(&mut self) {
        self.used.insert("compound-assign");
        match self.rng.below(5) {
            0 | 1 => {
                let candidates: Vec<Var> =
                    self.visible().into_iter().filter(|v| v.ty == Ty::Int && v.assignable).collect();
                if candidates.is_empty() {
                    self.local_decl();
                    return;
                }
                let v = candidates[self.rng.below(candidates.len())].clone();
                let e = self.expr(Ty::Int, 2);
                let op = *self.rng.pick(&["+=", "-=", "*="]);
                self.line(&format!("{} {} {}", v.name, op, e));
            }
            2 => {
                if let Some(t) = self.find_var(Ty::Rec) {
                    let e = self.expr(Ty::Int, 2);
                    if self.rng.chance(1, 2) {
                        self.line(&format!("{}.x += {}", t, e));
                    } else {
                        self.line(&format!("{}.s ..= 'k'", t));
                    }
                } else {
                    self.local_decl();
                }
            }
            3 => {
                // prefix and key with side effects: evaluated once, in order
                if let Some(t) = self.find_var(Ty::Arr) {
                    let e = self.expr(Ty::Int, 1);
                    self.line(&format!("{}[1] = 0", t));
                    self.line(&format!("(sink({}) or {})[get1() * 0 + 1] += {}", "'p'", t, e));
                    self.used.insert("compound-assign-effectful-prefix");
                } else {
                    self.local_decl();
                }
            }
            _ => {
                if let (Some(o), true) = (self.find_var(Ty::Obj), self.has_obj_mt) {
                    self.line(&format!("{}.count += 1", o));
                    self.used.insert("compound-assign-metamethods");
                } else {
                    self.local_decl();
                }
            }
        }
    }

    fn if_stmt(&mut self) {
        let c = self.expr(Ty::Bool, 2);
        self.line(&format!("if {} then", c));
        let n = 1 + self.rng.below(3);
        self.block(n);
        if self.rng.chance(1, 3) {
            let c2 = self.expr(Ty::Bool, 2);
            self.line(&format!("elseif {} then", c2));
            let n = 1 + self.rng.below(2);
            self.block(n);
            self.used.insert("elseif");
        }
        if self.rng.chance(1, 2) {
            self.line("else");
            let n = 1 + self.rng.below(2);
            self.block(n);
        }
        self.line("end");
    }

    fn while_stmt(&mut self) {
        let i = self.fresh("i");
        let bound = 1 + self.rng.below(3);
        self.line(&format!("local {} = 0", i));
        self.declare(&i, Ty::Int);
        self.line(&format!("while {} < {} do", i, bound));
        self.push_scope();
        self.scopes.last_mut().unwrap().push(Var { name: i.clone(), ty: Ty::Int, assignable: false });
        self.indent += 1;
        self.line(&format!("{} = {} + 1", i, i));
        self.in_loop.push(LoopKind::While);
        let n = 1 + self.rng.below(3);
        for _ in 0..n {
            self.statement();
        }
        self.loop_tail_return();
        self.in_loop.pop();
        self.indent -= 1;
        self.pop_scope();
        self.line("end");
        self.used.insert("while");
    }

    fn for_stmt(&mut self) {
        let i = self.fresh("i");
        let (a, b, step) = match self.rng.below(4) {
            0 => (1, 3, None),
            1 => (3, 1, Some(-1)),
            2 => (0, 4, Some(2)),
            _ => (2, 1, None),
        };
        match step {
            Some(s) => self.line(&format!("for {} = {}, {}, {} do", i, a, b, s)),
            None => self.line(&format!("for {} = {}, {} do", i, a, b)),
        }
        self.push_scope();
        self.scopes.last_mut().unwrap().push(Var { name: i.clone(), ty: Ty::Int, assignable: false });
        self.indent += 1;
        self.in_loop.push(LoopKind::For);
        let n = 1 + self.rng.below(3);
        for _ in 0..n {
            self.statement();
        }
        self.loop_tail_return();
        self.in_loop.pop();
        self.indent -= 1;
        self.pop_scope();
        self.line("end");
        self.used.insert("numeric-for");
    }

    fn generic_for(&mut self) {
        let arr = match self.find_var(Ty::Arr) {
            Some(a) => a,
            None => {
                let n = self.fresh("arr");
                self.line(&format!("local {} = {{10, 20, 30}}", n));
                self.declare(&n, Ty::Arr);
                n
            }
        };
        let k = self.fresh("k");
        let mut v = self.fresh("e");
        if v == k {
            v = format!("{}_", v);
        }
        self.line(&format!("for {}, {} in ipairs({}) do", k, v, arr));
        self.push_scope();
        self.scopes.last_mut().unwrap().push(Var { name: k.clone(), ty: Ty::Int, assignable: false });
        self.scopes.last_mut().unwrap().push(Var { name: v.clone(), ty: Ty::Int, assignable: false });
        self.indent += 1;
        self.in_loop.push(LoopKind::For);
        let n = 1 + self.rng.below(2);
        for _ in 0..n {
            self.statement();
        }
        self.loop_tail_return();
        self.in_loop.pop();
        self.indent -= 1;
        self.pop_scope();
        self.line("end");
        self.used.insert("generic-for");
    }

    /// the tail of a loop body inside a function: a conditional exit from the loop followed by a `return`
    /// (as the last statement of the body, or in a nested `do`): the statements AFTER the loop are reachable
    /// although the body "ends with a return" (filter_after_early_return must not treat the loop as a stop)
    fn loop_tail_return(&mut self) {
        if self.fn_depth == 0 || !self.rng.chance(1, 4) {
            return;
        }
        let c = self.expr(Ty::Bool, 1);
        let kind = self.in_loop.last().copied();
        if self.feat.luau && self.rng.chance(1, 3) && kind.is_some() {
            self.line(&format!("if {} then continue end", c));
            self.used.insert("continue");
        } else {
            self.line(&format!("if {} then break end", c));
            self.used.insert("break");
        }
        if self.rng.chance(1, 2) {
            self.emit_stmt();
        }
        let e = self.expr(Ty::Int, 1);
        if self.rng.chance(1, 2) {
            self.line(&format!("return {}", e));
        } else {
            self.line("do");
            self.indent += 1;
            self.line(&format!("return {}", e));
            self.indent -= 1;
            self.line("end");
            if self.rng.chance(1, 2) {
                self.line("emit('unreachable-in-loop')");
            }
        }
        self.used.insert("return-in-loop");
    }

    fn repeat_stmt(&mut self) {
        let i = self.fresh("i");
        self.line(&format!("local {} = 0", i));
        self.declare(&i, Ty::Int);
        self.line("repeat");
        self.push_scope();
        self.scopes.last_mut().unwrap().push(Var { name: i.clone(), ty: Ty::Int, assignable: false });
        self.indent += 1;
        self.line(&format!("{} = {} + 1", i, i));
        let done = self.fresh("done");
        let bound = 1 + self.rng.below(3);
        // a body-local read by the condition
        self.line(&format!("local {} = {} >= {}", done, i, bound));
        self.in_loop.push(LoopKind::Repeat);
        let n = self.rng.below(3);
        for _ in 0..n {
            self.statement();
        }
        self.loop_tail_return();
        self.in_loop.pop();
        self.indent -= 1;
        self.pop_scope();
        if self.rng.chance(1, 2) {
            self.line(&format!("until {}", done));
            self.used.insert("repeat-cond-reads-body-local");
        } else {
            self.line(&format!("until {} >= {}", i, bound));
        }
        self.used.insert("repeat");
    }

    fn do_stmt(&mut self) {
        self.line("do");
        let n = 1 + self.rng.below(3);
        self.block(n);
        self.line("end");
        self.used.insert("do");
    }

    fn break_or_continue(&mut self) {
        match self.in_loop.last().copied() {
            Some(LoopKind::While) | Some(LoopKind::For) | Some(LoopKind::Repeat) => {
                let c = self.expr(Ty::Bool, 1);
                let kind = self.in_loop.last().copied().unwrap();
                // `continue` inside repeat would skip the body-local the condition reads: allowed
                // by Luau only if the local is declared before; our `done` local is declared first.
                if self.feat.luau && self.rng.chance(1, 2) && kind != LoopKind::Repeat {
                    self.line(&format!("if {} then continue end", c));
                    self.used.insert("continue");
                } else if self.feat.luau && kind == LoopKind::Repeat && self.rng.chance(1, 2) {
                    self.line(&format!("if {} then continue end", c));
                    self.used.insert("continue-in-repeat");
                } else {
                    self.line(&format!("if {} then break end", c));
                    self.used.insert("break");
                }
            }
            _ => self.emit_stmt(),
        }
    }

    fn function_decl(&mut self) {
        let name = self.fresh("fn");
        let kind = self.rng.below(4);
        let p = "n";
        let header = match kind {
            0 => format!("local function {}({})", name, p),
            1 => format!("function {}({})", format!("G_{}", name), p),
            2 => format!("local {} = function({})", name, p),
            _ => format!("local function {}({})", name, p),
        };
        let visible_name = if kind == 1 { format!("G_{}", name) } else { name.clone() };
        self.line(&header);
        self.push_scope();
        self.in_loop.push(LoopKind::None);
        self.fn_depth += 1;
        let recursive = (kind == 0 || kind == 3) && self.rng.chance(1, 2);
        self.scopes.last_mut().unwrap().push(Var { name: p.to_owned(), ty: Ty::Int, assignable: !recursive });
        self.indent += 1;
        if recursive {
            // bounded direct recursion
            self.line(&format!("if {} <= 0 then return 0 end", p));
            self.used.insert("recursion");
        }
        let n = self.rng.below(3);
        for _ in 0..n {
            self.statement();
        }
        let e = self.expr(Ty::Int, 2);
        if recursive {
            self.line(&format!("return {} + {}({} - 1 - {} % 1)", self.paren_if_needed(e), name, p, p));
        } else if self.feat.dead_code && self.rng.chance(1, 4) {
            self.line("do");
            self.indent += 1;
            self.line(&format!("return {}", e));
            self.indent -= 1;
            self.line("end");
            self.line("emit('unreachable')");
            self.used.insert("early-return");
        } else {
            self.line(&format!("return {}", e));
        }
        self.indent -= 1;
        self.fn_depth -= 1;
        self.in_loop.pop();
        self.pop_scope();
        self.line("end");
        if (kind != 1 || self.scopes.len() == 1) && !recursive {
            self.declare(&visible_name, Ty::Fn1);
        }
        if recursive {
            let k = self.rng.range(0, 3);
            self.line(&format!("emit({}({}))", visible_name, k));
        }
        self.used.insert("function-decl");
    }

    fn method_stuff(&mut self) {
        self.used.insert("method");
        let t = self.fresh("obj");
        self.line(&format!("local {} = {{ value = 1, inner = {{ v = 2 }} }}", t));
        match self.rng.below(3) {
            0 => {
                self.line(&format!("function {}:bump(d) self.value = self.value + d emit('bump', self.value) return self.value end", t));
                let a = self.expr(Ty::Int, 1);
                self.line(&format!("emit({}:bump({}))", t, a));
            }
            1 => {
                self.line(&format!("function {}.inner:get(d) return self.v + d end", t));
                let a = self.expr(Ty::Int, 1);
                self.line(&format!("emit({}.inner:get({}))", t, a));
            }
            _ => {
                self.line(&format!("function {}.static(a, b) return a - b end", t));
                self.line(&format!("emit({}.static(5, 2), ({}).static(1, 1))", t, t));
            }
        }
    }

    fn dead_code(&mut self) {
        self.used.insert("dead-code");
        match self.rng.below(12) {
            0 => {
                self.line("if false then");
                self.block(1);
                self.line("end");
            }
            1 => {
                self.line("if true then");
                self.block(1);
                self.line("else");
                self.block(1);
                self.line("end");
            }
            2 => {
                self.line("while false do");
                self.block(1);
                self.line("end");
            }
            3 => self.line("do end"),
            4 => {
                let n = self.fresh("unused");
                let e = self.expr(Ty::Int, 2);
                self.line(&format!("local {} = {}", n, e));
            }
            5 => {
                let n = self.fresh("unused");
                self.line(&format!("local {} = {{}}", n));
            }
            6 => {
                let n = self.fresh("z");
                self.line(&format!("local {} = nil", n));
                self.declare(&n, Ty::Nil);
            }
            7 => {
                let n = self.fresh("c");
                let e = *self.rng.pick(&["1 + 2 * 3", "'a' .. 'b'", "2 ^ 3", "10 % 3", "not nil", "1 < 2", "'x' == 'x'", "#'abc'", "-(-2)", "7 / 2", "1 == 1 and 5 or 6", "nil or 3", "false and emit('no') or 4"]);
                self.line(&format!("local {} = {}", n, e));
                let ty = if e.contains("..") { Ty::Str } else if e.contains("not") || e.contains('<') || e == "'x' == 'x'" { Ty::Bool } else if e.contains('/') { Ty::Num } else { Ty::Int };
                self.declare(&n, ty);
            }
            8 => {
                let c = self.expr(Ty::Bool, 1);
                self.line(&format!("if {} and false then", self.paren_if_needed(c)));
                self.block(1);
                self.line("end");
            }
            9 => {
                // unused local whose initialiser has side effects (must be kept)
                let n = self.fresh("unused");
                self.line(&format!("local {} = get1()", n));
            }
            10 => {
                let n = self.fresh("unused");
                self.line(&format!("local function {}() emit('never') end", n));
            }
            _ => {
                let n = self.fresh("u");
                let m = format!("{}b", n);
                self.line(&format!("local {}, {} = nil, get2()", n, m));
                self.declare(&n, Ty::Nil);
                self.declare(&m, Ty::Int);
            }
        }
    }
}

/// one program: (source text, constructs used)
pub fn generate(rng: &mut Rng, feat: Features, budget: i64) -> (String, std::collections::BTreeSet<&'static str>) {
    Gen::new(rng, feat, budget).program()
}
