//! Targeted program generators for C01: the shapes the default rules rewrite, which the shared
//! type-directed generator (progen.rs) produces rarely or never. Programs are source text for
//! darklua's parser; many are deliberately NOT error-free (e.g. `nil + 1` in a dead position):
//! those still go through the model/code tree correspondence, only the execution oracle skips them.
//!
//! Families
//!  * `expr-ctx`     every expression of depth ≤ 1 over a leaf alphabet (+ sampled depth 2) in every
//!                   context kind: return list last/non-last/single, call argument last/non-last,
//!                   table constructor last/non-last/named/key, local/assignment rhs with more or fewer
//!                   targets, if/while/repeat condition, parenthesised, index key, `select('#', …)`,
//!                   inside a variadic function called with two arguments;
//!  * `const-cond`   while / if-elseif-else / repeat with constant conditions of every form the
//!                   evaluator decides (literals, not/and/or, comparisons, arithmetic, length, concat,
//!                   parentheses, tables and functions, with and without effectful operands);
//!  * `early-return` `do return … end` (nested, with values, with break/continue) followed by code,
//!                   in every block kind;
//!  * `method-def`   `function a.b.c:m(…)` definitions and calls;
//!  * `local-decl`   local declarations with nil values, surplus/missing values, multi-value tails,
//!                   repeated names and every used/unused pattern;
//!  * `call-parens`  single string / table arguments in call and method-call position.
use crate::rng::Rng;

pub struct Targeted {
    pub family: &'static str,
    pub code: String,
    pub rules: Vec<&'static str>,
    /// also run the default pipeline end to end on it
    pub pipeline: bool,
}

const PRELUDE: &str = "local x = get1()\nlocal t = { k = 1, a = 2, [1] = 3 }\nlocal function f2() emit('f2') return 5, 6 end\n";

pub const LEAVES_SMALL: [&str; 11] = ["nil", "true", "false", "1", "'a'", "x", "nope", "get1()", "...", "{}", "f2()"];
pub const LEAVES_MORE: [&str; 14] = [
    "0", "2.5", "-1", "''", "'1'", "'b'", "t", "t.k", "flag2()", "{get1()}", "function() end", "(f2())", "(...)", "1e-20",
];
pub const UNOPS: [&str; 3] = ["not ", "-", "#"];
pub const BINOPS: [&str; 15] = ["and", "or", "==", "~=", "<", "<=", ">", ">=", "+", "-", "*", "/", "%", "^", ".."];

/// contexts: `@` is replaced by the expression
pub const CONTEXTS: [&str; 31] = [
    "return @",
    "return @, 1",
    "return 1, @",
    "return (@)",
    "emit(@)",
    "emit(@, 1)",
    "emit(1, @)",
    "emit(select('#', @))",
    "local r = {@} return #r, r[1], r[2]",
    "local r = {@, 1} return #r, r[1], r[2]",
    "local r = {1, @} return #r, r[1], r[2], r[3]",
    "local r = {k = @} return r.k",
    "local r = {[@] = 1} return r",
    "local a, b = @ return a, b",
    "local a, b = 1, @ return a, b",
    "local a = @, 1 return a",
    "local a, b a, b = @ return a, b",
    "g1, g2 = 1, @ return g1, g2",
    "if @ then emit(1) else emit(2) end",
    "if flag2() then emit(0) elseif @ then emit(1) else emit(2) end",
    "while @ do emit(1) break end",
    "local n = 0 repeat n = n + 1 if n > 2 then break end emit(n) until @",
    "return t[@]",
    "t[@] = 1 return t",
    "local function v(...) return @ end return v(7, 8)",
    "local function v(...) emit(@) return {@} end return v(7, 8)",
    "return t:k(@)",
    "local unused = @ return 1",
    "local u, v = 1, @ return u",
    "local a = 1, @ return a",
    "do local w = @ end local function q() local z = @ end return q()",
];

const EXPR_RULES: [&str; 6] = [
    "compute_expression",
    "remove_unused_if_branch",
    "remove_unused_while",
    "convert_index_to_field",
    "remove_nil_declaration",
    "remove_unused_variable",
];

fn in_context(ctx: &str, e: &str) -> String {
    format!("{}{}\n", PRELUDE, ctx.replace('@', e))
}

fn paren_if_needed(e: &str) -> String {
    // operands are parenthesised unless atomic, so precedence never changes the intended tree
    let atomic = !e.contains(' ') && !e.starts_with('-') && !e.starts_with('#');
    if atomic { e.to_owned() } else { format!("({})", e) }
}

pub fn un(op: &str, e: &str) -> String {
    format!("{}{}", op, paren_if_needed(e))
}
pub fn bin(op: &str, l: &str, r: &str) -> String {
    format!("{} {} {}", paren_if_needed(l), op, paren_if_needed(r))
}

/// all expressions of depth ≤ 1 over the small alphabet (exhaustive part)
pub fn depth1_small() -> Vec<String> {
    let mut v: Vec<String> = LEAVES_SMALL.iter().map(|s| s.to_string()).collect();
    for op in UNOPS {
        for l in LEAVES_SMALL {
            v.push(un(op, l));
        }
    }
    for op in BINOPS {
        for l in LEAVES_SMALL {
            for r in LEAVES_SMALL {
                v.push(bin(op, l, r));
            }
        }
    }
    v
}

fn all_leaves() -> Vec<&'static str> {
    LEAVES_SMALL.iter().chain(LEAVES_MORE.iter()).copied().collect()
}

/// a random expression of the given depth over the full alphabet (Luau if-expressions and
/// interpolated strings included: darklua's parser and the reference semantics know them)
pub fn random_expr(rng: &mut Rng, depth: usize) -> String {
    let leaves = all_leaves();
    if depth == 0 || rng.chance(1, 5) {
        return (*rng.pick(&leaves)).to_owned();
    }
    match rng.below(10) {
        0 | 1 => { let op = *rng.pick(&UNOPS); un(op, &random_expr(rng, depth - 1)) }
        2 => format!("({})", random_expr(rng, depth - 1)),
        3 => format!(
            "(if {} then {} elseif {} then {} else {})",
            random_expr(rng, depth - 1),
            random_expr(rng, depth - 1),
            random_expr(rng, depth - 1),
            random_expr(rng, depth - 1),
            random_expr(rng, depth - 1)
        ),
        4 => format!("`a{{{}}}b`", random_expr(rng, depth - 1)),
        _ => {
            let op = *rng.pick(&BINOPS);
            bin(op, &random_expr(rng, depth - 1), &random_expr(rng, depth - 1))
        }
    }
}

/// constant conditions of the forms the evaluator decides
pub fn const_conditions() -> Vec<String> {
    let consts = ["nil", "false", "true", "0", "1", "'a'", "''", "{}", "function() end", "{get1()}", "(nil)", "(true)"];
    let mut v: Vec<String> = consts.iter().map(|s| s.to_string()).collect();
    for c in consts {
        v.push(un("not ", c));
        v.push(un("not ", &un("not ", c)));
    }
    for op in ["and", "or"] {
        for l in consts {
            for r in ["nil", "false", "true", "1", "get1()", "x", "{}", "(nil + 1)"] {
                v.push(bin(op, l, r));
            }
        }
        for l in ["get1()", "x", "nope", "t.k"] {
            for r in ["nil", "false", "true"] {
                v.push(bin(op, l, r));
            }
        }
    }
    let nums = ["0", "1", "2", "-1", "1.5", "1e300", "1e-20", "2e-20", "0/0", "1/0", "-(1/0)", "-0"];
    for op in ["==", "~=", "<", "<=", ">", ">="] {
        for l in nums {
            for r in ["1", "2e-20", "0", "1/0", "0/0"] {
                v.push(bin(op, l, r));
            }
        }
        for (l, r) in [("'a'", "'b'"), ("'a'", "'a'"), ("''", "'a'"), ("'a'", "1"), ("1", "'1'"), ("nil", "false"), ("nil", "nil"), ("true", "true"), ("{}", "{}"), ("x", "x"), ("'Z'", "'a'"), ("'ab'", "'a'")] {
            v.push(bin(op, l, r));
        }
    }
    for e in [
        "1 + 1 == 2", "2 * 3 < 5", "7 % 3 == 1", "2 ^ 2 == 4", "7 / 2 > 3", "#'abc' == 3", "#'' < 1", "'a' .. 'b' == 'ab'",
        "1 .. '' == '1'", "'1' + 1 == 2", "-'2' < 0", "not (1 < 2)", "(1 < 2) and nil", "(1 > 2) or false", "not x and false",
        "(not x) and false", "x and false", "false and x", "nil and (nil + 1)", "false or nil", "(get1() and false)", "({} and nil)",
        "({get1()} and nil)", "(function() end) and false", "1 < 2 and 2 < 1", "(if true then false else true)",
        "(if x then false else false)", "(if false then true elseif nil then true else nil)", "`a` == 'a'", "`{1}` == '1'", "`{nil}` == 'nil'",
        "7 // 2 == 3", "(nil :: any)", "-7 % 3 == 2", "7 % -3 == -2", "-7 % 3 == -1", "5 % 3 == 2", "-7 // 2 == -4", "-7 // 2 == -3", "2 ^ 0.5 > 1.4",
        "-(-2) == 2", "1 / 2 == 0.5", "3 - 5 < 0", "2 * 3 == 6", "2 ^ 3 ^ 2 == 512", "-2 ^ 2 == -4", "5.5 % 2 == 1.5", "1 % 0 ~= 1 % 0", "1 // 0 > 1e308",
        "'10' + 0 == 10", "'0x10' + 0 == 16", "' 5 ' * 1 == 5", "'1e1' + 0 == 10", "'5.' + 0 == 5", "'.5' + 0 == 0.5", "'1_0' + 0 == 10", "-'3' == -3",
        "'a' + 0 == 0", "10 .. '' == '10'", "1.5 .. '' == '1.5'", "-1 .. '' == '-1'", "1e15 .. '' == '1e+15'", "2^53 .. '' == '9.007199254741e+15'",
        "0.1 .. '' == '0.1'", "'a' .. 1 .. 2 == 'a12'", "#('ab' .. 'c') == 3", "#`x{1}` == 2", "'a' < 'B'", "'' < ' '", "'a' <= 'a'", "'b' >= 'a' and 'a' >= 'b'", "((false))", "not not not nil", "#{} == 0", "-x < 0", "t == t", "{} == {}", "nil == false",
    ] {
        v.push(e.to_owned());
    }
    v
}

fn cond_programs(c: &str) -> Vec<String> {
    let mut v = Vec::new();
    v.push(format!("{}emit(0)\nwhile {} do emit(1) break end\nemit(2)\nreturn 3\n", PRELUDE, c));
    v.push(format!("{}while {} do emit(1) if flag1() then break end end\nwhile {} do break end\nreturn x\n", PRELUDE, c, c));
    v.push(format!("{}if {} then emit(1) end\nif {} then emit(1) else emit(2) end\nreturn 3\n", PRELUDE, c, c));
    v.push(format!("{}if flag2() then emit(0) elseif {} then emit(1) elseif x then emit(2) else emit(3) end\nreturn 3\n", PRELUDE, c));
    v.push(format!("{}if {} then emit(1) elseif flag1() then emit(2) elseif {} then emit(3) else emit(4) end\n", PRELUDE, c, c));
    v.push(format!("{}if {} then local y = 1 emit(y) return y elseif {} then else end\nif {} then else emit(5) end\nreturn 0\n", PRELUDE, c, c, c));
    v.push(format!("{}for i = 1, 2 do if {} then emit(i) break else emit(-i) end end\nif {} then end\nif x then elseif {} then emit(9) end\n", PRELUDE, c, c, c));
    v.push(format!("{}local n = 0\nrepeat n = n + 1 if n > 2 then break end emit(n) until {}\nreturn n\n", PRELUDE, c));
    v.push(format!("{}return (if {} then 1 else 2), (if x then 1 elseif {} then f2() else 3), if {} then f2() else ...\n", PRELUDE, c, c, c));
    v.push(format!("{}local function v(...) return if {} then ... elseif {} then f2() else f2() end\nemit(v(7, 8))\nreturn {{ if {} then f2() else v(1, 2) }}\n", PRELUDE, c, c, c));
    v
}

fn early_return_programs() -> Vec<String> {
    let stops = [
        "do return end",
        "do return 1, x end",
        "do do return 2 end end",
        "do emit(1) do emit(2) return f2() end emit(3) end",
        "do do end do return end end",
        "do local y = 1 do emit(y) end end",
        "do if x then return 1 end end",
        "do emit(1) end",
        "do while true do return 1 end end",
        "do return end do return 1 end",
    ];
    let mut v = Vec::new();
    for s in stops {
        let rest = "emit('after')\nlocal z = 2\nemit(z)";
        v.push(format!("{}emit(0)\n{}\n{}\nreturn 9\n", PRELUDE, s, rest));
        v.push(format!("{}do emit(0) {} {} end\nreturn 9\n", PRELUDE, s, rest));
        v.push(format!("{}while flag1() do emit(0) {} {} end\nreturn 9\n", PRELUDE, s, rest));
        v.push(format!("{}while true do emit(0) {} {} break end\nreturn 9\n", PRELUDE, s, rest));
        v.push(format!("{}repeat emit(0) {} {} until true\nreturn 9\n", PRELUDE, s, rest));
        v.push(format!("{}for i = 1, 2 do emit(i) {} {} end\nreturn 9\n", PRELUDE, s, rest));
        v.push(format!("{}for k, w in pairs({{1}}) do emit(k) {} {} end\nreturn 9\n", PRELUDE, s, rest));
        v.push(format!("{}if x then emit(0) {} {} else {} {} end\nreturn 9\n", PRELUDE, s, rest, s, rest));
        v.push(format!("{}if not x then elseif x then {} {} end\nreturn 9\n", PRELUDE, s, rest));
        v.push(format!("{}local function g(...) emit(0) {} {} return 7 end\nemit(g(1))\nreturn g()\n", PRELUDE, s, rest));
        v.push(format!("{}local g = function() {} {} end\nreturn g(), (function() {} end)()\n", PRELUDE, s, rest, s));
        v.push(format!("{}function t.m() {} {} end\nfunction t:n() {} {} end\nreturn t.m(), t:n()\n", PRELUDE, s, rest, s, rest));
        v.push(format!("{}for i = 1, 3 do emit(i) do break end {} {} end\nfor i = 1, 3 do {} do break end end\nreturn 9\n", PRELUDE, s, rest, s));
        v.push(format!("{}for i = 1, 3 do emit(i) do continue end {} {} end\nreturn 9\n", PRELUDE, s, rest));
        // a loop whose body contains / ends with a stop, but with a CONDITIONAL exit (taken at run time, not
        // decidable statically: x = get1()) before it: the statements after the loop are reachable
        v.push(format!("{}local n = 0\nrepeat n = n + 1 if x then break end emit(n) {} {} until false\nemit('after-loop', n)\nreturn 9\n", PRELUDE, s, rest));
        v.push(format!("{}local n = 0\nrepeat n = n + 1 if n > 1 then break end emit(n) if n > 5 then {} end until false\nemit('after-loop', n)\nreturn 9\n", PRELUDE, s));
        v.push(format!("{}local n = 0\nrepeat n = n + 1 if x then continue end emit(n) {} {} until n > 0\nemit('after-loop', n)\nreturn 9\n", PRELUDE, s, rest));
        v.push(format!("{}local n = 0\nrepeat n = n + 1 if x then break end emit(n) {} return 5 until false\nemit('after-loop', n)\nreturn 9\n", PRELUDE, if s.contains("return") && !s.contains("if x") && !s.contains("while") { "emit('in')" } else { s }));
        v.push(format!("{}local function g(...)\nlocal n = 0\nrepeat n = n + 1 if x then break end emit(n) {} {} until false\nemit('after-loop', n)\nreturn 7\nend\nemit(g(1))\nreturn g()\n", PRELUDE, s, rest));
        v.push(format!("{}local function g()\nrepeat do if x then break end end {} until false\nemit('after-loop')\nend\ng()\nreturn 9\n", PRELUDE, s));
        v.push(format!("{}while true do if x then break end emit(0) {} {} end\nemit('after-loop')\nreturn 9\n", PRELUDE, s, rest));
        v.push(format!("{}for i = 1, 3 do if x then break end emit(i) {} {} end\nemit('after-loop')\nreturn 9\n", PRELUDE, s, rest));
        v.push(format!("{}for k, w in pairs({{1, 2}}) do if x then continue end emit(k) {} {} end\nemit('after-loop')\nreturn 9\n", PRELUDE, s, rest));
        v.push(format!("{}local n = 0\nrepeat n = n + 1 repeat if x then break end {} until false emit('inner-after') if n > 1 then break end until false\nemit('after-loop', n)\nreturn 9\n", PRELUDE, s));
    }
    v
}

fn method_def_programs() -> Vec<String> {
    let mut v = Vec::new();
    for (path, setup) in [("t", ""), ("t.a", "t.a = {}\n"), ("t.a.b", "t.a = { b = {} }\n"), ("G", "G = {}\n"), ("G.a.b.c", "G = { a = { b = { c = {} } } }\n")] {
        for (params, args) in [("", ""), ("p", "1"), ("p, q", "1, 2"), ("...", "1, 2, 3"), ("p, ...", "1, 2"), ("self", "1"), ("self, self", "1, 2")] {
            let body = if params.contains("...") { "emit(select('#', ...)) return self, ..." } else if params.is_empty() { "emit(self == nil) return self" } else { "emit(self) return self" };
            v.push(format!(
                "{}{}function {}:m({}) {} end\nfunction {}.n({}) return 1 end\nlocal r1 = {{{}:m({})}}\nlocal r2 = {{{}.m({}, {})}}\nemit(#r1, #r2, r1[1] == {}, r2[1] == {})\nreturn {}.m ~= nil\n",
                PRELUDE, setup, path, params, body, path, params, path, args, path, path, if args.is_empty() { "nil" } else { args }, path, path, path
            ));
        }
    }
    v.push(format!("{}local o = {{}}\nfunction o:inc(d) self.v = (self.v or 0) + d return self end\no:inc(1):inc(2)\nreturn o.v\n", PRELUDE));
    v.push(format!("{}local o = setmetatable({{}}, {{ __newindex = function(tb, k, w) emit(k) rawset(tb, k, w) end }})\nfunction o:m() return self end\nreturn o:m() == o\n", PRELUDE));
    v.push(format!("{}local o = {{}}\ndo local self = 5 function o:m() return self end end\nlocal function w() function o:z(a) return self, a end end\nw()\nreturn o:m() == o, o.z(1, 2)\n", PRELUDE));
    v
}

fn call_parens_programs() -> Vec<String> {
    let mut v = Vec::new();
    for arg in ["'s'", "\"d\"", "[[long]]", "{}", "{1, 2}", "{k = get1()}", "1", "x", "'a', 'b'", "", "('s')", "{} , 1", "nil", "`i`", "function() end", "'a' .. 'b'", "...", "{...}"] {
        v.push(format!("{}emit({})\nsink({})\nlocal o = {{ m = function(self, a) emit(a) return a end }}\no:m({})\no.m(o, {})\nreturn emit({}), (o:m({}))\n", PRELUDE, arg, arg, arg, arg, arg, arg));
        v.push(format!("{}local r = {{ g = function(a) return function(b) emit(a, b) return b end end }}\nr.g({})({})\nr.g {} \nreturn #{{ r.g({}) }}\n", PRELUDE, arg, arg, if arg.starts_with('{') || arg.starts_with('\'') { arg } else { "{}" }, arg));
    }
    v
}

fn local_decl_programs(rng: &mut Rng, count: usize) -> Vec<String> {
    let names_pool = ["a", "b", "c", "a"];
    let values = ["nil", "1", "get1()", "f2()", "{}", "x", "function() return x end", "(f2())", "...", "{get1()}", "t.k", "nil", "nil", "'s'", "x + 1", "-x", "not x", "#t", "t[1]", "`{x}`"];
    let mut v = Vec::new();
    // fixed, hand-picked shapes first
    for s in [
        "local a = nil return a",
        "local a, b = nil, 1 return a, b",
        "local a, b = 1, nil return a, b",
        "local a, b, c = nil, get1(), nil return a, b, c",
        "local a, b = nil return a, b",
        "local a = nil, get1() return a",
        "local a = nil, 1 return a",
        "local a, b = get1(), nil return a, b",
        "local a, b, c = nil, f2() return a, b, c",
        "local a, b = nil, f2() return a, b",
        "local a, b = f2(), nil return a, b",
        "local a, b = nil, ... return a, b",
        "local a, b, c = 1, nil, f2() return a, b, c",
        "local a, b, c = nil, nil, nil return a, b, c",
        "local a <const> = nil return a",
        "local a, b = nil, get1(), get2() return a, b",
        "local a, b = nil, 1, 2, x return a, b",
        "local a, b = (nil), nil return a, b",
        "local a: number?, b: string = nil, 's' return a, b",
        "local a = 1 local a = nil return a",
        "local a, b = nil, 1 local function g() return a, b end a = 2 return g()",
    ] {
        v.push(format!("{}{}\n", PRELUDE, s));
    }
    // ALL names unused, values in the order kept-non-call, call, kept-non-call (each non-call value has an
    // observable effect through a metamethod or an inner call): `expressions_as_statement` must keep the
    // evaluation order — `do local _ = v1; call(); local _ = v2 end`
    let noncalls = ["t.k", "t[1]", "{get1()}", "x + 1", "#t", "o.z", "o[1]", "o + 1", "1 + o", "#o", "o .. 'z'", "-o", "o == o2", "o < o2", "{o.z}", "`{o}`"];
    let calls = ["f2()", "(f2())", "get1()", "sink(o.z)", "o()", "o:m()"];
    let name_lists = ["a", "a, b", "a, b, c", "a, b, c, d"];
    let mut k = 0usize;
    for (i, v1) in noncalls.iter().enumerate() {
        for (j, v2) in noncalls.iter().enumerate() {
            let call = calls[(i + 2 * j) % calls.len()];
            let names = name_lists[(i + j) % name_lists.len()];
            let decl = match k % 4 {
                0 => format!("local {} = {}, {}, {}", names, v1, call, v2),
                1 => format!("local {} = {}, {}, {}, {}", names, v1, call, v2, calls[(i + j + 1) % calls.len()]),
                2 => format!("local {} = {}, {}, {}, {}", names, call, v1, calls[(i + j + 1) % calls.len()], v2),
                _ => format!("local {} = {}, {}, {}, {}", names, v1, v2, call, noncalls[(i + j + 3) % noncalls.len()]),
            };
            let prog = match k % 3 {
                0 => format!("{}{}o.m = function(self) emit('m') return 2 end\n{}\nreturn 1\n", PRELUDE, OBJ_PRELUDE, decl),
                1 => format!("{}{}o.m = function(self) emit('m') return 2 end\ndo\n{}\nend\nemit('after')\nreturn 2\n", PRELUDE, OBJ_PRELUDE, decl),
                _ => format!("{}{}o.m = function(self) emit('m') return 2 end\nlocal function w(...)\n{}\nreturn 3\nend\nreturn w(7, 8)\n", PRELUDE, OBJ_PRELUDE, decl),
            };
            v.push(prog);
            k += 1;
        }
    }
    for s in [
        "local a, b, c = t.k, f2(), t[1]",
        "local a = {get1()}, f2(), {get1()}",
        "local a, b = x + 1, (f2()), #t, {get1()}",
        "local a = o.z, get1(), o + 1, f2(), #o",
        "local a, b, c = {get1()}, {get1()}, sink(1), {get1()}, o .. 'z'",
    ] {
        v.push(format!("{}{}{}\nreturn 1\n", PRELUDE, OBJ_PRELUDE, s));
    }
    for n in 0..count {
        if n % 4 == 3 {
            // every name unused: force non-call, call, non-call among the values (random extras around them)
            let nn = 1 + rng.below(3);
            let names: Vec<&str> = (0..nn).map(|i| names_pool[i]).collect();
            let mut vals: Vec<&str> = Vec::new();
            for _ in 0..rng.below(2) { vals.push(*rng.pick(&values)); }
            vals.push(*rng.pick(&noncalls));
            for _ in 0..rng.below(2) { vals.push(*rng.pick(&values)); }
            vals.push(*rng.pick(&calls));
            for _ in 0..rng.below(2) { vals.push(*rng.pick(&values)); }
            vals.push(*rng.pick(&noncalls));
            for _ in 0..rng.below(2) { vals.push(*rng.pick(&values)); }
            let decl = format!("local {} = {}", names.join(", "), vals.join(", "));
            let head = format!("{}{}o.m = function(self) emit('m') return 2 end\n", PRELUDE, OBJ_PRELUDE);
            let prog = match rng.below(4) {
                0 => format!("{}local function v(...)\n{}\nreturn 1\nend\nreturn v(7, 8)\n", head, decl),
                1 => format!("{}do\n{}\nend\nreturn 2\n", head, decl),
                2 => format!("{}local n = 0\nrepeat\nn = n + 1\n{}\nuntil n > 1\nreturn n\n", head, decl),
                _ => format!("{}local function v(...)\n{}\nemit('tail')\nend\nv(1)\nreturn 3\n", head, decl),
            };
            v.push(prog);
            continue;
        }
        let nn = 1 + rng.below(3);
        let nv = rng.below(5);
        let dup = rng.chance(1, 8);
        let mut names: Vec<&str> = (0..nn).map(|i| names_pool[i]).collect();
        if dup && nn > 1 {
            let i = rng.below(nn);
            let j = rng.below(nn);
            names[i] = names[j];
        }
        let vals: Vec<&str> = (0..nv).map(|_| *rng.pick(&values)).collect();
        let decl = if vals.is_empty() { format!("local {}", names.join(", ")) } else { format!("local {} = {}", names.join(", "), vals.join(", ")) };
        // use pattern: each name used directly, in a closure, assigned only, or not at all
        let mut after = String::new();
        let mut uses: Vec<String> = Vec::new();
        for n in ["a", "b", "c"].iter().take(nn) {
            match rng.below(6) {
                0 | 1 => uses.push(n.to_string()),
                2 => after.push_str(&format!("local function g{}() return {} end\nemit(g{}())\n", n, n, n)),
                3 => after.push_str(&format!("{} = 4\n", n)),
                4 => after.push_str(&format!("do local {} = 3 emit({}) end\n", n, n)),
                _ => {}
            }
        }
        let wrapper = rng.below(5);
        let outer = if rng.chance(1, 2) { "local a, b, c = 11, 12, 13\nemit(a, b, c)\n" } else { "" };
        let body = format!("{}\n{}emit({})\n", decl, after, uses.join(", "));
        let prog = match wrapper {
            0 => format!("{}{}local function v(...)\n{}return a\nend\nreturn v(7, 8)\n", PRELUDE, outer, body),
            1 => format!("{}{}do\n{}end\nreturn a, b\n", PRELUDE, outer, body),
            2 => format!("{}{}local n = 0\nrepeat\nn = n + 1\n{}until n > 1 or {}\nreturn n, c\n", PRELUDE, outer, body, if nn > 1 { "b" } else { "a" }),
            3 => format!("{}{}{}local u1, u2 = get1(), 2\nlocal function unused() return u1 end\nreturn 1\n", PRELUDE, outer, body),
            _ => format!("{}{}{}return a\n", PRELUDE, outer, body),
        };
        v.push(prog);
    }
    v
}

/// string / number spellings whose value depends on the decoder, in the positions where the default rules
/// evaluate or rewrite them: operands of `..`, `#`, `==`, comparisons, index keys, table keys, conditions
pub const STRING_SPELLINGS: [&str; 30] = [
    "\"\\0011\"", "'\\0120'", "\"\\0490\"", "'\\1000'", "\"\\65\\066\"", "'\\9\\10'", "\"\\255\"", "'a\\0001b'",
    "\"\\x41\"", "'\\x4a4'", "\"\\x311\"", "\"\\u{48}\"", "'\\u{7a}1'", "\"\\u{20AC}\"", "\"\\u{0000041}\"",
    "\"a\\z   b\"", "'a\\z\n  b'", "\"a\\\nb\"", "'\\a\\b\\f\\n\\r\\t\\v'", "\"\\\\\\\"\\'\"", "'\\\"'",
    "[[k]]", "[==[a]]b]==]", "[[\nk]]", "[=[\r\nk]=]", "[[a\r\nb]]", "[[\\0011]]", "'k'", "\"k1\"", "''",
];
pub const INTERP_SPELLINGS: [&str; 10] = [
    "`\\0011{x}`", "`{x}\\0120`", "`\\x41{x}\\u{48}`", "`a\\z  b{x}`", "`\\{{x}\\}`", "`\\0011`", "`k`", "`\\``", "`{x}\\0490{x}\\0011`", "`\\65\\0660`",
];
pub const NUMBER_SPELLINGS: [&str; 30] = [
    "0x10", "0XfF", "0xA_B", "0x_1", "0b101", "0B1_1", "0b_1", "1_000", "1_0.5_0", "1e3", "1E+2", "1e-2", "1_0e1_0", ".5", "5.", ".5e1",
    "3.25", "0.1", "1e0", "0x7fffffffffffffff", "0xffffffffffffffff", "9007199254740993", "1e308", "1e-320", "0e5", "00012", "012", "0x0",
    "1__0", "0.000_1",
];

fn literal_programs() -> Vec<String> {
    let mut v = Vec::new();
    for (i, s) in STRING_SPELLINGS.iter().chain(INTERP_SPELLINGS.iter()).enumerate() {
        let other = STRING_SPELLINGS[(i * 7 + 3) % STRING_SPELLINGS.len()];
        v.push(format!("{}return {} .. 'z', #{}, {} == '\\1' .. '1', {} == {}, {} < 'b'\n", PRELUDE, s, s, s, s, other, s));
        v.push(format!("{}local u = {{ [ {} ] = 1, k = 2 }}\nreturn t[ {} ], u[ {} ], u.k\n", PRELUDE, s, s, s));
        v.push(format!("{}if {} == 'k' then emit('eq') else emit('ne') end\nwhile #{} > 5 do emit('w') break end\nreturn #({} .. {})\n", PRELUDE, s, s, s, other));
        v.push(format!("{}local function g(a) return a end\nemit({})\nreturn g({}), (g {}), ({}):len()\n", PRELUDE, s, s, if s.starts_with('`') { "'p'" } else { s }, s));
        v.push(format!("{}local unused = {}\nlocal s = {}\nreturn s .. x, x .. {}\n", PRELUDE, s, s, s));
    }
    for (i, n) in NUMBER_SPELLINGS.iter().enumerate() {
        let other = NUMBER_SPELLINGS[(i * 11 + 5) % NUMBER_SPELLINGS.len()];
        v.push(format!("{}return {}, {} + 1, {} == {}, {} < {}, -{}, {} .. ''\n", PRELUDE, n, n, n, other, n, other, n, n));
        v.push(format!("{}local u = {{ [ {} ] = 'v' }}\nreturn t[ {} ], u[ {} ], {} * 2 // 1, {} % 7\n", PRELUDE, n, n, n, n, n));
        v.push(format!("{}if {} > 1 then emit('gt') elseif {} == 0 then emit('z') else emit('le') end\nfor i = 1, 2 do emit(i * {}) end\nreturn 1\n", PRELUDE, n, n, n));
    }
    v
}

fn index_field_programs() -> Vec<String> {
    let keys = [
        "'a'", "\"k\"", "'not'", "'end'", "'1x'", "'_x9'", "''", "'a b'", "'a' .. 'b'", "('k')", "'continue'", "'é'", "1", "x", "nope",
        "true and 'k'", "nil or 'a'", "(false or 'k')", "{} and 'a'", "{get1()} and 'a'", "get1() and 'a'", "(function() end) and 'k'",
        "`k`", "`{'k'}`", "'k' :: any", "(if true then 'a' else 'k')", "not nil and 'a'", "'x' .. 1", "#'a' == 1 and 'a'", "f2() and 'k'", "'goto'", "'self'",
    ];
    let mut v = Vec::new();
    for k in keys {
        v.push(format!("{}return t[{}]
", PRELUDE, k));
        v.push(format!("{}t[{}] = 7
t[{}], t.z = 8, 9
return t
", PRELUDE, k, k));
        v.push(format!("{}local r = {{ [{}] = 1, [{}] = 2, 3, z = 4 }}
return r
", PRELUDE, k, k));
        v.push(format!("{}t.o = {{ m = function(self, a) emit(a) return self end, k = {{ k = 5 }}, a = {{ a = 6 }} }}
emit(t.o[{}])
t.o['m'](t.o, 1)
t['o']:m(2)
return t['o']['k'][{}], t.o[\"a\"][{}]
", PRELUDE, k, k, k).replace("\\\"", "\""));
        v.push(format!("{}t[{}] += 1
return t
", PRELUDE, k));
    }
    v
}

fn underscore_programs() -> Vec<String> {
    let mut v = Vec::new();
    for decl in ["local unused = t.k", "local u1, u2 = t.k, t.a", "local u = t.k, get1()", "local u = -t", "local u = x + 1", "local u = get1()", "local u, w = get1(), t.k", "local _ = t.k", "local u = (t.k)",
        // a LATER discarded value mentions `_` (fix 43be447: the earlier value gets its own block)
        "local u1, u2 = t.k, _ + 1", "local u1, u2 = t.k, get1(_)", "local u1, u2, u3 = t.k, t.a, t[_ or 'k']", "local u1, u2 = t.a, t[_]", "local u1, u2, u3 = t.k, _ + 1, t.a"] {
        v.push(format!("{}_ = 5
{}
return _
", PRELUDE, decl));
        v.push(format!("{}local _ = 5
do
{}
emit(_)
end
return _
", PRELUDE, decl));
        v.push(format!("{}for _, w in ipairs({{4}}) do
{}
emit(_)
end
return 1
", PRELUDE, decl));
        v.push(format!("{}local function g(_)
{}
return _
end
return g(3)
", PRELUDE, decl));
    }
    v
}


/// object prelude: `o`, `o2` have a metatable whose every metamethod emits an event first
const OBJ_PRELUDE: &str = "local MT = {}\nMT.__index = function(tb, k) emit('__index', k) return 1 end\nMT.__newindex = function(tb, k, w) emit('__newindex', k) end\nMT.__add = function(a, b) emit('__add') return 1 end\nMT.__sub = function(a, b) emit('__sub') return 1 end\nMT.__unm = function(a) emit('__unm') return 1 end\nMT.__len = function(a) emit('__len') return 1 end\nMT.__concat = function(a, b) emit('__concat') return 'c' end\nMT.__eq = function(a, b) emit('__eq') return true end\nMT.__lt = function(a, b) emit('__lt') return true end\nMT.__le = function(a, b) emit('__le') return true end\nMT.__call = function(self, a) emit('__call') return 1 end\nMT.__tostring = function(a) emit('__tostring') return 'o' end\nlocal o = setmetatable({}, MT)\nlocal o2 = setmetatable({}, MT)\n";

/// expressions whose evaluation has an observable effect, one per disjunct of `Evaluator::has_side_effects`
/// (and a few that look effectful but are not evaluated)
pub const EFFECTFUL: [&str; 53] = [
    "get1()", "(get1())", "f2()", "o()", "o:m()", "sink(1)",
    "{[get1()] = 1}", "{[get1()] = true, [2] = 2}", "{[1] = get1()}", "{k = get1()}", "{get1()}", "{1, get1(), 3}",
    "{[o.z] = 1}", "{[o[1]] = true}", "{[-o] = 1}", "{[#o] = 1}", "{a = {[get1()] = 1}}", "{{[o.z] = 1}}", "{[{get1()}] = 1}",
    "o.z", "o[1]", "o[get1()]", "t[o.z]", "-o", "#o", "not o.z", "(o.z)", "o + 1", "1 + o", "o .. 'a'", "'a' .. o", "o == o2", "o ~= o2",
    "o < o2", "o <= o2", "1 < o", "true and o.z", "nope or o.z", "x and o.z", "x or o.z", "nil and o.z", "(if x then o.z else 1)", "o.z :: any",
    "function() return o.z end",
    "(if true then o.z else 1)", "(if nope then 1 else o.z)", "(if nope then o.z else 1)", "(if x then 1 elseif nope then o.z else 2)",
    "(if false then 1 elseif true then get1() else 2)", "(if false then 1 elseif nil then 2 else get1())", "`a{get1()}b`", "`{o.z}`", "`{1}{f2()}`",
];

/// positions where a default rule may discard (or duplicate) the evaluation of `@`
pub const DISCARDS: [&str; 22] = [
    "local unused = @\nreturn 1",
    "local u1, u2 = 1, @\nreturn 2",
    "local u1, u2 = @, 1\nreturn u2",
    "local v = 1, @\nreturn v",
    "local v, w = nil, 1, @\nreturn v, w",
    "local v = nil, @, nil\nreturn v",
    "do local inner = @ end\nreturn 3",
    "local function g() local z = @ end\ng()\nreturn 4",
    "local n = 0\nrepeat n = n + 1 local z = @ until n > 1\nreturn n",
    "while (@) and false do emit('body') end\nreturn 5",
    "while false and (@) do emit('body') end\nreturn 5",
    "while not ({@}) do emit('body') end\nreturn 5",
    "if (@) and false then emit('then') else emit('else') end\nreturn 6",
    "if false then emit('a') elseif (@) and nil then emit('b') end\nreturn 6",
    "if true or (@) then emit('then') end\nif nil and (@) then emit('x') else emit('y') end\nreturn 6",
    "return t[(@) and 'k'], ({[(@) and 'a'] = 1}).a",
    "return ((@) and nil), #({@} and 'ab'), not {@}",
    "return (if (@) and false then 1 else 2), (if {@} then 3 else 4)",
    "local a, b = nil, (@)\nreturn a",
    "local a, b, c = (@), nil\nreturn c",
    "for i = 1, 2 do local w = @ end\nreturn 7",
    "local u = @\nlocal function h() return u end\nreturn 8",
];

fn discard_effect_programs() -> Vec<String> {
    let mut v = Vec::new();
    for e in EFFECTFUL {
        for d in DISCARDS {
            v.push(format!("{}{}o.m = function(self) emit('m') return 2 end\n{}\n", PRELUDE, OBJ_PRELUDE, d.replace('@', e)));
        }
    }
    v
}

/// expressions of every kind `can_return_multiple_values` distinguishes
pub const VALUE_KINDS: [&str; 24] = [
    "f2()", "(f2())", "...", "(...)", "o:m2()", "t.f()", "-x", "not x", "#t", "x + 1", "x .. ''", "x == 1", "x < 2", "x and f2()", "x or f2()",
    "f2() and f2()", "(if x then f2() else f2())", "t.k", "t[1]", "x", "nil", "{f2()}", "function() return f2() end", "f2() :: any",
];

fn multi_value_programs() -> Vec<String> {
    let templates = [
        "local a, b, c = nil, @\nreturn a, b, c",
        "local a, b, c = @, nil\nreturn a, b, c",
        "local a, b, c = nil, nil, @\nreturn a, b, c",
        "local a, b = nil, @, nil\nreturn a, b",
        "local a, b, c = @\nreturn c",
        "local a, b, c = @\nreturn a",
        "local a, b, c = 1, @\nreturn b",
        "local a, b, c = 1, @\nlocal function r() return c end\nreturn r()",
        "local a, b = @, @\nreturn b",
        "return 0, if x then @ else 1",
        "return {if nope then 1 else @}",
        "emit(select('#', if true then @ else 1))",
        "local a, b = if x then @ else nil\nreturn a, b",
        "return true and @",
        "emit(nope or @)",
        "local a, b = 1 and @\nreturn a, b",
    ];
    let mut v = Vec::new();
    for e in VALUE_KINDS {
        for tpl in templates {
            v.push(format!(
                "{}t.f = f2\nlocal o = {{ m2 = function(self) emit('m2') return 7, 8 end }}\nlocal function w(...)\n{}\nend\nreturn w(21, 22)\n",
                PRELUDE,
                tpl.replace('@', e)
            ));
        }
    }
    v
}

/// "the inner declaration shadows a name that the same statement's header / initialiser reads", in every
/// scope kind, each with the outer name used ONLY there (so a wrong scope makes it look unused) and also used later
fn scope_shadow_programs() -> Vec<String> {
    let shapes = [
        // generic for: explist read vs loop variables
        ("local a = {10, 20, 30}", "for _, a in ipairs(a) do emit(a) end"),
        ("local a = {10, 20, 30}", "for a, c in ipairs(a) do emit(a, c) end"),
        ("local a = {10, 20, 30}", "for a in pairs(a) do emit(a) end"),
        ("local a = {5, 6}", "for k, a in next, a do emit(k, a) end"),
        ("local a = {5, 6}", "for a, a in ipairs(a) do emit(a) end"),
        ("local a = {5, 6}", "for i, v in ipairs(a) do for a, v in ipairs(a) do emit(i, a, v) end end"),
        ("local a = {5, 6}", "for _, a in ipairs({a[1], a[2], #a}) do emit(a) end"),
        ("local a = {5, 6}", "for _, w in ipairs(a) do local a = w emit(a) end"),
        ("local a = function(tb) return ipairs(tb) end", "for a, c in a({7, 8}) do emit(a, c) end"),
        // numeric for: start / limit / step read vs loop variable
        ("local a = 2", "for a = a, a + 2 do emit(a) end"),
        ("local a = 2", "for a = 1, a do emit(a) end"),
        ("local a = 2", "for a = 1, 5, a do emit(a) end"),
        ("local a = 2", "for i = 1, 2 do for a = a, 3 do emit(i, a) end end"),
        // local: initialiser reads the outer binding
        ("local a = 1", "local a = a + 1\nemit(a)"),
        ("local a = 1", "local a, b = 5, a\nemit(a, b)"),
        ("local a = 1", "local b, a = a, 6\nemit(a, b)"),
        ("local a = 1", "do local a = a emit(a) end"),
        ("local a = 1", "local a = function() return a end\nemit(a())"),
        ("local a = 1", "local function g() local a = a + 1 return a end\nemit(g())"),
        ("local a = {k = 4}", "if a then local a = a.k emit(a) end"),
        ("local a = 3", "while a do local a = nil emit(a == nil) break end"),
        // local function: the body sees the function itself, the parameters shadow
        ("local a = 1", "local function a(p) if p then return a(nil) end return 9 end\nemit(a(true))"),
        ("local a = 1", "local function g(a) return a end\nemit(g(a + 1))"),
        ("local a = 1", "local g = function(a, b) return a, b end\nemit(g(2, a))"),
        ("local a = 1", "local function g(...) local a = ... return a end\nemit(g(a + 5))"),
        ("local a = {}", "function a.m(a) return a end\nfunction a:n(p) return self == a, p end\nemit(a.m(3), a:n(4))"),
        ("local self = 1", "local tb = {}\nfunction tb:m() return self end\nemit(tb:m() == tb, self)"),
        // repeat: the condition sees the body's locals
        ("local a = false", "local n = 0\nrepeat n = n + 1 local a = n > 1 until a\nemit(n)"),
        ("local a = true", "local n = 0\nrepeat n = n + 1 local b = a until b or n > 2\nemit(n)"),
        ("local a = 0", "repeat local a = a + 1 emit(a) until a > 0"),
        ("local a = 0", "repeat a = a + 1 local c = a until c > 1\nemit(a)"),
        // closures capturing before / after the shadowing declaration
        ("local a = 1", "local function g() return a end\nlocal a = 2\nemit(g(), a)"),
        ("local a = 1", "local b = a\nlocal a = b + 1\nlocal b = a + 1\nemit(a, b)"),
    ];
    let mut v = Vec::new();
    for (outer, inner) in shapes {
        // the outer name is read only by the header / initialiser
        v.push(format!("{}{}\n{}\nreturn 1\n", PRELUDE, outer, inner));
        // … and also afterwards
        v.push(format!("{}{}\n{}\nreturn a\n", PRELUDE, outer, inner));
        // inside a function body and a nested block
        v.push(format!("{}local function outerf(...)\n{}\ndo\n{}\nend\nreturn 2\nend\nreturn outerf(1)\n", PRELUDE, outer, inner));
        // the outer binding is a parameter
        if let Some(init) = outer.strip_prefix("local a = ") {
            v.push(format!("{}local function pf(a)\n{}\nend\npf({})\nreturn 3\n", PRELUDE, inner, init));
        }
    }
    v
}

pub fn exhaustive_parts(thorough: bool) -> Vec<(&'static str, bool)> {
    vec![
        ("expr-ctx: every expression of depth <= 1 over the small leaf alphabet in every context kind", thorough),
        ("const-cond: the listed constant-condition forms in every while/if/repeat template", true),
        ("early-return / method-def / call-parens templates", true),
        ("scope-shadow: every listed shadowing shape in every wrapper; discard-effect: every effectful expression in every discard position; multi-value: every value kind in every template", true),
    ]
}

pub fn targeted(seed: u64, thorough: bool) -> Vec<Targeted> {
    let mut rng = Rng::new(seed ^ 0xC01C01);
    let mut out: Vec<Targeted> = Vec::new();
    // ---- expr-ctx
    let exprs = depth1_small();
    if thorough {
        for e in &exprs {
            for ctx in CONTEXTS {
                out.push(Targeted { family: "expr-ctx", code: in_context(ctx, e), rules: EXPR_RULES.to_vec(), pipeline: false });
            }
        }
    } else {
        // quick tier: every expression once, in a context chosen by the seed; plus every context with a few expressions
        for e in &exprs {
            let ctx = *rng.pick(&CONTEXTS);
            out.push(Targeted { family: "expr-ctx", code: in_context(ctx, e), rules: EXPR_RULES.to_vec(), pipeline: false });
        }
    }
    let n_random = if thorough { 60000 } else { 2500 };
    for i in 0..n_random {
        let d = 1 + rng.below(3);
        let e = random_expr(&mut rng, d);
        let ctx = CONTEXTS[i % CONTEXTS.len()];
        out.push(Targeted { family: "expr-ctx-random", code: in_context(ctx, &e), rules: EXPR_RULES.to_vec(), pipeline: i % 10 == 0 });
    }
    // ---- const-cond
    for c in const_conditions() {
        for (i, p) in cond_programs(&c).into_iter().enumerate() {
            if !thorough && rng.below(3) != 0 && i > 1 {
                continue;
            }
            out.push(Targeted {
                family: "const-cond",
                code: p,
                rules: vec!["remove_unused_while", "remove_unused_if_branch", "compute_expression", "remove_empty_do", "filter_after_early_return"],
                pipeline: i == 0,
            });
        }
    }
    for p in early_return_programs() {
        out.push(Targeted { family: "early-return", code: p, rules: vec!["filter_after_early_return", "remove_empty_do", "remove_unused_if_branch", "remove_unused_variable"], pipeline: true });
    }
    for p in method_def_programs() {
        out.push(Targeted { family: "method-def", code: p, rules: vec!["remove_method_definition", "remove_function_call_parens", "rename_variables"], pipeline: true });
    }
    for p in call_parens_programs() {
        out.push(Targeted { family: "call-parens", code: p, rules: vec!["remove_function_call_parens", "remove_spaces", "remove_comments"], pipeline: true });
    }
    for p in index_field_programs() {
        out.push(Targeted { family: "index-field", code: p, rules: vec!["convert_index_to_field", "compute_expression", "remove_function_call_parens"], pipeline: true });
    }
    for p in scope_shadow_programs() {
        out.push(Targeted { family: "scope-shadow", code: p, rules: vec!["remove_unused_variable", "rename_variables", "remove_nil_declaration", "compute_expression"], pipeline: true });
    }
    for (i, p) in discard_effect_programs().into_iter().enumerate() {
        out.push(Targeted {
            family: "discard-effect",
            code: p,
            rules: vec!["remove_unused_variable", "remove_nil_declaration", "remove_unused_while", "remove_unused_if_branch", "compute_expression", "convert_index_to_field"],
            pipeline: i % 7 == 0,
        });
    }
    for (i, p) in multi_value_programs().into_iter().enumerate() {
        out.push(Targeted {
            family: "multi-value",
            code: p,
            rules: vec!["remove_nil_declaration", "remove_unused_variable", "remove_unused_if_branch", "compute_expression"],
            pipeline: i % 7 == 0,
        });
    }
    for p in literal_programs() {
        out.push(Targeted { family: "literal-spelling", code: p, rules: vec!["compute_expression", "convert_index_to_field", "remove_unused_if_branch", "remove_unused_while", "remove_unused_variable", "remove_nil_declaration", "remove_function_call_parens"], pipeline: true });
    }
    for p in underscore_programs() {
        out.push(Targeted { family: "underscore", code: p, rules: vec!["remove_unused_variable", "rename_variables", "remove_nil_declaration"], pipeline: true });
    }
    for p in local_decl_programs(&mut rng, if thorough { 30000 } else { 1500 }) {
        out.push(Targeted { family: "local-decl", code: p, rules: vec!["remove_nil_declaration", "remove_unused_variable", "rename_variables", "compute_expression"], pipeline: rng.chance(1, 5) });
    }
    out
}
