//! dlv: correspondence / oracle harness. `dlv <Cxx> --tier quick|thorough --seed N --out report.json [--replay file]`
#![allow(dead_code)]
mod astcheck;
mod astsexp;
mod devtools;
mod exec;
mod lua51check;
mod luaucheck;
mod progen;
mod progen_c01;
mod progen_c17;
mod progen_c05;
mod progen_c06;
mod progen_c16;
mod model;
mod props;
mod report;
mod rng;
mod rulecheck;
mod srclit;

use report::Report;

fn main() {
    let args: Vec<String> = std::env::args().collect();
    if args.len() < 2 {
        eprintln!("usage: dlv <Cxx> [--tier quick|thorough] [--seed N] [--out file] [--replay file]");
        eprintln!("       dlv astcheck [--seed N] [--random N] [--verbose]   (self-test of the shared AST codec)");
        std::process::exit(2);
    }
    if args[1] == "semtest" {
        std::process::exit(devtools::semtest(&args[2..]));
    }
    if args[1] == "progtest" {
        std::process::exit(devtools::progtest(&args[2..]));
    }
    if args[1] == "progtest06" {
        std::process::exit(devtools::progtest06(&args[2..]));
    }
    if args[1] == "astcheck" {
        // self-test of the shared AST codec (astsexp.rs <-> Shared/AstSexp.lean)
        std::panic::set_hook(Box::new(|_| {}));
        std::process::exit(astcheck::run(&args[2..]));
    }
    let prop = args[1].to_uppercase();
    let mut tier = "quick".to_owned();
    let mut seed = 0u64;
    let mut out = None;
    let mut replay = None;
    let mut i = 2;
    while i < args.len() {
        match args[i].as_str() {
            "--tier" => { tier = args[i + 1].clone(); i += 1; }
            "--seed" => { seed = args[i + 1].parse().unwrap_or(0); i += 1; }
            "--out" => { out = Some(args[i + 1].clone()); i += 1; }
            "--replay" => { replay = Some(args[i + 1].clone()); i += 1; }
            other => { eprintln!("unknown argument {}", other); std::process::exit(2); }
        }
        i += 1;
    }
    // panics inside darklua are caught per case; keep their messages off stderr noise
    std::panic::set_hook(Box::new(|_| {}));
    let mut report = Report::new(&prop, &tier, seed);
    let replay = replay.as_deref();
    match prop.as_str() {
        "C01" => props::c01::run(&mut report, replay),
        "C02" => props::c02::run(&mut report, replay),
        "C03" => props::c03::run(&mut report, replay),
        "C04" => props::c04::run(&mut report, replay),
        "C05" => props::c05::run(&mut report, replay),
        "C06" => props::c06::run(&mut report, replay),
        "C07" => props::c07::run(&mut report, replay),
        "C08" => props::c08::run(&mut report, replay),
        "C09" => props::c09::run(&mut report, replay),
        "C10" => props::c10::run(&mut report, replay),
        "C11" => props::c11::run(&mut report, replay),
        "C12" => props::c12::run(&mut report, replay),
        "C13" => props::c13::run(&mut report, replay),
        "C14" => props::c14::run(&mut report, replay),
        "C15" => props::c15::run(&mut report, replay),
        "C16" => props::c16::run(&mut report, replay),
        "C17" => props::c17::run(&mut report, replay),
        "C18" => props::c18::run(&mut report, replay),
        "C19" => props::c19::run(&mut report, replay),
        "C20" => props::c20::run(&mut report, replay),
        _ => { eprintln!("unknown property {}", prop); std::process::exit(2); }
    }
    let text = serde_json::to_string_pretty(&report.to_json()).unwrap();
    match out {
        Some(path) => std::fs::write(path, text).unwrap(),
        None => println!("{}", text),
    }
}
