//! A strict Lua 5.1 syntax checker written from the Lua 5.1 reference manual (§2.1 lexical
//! conventions, §8 complete syntax). Independent of darklua: it is the judge of the TEXT the real
//! pipeline produces after all Luau-lowering rules (property C07). Validation only, no tree.
//! Strict: no `0b`, no `_` in numbers, no `\x` `\z` `\u` escapes, no `//`, compound operators,
//! backtick strings, type annotations, attributes, `continue` statements, empty statements.

#[derive(Clone, Debug, PartialEq)]
enum Tok {
    Name(String),
    Kw(&'static str),
    Num,
    Str,
    Op(&'static str),
    Eof,
}

const KEYWORDS: [&str; 21] = [
    "and", "break", "do", "else", "elseif", "end", "false", "for", "function", "if", "in", "local", "nil", "not", "or",
    "repeat", "return", "then", "true", "until", "while",
];

const OPS: [&str; 26] = [
    "...", "..", "==", "~=", "<=", ">=", "+", "-", "*", "/", "%", "^", "#", "<", ">", "=", "(", ")", "{", "}", "[", "]", ";",
    ":", ",", ".",
];

fn long_bracket_level(b: &[u8], i: usize) -> Option<usize> {
    // at b[i] == '[': `[` `=`* `[`
    let mut j = i + 1;
    while j < b.len() && b[j] == b'=' {
        j += 1;
    }
    if j < b.len() && b[j] == b'[' {
        Some(j - i - 1)
    } else {
        None
    }
}

fn skip_long_bracket(b: &[u8], i: usize, level: usize) -> Result<usize, String> {
    // i points at the first `[`; returns the index after the closing bracket
    let mut j = i + level + 2;
    while j < b.len() {
        if b[j] == b']' {
            let mut k = j + 1;
            while k < b.len() && b[k] == b'=' {
                k += 1;
            }
            if k - j - 1 == level && k < b.len() && b[k] == b']' {
                return Ok(k + 1);
            }
        }
        j += 1;
    }
    Err(format!("unfinished long bracket starting at byte {}", i))
}

fn lex(text: &str) -> Result<Vec<(Tok, usize)>, String> {
    let b = text.as_bytes();
    let mut toks = Vec::new();
    let mut i = 0;
    while i < b.len() {
        let c = b[i];
        if c == b' ' || c == b'\t' || c == b'\n' || c == b'\r' || c == 0x0b || c == 0x0c {
            i += 1;
            continue;
        }
        if c == b'-' && i + 1 < b.len() && b[i + 1] == b'-' {
            i += 2;
            if i < b.len() && b[i] == b'[' {
                if let Some(level) = long_bracket_level(b, i) {
                    i = skip_long_bracket(b, i, level)?;
                    continue;
                }
            }
            while i < b.len() && b[i] != b'\n' {
                i += 1;
            }
            continue;
        }
        let start = i;
        if c.is_ascii_alphabetic() || c == b'_' {
            while i < b.len() && (b[i].is_ascii_alphanumeric() || b[i] == b'_') {
                i += 1;
            }
            let word = &text[start..i];
            match KEYWORDS.iter().find(|k| **k == word) {
                Some(k) => toks.push((Tok::Kw(k), start)),
                None => toks.push((Tok::Name(word.to_owned()), start)),
            }
            continue;
        }
        if c.is_ascii_digit() || (c == b'.' && i + 1 < b.len() && b[i + 1].is_ascii_digit()) {
            // 5.1 numbers: 0x<hexdigits>, or digits [. digits] [e[+-]digits]
            if c == b'0' && i + 1 < b.len() && (b[i + 1] == b'x' || b[i + 1] == b'X') {
                i += 2;
                let d = i;
                while i < b.len() && b[i].is_ascii_hexdigit() {
                    i += 1;
                }
                if i == d {
                    return Err(format!("malformed hexadecimal number at byte {}", start));
                }
            } else {
                while i < b.len() && b[i].is_ascii_digit() {
                    i += 1;
                }
                if i < b.len() && b[i] == b'.' {
                    i += 1;
                    while i < b.len() && b[i].is_ascii_digit() {
                        i += 1;
                    }
                }
                if i < b.len() && (b[i] == b'e' || b[i] == b'E') {
                    i += 1;
                    if i < b.len() && (b[i] == b'+' || b[i] == b'-') {
                        i += 1;
                    }
                    let d = i;
                    while i < b.len() && b[i].is_ascii_digit() {
                        i += 1;
                    }
                    if i == d {
                        return Err(format!("malformed exponent at byte {}", start));
                    }
                }
            }
            if i < b.len() && (b[i].is_ascii_alphanumeric() || b[i] == b'_') {
                return Err(format!("malformed number (not Lua 5.1 syntax) at byte {}: {:?}", start, &text[start..(i + 1).min(text.len())]));
            }
            toks.push((Tok::Num, start));
            continue;
        }
        if c == b'"' || c == b'\'' {
            i += 1;
            loop {
                if i >= b.len() || b[i] == b'\n' {
                    return Err(format!("unfinished string at byte {}", start));
                }
                if b[i] == c {
                    i += 1;
                    break;
                }
                if b[i] == b'\\' {
                    i += 1;
                    if i >= b.len() {
                        return Err(format!("unfinished string at byte {}", start));
                    }
                    match b[i] {
                        b'a' | b'b' | b'f' | b'n' | b'r' | b't' | b'v' | b'\\' | b'"' | b'\'' | b'\n' => i += 1,
                        b'\r' => i += 1,
                        d if d.is_ascii_digit() => {
                            let mut n = 0;
                            let mut v: u32 = 0;
                            while n < 3 && i < b.len() && b[i].is_ascii_digit() {
                                v = v * 10 + (b[i] - b'0') as u32;
                                i += 1;
                                n += 1;
                            }
                            if v > 255 {
                                return Err(format!("escape sequence too large at byte {}", i));
                            }
                        }
                        other => return Err(format!("escape \\{} is not Lua 5.1 (byte {})", other as char, i)),
                    }
                    continue;
                }
                i += 1;
            }
            toks.push((Tok::Str, start));
            continue;
        }
        if c == b'[' {
            if let Some(level) = long_bracket_level(b, i) {
                i = skip_long_bracket(b, i, level)?;
                toks.push((Tok::Str, start));
                continue;
            }
        }
        let mut matched = None;
        for op in OPS.iter() {
            if text[i..].starts_with(op) {
                matched = Some(*op);
                break;
            }
        }
        match matched {
            Some(op) => {
                toks.push((Tok::Op(op), start));
                i += op.len();
            }
            None => {
                let ch = text[i..].chars().next().unwrap();
                return Err(format!("character {:?} is not part of Lua 5.1 (byte {})", ch, i));
            }
        }
    }
    toks.push((Tok::Eof, b.len()));
    Ok(toks)
}

struct Parser {
    toks: Vec<(Tok, usize)>,
    pos: usize,
    depth: usize,
}

type R = Result<(), String>;

impl Parser {
    fn peek(&self) -> &Tok {
        &self.toks[self.pos].0
    }
    fn peek2(&self) -> &Tok {
        &self.toks[(self.pos + 1).min(self.toks.len() - 1)].0
    }
    fn at(&self) -> usize {
        self.toks[self.pos].1
    }
    fn next(&mut self) -> Tok {
        let t = self.toks[self.pos].0.clone();
        if self.pos + 1 < self.toks.len() {
            self.pos += 1;
        }
        t
    }
    fn is_op(&self, op: &str) -> bool {
        matches!(self.peek(), Tok::Op(o) if *o == op)
    }
    fn is_kw(&self, kw: &str) -> bool {
        matches!(self.peek(), Tok::Kw(k) if *k == kw)
    }
    fn accept_op(&mut self, op: &str) -> bool {
        if self.is_op(op) {
            self.next();
            true
        } else {
            false
        }
    }
    fn accept_kw(&mut self, kw: &str) -> bool {
        if self.is_kw(kw) {
            self.next();
            true
        } else {
            false
        }
    }
    fn err<T>(&self, what: &str) -> Result<T, String> {
        Err(format!("{} at byte {} (found {:?})", what, self.at(), self.peek()))
    }
    fn expect_op(&mut self, op: &str) -> R {
        if self.accept_op(op) {
            Ok(())
        } else {
            self.err(&format!("'{}' expected", op))
        }
    }
    fn expect_kw(&mut self, kw: &str) -> R {
        if self.accept_kw(kw) {
            Ok(())
        } else {
            self.err(&format!("'{}' expected", kw))
        }
    }
    fn expect_name(&mut self) -> R {
        match self.peek() {
            Tok::Name(_) => {
                self.next();
                Ok(())
            }
            _ => self.err("name expected"),
        }
    }
    fn block_follows(&self) -> bool {
        matches!(self.peek(), Tok::Eof) || self.is_kw("end") || self.is_kw("else") || self.is_kw("elseif") || self.is_kw("until")
    }

    fn enter(&mut self) -> R {
        self.depth += 1;
        if self.depth > 180 {
            return Err("nesting too deep for the checker".to_owned());
        }
        Ok(())
    }

    fn block(&mut self) -> R {
        self.enter()?;
        while !self.block_follows() {
            if self.is_kw("return") {
                self.next();
                if !self.block_follows() && !self.is_op(";") {
                    self.explist()?;
                }
                self.accept_op(";");
                if !self.block_follows() {
                    return self.err("'return' must be the last statement of a block");
                }
                break;
            }
            if self.is_kw("break") {
                self.next();
                self.accept_op(";");
                if !self.block_follows() {
                    return self.err("'break' must be the last statement of a block");
                }
                break;
            }
            self.statement()?;
            self.accept_op(";");
        }
        self.depth -= 1;
        Ok(())
    }

    fn statement(&mut self) -> R {
        match self.peek().clone() {
            Tok::Kw("do") => {
                self.next();
                self.block()?;
                self.expect_kw("end")
            }
            Tok::Kw("while") => {
                self.next();
                self.exp()?;
                self.expect_kw("do")?;
                self.block()?;
                self.expect_kw("end")
            }
            Tok::Kw("repeat") => {
                self.next();
                self.block()?;
                self.expect_kw("until")?;
                self.exp()
            }
            Tok::Kw("if") => {
                self.next();
                self.exp()?;
                self.expect_kw("then")?;
                self.block()?;
                loop {
                    if self.accept_kw("elseif") {
                        self.exp()?;
                        self.expect_kw("then")?;
                        self.block()?;
                    } else if self.accept_kw("else") {
                        self.block()?;
                        break;
                    } else {
                        break;
                    }
                }
                self.expect_kw("end")
            }
            Tok::Kw("for") => {
                self.next();
                self.expect_name()?;
                if self.accept_op("=") {
                    self.exp()?;
                    self.expect_op(",")?;
                    self.exp()?;
                    if self.accept_op(",") {
                        self.exp()?;
                    }
                } else {
                    while self.accept_op(",") {
                        self.expect_name()?;
                    }
                    self.expect_kw("in")?;
                    self.explist()?;
                }
                self.expect_kw("do")?;
                self.block()?;
                self.expect_kw("end")
            }
            Tok::Kw("function") => {
                self.next();
                self.expect_name()?;
                while self.accept_op(".") {
                    self.expect_name()?;
                }
                if self.accept_op(":") {
                    self.expect_name()?;
                }
                self.funcbody()
            }
            Tok::Kw("local") => {
                self.next();
                if self.accept_kw("function") {
                    self.expect_name()?;
                    self.funcbody()
                } else {
                    self.expect_name()?;
                    while self.accept_op(",") {
                        self.expect_name()?;
                    }
                    if self.accept_op("=") {
                        self.explist()?;
                    }
                    Ok(())
                }
            }
            _ => {
                // varlist `=` explist | functioncall
                let first_is_call = self.suffixedexp()?;
                if self.is_op("=") || self.is_op(",") {
                    if first_is_call == Suffix::Call || first_is_call == Suffix::Paren {
                        return self.err("cannot assign to this expression");
                    }
                    while self.accept_op(",") {
                        let s = self.suffixedexp()?;
                        if s == Suffix::Call || s == Suffix::Paren {
                            return self.err("cannot assign to this expression");
                        }
                    }
                    self.expect_op("=")?;
                    self.explist()
                } else if first_is_call == Suffix::Call {
                    Ok(())
                } else {
                    self.err("syntax error: statement expected (an expression is not a statement)")
                }
            }
        }
    }

    fn funcbody(&mut self) -> R {
        self.expect_op("(")?;
        if !self.is_op(")") {
            loop {
                if self.accept_op("...") {
                    break;
                }
                self.expect_name()?;
                if !self.accept_op(",") {
                    break;
                }
            }
        }
        self.expect_op(")")?;
        self.block()?;
        self.expect_kw("end")
    }

    fn explist(&mut self) -> R {
        self.exp()?;
        while self.accept_op(",") {
            self.exp()?;
        }
        Ok(())
    }

    fn primaryexp(&mut self) -> Result<Suffix, String> {
        match self.peek().clone() {
            Tok::Name(_) => {
                self.next();
                Ok(Suffix::Name)
            }
            Tok::Op("(") => {
                self.next();
                self.exp()?;
                self.expect_op(")")?;
                Ok(Suffix::Paren)
            }
            _ => self.err("unexpected symbol"),
        }
    }

    /// prefixexp with its suffixes; tells what the LAST step was
    fn suffixedexp(&mut self) -> Result<Suffix, String> {
        self.enter()?;
        let mut last = self.primaryexp()?;
        loop {
            match self.peek().clone() {
                Tok::Op(".") => {
                    self.next();
                    self.expect_name()?;
                    last = Suffix::Index;
                }
                Tok::Op("[") => {
                    self.next();
                    self.exp()?;
                    self.expect_op("]")?;
                    last = Suffix::Index;
                }
                Tok::Op(":") => {
                    self.next();
                    self.expect_name()?;
                    self.args()?;
                    last = Suffix::Call;
                }
                Tok::Op("(") | Tok::Op("{") | Tok::Str => {
                    self.args()?;
                    last = Suffix::Call;
                }
                _ => break,
            }
        }
        self.depth -= 1;
        Ok(last)
    }

    fn args(&mut self) -> R {
        match self.peek().clone() {
            Tok::Str => {
                self.next();
                Ok(())
            }
            Tok::Op("{") => self.table(),
            Tok::Op("(") => {
                self.next();
                if !self.is_op(")") {
                    self.explist()?;
                }
                self.expect_op(")")
            }
            _ => self.err("function arguments expected"),
        }
    }

    fn table(&mut self) -> R {
        self.expect_op("{")?;
        while !self.is_op("}") {
            if self.is_op("[") {
                self.next();
                self.exp()?;
                self.expect_op("]")?;
                self.expect_op("=")?;
                self.exp()?;
            } else if matches!(self.peek(), Tok::Name(_)) && matches!(self.peek2(), Tok::Op("=")) {
                self.next();
                self.next();
                self.exp()?;
            } else {
                self.exp()?;
            }
            if !(self.accept_op(",") || self.accept_op(";")) {
                break;
            }
        }
        self.expect_op("}")
    }

    fn simpleexp(&mut self) -> R {
        match self.peek().clone() {
            Tok::Num | Tok::Str | Tok::Kw("nil") | Tok::Kw("true") | Tok::Kw("false") | Tok::Op("...") => {
                self.next();
                Ok(())
            }
            Tok::Op("{") => self.table(),
            Tok::Kw("function") => {
                self.next();
                self.funcbody()
            }
            _ => self.suffixedexp().map(|_| ()),
        }
    }

    fn binary_priority(&self) -> Option<(u8, u8)> {
        match self.peek() {
            Tok::Op("+") | Tok::Op("-") => Some((6, 6)),
            Tok::Op("*") | Tok::Op("/") | Tok::Op("%") => Some((7, 7)),
            Tok::Op("^") => Some((10, 9)),
            Tok::Op("..") => Some((5, 4)),
            Tok::Op("==") | Tok::Op("~=") | Tok::Op("<") | Tok::Op("<=") | Tok::Op(">") | Tok::Op(">=") => Some((3, 3)),
            Tok::Kw("and") => Some((2, 2)),
            Tok::Kw("or") => Some((1, 1)),
            _ => None,
        }
    }

    fn subexpr(&mut self, limit: u8) -> R {
        self.enter()?;
        if self.is_kw("not") || self.is_op("-") || self.is_op("#") {
            self.next();
            self.subexpr(8)?;
        } else {
            self.simpleexp()?;
        }
        while let Some((left, right)) = self.binary_priority() {
            if left <= limit {
                break;
            }
            self.next();
            self.subexpr(right)?;
        }
        self.depth -= 1;
        Ok(())
    }

    fn exp(&mut self) -> R {
        self.subexpr(0)
    }
}

#[derive(Clone, Copy, PartialEq, Debug)]
enum Suffix {
    Name,
    Paren,
    Index,
    Call,
}

/// `Ok(())` iff `text` is a syntactically valid Lua 5.1 chunk
pub fn check(text: &str) -> Result<(), String> {
    let toks = lex(text)?;
    let mut p = Parser { toks, pos: 0, depth: 0 };
    p.block()?;
    if !matches!(p.peek(), Tok::Eof) {
        return p.err("'<eof>' expected");
    }
    Ok(())
}

#[cfg(test)]
mod test {
    use super::check;

    #[test]
    fn lua51_accepts() {
        for code in [
            "",
            "local a = 1",
            "local a, b = 1, 2; return a + b",
            "a.b.c = 1",
            "a[1][2] = f(x)",
            "f()",
            "f{1, 2; x = 3, [4] = 5}",
            "f'str'",
            "a.b:c(1)",
            "(f)()",
            "(a).b = 1",
            "for i = 1, 10, 2 do break end",
            "for k, v in pairs(t) do print(k, v) end",
            "repeat local x = 1 until x",
            "while true do if a then break end end",
            "if a then elseif b then else end",
            "function a.b.c:d(x, ...) return ... end",
            "local function f() end",
            "local f = function(a, b) return a, b end",
            "return",
            "return 1, 2;",
            "x = 1 + 2 * 3 ^ 4 ^ 5 .. 'a' .. 'b' == 1 and not 2 or - 3 % #t",
            "x = 0xFF + 1e10 + 1.5e-3 + .5 + 3.",
            "x = 'a\\n\\65\\\\' .. \"b\\\"\" .. [[long]] .. [==[lo]]ng]==]",
            "-- comment\n--[[ block\ncomment ]] x = 1",
            "--[==[ x ]==] y = 2",
            "local continue = 1; continue = continue + 1",
            "do local t = {} t.x = {} end",
            "a = f(a)(b)[c].d:e()",
            "local t = {f(), f(), (f())}",
            "x = a < b == (c > d)",
        ] {
            assert!(check(code).is_ok(), "should accept {:?}: {:?}", code, check(code));
        }
    }

    #[test]
    fn lua51_rejects() {
        for code in [
            "a += 1",
            "a //= 1",
            "a ..= 'x'",
            "x = 1 // 2",
            "x = `a{b}`",
            "local x: number = 1",
            "local function f(a: number) end",
            "function f(): number end",
            "type T = number",
            "export type T = number",
            "x = (1 :: number)",
            "x = f<<number>>(1)",
            "while true do continue end",
            "if a then continue end",
            "x = if a then 1 else 2",
            "x = 0b101",
            "x = 1_000",
            "x = 0xFF_FF",
            "x = '\\x41'",
            "x = '\\z  a'",
            "x = '\\u{41}'",
            "@native function f() end",
            "const x = 1",
            "return 1 x = 2",
            "break x = 1",
            "f() = 1",
            "(a) = 1",
            "a",
            "a.b",
            ";",
            "x = 1;;",
            "x = ",
            "local x <const> = 1",
            "goto l",
            "x = a ~ b",
            "x = a >> 1",
            "x = a & b",
            "x = 1 .. .. 2",
            "local function f(..., a) end",
            "for i = 1 do end",
            "x = 'unfinished",
            "x = [[unfinished",
            "x = 3..2",
        ] {
            assert!(check(code).is_err(), "should reject {:?}", code);
        }
    }
}
