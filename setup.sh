#!/bin/sh
# Offline setup after a fresh restore: build the harness against /repo and the Lean project.
set -e
cd "$(dirname "$0")"
export CARGO_NET_OFFLINE=true
cp /repo/Cargo.lock harness/Cargo.lock
(cd harness && cargo build --offline)
(cd lean && lake build)
