#!/usr/bin/env python3
"""Prints the brief given to an independent sub-agent that seeds a property-breaking change (it gets nothing from /verif)."""
import json, sys
pid = sys.argv[1]
props = {json.loads(l)['id']: json.loads(l) for l in open('/verif/properties.jsonl')}
p = props[pid]
print(f"""You are given a Rust project, darklua (a Lua/Luau code transformer: parser, AST, rewriting rules, code generators, CLI), as a scratch git worktree at /tmp/seed/{pid} (work ONLY there; do not look at or touch /repo, /verif or any other directory; no network). The project builds offline (`cargo build --offline`, `cargo test --offline` ≈ 1 minute; its full test suite currently passes).

Here is a semantic property the project is supposed to satisfy:

  Title: {p['title']}
  Statement: {p['statement']}
  Scope: {p['quantifier']['text']}

Your task: produce TWO different, realistic source changes ("seeded defects") to the project, each of which BREAKS this property while the project still compiles and its ENTIRE existing test suite still passes (`cargo test --offline` in the worktree, all tests green). Aim for the kind of mistake a maintainer could plausibly make in a refactoring or a performance tweak — an off-by-one, a dropped or inverted condition, a cache keyed by the wrong thing, a missed case in a match, two sites that each look fine alone — NOT an obvious sabotage, and NOT a change ordinary use would expose at once: each change must need something SPECIFIC to manifest (an unusual input shape, a particular nesting, a multi-step sequence of operations, a specific interleaving or history, a boundary value). The two changes must be at different sites / of different kinds. Keep each patch small (a few lines).

For each change i ∈ {{1, 2}} deliver, under /tmp/seed/{pid}/out/m<i>/ :
  - patch.diff : `git diff` of the change against the worktree's HEAD (source files only, must apply with `git apply` on a clean checkout of HEAD)
  - a demonstration: a small Rust integration test file demo.rs (to be dropped into the worktree's tests/ directory as tests/seed_demo.rs and run with `cargo test --offline --test seed_demo`) or an equivalent small program, which PASSES on the unchanged code and FAILS with the change applied, showing the property violated through the project's public API or CLI (for instance darklua_core::process on in-memory resources, the public generators, Parser, Configuration…)
  - README.md : which property clause it breaks, the exact site, what specific circumstances it needs in order to manifest, and the commands you ran with their outcomes (suite green with the patch; demo red with / green without)

You must actually verify all of it: (a) apply the change, `cargo build --offline`, run the whole suite `cargo test --offline` → all green; (b) run your demo with the change → fails; (c) revert the change (`git checkout -- .` for tracked files), run the demo → passes. If the existing suite catches your change, pick another change. When finished, leave the worktree's tracked files unmodified (git status clean apart from out/ and possibly tests/seed_demo.rs which you should delete) and remove build output you created outside target/. Final answer: a 5–10 line summary per change (site, what it needs to manifest, verification results).""")
