import DarkluaModel.Util.Sexp
/-!
Semantic AST shared by the rule / evaluator / bundle models: mirrors `darklua_core::nodes`
WITHOUT tokens. Numbers carry only their value (IEEE-754 bit pattern of the f64 darklua
computes for the literal); literal spelling is property C13's business. Strings and
identifiers are byte lists / strings. Types are kept only as far as they can hide an
expression (`typeof(e)`) or must be counted (C07).
-/
namespace DarkluaModel

inductive BinOp where
  | and | or | eq | ne | lt | le | gt | ge
  | add | sub | mul | div | idiv | mod | pow | concat
  deriving DecidableEq, Repr, Inhabited

inductive UnOp where
  | neg | not | len
  deriving DecidableEq, Repr, Inhabited

/-- How call arguments were written: `f(a, b)`, `f"s"`, `f{…}` (semantically all tuples). -/
inductive ArgKind where
  | tuple | str | tbl
  deriving DecidableEq, Repr, Inhabited

inductive LocalKind where
  | loc | const
  deriving DecidableEq, Repr, Inhabited

mutual
  inductive Ty where
    | mk (tag : String) (kids : List Ty)
    | typeof (e : Expr)
  /-- a possibly type-annotated identifier -/
  inductive TName where
    | mk (name : String) (ty : Option Ty)
  inductive Expr where
    | nil | true | false | vararg
    | num (bits : UInt64)
    | str (bytes : List UInt8)
    | var (name : String)
    | paren (e : Expr)
    | un (op : UnOp) (e : Expr)
    | bin (op : BinOp) (l r : Expr)
    | call (f : Expr) (method : Option String) (kind : ArgKind) (args : List Expr)
    | field (e : Expr) (name : String)
    | index (e k : Expr)
    | fn (body : FnBody)
    | table (entries : List Entry)
    | ifx (c t : Expr) (elifs : List (Expr × Expr)) (e : Expr)
    | interp (segs : List Seg)
    | cast (e : Expr) (ty : Ty)
    | inst (e : Expr) (tys : List Ty)
  inductive Entry where
    | pos (v : Expr)
    | named (k : String) (v : Expr)
    | keyed (k v : Expr)
  inductive Seg where
    | s (bytes : List UInt8)
    | v (e : Expr)
  inductive FnBody where
    | mk (params : List TName) (variadic : Bool) (varTy : Option Ty) (ret : Option Ty)
         (generics : List String) (attrs : List String) (body : Block)
  inductive Stmt where
    | assign (targets : List Expr) (values : List Expr)
    | cassign (op : BinOp) (target : Expr) (value : Expr)
    | callStmt (call : Expr)
    | doBlock (b : Block)
    | function (name : List String) (method : Option String) (body : FnBody)
    | gfor (names : List TName) (values : List Expr) (body : Block)
    | nfor (name : TName) (start stop : Expr) (step : Option Expr) (body : Block)
    | ifs (branches : List (Expr × Block)) (els : Option Block)
    | localAssign (kind : LocalKind) (names : List TName) (values : List Expr)
    | localFn (kind : LocalKind) (name : String) (body : FnBody)
    | repeat_ (body : Block) (cond : Expr)
    | while_ (cond : Expr) (body : Block)
    | typeDecl (exported : Bool) (name : String) (ty : Ty)
    | typeFn (exported : Bool) (name : String) (body : FnBody)
  inductive Last where
    | ret (es : List Expr)
    | brk
    | cont
  inductive Block where
    | mk (stmts : List Stmt) (last : Option Last)
end

instance : Inhabited Expr := ⟨.nil⟩
instance : Inhabited Block := ⟨.mk [] none⟩
instance : Inhabited Ty := ⟨.mk "" []⟩

end DarkluaModel
