import DarkluaModel.Shared.VisitorSoundHeapV
import DarkluaModel.Shared.VisitorSound.HeapV.VSelf
/-!
# Chaining passes of different stages at the level of outcomes

Every lifting theorem ends in a statement about the observable outcome of a run from a fixed initial state:
equality (stages 1, 2, 3-exact, 4) or "equal unless the original exhausts its budget" (stage 3 with
`cx.upto`, `visit_upto`). `Sem.OutLe o o'` (`o = .timeout ∨ o' = o`) is the common weakening; it is reflexive
and transitive, so passes proved with DIFFERENT relations (different contexts, cell-only vs. full
renumbering) compose: `pipeline_outLe`. What a later pass needs of its input (`NoRefB (watD cx) b` for a
stage-3 context, `Good` for a guarded family) is an invariant `I` that the earlier passes must preserve.

* adapters: `OutLe.ofEq`, `OutLe.ofHeap` (the conclusion of `chain_runChunk'` / `visit_heap'`),
  `OutLe.ofUpto` (`runProgram … = .timeout ∨ …`);
* `Sem.HeapV.chain_runChunk_wf` — stage 4 from any well-formed initial state (`State.WF`), e.g. the modified
  environments of stage 3;
* worked example `Demo.Pipeline`: `remove_assertions`-like pass (stage 3: watched global, call fact, up to
  timeout, modified environment) followed by the `remove_unused_variable`-like pass that drops table / closure
  allocations (stage 4).
-/
namespace DarkluaModel
open Sem

/-- `o'` is the outcome `o`, unless `o` is a budget exhaustion -/
def Sem.OutLe (o o' : Outcome) : Prop := o = .timeout ∨ o' = o

namespace Sem.OutLe
theorem refl (o : Outcome) : OutLe o o := .inr rfl
theorem ofEq {o o' : Outcome} (h : o' = o) : OutLe o o' := .inr h
theorem trans {a b c : Outcome} (h1 : OutLe a b) (h2 : OutLe b c) : OutLe a c := by
  rcases h1 with h1 | h1
  · exact .inl h1
  · rcases h2 with h2 | h2
    · exact .inl (h1 ▸ h2)
    · exact .inr (h2.trans h1)
/-- the conclusion of the stage-3 general theorems -/
theorem ofHeap {u : Bool} {o o' : Outcome} (h : (u = true ∧ o = .timeout) ∨ o' = o) : OutLe o o' :=
  h.elim (fun h => .inl h.2) .inr
/-- an exact stage (`cx.upto = false`) gives equality back -/
theorem eq_of_not_timeout {o o' : Outcome} (h : OutLe o o') (hn : o ≠ .timeout) : o' = o :=
  h.elim (fun e => absurd e hn) id
end Sem.OutLe

/-- **pipelines**: passes that each preserve an invariant `I` of programs and refine the outcome (of runs
observed by `run`) compose, in any number and order -/
theorem pipeline_outLe (run : Block → Outcome) (I : Block → Prop) (passes : List (Block → Block))
    (h : ∀ p ∈ passes, ∀ b, I b → I (p b) ∧ OutLe (run b) (run (p b))) (b : Block) (hb : I b) :
    I (passes.foldl (fun acc p => p acc) b) ∧ OutLe (run b) (run (passes.foldl (fun acc p => p acc) b)) := by
  induction passes generalizing b with
  | nil => exact ⟨hb, .refl _⟩
  | cons p rest ih =>
    have h1 := h p List.mem_cons_self b hb
    have h2 := ih (fun q hq => h q (List.mem_cons_of_mem _ hq)) (p b) h1.1
    exact ⟨h2.1, h1.2.trans h2.2⟩

/-- stage 4 from any well-formed initial state -/
theorem Sem.HeapV.chain_runChunk_wf {b b' : Block} (h : Chain HeapV.VkB b b') {N : NumOps} (ρ : ExtOracle N)
    (hρ : HeapV.OracleFlat ρ) (n : Nat) {σ0 : State N} (hwf : HeapV.State.WF σ0) :
    observe (runChunk ρ n b' σ0) = observe (runChunk ρ n b σ0) :=
  HeapV.chain_runChunk h ρ hρ n (HeapV.SRel.ofWF HeapV.VQ_refl hwf)

/-! ## Worked example: a stage-3 pass followed by a stage-4 pass -/
namespace Demo.Pipeline
open Sem.Heap

/-- pass 1 (`Demo.DropAssert`): `assert(e) ↦ e`; pass 2 (`Demo.DropUnusedAlloc`): drop unused allocation-only locals -/
def pass1 (b : Block) : Block := (Visitor.runDefault Demo.DropAssert.processor b ()).1
def pass2 (b : Block) : Block := (Visitor.runScoped Demo.DropUnusedAlloc.processor b ()).1

theorem env0_wf (externs : List String) {N : NumOps} : HeapV.State.WF (Demo.DropAssert.env0 externs : State N) :=
  HeapV.State.WF.presetFn (HeapV.State.WF.init externs) "assert" idBody

/-- **the two passes in sequence**, in the modified environment where `assert` is the identity: same outcome
unless the original exhausts its budget — pass 1 by the stage-3 theorem (context, call fact, up to timeout),
pass 2 by the stage-4 theorem (renumbering of tables / closures), glued by `OutLe.trans` -/
theorem run_refines (b : Block) (hb : NoRefB [.wat "assert"] b) {N : NumOps} (ρ : ExtOracle N)
    (hρ : HeapV.OracleFlat ρ) (n : Nat) (externs : List String) :
    OutLe (observe (runChunk ρ n b (Demo.DropAssert.env0 externs : State N)))
      (observe (runChunk ρ n (pass2 (pass1 b)) (Demo.DropAssert.env0 externs))) := by
  have h1 : OutLe (observe (runChunk ρ n b (Demo.DropAssert.env0 externs : State N)))
      (observe (runChunk ρ n (pass1 b) (Demo.DropAssert.env0 externs))) :=
    Demo.DropAssert.run_refines b hb ρ n externs
  have h2 : observe (runChunk ρ n (pass2 (pass1 b)) (Demo.DropAssert.env0 externs : State N)) =
      observe (runChunk ρ n (pass1 b) (Demo.DropAssert.env0 externs)) :=
    HeapV.chain_runChunk_wf (Visitor.visit_chain_v Demo.DropUnusedAlloc.hooksV true _ true (pass1 b) ()) ρ hρ n
      (env0_wf externs)
  exact h1.trans (.ofEq h2)

/-- non-vacuity: `local function f(x) local t = {}; return assert(x) end; emit(f(1))` — both passes fire -/
def sample : Block :=
  .mk [.localFn .loc "f" (.mk [.mk "x" none] false none none [] []
         (.mk [.localAssign .loc [.mk "t" none] [.table []]]
              (some (.ret [.call (.var "assert") none .tuple [.var "x"]])))),
       .callStmt (.call (.var "emit") none .tuple [.call (.var "f") none .tuple [.num 1]])] none

example : NoRefB [.wat "assert"] sample := NoRefB.ofBool rfl
example : pass2 (pass1 sample) =
    .mk [.localFn .loc "f" (.mk [.mk "x" none] false none none [] [] (.mk [] (some (.ret [.var "x"])))),
         .callStmt (.call (.var "emit") none .tuple [.call (.var "f") none .tuple [.num 1]])] none := rfl

end Demo.Pipeline
end DarkluaModel
