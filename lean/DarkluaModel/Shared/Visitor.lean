import DarkluaModel.Shared.Ast
/-!
# Model of darklua's visitors (`src/process/visitors.rs`, `post_visitor.rs`, `scope_visitor.rs`)

darklua applies every rule through `DefaultVisitor` / `DefaultPostVisitor` / `ScopeVisitor` /
`ScopePostVisitor` and a `NodeProcessor` with hooks. Hooks are called PRE-order and the
children that are visited afterwards are the children of the node *as rewritten by the
hook* — so the traversal is not structurally recursive on the input tree. The model is
total by fuel: every entry into a node costs one unit; out of fuel ⇒ the node is returned
unchanged (no hook is called). `Visitor.fuelFor` gives a sufficient amount for hooks that
do not grow the tree by more than a constant factor per node.

Hooks of `Processor σ` (σ = the processor's own state), each defaulting to the identity:

| hook | Rust |
|---|---|
| `block` / `afterBlock` | `process_block` / `process_after_block` |
| `scope` | `process_scope(block, extra)` (extra = the `until` condition of a repeat) |
| `stmt` | `process_statement` |
| `stmtNode` / `afterStmtNode` | the kind-specific `process_<kind>_statement` / `process_after_<kind>_statement` (not for call statements: those get `node`) |
| `last` | `process_last_statement` |
| `expr` | `process_expression` (expression positions only) |
| `pref` | `process_prefix_expression` (prefix positions: callee, indexed value) |
| `target` | `process_variable` (assignment targets) |
| `node` / `afterNode` | the kind-specific hook on entering / leaving a node: `process_binary_expression`, `process_function_call`, `process_field_expression`, `process_index_expression`, `process_variable_expression`, `process_function_expression`, `process_if_expression`, `process_number_expression`, `process_parenthese_expression`, `process_string_expression`, `process_interpolated_string_expression`, `process_table_expression`, `process_unary_expression`, `process_type_cast_expression`, `process_type_instantiation` (nil/true/false/`...` have no such hook) |
| `ty` | `process_type` |
| `attrs` | `process_attributes` (NOT called by the scope visitors: `ScopeVisitor` overrides the function visits without it) |
| `push` `pop` `insert` `insertSelf` `insertLocal` `insertLocalFn` | the `Scope` trait (scope visitors only) |
-/
namespace DarkluaModel

structure Processor (σ : Type) where
  block : Block → σ → Block × σ := fun b s => (b, s)
  afterBlock : Block → σ → Block × σ := fun b s => (b, s)
  scope : Block → Option Expr → σ → (Block × Option Expr) × σ := fun b e s => ((b, e), s)
  stmt : Stmt → σ → Stmt × σ := fun x s => (x, s)
  stmtNode : Stmt → σ → Stmt × σ := fun x s => (x, s)
  afterStmtNode : Stmt → σ → Stmt × σ := fun x s => (x, s)
  last : Last → σ → Last × σ := fun x s => (x, s)
  expr : Expr → σ → Expr × σ := fun x s => (x, s)
  pref : Expr → σ → Expr × σ := fun x s => (x, s)
  target : Expr → σ → Expr × σ := fun x s => (x, s)
  node : Expr → σ → Expr × σ := fun x s => (x, s)
  afterNode : Expr → σ → Expr × σ := fun x s => (x, s)
  ty : Ty → σ → Ty × σ := fun x s => (x, s)
  attrs : List String → σ → List String × σ := fun x s => (x, s)
  push : σ → σ := id
  pop : σ → σ := id
  insert : String → σ → String × σ := fun n s => (n, s)
  insertSelf : σ → σ := id
  insertLocal : String → Option Expr → σ → (String × Option Expr) × σ := fun n e s => ((n, e), s)
  insertLocalFn : String → σ → String × σ := fun n s => (n, s)

namespace Visitor

/-- thread a state through a list, left to right -/
def mapS {α σ : Type} (f : α → σ → α × σ) : List α → σ → List α × σ
  | [], s => ([], s)
  | x :: xs, s =>
    let (x', s1) := f x s
    let (xs', s2) := mapS f xs s1
    (x' :: xs', s2)

def optS {α σ : Type} (f : α → σ → α × σ) : Option α → σ → Option α × σ
  | none, s => (none, s)
  | some x, s => let (x', s1) := f x s; (some x', s1)

def tnameTy {σ : Type} (f : Ty → σ → Ty × σ) : TName → σ → TName × σ
  | .mk n ty, s => let (ty', s1) := optS f ty s; (.mk n ty', s1)

def tnameInsert {σ : Type} (f : String → σ → String × σ) : TName → σ → TName × σ
  | .mk n ty, s => let (n', s1) := f n s; (.mk n' ty, s1)

variable {σ : Type} (P : Processor σ) (sc : Bool)

/-- `insert_local` for each declared variable, paired with its value when there is one
(`VariableAssignment::for_each_assignment`) -/
def insertLocals : List TName → List Expr → σ → (List TName × List Expr) × σ
  | [], vs, s => (([], vs), s)
  | .mk n ty :: ns, [], s =>
    let ((n', _), s1) := P.insertLocal n none s
    let ((ns', vs'), s2) := insertLocals ns [] s1
    ((.mk n' ty :: ns', vs'), s2)
  | .mk n ty :: ns, v :: vs, s =>
    let ((n', v'), s1) := P.insertLocal n (some v) s
    let ((ns', vs'), s2) := insertLocals ns vs s1
    ((.mk n' ty :: ns', (v'.getD v) :: vs'), s2)

mutual
  def visitTy : Nat → Ty → σ → Ty × σ
    | 0, t, s => (t, s)
    | n + 1, t, s =>
      let (t1, s1) := P.ty t s
      match t1 with
      | .mk tag kids => let (kids', s2) := mapS (visitTy n) kids s1; (.mk tag kids', s2)
      | .typeof e => let (e', s2) := visitExpr n e s1; (.typeof e', s2)

  /-- an expression position -/
  def visitExpr : Nat → Expr → σ → Expr × σ
    | 0, e, s => (e, s)
    | n + 1, e, s => let (e1, s1) := P.expr e s; visitNode n e1 s1

  /-- a prefix position -/
  def visitPrefix : Nat → Expr → σ → Expr × σ
    | 0, e, s => (e, s)
    | n + 1, e, s => let (e1, s1) := P.pref e s; visitNode n e1 s1

  /-- an assignment target -/
  def visitTarget : Nat → Expr → σ → Expr × σ
    | 0, e, s => (e, s)
    | n + 1, e, s => let (e1, s1) := P.target e s; visitNode n e1 s1

  def visitEntry : Nat → Entry → σ → Entry × σ
    | 0, e, s => (e, s)
    | n + 1, .pos v, s => let (v', s1) := visitExpr n v s; (.pos v', s1)
    | n + 1, .named k v, s => let (v', s1) := visitExpr n v s; (.named k v', s1)
    | n + 1, .keyed k v, s =>
      let (k', s1) := visitExpr n k s
      let (v', s2) := visitExpr n v s1
      (.keyed k' v', s2)

  def visitSeg : Nat → Seg → σ → Seg × σ
    | 0, x, s => (x, s)
    | _ + 1, .s b, s => (.s b, s)
    | n + 1, .v e, s => let (e', s1) := visitExpr n e s; (.v e', s1)

  /-- the kind-specific hook, then the children, then the after-hook -/
  def visitNode : Nat → Expr → σ → Expr × σ
    | 0, e, s => (e, s)
    | n + 1, e, s =>
      match e with
      | .nil | .true | .false | .vararg => (e, s)
      | _ =>
        let (e1, s1) := P.node e s
        let (e2, s2) : Expr × σ :=
          match e1 with
          | .bin op l r =>
            let (l', a) := visitExpr n l s1
            let (r', b) := visitExpr n r a
            (.bin op l' r', b)
          | .call f m k args =>
            let (f', a) := visitPrefix n f s1
            let (args', b) : List Expr × σ :=
              match k with
              | .tuple => mapS (visitExpr n) args a
              | _ => mapS (visitNode n) args a   -- `f"s"` / `f{…}`: the string / table node itself
            (.call f' m k args', b)
          | .field x name => let (x', a) := visitPrefix n x s1; (.field x' name, a)
          | .index x k =>
            let (x', a) := visitPrefix n x s1
            let (k', b) := visitExpr n k a
            (.index x' k', b)
          | .fn body => let (body', a) := visitFnBody n false body s1; (.fn body', a)
          | .ifx c t elifs el =>
            let (c', a) := visitExpr n c s1
            let (t', b) := visitExpr n t a
            let (elifs', c2) := mapS (fun (p : Expr × Expr) st =>
              let (x, st1) := visitExpr n p.1 st
              let (y, st2) := visitExpr n p.2 st1
              ((x, y), st2)) elifs b
            let (el', d) := visitExpr n el c2
            (.ifx c' t' elifs' el', d)
          | .paren x => let (x', a) := visitExpr n x s1; (.paren x', a)
          | .interp segs => let (segs', a) := mapS (visitSeg n) segs s1; (.interp segs', a)
          | .table entries => let (es', a) := mapS (visitEntry n) entries s1; (.table es', a)
          | .un op x => let (x', a) := visitExpr n x s1; (.un op x', a)
          | .cast x ty =>
            let (x', a) := visitExpr n x s1
            let (ty', b) := visitTy n ty a
            (.cast x' ty', b)
          | .inst x tys =>
            let (x', a) := visitPrefix n x s1
            let (tys', b) := mapS (visitTy n) tys a
            (.inst x' tys', b)
          | other => (other, s1)
        P.afterNode e2 s2

  /-- function bodies. Default visitors: attributes, `process_scope`, block, parameter types,
  variadic type, return type. Scope visitors: types first, then push, (`insert_self`), insert
  parameters, `process_scope`, block, pop — and no attribute hook. -/
  def visitFnBody : Nat → Bool → FnBody → σ → FnBody × σ
    | 0, _, b, s => (b, s)
    | n + 1, hasSelf, .mk params variadic varTy ret generics attrs body, s =>
      if sc then
        let (params1, s1) := mapS (tnameTy (visitTy n)) params s
        let (varTy', s2) := optS (visitTy n) varTy s1
        let (ret', s3) := optS (visitTy n) ret s2
        let s4 := P.push s3
        let s5 := if hasSelf then P.insertSelf s4 else s4
        let (params2, s6) := mapS (tnameInsert P.insert) params1 s5
        let ((body1, _), s7) := P.scope body none s6
        let (body2, s8) := visitBlock n true body1 s7
        (.mk params2 variadic varTy' ret' generics attrs body2, P.pop s8)
      else
        let (attrs', s1) := P.attrs attrs s
        let ((body1, _), s2) := P.scope body none s1
        let (body2, s3) := visitBlock n true body1 s2
        let (params', s4) := mapS (tnameTy (visitTy n)) params s3
        let (varTy', s5) := optS (visitTy n) varTy s4
        let (ret', s6) := optS (visitTy n) ret s5
        (.mk params' variadic varTy' ret' generics attrs' body2, s6)

  def visitStmt : Nat → Stmt → σ → Stmt × σ
    | 0, st, s => (st, s)
    | n + 1, st, s =>
      let (st1, s1) := P.stmt st s
      match st1 with
      | .callStmt c => let (c', a) := visitNode n c s1; (.callStmt c', a)
      | _ =>
        let (st2, s2) := P.stmtNode st1 s1
        let (st3, s3) : Stmt × σ :=
          match st2 with
          | .assign targets values =>
            let (ts', a) := mapS (visitTarget n) targets s2
            let (vs', b) := mapS (visitExpr n) values a
            (.assign ts' vs', b)
          | .cassign op t v =>
            let (t', a) := visitTarget n t s2
            let (v', b) := visitExpr n v a
            (.cassign op t' v', b)
          | .doBlock b =>
            let ((b1, _), a) := P.scope b none s2
            let (b2, c) := visitBlock n true b1 a
            (.doBlock b2, c)
          | .function name m body =>
            -- the root identifier of the name gets `process_variable_expression`
            match name with
            | [] => (st2, s2)
            | root :: path =>
              if sc then
                let (r1, a) := P.node (.var root) s2
                let root' := match r1 with | .var x => x | _ => root
                let (body', b) := visitFnBody n m.isSome body a
                (.function (root' :: path) m body', b)
              else
                match body with
                | .mk params variadic varTy ret generics attrs blk =>
                  let (attrs', a0) := P.attrs attrs s2
                  let (r1, a) := P.node (.var root) a0
                  let root' := match r1 with | .var x => x | _ => root
                  -- remaining steps as in `visitFnBody` (attributes already done)
                  let ((body1, _), a2) := P.scope blk none a
                  let (body2, a3) := visitBlock n true body1 a2
                  let (params', a4) := mapS (tnameTy (visitTy n)) params a3
                  let (varTy', a5) := optS (visitTy n) varTy a4
                  let (ret', a6) := optS (visitTy n) ret a5
                  (.function (root' :: path) m (.mk params' variadic varTy' ret' generics attrs' body2), a6)
          | .gfor names values body =>
            let (vs', a) := mapS (visitExpr n) values s2
            if sc then
              -- annotations first, in the enclosing scope (fix of F09b), then push + insert
              let (names1, a1) := mapS (tnameTy (visitTy n)) names a
              let a2 := P.push a1
              let (names2, a3) := mapS (tnameInsert P.insert) names1 a2
              let ((b1, _), a4) := P.scope body none a3
              let (b2, a5) := visitBlock n true b1 a4
              (.gfor names2 vs' b2, P.pop a5)
            else
              let ((b1, _), a1) := P.scope body none a
              let (b2, a2) := visitBlock n true b1 a1
              let (names', a3) := mapS (tnameTy (visitTy n)) names a2
              (.gfor names' vs' b2, a3)
          | .nfor name start stop step body =>
            let (start', a) := visitExpr n start s2
            let (stop', b) := visitExpr n stop a
            let (step', c) := optS (visitExpr n) step b
            if sc then
              let (name1, c1) := tnameTy (visitTy n) name c
              let c2 := P.push c1
              let (name2, c3) := tnameInsert P.insert name1 c2
              let ((b1, _), c4) := P.scope body none c3
              let (b2, c5) := visitBlock n true b1 c4
              (.nfor name2 start' stop' step' b2, P.pop c5)
            else
              let ((b1, _), c1) := P.scope body none c
              let (b2, c2) := visitBlock n true b1 c1
              let (name', c3) := tnameTy (visitTy n) name c2
              (.nfor name' start' stop' step' b2, c3)
          | .ifs branches els =>
            let (brs', a) := mapS (fun (p : Expr × Block) st =>
              let (c, st1) := visitExpr n p.1 st
              let ((b1, _), st2) := P.scope p.2 none st1
              let (b2, st3) := visitBlock n true b1 st2
              ((c, b2), st3)) branches s2
            let (els', b) := optS (fun blk st =>
              let ((b1, _), st1) := P.scope blk none st
              visitBlock n true b1 st1) els a
            (.ifs brs' els', b)
          | .localAssign kind names values =>
            let (vs', a) := mapS (visitExpr n) values s2
            let (names', b) := mapS (tnameTy (visitTy n)) names a
            if sc then
              let ((names2, vs2), c) := insertLocals P names' vs' b
              (.localAssign kind names2 vs2, c)
            else (.localAssign kind names' vs', b)
          | .localFn kind name body =>
            if sc then
              -- signature annotations first, in the enclosing scope; then the function name; then the
              -- parameters and the body in a new scope (fix of F09b)
              match body with
              | .mk params variadic varTy ret generics attrs blk =>
                let (params1, a1) := mapS (tnameTy (visitTy n)) params s2
                let (varTy', a2) := optS (visitTy n) varTy a1
                let (ret', a3) := optS (visitTy n) ret a2
                let (name', a4) := P.insertLocalFn name a3
                let a5 := P.push a4
                let (params2, a6) := mapS (tnameInsert P.insert) params1 a5
                let ((body1, _), a7) := P.scope blk none a6
                let (body2, a8) := visitBlock n true body1 a7
                (.localFn kind name' (.mk params2 variadic varTy' ret' generics attrs body2), P.pop a8)
            else
              let (body', a) := visitFnBody n false body s2
              (.localFn kind name body', a)
          | .repeat_ body cond =>
            if sc then
              let a := P.push s2
              let ((b1, c1), a1) := P.scope body (some cond) a
              let (b2, a2) := visitBlock n false b1 a1
              let (c2, a3) := visitExpr n (c1.getD cond) a2
              (.repeat_ b2 c2, P.pop a3)
            else
              let ((b1, c1), a1) := P.scope body (some cond) s2
              let (c2, a2) := visitExpr n (c1.getD cond) a1
              let (b2, a3) := visitBlock n true b1 a2
              (.repeat_ b2 c2, a3)
          | .while_ cond body =>
            let (c', a) := visitExpr n cond s2
            let ((b1, _), a1) := P.scope body none a
            let (b2, a2) := visitBlock n true b1 a1
            (.while_ c' b2, a2)
          | .typeDecl ex name ty => let (ty', a) := visitTy n ty s2; (.typeDecl ex name ty', a)
          | .typeFn ex name body =>
            match body with
            | .mk params variadic varTy ret generics attrs blk =>
              if sc then
                -- scope visitors declare the parameters (fix of F09c)
                let (params1, a1) := mapS (tnameTy (visitTy n)) params s2
                let (varTy', a2) := optS (visitTy n) varTy a1
                let (ret', a3) := optS (visitTy n) ret a2
                let a4 := P.push a3
                let (params2, a5) := mapS (tnameInsert P.insert) params1 a4
                let ((b1, _), a6) := P.scope blk none a5
                let (b2, a7) := visitBlock n true b1 a6
                (.typeFn ex name (.mk params2 variadic varTy' ret' generics attrs b2), P.pop a7)
              else
                let ((b1, _), a1) := P.scope blk none s2
                let (b2, a2) := visitBlock n true b1 a1
                let (params', a3) := mapS (tnameTy (visitTy n)) params a2
                let (varTy', a4) := optS (visitTy n) varTy a3
                let (ret', a5) := optS (visitTy n) ret a4
                (.typeFn ex name (.mk params' variadic varTy' ret' generics attrs b2), a5)
          | other => (other, s2)
        P.afterStmtNode st3 s3

  def visitLast : Nat → Last → σ → Last × σ
    | 0, l, s => (l, s)
    | n + 1, l, s =>
      let (l1, s1) := P.last l s
      match l1 with
      | .ret es => let (es', s2) := mapS (visitExpr n) es s1; (.ret es', s2)
      | other => (other, s1)

  /-- `pushes`: scope visitors push/pop around a block, except for the body of a `repeat`
  (whose scope also covers the condition) -/
  def visitBlock : Nat → Bool → Block → σ → Block × σ
    | 0, _, b, s => (b, s)
    | n + 1, pushes, b, s =>
      let s0 := if sc && pushes then P.push s else s
      let (b1, s1) := P.block b s0
      match b1 with
      | .mk stmts last =>
        let (stmts', s2) := mapS (visitStmt n) stmts s1
        let (last', s3) := optS (visitLast n) last s2
        let (b2, s4) := P.afterBlock (.mk stmts' last') s3
        (b2, if sc && pushes then P.pop s4 else s4)
end

end Visitor

/-! ### size, for choosing fuel -/
mutual
  def Ty.size : Ty → Nat
    | .mk _ kids => 1 + Ty.sizeList kids
    | .typeof e => 1 + e.size
  def Ty.sizeList : List Ty → Nat
    | [] => 0
    | t :: ts => t.size + Ty.sizeList ts
  def Ty.sizeOpt : Option Ty → Nat
    | none => 0
    | some t => t.size
  def TName.size : TName → Nat
    | .mk _ ty => 1 + Ty.sizeOpt ty
  def TName.sizeList : List TName → Nat
    | [] => 0
    | t :: ts => t.size + TName.sizeList ts
  def Expr.size : Expr → Nat
    | .paren e => 1 + e.size
    | .un _ e => 1 + e.size
    | .bin _ l r => 1 + l.size + r.size
    | .call f _ _ args => 1 + f.size + Expr.sizeList args
    | .field e _ => 1 + e.size
    | .index e k => 1 + e.size + k.size
    | .fn body => 1 + body.size
    | .table es => 1 + Entry.sizeList es
    | .ifx c t elifs e => 1 + c.size + t.size + Expr.sizePairs elifs + e.size
    | .interp segs => 1 + Seg.sizeList segs
    | .cast e ty => 1 + e.size + ty.size
    | .inst e tys => 1 + e.size + Ty.sizeList tys
    | _ => 1
  def Expr.sizeList : List Expr → Nat
    | [] => 0
    | e :: es => e.size + Expr.sizeList es
  def Expr.sizePairs : List (Expr × Expr) → Nat
    | [] => 0
    | (a, b) :: rest => a.size + b.size + Expr.sizePairs rest
  def Entry.size : Entry → Nat
    | .pos v => 1 + v.size
    | .named _ v => 1 + v.size
    | .keyed k v => 1 + k.size + v.size
  def Entry.sizeList : List Entry → Nat
    | [] => 0
    | e :: es => e.size + Entry.sizeList es
  def Seg.size : Seg → Nat
    | .s _ => 1
    | .v e => 1 + e.size
  def Seg.sizeList : List Seg → Nat
    | [] => 0
    | e :: es => e.size + Seg.sizeList es
  def FnBody.size : FnBody → Nat
    | .mk params _ varTy ret _ _ body => 1 + TName.sizeList params + Ty.sizeOpt varTy + Ty.sizeOpt ret + body.size
  def Stmt.size : Stmt → Nat
    | .assign ts vs => 1 + Expr.sizeList ts + Expr.sizeList vs
    | .cassign _ t v => 1 + t.size + v.size
    | .callStmt c => 1 + c.size
    | .doBlock b => 1 + b.size
    | .function _ _ body => 1 + body.size
    | .gfor names vs body => 1 + TName.sizeList names + Expr.sizeList vs + body.size
    | .nfor name a b step body => 1 + name.size + a.size + b.size + Expr.sizeOpt step + body.size
    | .ifs branches els => 1 + Stmt.sizeBranches branches + Block.sizeOpt els
    | .localAssign _ names vs => 1 + TName.sizeList names + Expr.sizeList vs
    | .localFn _ _ body => 1 + body.size
    | .repeat_ b c => 1 + b.size + c.size
    | .while_ c b => 1 + c.size + b.size
    | .typeDecl _ _ ty => 1 + ty.size
    | .typeFn _ _ body => 1 + body.size
  def Expr.sizeOpt : Option Expr → Nat
    | none => 0
    | some e => e.size
  def Stmt.sizeBranches : List (Expr × Block) → Nat
    | [] => 0
    | (c, b) :: rest => c.size + b.size + Stmt.sizeBranches rest
  def Stmt.sizeList : List Stmt → Nat
    | [] => 0
    | s :: ss => s.size + Stmt.sizeList ss
  def Last.size : Last → Nat
    | .ret es => 1 + Expr.sizeList es
    | _ => 1
  def Block.sizeOpt : Option Block → Nat
    | none => 0
    | some b => b.size
  def Block.size : Block → Nat
    | .mk stmts last => 1 + Stmt.sizeList stmts + (match last with | none => 0 | some l => l.size)
end

/-- fuel that lets the visitor reach every node of `b` even when hooks wrap nodes a few levels deep -/
def Visitor.fuelFor (b : Block) : Nat := 8 * b.size + 64

/-- `DefaultVisitor::visit_block` / `DefaultPostVisitor::visit_block` -/
def Visitor.runDefault {σ : Type} (P : Processor σ) (b : Block) (s : σ) : Block × σ :=
  Visitor.visitBlock P false (Visitor.fuelFor b) true b s

/-- `ScopeVisitor::visit_block` / `ScopePostVisitor::visit_block` -/
def Visitor.runScoped {σ : Type} (P : Processor σ) (b : Block) (s : σ) : Block × σ :=
  Visitor.visitBlock P true (Visitor.fuelFor b) true b s

end DarkluaModel
