import DarkluaModel.Shared.Sem
/-!
Top level of the reference semantics: call levels, the initial state, running a program.
-/
namespace DarkluaModel.Sem
variable {N : NumOps}

/-- Calling a closure at level `n`: nested calls run at level `n-1`; level 0 times out.
`n` also bounds loop iterations and library call-back nesting inside the body. -/
def callClosure (ρ : ExtOracle N) : Nat → CallFn N
  | 0 => fun _ _ _ => .timeout
  | n + 1 => fun clo args σ =>
    match clo.body with
    | .mk params variadic _ _ _ _ body =>
      let names := params.map TName.name
      let (locals, σ1) := bindLocals names args clo.env σ
      let va := if variadic then args.drop names.length else []
      match execB (callClosure ρ n) ρ n ⟨locals, va⟩ body σ1 with
      | .ok (.ret vs) σ2 => .ok vs σ2
      | .ok _ σ2 => .ok [] σ2
      | .err v σ2 => .err v σ2
      | .timeout => .timeout

def libTable (pre : String) (names : List String) : Table N :=
  { entries := names.map fun n => (strVal n, Val.builtin (pre ++ "." ++ n)), mt := none }

/-- Initial state: table 0 = `string`, 1 = `math`, 2 = `table`; `externs` are the external
functions of the run (every other unknown global is `nil`). -/
def initState (externs : List String) : State N :=
  let mathT : Table N :=
    { entries := (libTable "math" ["floor", "sqrt", "abs", "max", "min"]).entries ++
        [(strVal "huge", .num (N.div (N.ofNat 1) (N.ofNat 0)))], mt := none }
  { globals :=
      [("string", .tbl 0), ("math", .tbl 1), ("table", .tbl 2)] ++
      (["select", "type", "tostring", "tonumber", "rawget", "rawset", "rawequal", "rawlen", "setmetatable",
        "getmetatable", "next", "pairs", "ipairs", "unpack", "pcall", "error", "assert"].map
          fun n => (n, Val.builtin n)) ++
      externs.map fun n => (n, Val.builtin n)
    cells := []
    tables := [libTable "string" ["format", "char", "rep", "sub", "len", "byte", "upper", "lower"], mathT,
               libTable "table" ["insert", "concat", "remove", "unpack"]]
    closures := []
    trace := [] }

/-- the observable outcome of a run -/
inductive Outcome where
  | returned (vals : List CVal) (trace : List Event)
  | raised (v : CVal) (trace : List Event)
  | timeout
  deriving BEq, Repr

/-- Run a chunk at level `n` (chunks are variadic functions with no arguments). -/
def runChunk (ρ : ExtOracle N) (n : Nat) (b : Block) (σ : State N) : Res N (List (Val N)) :=
  match execB (callClosure ρ n) ρ n ⟨[], []⟩ b σ with
  | .ok (.ret vs) σ' => .ok vs σ'
  | .ok _ σ' => .ok [] σ'
  | .err v σ' => .err v σ'
  | .timeout => .timeout

def observe (r : Res N (List (Val N))) : Outcome :=
  match r with
  | .ok vs σ => .returned (vs.map σ.canon) σ.trace.reverse
  | .err v σ => .raised (σ.canon v) σ.trace.reverse
  | .timeout => .timeout

def runProgram (ρ : ExtOracle N) (n : Nat) (externs : List String) (b : Block) : Outcome :=
  observe (runChunk ρ n b (initState externs))

/-- Exact semantic equality of two blocks (every level, oracle, environment, state). -/
def SemEq (a b : Block) : Prop :=
  ∀ (N : NumOps) (ρ : ExtOracle N) (call : CallFn N) (k : Nat) (env : Env N) (σ : State N),
    execB call ρ k env a σ = execB call ρ k env b σ

end DarkluaModel.Sem
