import DarkluaModel.Shared.VisitorSound.ExactFam
import DarkluaModel.Shared.VisitorSound.Closure
import DarkluaModel.Rules.EmptyDo
/-!
# Lifting local soundness of hooks to whole visitor passes

* `Visitor.visit_rel` (`VisitorSound/Lift.lean`) — generic: hooks respect a congruence family ⇒
  a pass respects it.
* Stage 1 (this file): `HooksExact P` (every hook is exactly meaning-preserving) and
  `HooksNoFn P` (hooks do not introduce function expressions) ⇒ `visit_exact`: on function-free
  blocks a pass yields an exactly equivalent (`Sem.EqB`), function-free block;
  corollaries `runDefault_exact`, `runScoped_exact`; worked instance `EmptyDo.apply_exact`.

* Stage 2 (this file): no restriction on functions. `HooksExact P` ⇒ `visit_R`: the pass output is
  `R false`-related to the input (`R md` = congruence closure of the steps, also under function
  bodies, `VisitorSound/Rel.lean`), and by the fundamental theorem of `R` (`Sem.fund`,
  `Sem.runProgram_rel`) ⇒ `visit_refines`: equal observable outcome (`Sem.runProgram`: returned /
  raised canonical values and the trace of external calls) for every oracle, call level and extern
  list. Corollaries `runDefault_refines`, `runScoped_refines`; instance `EmptyDo.apply_refines`.
  Timeout-relaxed variant (`HooksLe true`, for rules that delete loops): `visit_upto`,
  `runDefault_upto`, `runScoped_upto` — equal outcome unless the original exhausts its budget.

Recipe for a rule builder: see the `EmptyDo` section at the end.
-/
namespace DarkluaModel
open Sem

/-- closes the obligation of a hook that is the identity (the `Processor` default) -/
macro "hook_id" : tactic =>
  `(tactic| (intros; first
      | exact EqE.refl _ | exact EqT.refl _ | exact EqS.refl _ | exact EqL.refl _ | exact EqB.refl _
      | exact ⟨EqE.refl _, EqT.refl _⟩ | rfl | assumption))

/-- Every hook of `P` rewrites a node into one with exactly the same meaning, for every
processor state. Nodes reachable in assignment-target position (`node`/`afterNode`/`target`
hooks) must also keep their meaning as targets (`EqT`; for two non-assignable shapes use
`EqT.nonLv`). Scope-insertion hooks must not rename. Hooks on types and attributes are
unconstrained. Fields default to the proof for an identity hook. -/
structure HooksExact {σ : Type} (P : Processor σ) : Prop where
  expr : ∀ e s, EqE e (P.expr e s).1 := by hook_id
  pref : ∀ e s, EqE e (P.pref e s).1 := by hook_id
  target : ∀ e s, EqT e (P.target e s).1 := by hook_id
  node : ∀ e s, EqE e (P.node e s).1 ∧ EqT e (P.node e s).1 := by hook_id
  afterNode : ∀ e s, EqE e (P.afterNode e s).1 ∧ EqT e (P.afterNode e s).1 := by hook_id
  stmt : ∀ x s, EqS x (P.stmt x s).1 := by hook_id
  stmtNode : ∀ x s, EqS x (P.stmtNode x s).1 := by hook_id
  afterStmtNode : ∀ x s, EqS x (P.afterStmtNode x s).1 := by hook_id
  last : ∀ x s, EqL x (P.last x s).1 := by hook_id
  block : ∀ b s, EqB b (P.block b s).1 := by hook_id
  afterBlock : ∀ b s, EqB b (P.afterBlock b s).1 := by hook_id
  scopeB : ∀ b c s, EqB b (P.scope b c s).1.1 := by hook_id
  scopeC : ∀ b c s, EqE c ((P.scope b (some c) s).1.2.getD c) := by hook_id
  insert : ∀ n s, (P.insert n s).1 = n := by hook_id
  insertLocalName : ∀ n v s, (P.insertLocal n v s).1.1 = n := by hook_id
  insertLocalVal : ∀ n v s, EqE v ((P.insertLocal n (some v) s).1.2.getD v) := by hook_id
  insertLocalFn : ∀ n s, (P.insertLocalFn n s).1 = n := by hook_id

/-- hooks map function-free nodes to function-free nodes -/
structure HooksNoFn {σ : Type} (P : Processor σ) : Prop where
  expr : ∀ e s, e.noFn = true → (P.expr e s).1.noFn = true := by hook_id
  pref : ∀ e s, e.noFn = true → (P.pref e s).1.noFn = true := by hook_id
  target : ∀ e s, e.noFn = true → (P.target e s).1.noFn = true := by hook_id
  node : ∀ e s, e.noFn = true → (P.node e s).1.noFn = true := by hook_id
  afterNode : ∀ e s, e.noFn = true → (P.afterNode e s).1.noFn = true := by hook_id
  stmt : ∀ x s, x.noFn = true → (P.stmt x s).1.noFn = true := by hook_id
  stmtNode : ∀ x s, x.noFn = true → (P.stmtNode x s).1.noFn = true := by hook_id
  afterStmtNode : ∀ x s, x.noFn = true → (P.afterStmtNode x s).1.noFn = true := by hook_id
  last : ∀ x s, x.noFn = true → (P.last x s).1.noFn = true := by hook_id
  block : ∀ b s, b.noFn = true → (P.block b s).1.noFn = true := by hook_id
  afterBlock : ∀ b s, b.noFn = true → (P.afterBlock b s).1.noFn = true := by hook_id
  scopeB : ∀ b c s, b.noFn = true → (P.scope b c s).1.1.noFn = true := by hook_id
  scopeC : ∀ b c s, c.noFn = true → ((P.scope b (some c) s).1.2.getD c).noFn = true := by hook_id
  insertLocalVal : ∀ n v s, v.noFn = true → ((P.insertLocal n (some v) s).1.2.getD v).noFn = true := by hook_id

variable {σ : Type} {P : Processor σ}

theorem HooksExact.toRel (H : HooksExact P) (F : HooksNoFn P) : HooksRel exactFam P where
  expr := fun e s hp => ⟨H.expr e s, F.expr e s hp⟩
  pref := fun e s hp => ⟨H.pref e s, F.pref e s hp⟩
  target := fun e s hp => ⟨H.target e s, F.target e s hp⟩
  node := fun e s => ⟨fun hp => ⟨(H.node e s).1, F.node e s hp⟩, fun hp => ⟨(H.node e s).2, F.node e s hp⟩⟩
  afterNode := fun e s =>
    ⟨fun hp => ⟨(H.afterNode e s).1, F.afterNode e s hp⟩, fun hp => ⟨(H.afterNode e s).2, F.afterNode e s hp⟩⟩
  stmt := fun e s hp => ⟨H.stmt e s, F.stmt e s hp⟩
  stmtNode := fun e s hp => ⟨H.stmtNode e s, F.stmtNode e s hp⟩
  afterStmtNode := fun e s hp => ⟨H.afterStmtNode e s, F.afterStmtNode e s hp⟩
  last := fun e s hp => ⟨H.last e s, F.last e s hp⟩
  block := fun e s hp => ⟨H.block e s, F.block e s hp⟩
  afterBlock := fun e s hp => ⟨H.afterBlock e s, F.afterBlock e s hp⟩
  scopeB := fun b s hp => ⟨H.scopeB b none s, F.scopeB b none s hp⟩
  scopeR := fun b c s =>
    ⟨fun hp => ⟨H.scopeB b (some c) s, F.scopeB b (some c) s hp⟩, fun hp => ⟨H.scopeC b c s, F.scopeC b c s hp⟩⟩
  insert := H.insert
  insertLocalName := H.insertLocalName
  insertLocalVal := fun n v s hp => ⟨H.insertLocalVal n v s, F.insertLocalVal n v s hp⟩
  insertLocalFn := H.insertLocalFn

/-- **Stage 1 lifting theorem.** Exactly sound, function-free-preserving hooks ⇒ on a
function-free block, a visitor pass (either flavour `sc`, any fuel, any initial processor
state) returns a block with exactly the same denotation in every context, again function-free. -/
theorem Visitor.visit_exact (H : HooksExact P) (F : HooksNoFn P) (sc : Bool) (fuel : Nat) (pushes : Bool)
    (b : Block) (s : σ) (hb : b.noFn = true) :
    EqB b (Visitor.visitBlock P sc fuel pushes b s).1 ∧ (Visitor.visitBlock P sc fuel pushes b s).1.noFn = true :=
  Visitor.visit_rel (C := exactFam) (H.toRel F) sc fuel pushes b s hb

theorem Visitor.runDefault_exact (H : HooksExact P) (F : HooksNoFn P) (b : Block) (s : σ) (hb : b.noFn = true) :
    EqB b (Visitor.runDefault P b s).1 ∧ (Visitor.runDefault P b s).1.noFn = true :=
  Visitor.visit_exact H F false _ true b s hb

theorem Visitor.runScoped_exact (H : HooksExact P) (F : HooksNoFn P) (b : Block) (s : σ) (hb : b.noFn = true) :
    EqB b (Visitor.runScoped P b s).1 ∧ (Visitor.runScoped P b s).1.noFn = true :=
  Visitor.visit_exact H F true _ true b s hb

/-- in the vocabulary of `Run.lean`: the pass output is `SemEq` to the input, hence every run agrees -/
theorem Visitor.runDefault_semEq (H : HooksExact P) (F : HooksNoFn P) (b : Block) (s : σ) (hb : b.noFn = true) :
    SemEq (Visitor.runDefault P b s).1 b :=
  (Visitor.runDefault_exact H F b s hb).1.semEq

theorem Sem.EqB.runProgram_eq {b b' : Block} (h : EqB b b') {N : NumOps} (ρ : ExtOracle N) (n : Nat)
    (externs : List String) : Sem.runProgram ρ n externs b' = Sem.runProgram ρ n externs b := by
  unfold Sem.runProgram Sem.runChunk
  rw [h N]

/-! ## Stage 2: programs with functions — observational equality -/

/-- closes the obligation of an identity hook in `HooksLe` -/
macro "hook_id_le" : tactic =>
  `(tactic| (intros; first
      | exact LeE.refl _ | exact LeT.refl _ | exact LeS.refl _ | exact LeL.refl _ | exact LeB.refl _
      | exact ⟨LeE.refl _, LeT.refl _⟩ | rfl | assumption))

/-- `HooksExact` with the step relations `LeE md` … : for `md = true` every hook may also map a node
that exhausts its budget to anything ("the original times out, or the new node behaves exactly
like it") — what loop-deleting rules satisfy. `HooksLe false` is `HooksExact`. -/
structure HooksLe {σ : Type} (md : Bool) (P : Processor σ) : Prop where
  expr : ∀ e s, LeE md e (P.expr e s).1 := by hook_id_le
  pref : ∀ e s, LeE md e (P.pref e s).1 := by hook_id_le
  target : ∀ e s, LeT md e (P.target e s).1 := by hook_id_le
  node : ∀ e s, LeE md e (P.node e s).1 ∧ LeT md e (P.node e s).1 := by hook_id_le
  afterNode : ∀ e s, LeE md e (P.afterNode e s).1 ∧ LeT md e (P.afterNode e s).1 := by hook_id_le
  stmt : ∀ x s, LeS md x (P.stmt x s).1 := by hook_id_le
  stmtNode : ∀ x s, LeS md x (P.stmtNode x s).1 := by hook_id_le
  afterStmtNode : ∀ x s, LeS md x (P.afterStmtNode x s).1 := by hook_id_le
  last : ∀ x s, LeL md x (P.last x s).1 := by hook_id_le
  block : ∀ b s, LeB md b (P.block b s).1 := by hook_id_le
  afterBlock : ∀ b s, LeB md b (P.afterBlock b s).1 := by hook_id_le
  scopeB : ∀ b c s, LeB md b (P.scope b c s).1.1 := by hook_id_le
  scopeC : ∀ b c s, LeE md c ((P.scope b (some c) s).1.2.getD c) := by hook_id_le
  insert : ∀ n s, (P.insert n s).1 = n := by hook_id_le
  insertLocalName : ∀ n v s, (P.insertLocal n v s).1.1 = n := by hook_id_le
  insertLocalVal : ∀ n v s, LeE md v ((P.insertLocal n (some v) s).1.2.getD v) := by hook_id_le
  insertLocalFn : ∀ n s, (P.insertLocalFn n s).1 = n := by hook_id_le

theorem HooksExact.toLe (H : HooksExact P) (md : Bool) : HooksLe md P where
  expr := fun e s => (H.expr e s).le
  pref := fun e s => (H.pref e s).le
  target := fun e s => (H.target e s).le
  node := fun e s => ⟨(H.node e s).1.le, (H.node e s).2.le⟩
  afterNode := fun e s => ⟨(H.afterNode e s).1.le, (H.afterNode e s).2.le⟩
  stmt := fun e s => (H.stmt e s).le
  stmtNode := fun e s => (H.stmtNode e s).le
  afterStmtNode := fun e s => (H.afterStmtNode e s).le
  last := fun e s => (H.last e s).le
  block := fun e s => (H.block e s).le
  afterBlock := fun e s => (H.afterBlock e s).le
  scopeB := fun b c s => (H.scopeB b c s).le
  scopeC := fun b c s => (H.scopeC b c s).le
  insert := H.insert
  insertLocalName := H.insertLocalName
  insertLocalVal := fun n v s => (H.insertLocalVal n v s).le
  insertLocalFn := H.insertLocalFn

theorem HooksLe.toClosureRel {md : Bool} (H : HooksLe md P) : HooksRel (closureFam md) P where
  expr := fun e s => .stepE (H.expr e s) (R.reflE _)
  pref := fun e s => .stepE (H.pref e s) (R.reflE _)
  target := fun e s => .stepT (H.target e s) (R.reflT _)
  node := fun e s => ⟨.stepE (H.node e s).1 (R.reflE _), .stepT (H.node e s).2 (R.reflT _)⟩
  afterNode := fun e s => ⟨.stepE (H.afterNode e s).1 (R.reflE _), .stepT (H.afterNode e s).2 (R.reflT _)⟩
  stmt := fun e s => .stepS (H.stmt e s) (R.reflS _)
  stmtNode := fun e s => .stepS (H.stmtNode e s) (R.reflS _)
  afterStmtNode := fun e s => .stepS (H.afterStmtNode e s) (R.reflS _)
  last := fun e s => .stepL (H.last e s) (R.reflL _)
  block := fun e s => .stepB (H.block e s) (R.reflB _)
  afterBlock := fun e s => .stepB (H.afterBlock e s) (R.reflB _)
  scopeB := fun b s => .stepB (H.scopeB b none s) (R.reflB _)
  scopeR := fun b c s => ⟨.stepB (H.scopeB b (some c) s) (R.reflB _), .stepE (H.scopeC b c s) (R.reflE _)⟩
  insert := H.insert
  insertLocalName := H.insertLocalName
  insertLocalVal := fun n v s => .stepE (H.insertLocalVal n v s) (R.reflE _)
  insertLocalFn := H.insertLocalFn

/-- a pass whose hooks respect `R md` (weakest hypothesis: hooks may themselves rewrite inside
function bodies) maps a block to an `R md`-related block — any block, functions included -/
theorem Visitor.visit_R_of_rel {md : Bool} (H : HooksRel (closureFam md) P) (sc : Bool) (fuel : Nat)
    (pushes : Bool) (b : Block) (s : σ) : R md (.b b) (.b (Visitor.visitBlock P sc fuel pushes b s).1) :=
  Visitor.visit_rel (C := closureFam md) H sc fuel pushes b s

theorem Visitor.visit_R_le {md : Bool} (H : HooksLe md P) (sc : Bool) (fuel : Nat) (pushes : Bool) (b : Block)
    (s : σ) : R md (.b b) (.b (Visitor.visitBlock P sc fuel pushes b s).1) :=
  Visitor.visit_R_of_rel H.toClosureRel sc fuel pushes b s

theorem Visitor.visit_R (H : HooksExact P) (sc : Bool) (fuel : Nat) (pushes : Bool) (b : Block) (s : σ) :
    R false (.b b) (.b (Visitor.visitBlock P sc fuel pushes b s).1) :=
  Visitor.visit_R_le (H.toLe false) sc fuel pushes b s

/-- **Stage 2 lifting theorem.** If every hook of `P` is exactly meaning-preserving, then running
the visited program is observationally the same as running the original: same returned (or raised)
canonical values and same trace of external calls, for every number model, oracle, call level
and extern list — although the closures created along the way hold different (rewritten) bodies. -/
theorem Visitor.visit_refines (H : HooksExact P) (sc : Bool) (fuel : Nat) (pushes : Bool) (b : Block) (s : σ)
    {N : NumOps} (ρ : ExtOracle N) (n : Nat) (externs : List String) :
    runProgram ρ n externs (Visitor.visitBlock P sc fuel pushes b s).1 = runProgram ρ n externs b :=
  runProgram_rel ρ n externs (Visitor.visit_R H sc fuel pushes b s)

theorem Visitor.runDefault_refines (H : HooksExact P) (b : Block) (s : σ)
    {N : NumOps} (ρ : ExtOracle N) (n : Nat) (externs : List String) :
    runProgram ρ n externs (Visitor.runDefault P b s).1 = runProgram ρ n externs b :=
  Visitor.visit_refines H false _ true b s ρ n externs

theorem Visitor.runScoped_refines (H : HooksExact P) (b : Block) (s : σ)
    {N : NumOps} (ρ : ExtOracle N) (n : Nat) (externs : List String) :
    runProgram ρ n externs (Visitor.runScoped P b s).1 = runProgram ρ n externs b :=
  Visitor.visit_refines H true _ true b s ρ n externs

/-- **Stage 2, timeout-relaxed.** Hooks that are sound up to budget exhaustion of the original
(`HooksLe true`): the visited program has the same outcome whenever the original program finishes
within its budget. -/
theorem Visitor.visit_upto (H : HooksLe true P) (sc : Bool) (fuel : Nat) (pushes : Bool) (b : Block) (s : σ)
    {N : NumOps} (ρ : ExtOracle N) (n : Nat) (externs : List String) :
    runProgram ρ n externs b = .timeout ∨
      runProgram ρ n externs (Visitor.visitBlock P sc fuel pushes b s).1 = runProgram ρ n externs b :=
  runProgram_upto ρ n externs (Visitor.visit_R_le H sc fuel pushes b s)

theorem Visitor.runDefault_upto (H : HooksLe true P) (b : Block) (s : σ)
    {N : NumOps} (ρ : ExtOracle N) (n : Nat) (externs : List String) :
    runProgram ρ n externs b = .timeout ∨
      runProgram ρ n externs (Visitor.runDefault P b s).1 = runProgram ρ n externs b :=
  Visitor.visit_upto H false _ true b s ρ n externs

theorem Visitor.runScoped_upto (H : HooksLe true P) (b : Block) (s : σ)
    {N : NumOps} (ρ : ExtOracle N) (n : Nat) (externs : List String) :
    runProgram ρ n externs b = .timeout ∨
      runProgram ρ n externs (Visitor.runScoped P b s).1 = runProgram ρ n externs b :=
  Visitor.visit_upto H true _ true b s ρ n externs

/-! ## Worked instance: `remove_empty_do`

Recipe: (1) `HooksExact processor` — give the local soundness lemma for each overridden hook,
the identity hooks are discharged by default; (2) `HooksNoFn processor` likewise;
(3) `Visitor.runDefault_exact` / `runScoped_exact` gives the one-pass theorem; (4) fold it
over the rule's pass loop. -/
namespace Rules.EmptyDo

theorem hooksExact : HooksExact processor where
  block := fun b m N call ρ k env σ => processBlock_sound call ρ k env b m σ

theorem filterStmts_noFn : ∀ (ss : List Stmt) (m : Bool), Stmt.noFnList ss = true →
    Stmt.noFnList (filterStmts ss m).1 = true
  | [], _, _ => rfl
  | s :: rest, m, h => by
    simp only [Stmt.noFnList, Bool.and_eq_true] at h
    cases s with
    | doBlock b =>
      simp only [filterStmts]
      split
      · exact filterStmts_noFn rest _ h.2
      · simp only [Stmt.noFnList, Bool.and_eq_true]; exact ⟨h.1, filterStmts_noFn rest _ h.2⟩
    | _ =>
      simp only [filterStmts, Stmt.noFnList, Bool.and_eq_true]
      exact ⟨h.1, filterStmts_noFn rest _ h.2⟩

theorem hooksNoFn : HooksNoFn processor where
  block := fun b m h => by
    cases b with
    | mk ss l =>
      simp only [Block.noFn, Bool.and_eq_true] at h
      simp only [processor, processBlock, Block.noFn, Bool.and_eq_true]
      exact ⟨filterStmts_noFn ss m h.1, h.2⟩

theorem pass_exact (b : Block) (hb : b.noFn = true) : EqB b (pass b).1 ∧ (pass b).1.noFn = true :=
  Visitor.runDefault_exact hooksExact hooksNoFn b false hb

theorem loop_exact : ∀ (n : Nat) (b : Block), b.noFn = true → EqB b (loop n b) ∧ (loop n b).noFn = true
  | 0, b, hb => ⟨EqB.refl b, hb⟩
  | n + 1, b, hb => by
    simp only [loop]
    have h1 := pass_exact b hb
    split
    · have h2 := loop_exact n (pass b).1 h1.2
      exact ⟨h1.1.trans h2.1, h2.2⟩
    · exact h1

/-- **whole-rule theorem** (function-free programs): `remove_empty_do` returns a block with
exactly the same denotation -/
theorem apply_exact (b : Block) (hb : b.noFn = true) : EqB b (apply b) ∧ (apply b).noFn = true :=
  loop_exact _ b hb

theorem apply_runProgram (b : Block) (hb : b.noFn = true) {N : NumOps} (ρ : ExtOracle N) (n : Nat)
    (externs : List String) : runProgram ρ n externs (apply b) = runProgram ρ n externs b :=
  (apply_exact b hb).1.runProgram_eq ρ n externs

/-! stage 2: no restriction on the program -/

theorem pass_R (b : Block) : R false (.b b) (.b (pass b).1) := Visitor.visit_R hooksExact false _ true b false

theorem loop_R : ∀ (n : Nat) (b : Block), R false (.b b) (.b (loop n b))
  | 0, b => R.reflB b
  | n + 1, b => by
    simp only [loop]
    split
    · exact .transB (pass_R b) (loop_R n _)
    · exact pass_R b

/-- **whole-rule theorem**: for EVERY program, `remove_empty_do` preserves the observable outcome -/
theorem apply_refines (b : Block) {N : NumOps} (ρ : ExtOracle N) (n : Nat) (externs : List String) :
    runProgram ρ n externs (apply b) = runProgram ρ n externs b :=
  runProgram_rel ρ n externs (loop_R _ b)

/-- non-vacuity (stage 2): `local function g() do end emit(1) end; g()` — the empty `do` sits inside a
function body, so the closure created by the rewritten program differs from the original's -/
def sampleFn : Block :=
  .mk [.localFn .loc "g" (.mk [] false none none [] []
         (.mk [.doBlock (.mk [] none), .callStmt (.call (.var "emit") none .tuple [.num 1])] none)),
       .callStmt (.call (.var "g") none .tuple [])] none

example : sampleFn.noFn = false := rfl
example : apply sampleFn =
    .mk [.localFn .loc "g" (.mk [] false none none [] []
           (.mk [.callStmt (.call (.var "emit") none .tuple [.num 1])] none)),
         .callStmt (.call (.var "g") none .tuple [])] none := rfl
example {N : NumOps} (ρ : ExtOracle N) (n : Nat) :
    runProgram ρ n ["emit"] (apply sampleFn) = runProgram ρ n ["emit"] sampleFn := apply_refines sampleFn ρ n _

/-- non-vacuity: `do end; while f() do do do end end emit(1) end; return x` — function-free, and the
rule really rewrites it (nested empty `do` blocks need two passes) -/
def sample : Block :=
  .mk [.doBlock (.mk [] none),
       .while_ (.call (.var "f") none .tuple [])
         (.mk [.doBlock (.mk [.doBlock (.mk [] none)] none),
               .callStmt (.call (.var "emit") none .tuple [.num 1])] none)]
      (some (.ret [.var "x"]))

example : sample.noFn = true := rfl
example : apply sample =
    .mk [.while_ (.call (.var "f") none .tuple [])
          (.mk [.callStmt (.call (.var "emit") none .tuple [.num 1])] none)]
      (some (.ret [.var "x"])) := rfl
example : EqB sample (apply sample) := (apply_exact sample rfl).1

end Rules.EmptyDo
/-! ## Worked instance 2 (timeout-relaxed): deleting `while false do … end`

Not a darklua rule model — a minimal processor showing why `HooksLe true` exists: the deletion is
NOT exactly sound (at loop budget `k = 0` the loop times out, its replacement does not), but it is
sound up to budget exhaustion, and `runDefault_upto` lifts that to whole programs. -/
namespace Demo.DropWhileFalse

def stmtHook : Stmt → Unit → Stmt × Unit
  | .while_ .false _, s => (.doBlock (.mk [] none), s)
  | x, s => (x, s)

def processor : Processor Unit := { stmt := stmtHook }

theorem stmtHook_le (x : Stmt) (s : Unit) : LeS true x (stmtHook x s).1 := by
  unfold stmtHook
  split
  · intro N call ρ k env σ
    cases k with
    | zero => left; exact ⟨rfl, by simp only [execS, whileLoop, Res.bind]⟩
    | succ k => right; simp [execS, execB, execSs, whileLoop, evalE, Res.bind, first, Val.truthy]
  · exact LeS.refl _

theorem hooksLe : HooksLe true processor where
  stmt := stmtHook_le

/-- the hook is not exactly sound: budget 0 distinguishes the two statements -/
theorem stmtHook_not_exact : ¬ EqS (.while_ .false (.mk [] none)) (stmtHook (.while_ .false (.mk [] none)) ()).1 := by
  intro h
  have h := h ⟨Unit, fun _ => (), fun _ => 0, fun _ _ => (), fun _ _ => (), fun _ _ => (), fun _ _ => (),
      fun _ _ => (), fun _ _ => (), fun _ _ => (), fun _ => (), fun _ _ => false, fun _ _ => false,
      fun _ _ => false, fun _ => false, fun _ => (), fun _ => none, fun _ => [], fun _ => none,
      fun _ => (), fun _ => ()⟩
    (fun _ _ _ => .timeout) (fun _ _ _ => []) 0 ⟨[], []⟩ ⟨[], [], [], [], []⟩
  simp [stmtHook, execS, execB, execSs, whileLoop, Res.bind] at h

/-- whole-program theorem: same outcome unless the original runs out of budget -/
theorem run_upto (b : Block) {N : NumOps} (ρ : ExtOracle N) (n : Nat) (externs : List String) :
    runProgram ρ n externs b = .timeout ∨
      runProgram ρ n externs (Visitor.runDefault processor b ()).1 = runProgram ρ n externs b :=
  Visitor.runDefault_upto hooksLe b () ρ n externs

/-- non-vacuity: `local function g() while false do emit(1) end emit(2) end; g()` is rewritten -/
def sample : Block :=
  .mk [.localFn .loc "g" (.mk [] false none none [] []
         (.mk [.while_ .false (.mk [.callStmt (.call (.var "emit") none .tuple [.num 1])] none),
               .callStmt (.call (.var "emit") none .tuple [.num 2])] none)),
       .callStmt (.call (.var "g") none .tuple [])] none

example : (Visitor.runDefault processor sample ()).1 =
    .mk [.localFn .loc "g" (.mk [] false none none [] []
           (.mk [.doBlock (.mk [] none),
                 .callStmt (.call (.var "emit") none .tuple [.num 2])] none)),
         .callStmt (.call (.var "g") none .tuple [])] none := rfl

end Demo.DropWhileFalse
end DarkluaModel
