import DarkluaModel.Shared.Ast
/-!
# Reference semantics of the Lua 5.1 ∩ Luau core (theorem grade, executable)

Written from the Lua 5.1 reference manual and the Luau extensions the properties name; it
shares no code with darklua. Total functions only:

* `Sem.call n` — calling a closure at *level* `n` runs its body with the level-`n-1`
  interpreter for nested calls; level 0 times out. Loops run at most `n` iterations.
* inside one level every function is structurally recursive on the syntax, so purely
  syntactic rewrites (`do end`, parentheses) cost nothing and exact equality of
  denotations is available; everything reduces in the kernel (`decide` on small witnesses).

Numbers are abstract: everything is parametric in `NumOps` (IEEE doubles are one instance).
Effects: calling a builtin whose name is not a known library function is an *external call*:
it is appended to `State.trace` with canonicalised arguments and its results come from the
oracle `ExtOracle` (a parameter, universally quantified in theorems).
-/
namespace DarkluaModel

/-- The number operations the semantics needs. `F` is the carrier (IEEE doubles in the driver). -/
structure NumOps where
  F : Type
  ofBits : UInt64 → F
  toBits : F → UInt64
  add : F → F → F
  sub : F → F → F
  mul : F → F → F
  div : F → F → F
  mod : F → F → F
  pow : F → F → F
  idiv : F → F → F
  neg : F → F
  lt : F → F → Bool
  le : F → F → Bool
  eq : F → F → Bool
  isNaN : F → Bool
  ofNat : Nat → F
  /-- exact non-negative integer value, if the number is one -/
  toNat? : F → Option Nat
  /-- `tostring` of a number -/
  toStr : F → List UInt8
  /-- string → number coercion (`tonumber` with base 10 / arithmetic on strings) -/
  ofStr : List UInt8 → Option F
  floor : F → F
  sqrt : F → F

namespace Sem
variable (N : NumOps)

inductive Val where
  | nil
  | bool (b : Bool)
  | num (x : N.F)
  | str (s : List UInt8)
  | tbl (id : Nat)
  | fn (id : Nat)
  /-- a library function or, when the name is not a known library function, an external function -/
  | builtin (name : String)

instance : Inhabited (Val N) := ⟨.nil⟩

/-- canonical (heap-independent) rendering of a value, used for the arguments recorded in the trace -/
inductive CVal where
  | nil
  | bool (b : Bool)
  | num (bits : UInt64)
  | str (s : List UInt8)
  | tbl (entries : List (CVal × CVal))
  | fn
  | builtin (name : String)
  | cut
  deriving Inhabited, BEq, Repr

structure Table where
  entries : List (Val N × Val N)
  mt : Option Nat

structure Closure where
  body : FnBody
  env : List (String × Nat)
  varargs : List (Val N)

/-- one external call: name, canonical arguments -/
structure Event where
  name : String
  args : List CVal
  deriving BEq, Repr

structure State where
  globals : List (String × Val N)
  cells : List (Val N)
  tables : List (Table N)
  closures : List (Closure N)
  /-- most recent first -/
  trace : List Event

/-- results of the `k`-th external call to `name` with these arguments -/
def ExtOracle := String → Nat → List CVal → List (Val N)

inductive Res (α : Type) where
  | ok (a : α) (σ : State N)
  | err (v : Val N) (σ : State N)
  | timeout

structure Env where
  locals : List (String × Nat)
  varargs : List (Val N)

inductive Ctl where
  | next (env : Env N)
  | brk
  /-- `continue`; carries the environment of the enclosing block at the statement that continued
  (a `repeat` condition is evaluated in it) -/
  | cont (env : Env N)
  | ret (vs : List (Val N))

/-- how closures are called at the current level -/
def CallFn := Closure N → List (Val N) → State N → Res N (List (Val N))

variable {N}

def strVal (s : String) : Val N := .str s.toUTF8.toList

def errS {α : Type} (msg : String) (σ : State N) : Res N α := .err (strVal msg) σ

@[inline] def Res.bind {α β : Type} (r : Res N α) (f : α → State N → Res N β) : Res N β :=
  match r with
  | .ok a σ => f a σ
  | .err v σ => .err v σ
  | .timeout => .timeout

def first (vs : List (Val N)) : Val N := vs.headD .nil

def Val.truthy : Val N → Bool
  | .nil => false
  | .bool b => b
  | _ => true

def Val.typeName : Val N → String
  | .nil => "nil" | .bool _ => "boolean" | .num _ => "number" | .str _ => "string"
  | .tbl _ => "table" | .fn _ => "function" | .builtin _ => "function"

/-- primitive (raw) equality -/
def rawEq (a b : Val N) : Bool :=
  match a, b with
  | .nil, .nil => true
  | .bool x, .bool y => x == y
  | .num x, .num y => N.eq x y
  | .str x, .str y => x == y
  | .tbl x, .tbl y => x == y
  | .fn x, .fn y => x == y
  | .builtin x, .builtin y => x == y
  | _, _ => false

/-! ### heap -/

def listSet {α : Type} : List α → Nat → α → List α
  | [], _, _ => []
  | _ :: xs, 0, a => a :: xs
  | x :: xs, n + 1, a => x :: listSet xs n a

def State.getCell (σ : State N) (i : Nat) : Val N := (σ.cells[i]?).getD .nil
def State.setCell (σ : State N) (i : Nat) (v : Val N) : State N := { σ with cells := listSet σ.cells i v }
def State.allocCell (σ : State N) (v : Val N) : Nat × State N :=
  (σ.cells.length, { σ with cells := σ.cells ++ [v] })

def State.getTable (σ : State N) (i : Nat) : Table N := (σ.tables[i]?).getD { entries := [], mt := none }
def State.setTable (σ : State N) (i : Nat) (t : Table N) : State N := { σ with tables := listSet σ.tables i t }
def State.allocTable (σ : State N) (t : Table N) : Nat × State N :=
  (σ.tables.length, { σ with tables := σ.tables ++ [t] })
def State.allocClosure (σ : State N) (c : Closure N) : Nat × State N :=
  (σ.closures.length, { σ with closures := σ.closures ++ [c] })

def lookupAssoc {α : Type} (name : String) : List (String × α) → Option α
  | [] => none
  | (k, v) :: rest => if k == name then some v else lookupAssoc name rest

def setAssoc {α : Type} (name : String) (v : α) : List (String × α) → List (String × α)
  | [] => [(name, v)]
  | (k, w) :: rest => if k == name then (k, v) :: rest else (k, w) :: setAssoc name v rest

def State.getGlobal (σ : State N) (name : String) : Val N := (lookupAssoc name σ.globals).getD .nil
def State.setGlobal (σ : State N) (name : String) (v : Val N) : State N :=
  { σ with globals := setAssoc name v σ.globals }

def rawGetEntries (k : Val N) : List (Val N × Val N) → Val N
  | [] => .nil
  | (k', v) :: rest => if rawEq k' k then v else rawGetEntries k rest

def rawSetEntries (k v : Val N) : List (Val N × Val N) → List (Val N × Val N)
  | [] => match v with
    | .nil => []
    | _ => [(k, v)]
  | (k', v') :: rest =>
    if rawEq k' k then
      match v with
      | .nil => rest
      | _ => (k', v) :: rest
    else (k', v') :: rawSetEntries k v rest

def State.rawGet (σ : State N) (t : Nat) (k : Val N) : Val N := rawGetEntries k (σ.getTable t).entries
def State.rawSet (σ : State N) (t : Nat) (k v : Val N) : State N :=
  let tb := σ.getTable t
  σ.setTable t { tb with entries := rawSetEntries k v tb.entries }

/-- length of the array part: the border `n` with `t[1..n]` non-nil, `t[n+1]` nil (smallest border) -/
def borderAux (es : List (Val N × Val N)) : Nat → Nat → Nat
  | 0, n => n
  | fuel + 1, n =>
    match rawGetEntries (.num (N.ofNat (n + 1))) es with
    | .nil => n
    | _ => borderAux es fuel (n + 1)

def State.border (σ : State N) (t : Nat) : Nat :=
  let es := (σ.getTable t).entries
  borderAux es es.length 0

def State.metaOf (σ : State N) : Val N → Option Nat
  | .tbl t => (σ.getTable t).mt
  | _ => none

/-- the metamethod `name` of `v`, `nil` if none -/
def State.metamethod (σ : State N) (v : Val N) (name : String) : Val N :=
  match σ.metaOf v with
  | some m => σ.rawGet m (strVal name)
  | none => .nil

/-! ### canonical values for the trace -/

def canonAux (σ : State N) : Nat → Val N → CVal
  | _, .nil => .nil
  | _, .bool b => .bool b
  | _, .num x => .num (N.toBits x)
  | _, .str s => .str s
  | _, .fn _ => .fn
  | _, .builtin n => .builtin n
  | 0, .tbl _ => .cut
  | d + 1, .tbl t =>
    .tbl ((σ.getTable t).entries.map fun (k, v) => (canonAux σ d k, canonAux σ d v))

def State.canon (σ : State N) (v : Val N) : CVal := canonAux σ 4 v

def State.extCount (σ : State N) (name : String) : Nat :=
  (σ.trace.filter fun e => e.name == name).length

/-! ### coercions and primitive operators -/

def toNumber? : Val N → Option N.F
  | .num x => some x
  | .str s => N.ofStr s
  | _ => none

def toStringPrim? : Val N → Option (List UInt8)
  | .str s => some s
  | .num x => some (N.toStr x)
  | _ => none

def arithName : BinOp → Option String
  | .add => some "__add" | .sub => some "__sub" | .mul => some "__mul" | .div => some "__div"
  | .mod => some "__mod" | .pow => some "__pow" | .idiv => some "__idiv"
  | _ => none

def arithPrim (op : BinOp) (a b : N.F) : N.F :=
  match op with
  | .add => N.add a b | .sub => N.sub a b | .mul => N.mul a b | .div => N.div a b
  | .mod => N.mod a b | .pow => N.pow a b | .idiv => N.idiv a b
  | _ => a

def tostringBasic (v : Val N) : List UInt8 :=
  match v with
  | .nil => "nil".toUTF8.toList
  | .bool true => "true".toUTF8.toList
  | .bool false => "false".toUTF8.toList
  | .num x => N.toStr x
  | .str s => s
  | .tbl _ => "table".toUTF8.toList
  | .fn _ => "function".toUTF8.toList
  | .builtin _ => "function".toUTF8.toList

/-- lexicographic byte order (`<` on strings, C locale) -/
def bytesLt : List UInt8 → List UInt8 → Bool
  | [], [] => false
  | [], _ :: _ => true
  | _ :: _, [] => false
  | a :: as, b :: bs => if a < b then true else if b < a then false else bytesLt as bs

def natToDec (n : Nat) : List UInt8 := (toString n).toUTF8.toList

/-! ### calling values, metamethods, library functions

`callVal call ρ d f args` — `d` bounds the nesting of library functions that call back
(`pcall(pcall, …)`, `__index` chains, `tostring` → `__tostring`): at 0 it times out. -/

def libNames : List String :=
  ["select", "type", "tostring", "tonumber", "rawget", "rawset", "rawequal", "rawlen", "setmetatable",
   "getmetatable", "next", "pairs", "ipairs", "ipairs_iter", "unpack", "table.unpack", "pcall", "error",
   "assert", "math.floor", "math.sqrt", "math.abs", "math.max", "math.min", "string.format", "string.char",
   "string.rep", "string.sub", "string.len", "string.byte", "string.upper", "string.lower", "table.insert",
   "table.concat", "table.remove"]

def takeN {α : Type} : Nat → List α → List α
  | 0, _ => []
  | _, [] => []
  | n + 1, x :: xs => x :: takeN n xs

def dropN {α : Type} : Nat → List α → List α
  | 0, xs => xs
  | _, [] => []
  | n + 1, _ :: xs => dropN n xs

def nextEntry (k : Val N) : List (Val N × Val N) → Option (Option (Val N × Val N))
  | [] => none
  | (k', _) :: rest =>
    if rawEq k' k then
      match rest with
      | [] => some none
      | e :: _ => some (some e)
    else nextEntry k rest

def unpackAux (σ : State N) (t : Nat) : Nat → Nat → List (Val N)
  | 0, _ => []
  | n + 1, i => σ.rawGet t (.num (N.ofNat i)) :: unpackAux σ t n (i + 1)

def concatBytes (sep : List UInt8) : List (List UInt8) → List UInt8
  | [] => []
  | [x] => x
  | x :: rest => x ++ sep ++ concatBytes sep rest

def repBytes (s : List UInt8) : Nat → List UInt8
  | 0 => []
  | n + 1 => s ++ repBytes s n

mutual
  /-- call any value with arguments -/
  def callVal (call : CallFn N) (ρ : ExtOracle N) : Nat → Val N → List (Val N) → State N → Res N (List (Val N))
    | 0, _, _, _ => .timeout
    | d + 1, f, args, σ =>
      match f with
      | .fn id =>
        match σ.closures[id]? with
        | some clo => call clo args σ
        | none => errS "invalid closure" σ
      | .builtin name =>
        if libNames.contains name then libCall call ρ d name args σ
        else
          -- external call: record it, ask the oracle
          let cargs := args.map σ.canon
          let k := σ.extCount name
          .ok (ρ name k cargs) { σ with trace := ⟨name, cargs⟩ :: σ.trace }
      | v =>
        match σ.metamethod v "__call" with
        | .nil => errS ("attempt to call a " ++ v.typeName ++ " value") σ
        | h => callVal call ρ d h (v :: args) σ

  /-- `tostring(v)` honouring `__tostring` -/
  def tostringVal (call : CallFn N) (ρ : ExtOracle N) : Nat → Val N → State N → Res N (List UInt8)
    | 0, _, _ => .timeout
    | d + 1, v, σ =>
      match σ.metamethod v "__tostring" with
      | .nil => .ok (tostringBasic v) σ
      | h =>
        (callVal call ρ d h [v] σ).bind fun rs σ' =>
          match first rs with
          | .str s => .ok s σ'
          | .num x => .ok (N.toStr x) σ'
          | _ => errS "'__tostring' must return a string" σ'

  /-- `string.format` directives `%s %d %%` (others are errors), left to right -/
  def formatAux (call : CallFn N) (ρ : ExtOracle N) : Nat → List UInt8 → List (Val N) → List UInt8 → State N → Res N (List UInt8)
    | 0, _, _, _, _ => .timeout
    | d + 1, fmt, args, acc, σ =>
      match fmt with
      | [] => .ok acc σ
      | 37 :: 37 :: rest => formatAux call ρ d rest args (acc ++ [37]) σ
      | 37 :: 115 :: rest =>   -- %s
        match args with
        | [] => errS "bad argument to 'format' (no value)" σ
        | a :: args' =>
          (tostringVal call ρ d a σ).bind fun s σ' => formatAux call ρ d rest args' (acc ++ s) σ'
      | 37 :: 100 :: rest =>   -- %d
        match args with
        | [] => errS "bad argument to 'format' (no value)" σ
        | a :: args' =>
          match toNumber? a with
          | some x => formatAux call ρ d rest args' (acc ++ N.toStr (N.floor x)) σ
          | none => errS "bad argument to 'format' (number expected)" σ
      | 37 :: _ => errS "invalid format directive" σ
      | c :: rest => formatAux call ρ d rest args (acc ++ [c]) σ

  def libCall (call : CallFn N) (ρ : ExtOracle N) : Nat → String → List (Val N) → State N → Res N (List (Val N))
    | 0, _, _, _ => .timeout
    | d + 1, name, args, σ =>
      let a0 := first args
      let a1 := first (args.drop 1)
      let a2 := first (args.drop 2)
      match name with
      | "select" =>
        match a0 with
        | .str [35] => .ok [.num (N.ofNat (args.length - 1))] σ
        | v =>
          match (toNumber? v).bind N.toNat? with
          | some (n + 1) => .ok (dropN n (args.drop 1)) σ
          | _ => errS "bad argument #1 to 'select'" σ
      | "type" =>
        match args with
        | [] => errS "bad argument #1 to 'type' (value expected)" σ
        | _ => .ok [strVal a0.typeName] σ
      | "tostring" => (tostringVal call ρ d a0 σ).bind fun s σ' => .ok [.str s] σ'
      | "tonumber" =>
        match a0 with
        | .num x => .ok [.num x] σ
        | .str s => .ok [match N.ofStr s with | some x => .num x | none => .nil] σ
        | _ => .ok [.nil] σ
      | "rawget" =>
        match a0 with
        | .tbl t => .ok [σ.rawGet t a1] σ
        | _ => errS "bad argument #1 to 'rawget' (table expected)" σ
      | "rawset" =>
        match a0 with
        | .tbl t => .ok [a0] (σ.rawSet t a1 a2)
        | _ => errS "bad argument #1 to 'rawset' (table expected)" σ
      | "rawequal" => .ok [.bool (rawEq a0 a1)] σ
      | "rawlen" =>
        match a0 with
        | .tbl t => .ok [.num (N.ofNat (σ.border t))] σ
        | .str s => .ok [.num (N.ofNat s.length)] σ
        | _ => errS "table or string expected" σ
      | "setmetatable" =>
        match a0, a1 with
        | .tbl t, .tbl m => .ok [a0] (σ.setTable t { σ.getTable t with mt := some m })
        | .tbl t, .nil => .ok [a0] (σ.setTable t { σ.getTable t with mt := none })
        | _, _ => errS "bad argument to 'setmetatable'" σ
      | "getmetatable" =>
        match σ.metaOf a0 with
        | some m => .ok [.tbl m] σ
        | none => .ok [.nil] σ
      | "next" =>
        match a0 with
        | .tbl t =>
          let es := (σ.getTable t).entries
          match a1 with
          | .nil =>
            match es with
            | [] => .ok [.nil] σ
            | (k, v) :: _ => .ok [k, v] σ
          | k =>
            match nextEntry k es with
            | some (some (k', v')) => .ok [k', v'] σ
            | some none => .ok [.nil] σ
            | none => errS "invalid key to 'next'" σ
        | _ => errS "bad argument #1 to 'next' (table expected)" σ
      | "pairs" =>
        match a0 with
        | .tbl _ => .ok [.builtin "next", a0, .nil] σ
        | _ => errS "bad argument #1 to 'pairs' (table expected)" σ
      | "ipairs" =>
        match a0 with
        | .tbl _ => .ok [.builtin "ipairs_iter", a0, .num (N.ofNat 0)] σ
        | _ => errS "bad argument #1 to 'ipairs' (table expected)" σ
      | "ipairs_iter" =>
        match a0, (toNumber? a1).bind N.toNat? with
        | .tbl t, some i =>
          match σ.rawGet t (.num (N.ofNat (i + 1))) with
          | .nil => .ok [.nil] σ
          | v => .ok [.num (N.ofNat (i + 1)), v] σ
        | _, _ => errS "bad argument to 'ipairs' iterator" σ
      | "unpack" | "table.unpack" =>
        match a0 with
        | .tbl t => .ok (unpackAux σ t (σ.border t) 1) σ
        | _ => errS "bad argument #1 to 'unpack' (table expected)" σ
      | "pcall" =>
        match callVal call ρ d a0 (args.drop 1) σ with
        | .ok rs σ' => .ok (.bool true :: rs) σ'
        | .err v σ' => .ok [.bool false, v] σ'
        | .timeout => .timeout
      | "error" => .err a0 σ
      | "assert" =>
        if a0.truthy then .ok args σ
        else .err (match args.drop 1 with | [] => strVal "assertion failed!" | m :: _ => m) σ
      | "math.floor" =>
        match toNumber? a0 with
        | some x => .ok [.num (N.floor x)] σ
        | none => errS "bad argument #1 to 'floor' (number expected)" σ
      | "math.sqrt" =>
        match toNumber? a0 with
        | some x => .ok [.num (N.sqrt x)] σ
        | none => errS "bad argument #1 to 'sqrt' (number expected)" σ
      | "math.abs" =>
        match toNumber? a0 with
        | some x => .ok [.num (if N.lt x (N.ofNat 0) then N.neg x else x)] σ
        | none => errS "bad argument #1 to 'abs' (number expected)" σ
      | "math.max" =>
        match toNumber? a0, toNumber? a1 with
        | some x, some y => .ok [.num (if N.lt x y then y else x)] σ
        | _, _ => errS "bad argument to 'max' (number expected)" σ
      | "math.min" =>
        match toNumber? a0, toNumber? a1 with
        | some x, some y => .ok [.num (if N.lt y x then y else x)] σ
        | _, _ => errS "bad argument to 'min' (number expected)" σ
      | "string.format" =>
        match a0 with
        | .str fmt => (formatAux call ρ d fmt (args.drop 1) [] σ).bind fun s σ' => .ok [.str s] σ'
        | _ => errS "bad argument #1 to 'format' (string expected)" σ
      | "string.char" =>
        match args.mapM (fun v => ((toNumber? v).bind N.toNat?).bind fun n => if n < 256 then some (UInt8.ofNat n) else none) with
        | some bs => .ok [.str bs] σ
        | none => errS "bad argument to 'char'" σ
      | "string.rep" =>
        match toStringPrim? a0, (toNumber? a1).bind N.toNat? with
        | some s, some n => .ok [.str (repBytes s n)] σ
        | _, _ => errS "bad argument to 'rep'" σ
      | "string.len" =>
        match toStringPrim? a0 with
        | some s => .ok [.num (N.ofNat s.length)] σ
        | none => errS "bad argument #1 to 'len' (string expected)" σ
      | "string.sub" =>
        match toStringPrim? a0, (toNumber? a1).bind N.toNat?, (toNumber? a2).bind N.toNat? with
        | some s, some (i + 1), some j => .ok [.str (takeN (j - i) (dropN i s))] σ
        | some s, some (i + 1), none =>
          match a2 with
          | .nil => .ok [.str (dropN i s)] σ
          | _ => errS "bad argument #3 to 'sub'" σ
        | _, _, _ => errS "bad argument to 'sub'" σ
      | "string.byte" =>
        match toStringPrim? a0 with
        | some (b :: _) => .ok [.num (N.ofNat b.toNat)] σ
        | some [] => .ok [] σ
        | none => errS "bad argument #1 to 'byte' (string expected)" σ
      | "string.upper" =>
        match toStringPrim? a0 with
        | some s => .ok [.str (s.map fun b => if 97 ≤ b ∧ b ≤ 122 then b - 32 else b)] σ
        | none => errS "bad argument #1 to 'upper' (string expected)" σ
      | "string.lower" =>
        match toStringPrim? a0 with
        | some s => .ok [.str (s.map fun b => if 65 ≤ b ∧ b ≤ 90 then b + 32 else b)] σ
        | none => errS "bad argument #1 to 'lower' (string expected)" σ
      | "table.insert" =>
        match a0, args.length with
        | .tbl t, 2 => .ok [] (σ.rawSet t (.num (N.ofNat (σ.border t + 1))) a1)
        | _, _ => errS "unsupported use of 'table.insert'" σ
      | "table.remove" =>
        match a0, args.length with
        | .tbl t, 1 =>
          let n := σ.border t
          if n == 0 then .ok [.nil] σ
          else .ok [σ.rawGet t (.num (N.ofNat n))] (σ.rawSet t (.num (N.ofNat n)) .nil)
        | _, _ => errS "unsupported use of 'table.remove'" σ
      | "table.concat" =>
        match a0 with
        | .tbl t =>
          let sep := match a1 with | .str s => s | _ => []
          match (unpackAux σ t (σ.border t) 1).mapM toStringPrim? with
          | some parts => .ok [.str (concatBytes sep parts)] σ
          | none => errS "invalid value in table for 'concat'" σ
        | _ => errS "bad argument #1 to 'concat' (table expected)" σ
      | _ => errS ("unknown library function " ++ name) σ
end

/-- table id of the `string` library in every initial state (strings index into it) -/
def stringLibId : Nat := 0

/-- `v[k]` with `__index` -/
def indexVal (call : CallFn N) (ρ : ExtOracle N) : Nat → Val N → Val N → State N → Res N (Val N)
  | 0, _, _, _ => .timeout
  | d + 1, v, k, σ =>
    match v with
    | .tbl t =>
      match σ.rawGet t k with
      | .nil =>
        match σ.metamethod v "__index" with
        | .nil => .ok .nil σ
        | .fn id => (callVal call ρ (d + 1) (.fn id) [v, k] σ).bind fun rs σ' => .ok (first rs) σ'
        | .builtin b => (callVal call ρ (d + 1) (.builtin b) [v, k] σ).bind fun rs σ' => .ok (first rs) σ'
        | h => indexVal call ρ d h k σ
      | x => .ok x σ
    | .str _ => .ok (σ.rawGet stringLibId k) σ
    | _ => errS ("attempt to index a " ++ v.typeName ++ " value") σ

/-- `v[k] = x` with `__newindex` -/
def setIndexVal (call : CallFn N) (ρ : ExtOracle N) : Nat → Val N → Val N → Val N → State N → Res N Unit
  | 0, _, _, _, _ => .timeout
  | d + 1, v, k, x, σ =>
    match v with
    | .tbl t =>
      match σ.rawGet t k with
      | .nil =>
        match σ.metamethod v "__newindex" with
        | .nil =>
          match k with
          | .nil => errS "table index is nil" σ
          | .num n => if N.isNaN n then errS "table index is NaN" σ else .ok () (σ.rawSet t k x)
          | _ => .ok () (σ.rawSet t k x)
        | .fn id => (callVal call ρ (d + 1) (.fn id) [v, k, x] σ).bind fun _ σ' => .ok () σ'
        | .builtin b => (callVal call ρ (d + 1) (.builtin b) [v, k, x] σ).bind fun _ σ' => .ok () σ'
        | h => setIndexVal call ρ d h k x σ
      | _ => .ok () (σ.rawSet t k x)
    | _ => errS ("attempt to index a " ++ v.typeName ++ " value") σ

def callMeta2 (call : CallFn N) (ρ : ExtOracle N) (d : Nat) (name : String) (a b : Val N) (σ : State N)
    (fallback : State N → Res N (Val N)) : Res N (Val N) :=
  match σ.metamethod a name with
  | .nil =>
    match σ.metamethod b name with
    | .nil => fallback σ
    | h => (callVal call ρ d h [a, b] σ).bind fun rs σ' => .ok (first rs) σ'
  | h => (callVal call ρ d h [a, b] σ).bind fun rs σ' => .ok (first rs) σ'

/-- binary operators other than `and`/`or` on two evaluated operands -/
def binopVal (call : CallFn N) (ρ : ExtOracle N) (d : Nat) (op : BinOp) (a b : Val N) (σ : State N) : Res N (Val N) :=
  match op with
  | .add | .sub | .mul | .div | .mod | .pow | .idiv =>
    match toNumber? a, toNumber? b with
    | some x, some y => .ok (.num (arithPrim op x y)) σ
    | _, _ =>
      callMeta2 call ρ d ((arithName op).getD "") a b σ fun σ =>
        errS ("attempt to perform arithmetic on a " ++ (if (toNumber? a).isNone then a else b).typeName ++ " value") σ
  | .concat =>
    match toStringPrim? a, toStringPrim? b with
    | some x, some y => .ok (.str (x ++ y)) σ
    | _, _ =>
      callMeta2 call ρ d "__concat" a b σ fun σ =>
        errS ("attempt to concatenate a " ++ (if (toStringPrim? a).isNone then a else b).typeName ++ " value") σ
  | .eq | .ne =>
    let neg := match op with | .ne => true | _ => false
    match a, b with
    | .tbl x, .tbl y =>
      if x == y then .ok (.bool (!neg)) σ
      else
        match σ.metamethod a "__eq", σ.metamethod b "__eq" with
        | .nil, .nil => .ok (.bool neg) σ
        | .nil, h | h, _ =>
          (callVal call ρ d h [a, b] σ).bind fun rs σ' => .ok (.bool ((first rs).truthy != neg)) σ'
    | _, _ => .ok (.bool (rawEq a b != neg)) σ
  | .lt | .le | .gt | .ge =>
    -- a > b is b < a ; a >= b is b <= a
    let (x, y, strict) := match op with
      | .lt => (a, b, true) | .le => (a, b, false) | .gt => (b, a, true) | _ => (b, a, false)
    match x, y with
    | .num p, .num q => .ok (.bool (if strict then N.lt p q else N.le p q)) σ
    | .str p, .str q => .ok (.bool (if strict then bytesLt p q else !bytesLt q p)) σ
    | _, _ =>
      (callMeta2 call ρ d (if strict then "__lt" else "__le") x y σ fun σ =>
        errS ("attempt to compare " ++ x.typeName ++ " with " ++ y.typeName) σ).bind
        fun v σ' => .ok (.bool v.truthy) σ'
  | .and | .or => .ok a σ

def unopVal (call : CallFn N) (ρ : ExtOracle N) (d : Nat) (op : UnOp) (a : Val N) (σ : State N) : Res N (Val N) :=
  match op with
  | .not => .ok (.bool (!a.truthy)) σ
  | .neg =>
    match toNumber? a with
    | some x => .ok (.num (N.neg x)) σ
    | none =>
      match σ.metamethod a "__unm" with
      | .nil => errS ("attempt to perform arithmetic on a " ++ a.typeName ++ " value") σ
      | h => (callVal call ρ d h [a, a] σ).bind fun rs σ' => .ok (first rs) σ'
  | .len =>
    match a with
    | .str s => .ok (.num (N.ofNat s.length)) σ
    | .tbl t =>
      match σ.metamethod a "__len" with
      | .nil => .ok (.num (N.ofNat (σ.border t))) σ
      | h => (callVal call ρ d h [a] σ).bind fun rs σ' => .ok (first rs) σ'
    | _ =>
      match σ.metamethod a "__len" with
      | .nil => errS ("attempt to get length of a " ++ a.typeName ++ " value") σ
      | h => (callVal call ρ d h [a] σ).bind fun rs σ' => .ok (first rs) σ'

/-! ### loops (iteration-bounded helpers, outside the syntax recursion) -/

/-- `while`: `step σ` evaluates condition and body once: `none` = condition false -/
def whileLoop (step : State N → Res N (Option (Ctl N))) : Nat → State N → Res N (Option (List (Val N)))
  | 0, _ => .timeout
  | n + 1, σ =>
    match step σ with
    | .ok none σ' => .ok none σ'
    | .ok (some (.ret vs)) σ' => .ok (some vs) σ'
    | .ok (some .brk) σ' => .ok none σ'
    | .ok (some _) σ' => whileLoop step n σ'
    | .err v σ' => .err v σ'
    | .timeout => .timeout

/-- numeric `for`: the loop variable's value is passed to `body` -/
def forLoop (body : N.F → State N → Res N (Ctl N)) (limit step : N.F) : Nat → N.F → State N → Res N (Option (List (Val N)))
  | 0, _, _ => .timeout
  | n + 1, i, σ =>
    let continues := if N.lt (N.ofNat 0) step then N.le i limit else N.le limit i
    if !continues then .ok none σ
    else
      match body i σ with
      | .ok (.ret vs) σ' => .ok (some vs) σ'
      | .ok .brk σ' => .ok none σ'
      | .ok _ σ' => forLoop body limit step n (N.add i step) σ'
      | .err v σ' => .err v σ'
      | .timeout => .timeout

/-- generic `for` over the iterator triple `f, s, ctl` -/
def gforLoop (iter : Val N → State N → Res N (List (Val N))) (body : List (Val N) → State N → Res N (Ctl N)) :
    Nat → Val N → State N → Res N (Option (List (Val N)))
  | 0, _, _ => .timeout
  | n + 1, ctl, σ =>
    match iter ctl σ with
    | .ok rs σ1 =>
      match first rs with
      | .nil => .ok none σ1
      | c =>
        match body rs σ1 with
        | .ok (.ret vs) σ2 => .ok (some vs) σ2
        | .ok .brk σ2 => .ok none σ2
        | .ok _ σ2 => gforLoop iter body n c σ2
        | .err v σ2 => .err v σ2
        | .timeout => .timeout
    | .err v σ' => .err v σ'
    | .timeout => .timeout

/-- `t[i], t[i+1], … = vs` (raw) -/
def setMany (t : Nat) : Nat → List (Val N) → State N → State N
  | _, [], σ => σ
  | i, v :: vs, σ => setMany t (i + 1) vs (σ.rawSet t (.num (N.ofNat i)) v)

/-- bind `names` to fresh cells holding `vals` (missing → nil) -/
def bindLocals : List String → List (Val N) → List (String × Nat) → State N → List (String × Nat) × State N
  | [], _, env, σ => (env, σ)
  | n :: ns, vals, env, σ =>
    let (c, σ') := σ.allocCell (first vals)
    bindLocals ns (vals.drop 1) ((n, c) :: env) σ'

def _root_.DarkluaModel.TName.name : TName → String
  | .mk n _ => n

/-! ### the syntax-directed evaluator (one level) -/

section level
variable (call : CallFn N) (ρ : ExtOracle N) (k : Nat)

def lookupVar (env : Env N) (name : String) (σ : State N) : Val N :=
  match lookupAssoc name env.locals with
  | some c => σ.getCell c
  | none => σ.getGlobal name

def assignVar (env : Env N) (name : String) (v : Val N) (σ : State N) : State N :=
  match lookupAssoc name env.locals with
  | some c => σ.setCell c v
  | none => σ.setGlobal name v

/-- an evaluated assignment target -/
inductive Target (N : NumOps) where
  | var (name : String)
  | slot (t : Val N) (key : Val N)

def storeTarget (env : Env N) (tg : Target N) (v : Val N) (σ : State N) : Res N Unit :=
  match tg with
  | .var name => .ok () (assignVar env name v σ)
  | .slot t key => setIndexVal call ρ k t key v σ

def storeTargets (env : Env N) : List (Target N) → List (Val N) → State N → Res N Unit
  | [], _, σ => .ok () σ
  | tg :: rest, vals, σ =>
    -- right to left, as the reference implementation does
    (storeTargets env rest (vals.drop 1) σ).bind fun _ σ' => storeTarget call ρ k env tg (first vals) σ'

/-- `a.b.c` walk for function statements: returns the table value and the last key -/
def walkFields : Val N → List String → State N → Res N (Val N × String)
  | _, [], σ => errS "function statement without a field" σ
  | v, [last], σ => .ok (v, last) σ
  | v, f :: rest, σ => (indexVal call ρ k v (strVal f) σ).bind fun v' σ' => walkFields v' rest σ'

mutual
  def evalE (env : Env N) : Expr → State N → Res N (List (Val N))
    | .nil, σ => .ok [.nil] σ
    | .true, σ => .ok [.bool true] σ
    | .false, σ => .ok [.bool false] σ
    | .vararg, σ => .ok env.varargs σ
    | .num b, σ => .ok [.num (N.ofBits b)] σ
    | .str s, σ => .ok [.str s] σ
    | .var n, σ => .ok [lookupVar env n σ] σ
    | .paren e, σ => (evalE env e σ).bind fun vs σ' => .ok [first vs] σ'
    | .un op e, σ =>
      (evalE env e σ).bind fun vs σ' => (unopVal call ρ k op (first vs) σ').bind fun v σ'' => .ok [v] σ''
    | .bin .and l r, σ =>
      (evalE env l σ).bind fun vs σ' =>
        if (first vs).truthy then (evalE env r σ').bind fun ws σ'' => .ok [first ws] σ''
        else .ok [first vs] σ'
    | .bin .or l r, σ =>
      (evalE env l σ).bind fun vs σ' =>
        if (first vs).truthy then .ok [first vs] σ'
        else (evalE env r σ').bind fun ws σ'' => .ok [first ws] σ''
    | .bin op l r, σ =>
      (evalE env l σ).bind fun vs σ1 =>
        (evalE env r σ1).bind fun ws σ2 =>
          (binopVal call ρ k op (first vs) (first ws) σ2).bind fun v σ3 => .ok [v] σ3
    | .call f none _ args, σ =>
      (evalE env f σ).bind fun fv σ1 =>
        (evalEs env args σ1).bind fun avs σ2 => callVal call ρ k (first fv) avs σ2
    | .call obj (some m) _ args, σ =>
      (evalE env obj σ).bind fun ov σ1 =>
        (indexVal call ρ k (first ov) (strVal m) σ1).bind fun fv σ2 =>
          (evalEs env args σ2).bind fun avs σ3 => callVal call ρ k fv (first ov :: avs) σ3
    | .field e n, σ =>
      (evalE env e σ).bind fun vs σ1 => (indexVal call ρ k (first vs) (strVal n) σ1).bind fun v σ2 => .ok [v] σ2
    | .index e i, σ =>
      (evalE env e σ).bind fun vs σ1 =>
        (evalE env i σ1).bind fun is σ2 =>
          (indexVal call ρ k (first vs) (first is) σ2).bind fun v σ3 => .ok [v] σ3
    | .fn body, σ =>
      let (id, σ') := σ.allocClosure ⟨body, env.locals, []⟩
      .ok [.fn id] σ'
    | .table entries, σ =>
      let (t, σ1) := σ.allocTable { entries := [], mt := none }
      (evalEntries env t 1 entries σ1).bind fun _ σ2 => .ok [.tbl t] σ2
    | .ifx c t elifs e, σ =>
      (evalE env c σ).bind fun cv σ1 =>
        if (first cv).truthy then (evalE env t σ1).bind fun vs σ2 => .ok [first vs] σ2
        else
          (evalElifs env elifs σ1).bind fun r σ2 =>
            match r with
            | some vs => .ok vs σ2
            | none => (evalE env e σ2).bind fun vs σ3 => .ok [first vs] σ3
    | .interp segs, σ => (evalSegs env segs [] σ).bind fun s σ' => .ok [.str s] σ'
    | .cast e _, σ => (evalE env e σ).bind fun vs σ' => .ok [first vs] σ'
    | .inst e _, σ => (evalE env e σ).bind fun vs σ' => .ok [first vs] σ'

  /-- argument / value lists: all but the last truncated to one value -/
  def evalEs (env : Env N) : List Expr → State N → Res N (List (Val N))
    | [], σ => .ok [] σ
    | [e], σ => evalE env e σ
    | e :: es, σ =>
      (evalE env e σ).bind fun vs σ1 => (evalEs env es σ1).bind fun ws σ2 => .ok (first vs :: ws) σ2

  /-- `none`: no `elseif` branch was taken -/
  def evalElifs (env : Env N) : List (Expr × Expr) → State N → Res N (Option (List (Val N)))
    | [], σ => .ok none σ
    | (c, t) :: rest, σ =>
      (evalE env c σ).bind fun cv σ1 =>
        if (first cv).truthy then (evalE env t σ1).bind fun vs σ2 => .ok (some [first vs]) σ2
        else evalElifs env rest σ1

  /-- table constructor entries; `i` is the next positional index -/
  def evalEntries (env : Env N) (t : Nat) : Nat → List Entry → State N → Res N Unit
    | _, [], σ => .ok () σ
    | i, [.pos v], σ =>
      -- a final positional entry is expanded
      (evalE env v σ).bind fun vs σ1 => .ok () (setMany t i vs σ1)
    | i, .pos v :: rest, σ =>
      (evalE env v σ).bind fun vs σ1 =>
        evalEntries env t (i + 1) rest (σ1.rawSet t (.num (N.ofNat i)) (first vs))
    | i, .named key v :: rest, σ =>
      (evalE env v σ).bind fun vs σ1 => evalEntries env t i rest (σ1.rawSet t (strVal key) (first vs))
    | i, .keyed ke v :: rest, σ =>
      (evalE env ke σ).bind fun ks σ1 =>
        (evalE env v σ1).bind fun vs σ2 =>
          match first ks with
          | .nil => errS "table index is nil" σ2
          | .num n =>
            if N.isNaN n then errS "table index is NaN" σ2
            else evalEntries env t i rest (σ2.rawSet t (.num n) (first vs))
          | key => evalEntries env t i rest (σ2.rawSet t key (first vs))

  def evalSegs (env : Env N) : List Seg → List UInt8 → State N → Res N (List UInt8)
    | [], acc, σ => .ok acc σ
    | .s b :: rest, acc, σ => evalSegs env rest (acc ++ b) σ
    | .v e :: rest, acc, σ =>
      (evalE env e σ).bind fun vs σ1 =>
        (tostringVal call ρ k (first vs) σ1).bind fun s σ2 => evalSegs env rest (acc ++ s) σ2

  /-- evaluate the sub-expressions of an assignment target -/
  def evalTarget (env : Env N) : Expr → State N → Res N (Target N)
    | .var n, σ => .ok (.var n) σ
    | .field e n, σ => (evalE env e σ).bind fun vs σ1 => .ok (.slot (first vs) (strVal n)) σ1
    | .index e i, σ =>
      (evalE env e σ).bind fun vs σ1 => (evalE env i σ1).bind fun is σ2 => .ok (.slot (first vs) (first is)) σ2
    | _, σ => errS "cannot assign to this expression" σ

  /-- … of all targets, left to right -/
  def evalTargets (env : Env N) : List Expr → State N → Res N (List (Target N))
    | [], σ => .ok [] σ
    | t :: rest, σ =>
      (evalTarget env t σ).bind fun tg σ1 => (evalTargets env rest σ1).bind fun ts σ2 => .ok (tg :: ts) σ2

  def execS (env : Env N) : Stmt → State N → Res N (Ctl N)
    | .assign targets values, σ =>
      (evalTargets env targets σ).bind fun ts σ1 =>
        (evalEs env values σ1).bind fun vs σ2 =>
          (storeTargets call ρ k env ts vs σ2).bind fun _ σ3 => .ok (.next env) σ3
    | .cassign op target value, σ =>
      (evalTarget env target σ).bind fun tg σ1 =>
        let old : Res N (Val N) := match tg with
          | .var n => .ok (lookupVar env n σ1) σ1
          | .slot t key => indexVal call ρ k t key σ1
        old.bind fun ov σ2 =>
          (evalE env value σ2).bind fun vs σ3 =>
            (binopVal call ρ k op ov (first vs) σ3).bind fun nv σ4 =>
              (storeTarget call ρ k env tg nv σ4).bind fun _ σ5 => .ok (.next env) σ5
    | .callStmt c, σ => (evalE env c σ).bind fun _ σ' => .ok (.next env) σ'
    | .doBlock b, σ =>
      (execB env b σ).bind fun c σ' =>
        match c with
        | .next _ => .ok (.next env) σ'
        | other => .ok other σ'
    | .function name m body, σ =>
      let body' : FnBody := match m, body with
        | some _, .mk ps v vt r g a b => .mk (.mk "self" none :: ps) v vt r g a b
        | none, b => b
      let (id, σ1) := σ.allocClosure ⟨body', env.locals, []⟩
      match name, m with
      | [n], none => .ok (.next env) (assignVar env n (.fn id) σ1)
      | root :: path, _ =>
        let keys := path ++ (match m with | some mm => [mm] | none => [])
        (walkFields call ρ k (lookupVar env root σ1) keys σ1).bind fun (tv, last) σ2 =>
          (setIndexVal call ρ k tv (strVal last) (.fn id) σ2).bind fun _ σ3 => .ok (.next env) σ3
      | [], _ => errS "function statement without a name" σ1
    | .gfor names values body, σ =>
      (evalEs env values σ).bind fun vs σ1 =>
        let f := first vs
        let s := first (vs.drop 1)
        let c0 := first (vs.drop 2)
        (gforLoop (fun ctl σ => callVal call ρ k f [s, ctl] σ)
            (fun rs σ =>
              let (locals, σ') := bindLocals (names.map TName.name) rs env.locals σ
              execB { env with locals := locals } body σ')
            k c0 σ1).bind fun r σ2 =>
          match r with
          | some rv => .ok (.ret rv) σ2
          | none => .ok (.next env) σ2
    | .nfor name start stop step body, σ =>
      (evalE env start σ).bind fun a σ1 =>
        (evalE env stop σ1).bind fun b σ2 =>
          let stepR : Res N (List (Val N)) := match step with
            | some se => evalE env se σ2
            | none => .ok [.num (N.ofNat 1)] σ2
          stepR.bind fun c σ3 =>
            match toNumber? (first a), toNumber? (first b), toNumber? (first c) with
            | some x, some y, some z =>
              (forLoop (fun i σ =>
                  let (cell, σ') := σ.allocCell (.num i)
                  execB { env with locals := (name.name, cell) :: env.locals } body σ')
                y z k x σ3).bind fun r σ4 =>
                match r with
                | some rv => .ok (.ret rv) σ4
                | none => .ok (.next env) σ4
            | _, _, _ => errS "'for' initial value, limit and step must be numbers" σ3
    | .ifs branches els, σ =>
      (execBranches env branches σ).bind fun r σ1 =>
        match r with
        | some c => .ok c σ1
        | none =>
          match els with
          | none => .ok (.next env) σ1
          | some b =>
            (execB env b σ1).bind fun c σ' =>
              match c with
              | .next _ => .ok (.next env) σ'
              | other => .ok other σ'
    | .localAssign _ names values, σ =>
      (evalEs env values σ).bind fun vs σ1 =>
        let (locals, σ2) := bindLocals (names.map TName.name) vs env.locals σ1
        .ok (.next { env with locals := locals }) σ2
    | .localFn _ name body, σ =>
      let (cell, σ1) := σ.allocCell .nil
      let locals := (name, cell) :: env.locals
      let (id, σ2) := σ1.allocClosure ⟨body, locals, []⟩
      .ok (.next { env with locals := locals }) (σ2.setCell cell (.fn id))
    | .repeat_ body cond, σ =>
      (whileLoop (fun σ => repeatStep env (fun env' σ' => evalE env' cond σ') body σ) k σ).bind fun r σ' =>
        match r with
        | some rv => .ok (.ret rv) σ'
        | none => .ok (.next env) σ'
    | .while_ cond body, σ =>
      (whileLoop (fun σ =>
          (evalE env cond σ).bind fun cv σ1 =>
            if (first cv).truthy then (execB env body σ1).bind fun c σ2 => .ok (some c) σ2
            else .ok none σ1)
        k σ).bind fun r σ' =>
        match r with
        | some rv => .ok (.ret rv) σ'
        | none => .ok (.next env) σ'
    | .typeDecl _ _ _, σ => .ok (.next env) σ
    | .typeFn _ _ _, σ => .ok (.next env) σ

  /-- One iteration of `repeat body until cond`; `evalCond` evaluates the condition, which is in
  the scope of the body's locals. Result: `some .brk` = stop, `some (.next _)` = iterate again. -/
  def repeatStep (env : Env N) (evalCond : Env N → State N → Res N (List (Val N))) :
      Block → State N → Res N (Option (Ctl N))
    | .mk stmts last, σ =>
      (execSs env stmts σ).bind fun c σ1 =>
        match c with
        | .next env' =>
          let afterLast : Res N (Ctl N) := match last with
            | none => .ok (.next env') σ1
            | some l => execLast env' l σ1
          afterLast.bind fun c2 σ2 =>
            match c2 with
            | .next env'' =>
              (evalCond env'' σ2).bind fun cv σ3 =>
                if (first cv).truthy then .ok (some .brk) σ3 else .ok (some (.next env)) σ3
            | .cont envc =>
              (evalCond envc σ2).bind fun cv σ3 =>
                if (first cv).truthy then .ok (some .brk) σ3 else .ok (some (.next env)) σ3
            | other => .ok (some other) σ2
        | .cont envc =>
          -- `continue` jumps to the condition, which sees the locals declared so far
          (evalCond envc σ1).bind fun cv σ3 =>
            if (first cv).truthy then .ok (some .brk) σ3 else .ok (some (.next env)) σ3
        | other => .ok (some other) σ1

  /-- `none`: no branch condition held -/
  def execBranches (env : Env N) : List (Expr × Block) → State N → Res N (Option (Ctl N))
    | [], σ => .ok none σ
    | (c, b) :: rest, σ =>
      (evalE env c σ).bind fun cv σ1 =>
        if (first cv).truthy then
          (execB env b σ1).bind fun c σ' =>
            match c with
            | .next _ => .ok (some (.next env)) σ'
            | other => .ok (some other) σ'
        else execBranches env rest σ1

  def execSs (env : Env N) : List Stmt → State N → Res N (Ctl N)
    | [], σ => .ok (.next env) σ
    | s :: rest, σ =>
      (execS env s σ).bind fun c σ' =>
        match c with
        | .next env' => execSs env' rest σ'
        | .cont _ => .ok (.cont env) σ'
        | other => .ok other σ'

  def execLast (env : Env N) : Last → State N → Res N (Ctl N)
    | .ret es, σ => (evalEs env es σ).bind fun vs σ' => .ok (.ret vs) σ'
    | .brk, σ => .ok .brk σ
    | .cont, σ => .ok (.cont env) σ

  def execB (env : Env N) : Block → State N → Res N (Ctl N)
    | .mk stmts last, σ =>
      (execSs env stmts σ).bind fun c σ' =>
        match c with
        | .next env' =>
          match last with
          | none => .ok (.next env') σ'
          | some l => execLast env' l σ'
        | other => .ok other σ'
end

end level
end Sem
end DarkluaModel
