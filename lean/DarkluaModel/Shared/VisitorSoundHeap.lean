import DarkluaModel.Shared.VisitorSound.Heap.HSteps
import DarkluaModel.Shared.VisitorSound.Heap.General
import DarkluaModel.Shared.VisitorSound.Heap.HContinue
import DarkluaModel.Shared.VisitorSound
/-!
# Stage 3: lifting for rules that change the allocation pattern (cells) or depend on a context

**State relation** (`Sem.Heap.SRel Q cx β`): globals, tables, trace equal; cells up to a partial
injection `β` (unrelated cells are garbage); closures pointwise with `Q`-related bodies and captured
environments that agree outside a dead set of names; the facts `cx.G` about watched globals hold.
**Dead sets** `D : List DName`: `.ref n` — the bindings of `n` may differ on the two sides, so nothing may
reference `n`; `.wat n` — `n` is a watched global: nothing declares or assigns it, so it always reads
the global. `NoRef… D a` (`Heap/Refs.lean`, decidable via `.refs`) says `a` respects `D`.
**Steps** (`Sem.Heap.HR cx D a b D'`): exact steps (`EqE` …), any step sound for the relation for every
closure-body relation (`HR.gen…`, proved with the exported compatibility lemmas `SoundE.bin`,
`SoundS.localAssign`, … and `reflE` …), and `dropLocal` / `addLocal`. No transitivity: passes are
chained at the level of outcomes (`Chain` of links).

* `HooksHeap cx P` — each hook rewrites a node by a chain of links (`Chain (LkE cx)` …); a link holds
  for every dead set the input respects. Identity hooks are discharged by default.
* `Visitor.visit_heap` / `runDefault_heap` / `runScoped_heap` — then the visited program has the same
  observable outcome (`Sem.runProgram`), for every program (functions included) that neither declares
  nor assigns a watched global (`NoRefB (watD cx) b`, decidable by `NoRefB.ofBool`; vacuous for
  `Cx.none`); `chain_runChunk` the same from any initial state in which the facts hold.
* ready-made links (`Heap/HSteps.lean`): `LkB.dropLocal`, `LkRep.dropLocal`, `LkB.addLocal`,
  `LkS.permLocal`, `LkS.localFnToAssign`, `LkE.injectGlobal`, `LkE.ofCtxEq` / `LkS.ofCtxEq`
  (contextual exact equalities), `LkE.ofEq` … (exact steps).
* `remove_continue` (`Heap/HContinue.lean`): `ContConv flag B B'` (every `continue` of this loop level ↦
  `flag = true; break`), `contWrap flag B'`, and the links `LkS.removeContinueWhile` / `…Nfor` / `…Gfor`
  (exact; the flag is a pinned one-sided right cell); `SoundS.while_shape` / `nfor_shape` / `gfor_shape` for
  loops whose bodies are related only up to the shape of the control result (`BodyShape`).
* `HooksExact.toHeap` — exactly sound hooks that introduce no new references are heap hooks.
* NOT covered here: renumbering of tables / closures — see stage 4, `Shared/VisitorSoundHeapV.lean`
  (`HooksV`, `Visitor.visit_v`, `Sem.HeapV.renumbering_invariance`); re-declaration of a dropped / watched name (dead sets are
  flow-insensitive); hooks that are sound only where the processor's scope tracker is exact on a
  program that shadows a watched name (such programs are outside `NoRefB (watD cx) b`).
-/
namespace DarkluaModel
open Sem Sem.Heap

macro "hook_id_h" : tactic =>
  `(tactic| (intros; first | exact Chain.refl _ | exact ⟨Chain.refl _, Chain.refl _⟩ | rfl))

/-- every hook rewrites a node by a chain of `HR` links (see `Heap/HLinks.lean`); identity hooks are
discharged by default -/
structure HooksHeap {σ : Type} (cx : Cx) (P : Processor σ) : Prop where
  expr : ∀ e s, Chain (LkE cx) e (P.expr e s).1 := by hook_id_h
  pref : ∀ e s, Chain (LkE cx) e (P.pref e s).1 := by hook_id_h
  target : ∀ e s, Chain (LkT cx) e (P.target e s).1 := by hook_id_h
  node : ∀ e s, Chain (LkE cx) e (P.node e s).1 ∧ Chain (LkT cx) e (P.node e s).1 := by hook_id_h
  afterNode : ∀ e s, Chain (LkE cx) e (P.afterNode e s).1 ∧ Chain (LkT cx) e (P.afterNode e s).1 := by hook_id_h
  stmt : ∀ x s, Chain (LkS cx) x (P.stmt x s).1 := by hook_id_h
  stmtNode : ∀ x s, Chain (LkS cx) x (P.stmtNode x s).1 := by hook_id_h
  afterStmtNode : ∀ x s, Chain (LkS cx) x (P.afterStmtNode x s).1 := by hook_id_h
  last : ∀ x s, Chain (LkL cx) x (P.last x s).1 := by hook_id_h
  /-- block hooks see blocks whose final scope may still matter (`repeat` bodies): open links -/
  block : ∀ b s, Chain (LkBo cx) b (P.block b s).1 := by hook_id_h
  afterBlock : ∀ b s, Chain (LkBo cx) b (P.afterBlock b s).1 := by hook_id_h
  scopeB : ∀ b s, Chain (LkB cx) b (P.scope b none s).1.1 := by hook_id_h
  scopeR : ∀ b c s, Chain (LkRep cx) (b, c) ((P.scope b (some c) s).1.1, (P.scope b (some c) s).1.2.getD c) := by
    hook_id_h
  insert : ∀ n s, (P.insert n s).1 = n := by hook_id_h
  insertLocalName : ∀ n v s, (P.insertLocal n v s).1.1 = n := by hook_id_h
  insertLocalVal : ∀ n v s, Chain (LkE cx) v ((P.insertLocal n (some v) s).1.2.getD v) := by hook_id_h
  insertLocalFn : ∀ n s, (P.insertLocalFn n s).1 = n := by hook_id_h

variable {σ : Type} {P : Processor σ} {cx : Cx}

theorem HooksHeap.toRel (H : HooksHeap cx P) : HooksRel (heapFam cx) P where
  expr := H.expr
  pref := H.pref
  target := H.target
  node := H.node
  afterNode := H.afterNode
  stmt := H.stmt
  stmtNode := H.stmtNode
  afterStmtNode := H.afterStmtNode
  last := H.last
  block := H.block
  afterBlock := H.afterBlock
  scopeB := H.scopeB
  scopeR := H.scopeR
  insert := H.insert
  insertLocalName := H.insertLocalName
  insertLocalVal := H.insertLocalVal
  insertLocalFn := H.insertLocalFn

theorem Sem.Heap.watOK_watD (cx : Cx) (hok : cx.Dok (watD cx)) : WatOK cx (watD cx) :=
  ⟨fun n hn => by
    obtain ⟨m, hm, he⟩ := List.mem_map.mp hn
    cases he; exact hm, hok⟩

/-- the side conditions of a run in a context: the initial dead set is in the context's class, the
program neither declares nor assigns a watched global, the call-handler assumption holds at every
level, the initial state has no cells, satisfies the facts, and its closures are self-related. All
are trivial for `Cx.none` and `initState`. -/
structure RunOK (cx : Cx) (b : Block) {N : NumOps} (ρ : ExtOracle N) (σ : State N) : Prop where
  ok : cx.Dok (watD cx)
  prog : NoRefB (watD cx) b
  cf : ∀ n, cx.CF N (callClosure ρ n)
  facts : ∀ p ∈ cx.G N, σ.getGlobal p.1 = p.2
  fnFacts : ∀ p ∈ cx.F, FnGlobal σ p.1 p.2
  cells : σ.cells = []
  closures : Forall2 (CRel (HQ cx) cx emptyRel) σ.closures σ.closures

/-- **General form.** A chain of closed-block links between whole programs preserves the observable
outcome of a run from `σ` — or (only when `cx.upto`) the original exhausts its budget. -/
theorem Sem.Heap.chain_runChunk' {b b' : Block} (h : Chain (LkB cx) b b') {N : NumOps} (ρ : ExtOracle N)
    (n : Nat) (σ : State N) (hr : RunOK cx b ρ σ) :
    (cx.upto = true ∧ observe (runChunk ρ n b σ) = .timeout) ∨
      observe (runChunk ρ n b' σ) = observe (runChunk ρ n b σ) := by
  induction h with
  | refl => exact .inr rfl
  | @cons a m c hl _ ih =>
    obtain ⟨⟨D', hhr⟩, hb'⟩ := hl (watD cx) (watOK_watD cx hr.ok) hr.prog
    have h1 := runChunk_hr' ρ hr.cf n hhr σ hr.facts hr.fnFacts hr.cells hr.closures
    have h2 := ih { hr with prog := hb' }
    rcases h1 with h1 | h1
    · exact .inl h1
    · rcases h2 with h2 | h2
      · exact .inl ⟨h2.1, by rw [← h1]; exact h2.2⟩
      · exact .inr (h2.trans h1)

theorem RunOK.init {b : Block} {N : NumOps} (ρ : ExtOracle N) (externs : List String)
    (hb : NoRefB (watD cx) b) (hG : ∀ p ∈ cx.G N, (initState externs : State N).getGlobal p.1 = p.2)
    (hok : cx.Dok (watD cx)) (hF : cx.F = []) (hCF : ∀ n, cx.CF N (callClosure ρ n)) :
    RunOK cx b ρ (initState externs) :=
  ⟨hok, hb, hCF, hG, (by rw [hF]; intro p hp; cases hp), rfl, .nil⟩

/-- a chain of closed-block links between whole programs preserves the observable outcome. `hb`: the
program neither declares nor assigns a watched global; `hG`: the facts about watched globals hold
initially. With the empty context (`Cx.none`) both are trivial. For exact contexts (`cx.upto = false`). -/
theorem Sem.Heap.chain_runProgram {b b' : Block} (h : Chain (LkB cx) b b') (hb : NoRefB (watD cx) b)
    {N : NumOps} (ρ : ExtOracle N) (n : Nat) (externs : List String)
    (hG : ∀ p ∈ cx.G N, (initState externs : State N).getGlobal p.1 = p.2)
    (hok : cx.Dok (watD cx) := by trivial) (hu : cx.upto = false := by rfl) (hF : cx.F = [] := by rfl)
    (hCF : ∀ n, cx.CF N (callClosure ρ n) := by intros; trivial) :
    runProgram ρ n externs b' = runProgram ρ n externs b := by
  rcases chain_runChunk' h ρ n _ (RunOK.init ρ externs hb hG hok hF hCF) with ⟨h1, _⟩ | h2
  · rw [hu] at h1; cases h1
  · exact h2

/-- up-to-timeout contexts: same outcome unless the original exhausts its budget -/
theorem Sem.Heap.chain_runProgram_upto {b b' : Block} (h : Chain (LkB cx) b b') (hb : NoRefB (watD cx) b)
    {N : NumOps} (ρ : ExtOracle N) (n : Nat) (externs : List String)
    (hG : ∀ p ∈ cx.G N, (initState externs : State N).getGlobal p.1 = p.2)
    (hok : cx.Dok (watD cx) := by trivial) (hF : cx.F = [] := by rfl)
    (hCF : ∀ n, cx.CF N (callClosure ρ n) := by intros; trivial) :
    runProgram ρ n externs b = .timeout ∨ runProgram ρ n externs b' = runProgram ρ n externs b := by
  rcases chain_runChunk' h ρ n _ (RunOK.init ρ externs hb hG hok hF hCF) with ⟨_, h1⟩ | h2
  · exact .inl h1
  · exact .inr h2

/-- the same from any initial state without cells and closures in which the facts hold ("execution in a
modified environment": e.g. the global `DEBUG` preset) -/
theorem Sem.Heap.chain_runChunk {b b' : Block} (h : Chain (LkB cx) b b') (hb : NoRefB (watD cx) b)
    {N : NumOps} (ρ : ExtOracle N) (n : Nat) (σ : State N) (hG : ∀ p ∈ cx.G N, σ.getGlobal p.1 = p.2)
    (hc : σ.cells = []) (hcl : σ.closures = [])
    (hok : cx.Dok (watD cx) := by trivial) (hu : cx.upto = false := by rfl) (hF : cx.F = [] := by rfl)
    (hCF : ∀ n, cx.CF N (callClosure ρ n) := by intros; trivial) :
    observe (runChunk ρ n b' σ) = observe (runChunk ρ n b σ) := by
  rcases chain_runChunk' h ρ n σ
    ⟨hok, hb, hCF, hG, (by rw [hF]; intro p hp; cases hp), hc, (by rw [hcl]; exact .nil)⟩ with ⟨h1, _⟩ | h2
  · rw [hu] at h1; cases h1
  · exact h2

/-- decidable check of `NoRefB` -/
theorem NoRefB.ofBool {D : List DName} {b : Block} (h : D.all (fun x => !b.refs x) = true) : NoRefB D b := by
  intro x hx
  have := List.all_eq_true.mp h x hx
  simpa using this

theorem Visitor.visit_chain (H : HooksHeap cx P) (sc : Bool) (fuel : Nat) (pushes : Bool) (b : Block) (s : σ) :
    Chain (LkB cx) b (Visitor.visitBlock P sc fuel pushes b s).1 :=
  Visitor.visit_rel (C := heapFam cx) H.toRel sc fuel pushes b s

/-- **Stage 3 lifting theorem.** Hooks that rewrite by `HR` links (exact steps and
allocation-insensitive steps) ⇒ the visited program has the same observable outcome. -/
theorem Visitor.visit_heap (H : HooksHeap cx P) (sc : Bool) (fuel : Nat) (pushes : Bool) (b : Block) (s : σ)
    (hb : NoRefB (watD cx) b) {N : NumOps} (ρ : ExtOracle N) (n : Nat) (externs : List String)
    (hG : ∀ p ∈ cx.G N, (initState externs : State N).getGlobal p.1 = p.2)
    (hok : cx.Dok (watD cx) := by trivial) (hu : cx.upto = false := by rfl) (hF : cx.F = [] := by rfl)
    (hCF : ∀ n, cx.CF N (callClosure ρ n) := by intros; trivial) :
    runProgram ρ n externs (Visitor.visitBlock P sc fuel pushes b s).1 = runProgram ρ n externs b :=
  chain_runProgram (Visitor.visit_chain H sc fuel pushes b s) hb ρ n externs hG hok hu hF hCF

/-- **Stage 3 lifting theorem, general form** (up to budget exhaustion when `cx.upto`; any initial
state satisfying `RunOK`) -/
theorem Visitor.visit_heap' (H : HooksHeap cx P) (sc : Bool) (fuel : Nat) (pushes : Bool) (b : Block) (s : σ)
    {N : NumOps} (ρ : ExtOracle N) (n : Nat) (σ0 : State N) (hr : RunOK cx b ρ σ0) :
    (cx.upto = true ∧ observe (runChunk ρ n b σ0) = .timeout) ∨
      observe (runChunk ρ n (Visitor.visitBlock P sc fuel pushes b s).1 σ0) = observe (runChunk ρ n b σ0) :=
  chain_runChunk' (Visitor.visit_chain H sc fuel pushes b s) ρ n σ0 hr

theorem Visitor.visit_heap_upto (H : HooksHeap cx P) (sc : Bool) (fuel : Nat) (pushes : Bool) (b : Block) (s : σ)
    (hb : NoRefB (watD cx) b) {N : NumOps} (ρ : ExtOracle N) (n : Nat) (externs : List String)
    (hG : ∀ p ∈ cx.G N, (initState externs : State N).getGlobal p.1 = p.2)
    (hok : cx.Dok (watD cx) := by trivial) (hF : cx.F = [] := by rfl)
    (hCF : ∀ n, cx.CF N (callClosure ρ n) := by intros; trivial) :
    runProgram ρ n externs b = .timeout ∨
      runProgram ρ n externs (Visitor.visitBlock P sc fuel pushes b s).1 = runProgram ρ n externs b :=
  chain_runProgram_upto (Visitor.visit_chain H sc fuel pushes b s) hb ρ n externs hG hok hF hCF

theorem Visitor.runDefault_heap (H : HooksHeap cx P) (b : Block) (s : σ) (hb : NoRefB (watD cx) b)
    {N : NumOps} (ρ : ExtOracle N) (n : Nat) (externs : List String)
    (hG : ∀ p ∈ cx.G N, (initState externs : State N).getGlobal p.1 = p.2)
    (hok : cx.Dok (watD cx) := by trivial) (hu : cx.upto = false := by rfl) (hF : cx.F = [] := by rfl)
    (hCF : ∀ n, cx.CF N (callClosure ρ n) := by intros; trivial) :
    runProgram ρ n externs (Visitor.runDefault P b s).1 = runProgram ρ n externs b :=
  Visitor.visit_heap H false _ true b s hb ρ n externs hG hok hu hF hCF

theorem Visitor.runDefault_heap_upto (H : HooksHeap cx P) (b : Block) (s : σ) (hb : NoRefB (watD cx) b)
    {N : NumOps} (ρ : ExtOracle N) (n : Nat) (externs : List String)
    (hG : ∀ p ∈ cx.G N, (initState externs : State N).getGlobal p.1 = p.2)
    (hok : cx.Dok (watD cx) := by trivial) (hF : cx.F = [] := by rfl)
    (hCF : ∀ n, cx.CF N (callClosure ρ n) := by intros; trivial) :
    runProgram ρ n externs b = .timeout ∨
      runProgram ρ n externs (Visitor.runDefault P b s).1 = runProgram ρ n externs b :=
  Visitor.visit_heap_upto H false _ true b s hb ρ n externs hG hok hF hCF

theorem Visitor.runScoped_heap (H : HooksHeap cx P) (b : Block) (s : σ) (hb : NoRefB (watD cx) b)
    {N : NumOps} (ρ : ExtOracle N) (n : Nat) (externs : List String)
    (hG : ∀ p ∈ cx.G N, (initState externs : State N).getGlobal p.1 = p.2)
    (hok : cx.Dok (watD cx) := by trivial) (hu : cx.upto = false := by rfl) (hF : cx.F = [] := by rfl)
    (hCF : ∀ n, cx.CF N (callClosure ρ n) := by intros; trivial) :
    runProgram ρ n externs (Visitor.runScoped P b s).1 = runProgram ρ n externs b :=
  Visitor.visit_heap H true _ true b s hb ρ n externs hG hok hu hF hCF

theorem Visitor.runScoped_heap_upto (H : HooksHeap cx P) (b : Block) (s : σ) (hb : NoRefB (watD cx) b)
    {N : NumOps} (ρ : ExtOracle N) (n : Nat) (externs : List String)
    (hG : ∀ p ∈ cx.G N, (initState externs : State N).getGlobal p.1 = p.2)
    (hok : cx.Dok (watD cx) := by trivial) (hF : cx.F = [] := by rfl)
    (hCF : ∀ n, cx.CF N (callClosure ρ n) := by intros; trivial) :
    runProgram ρ n externs b = .timeout ∨
      runProgram ρ n externs (Visitor.runScoped P b s).1 = runProgram ρ n externs b :=
  Visitor.visit_heap_upto H true _ true b s hb ρ n externs hG hok hF hCF

/-! ### exact hooks are heap hooks when they introduce no identifier references -/

/-- hooks do not introduce references: whatever dead set the input avoids, the output avoids -/
structure HooksNoRef {σ : Type} (P : Processor σ) : Prop where
  expr : ∀ e s D, NoRefE D e → NoRefE D (P.expr e s).1 := by (intros; assumption)
  pref : ∀ e s D, NoRefE D e → NoRefE D (P.pref e s).1 := by (intros; assumption)
  target : ∀ e s D, NoRefT D e → NoRefT D (P.target e s).1 := by (intros; assumption)
  node : ∀ e s D, NoRefE D e → NoRefE D (P.node e s).1 := by (intros; assumption)
  nodeT : ∀ e s D, NoRefT D e → NoRefT D (P.node e s).1 := by (intros; assumption)
  afterNode : ∀ e s D, NoRefE D e → NoRefE D (P.afterNode e s).1 := by (intros; assumption)
  afterNodeT : ∀ e s D, NoRefT D e → NoRefT D (P.afterNode e s).1 := by (intros; assumption)
  stmt : ∀ x s D, NoRefS D x → NoRefS D (P.stmt x s).1 := by (intros; assumption)
  stmtNode : ∀ x s D, NoRefS D x → NoRefS D (P.stmtNode x s).1 := by (intros; assumption)
  afterStmtNode : ∀ x s D, NoRefS D x → NoRefS D (P.afterStmtNode x s).1 := by (intros; assumption)
  last : ∀ x s D, NoRefL D x → NoRefL D (P.last x s).1 := by (intros; assumption)
  block : ∀ b s D, NoRefB D b → NoRefB D (P.block b s).1 := by (intros; assumption)
  afterBlock : ∀ b s D, NoRefB D b → NoRefB D (P.afterBlock b s).1 := by (intros; assumption)
  scopeB : ∀ b c s D, NoRefB D b → NoRefB D (P.scope b c s).1.1 := by (intros; assumption)
  scopeC : ∀ b c s D, NoRefE D c → NoRefE D ((P.scope b (some c) s).1.2.getD c) := by (intros; assumption)
  insertLocalVal : ∀ n v s D, NoRefE D v → NoRefE D ((P.insertLocal n (some v) s).1.2.getD v) := by
    (intros; assumption)

theorem HooksExact.toHeap (H : HooksExact P) (F : HooksNoRef P) : HooksHeap cx P where
  expr := fun e s => .single (.ofEq (H.expr e s) (fun D _ => F.expr e s D))
  pref := fun e s => .single (.ofEq (H.pref e s) (fun D _ => F.pref e s D))
  target := fun e s => .single (.ofEq (H.target e s) (fun D _ => F.target e s D))
  node := fun e s =>
    ⟨.single (.ofEq (H.node e s).1 (fun D _ => F.node e s D)), .single (.ofEq (H.node e s).2 (fun D _ => F.nodeT e s D))⟩
  afterNode := fun e s =>
    ⟨.single (.ofEq (H.afterNode e s).1 (fun D _ => F.afterNode e s D)),
      .single (.ofEq (H.afterNode e s).2 (fun D _ => F.afterNodeT e s D))⟩
  stmt := fun e s => .single (.ofEq (H.stmt e s) (fun D _ => F.stmt e s D))
  stmtNode := fun e s => .single (.ofEq (H.stmtNode e s) (fun D _ => F.stmtNode e s D))
  afterStmtNode := fun e s => .single (.ofEq (H.afterStmtNode e s) (fun D _ => F.afterStmtNode e s D))
  last := fun e s => .single (.ofEq (H.last e s) (fun D _ => F.last e s D))
  block := fun e s => .single (.ofEq (H.block e s) (fun D _ => F.block e s D))
  afterBlock := fun e s => .single (.ofEq (H.afterBlock e s) (fun D _ => F.afterBlock e s D))
  scopeB := fun b s => .single (LkBo.ofEq (H.scopeB b none s) (fun D _ => F.scopeB b none s D)).toB
  scopeR := fun b c s => .single fun D _ hnb hnc =>
    ⟨.rep (.stepB (H.scopeB b (some c) s).le (.reflB (F.scopeB b (some c) s D hnb)))
        (.stepE (H.scopeC b c s).le (.reflE (F.scopeC b c s D hnc))),
      F.scopeB b (some c) s D hnb, F.scopeC b c s D hnc⟩
  insert := H.insert
  insertLocalName := H.insertLocalName
  insertLocalVal := fun n v s => .single (.ofEq (H.insertLocalVal n v s) (fun D _ => F.insertLocalVal n v s D))
  insertLocalFn := H.insertLocalFn

/-! ## Worked instance: dropping an unused `local x = <atoms>` (scope hook, as `remove_unused_variable`)

Not a darklua rule model — a minimal processor with the shape of `remove_unused_variable`
(`process_scope(block, extra)`): in every scope it drops the first `local` declaration whose
values are literals / identifiers and whose names are referenced neither in the rest of the block
nor in the `until` condition. The dropped cell allocation renumbers every later cell, so the
rewrite is not exact; `runScoped_heap` gives the whole-program theorem. -/
namespace Demo.DropUnusedLocal
open Sem Sem.Heap

def dropIn (cr : String → Bool) (last : Option Last) : List Stmt → List Stmt
  | [] => []
  | .localAssign k ns vs :: rest =>
    if vs.all Expr.isAtom && (ns.map TName.name).all (fun n => !tailRefs n rest last && !cr n) then rest
    else .localAssign k ns vs :: dropIn cr last rest
  | s :: rest => s :: dropIn cr last rest

def scopeHook (b : Block) (c : Option Expr) (s : Unit) : (Block × Option Expr) × Unit :=
  match b with
  | .mk ss last => ((.mk (dropIn (fun n => match c with | some e => e.refs (.ref n) | none => false) last ss) last, c), s)

def processor : Processor Unit := { scope := scopeHook }

theorem dropIn_spec (cr : String → Bool) (last : Option Last) (ss : List Stmt) :
    dropIn cr last ss = ss ∨
    ∃ pre k ns vs rest, ss = pre ++ .localAssign k ns vs :: rest ∧ dropIn cr last ss = pre ++ rest ∧
      (∀ e ∈ vs, e.isAtom = true) ∧ (∀ n ∈ ns.map TName.name, tailRefs n rest last = false ∧ cr n = false) := by
  induction ss with
  | nil => exact .inl rfl
  | cons s rest ih =>
    have step : ∀ s', dropIn cr last (s' :: rest) = s' :: dropIn cr last rest →
        (dropIn cr last (s' :: rest) = s' :: rest ∨
          ∃ pre k ns vs rest', s' :: rest = pre ++ .localAssign k ns vs :: rest' ∧
            dropIn cr last (s' :: rest) = pre ++ rest' ∧ (∀ e ∈ vs, e.isAtom = true) ∧
            (∀ n ∈ ns.map TName.name, tailRefs n rest' last = false ∧ cr n = false)) := by
      intro s' hs'
      rcases ih with h | ⟨pre, k, ns, vs, rest', h1, h2, h3, h4⟩
      · exact .inl (by rw [hs', h])
      · exact .inr ⟨s' :: pre, k, ns, vs, rest', by rw [h1]; rfl, by rw [hs', h2]; rfl, h3, h4⟩
    cases s with
    | localAssign k ns vs =>
      by_cases hc : (vs.all Expr.isAtom && (ns.map TName.name).all (fun n => !tailRefs n rest last && !cr n)) = true
      · right
        refine ⟨[], k, ns, vs, rest, rfl, by simp only [dropIn, hc, if_true, List.nil_append], ?_, ?_⟩
        · simp only [Bool.and_eq_true, List.all_eq_true] at hc; exact hc.1
        · simp only [Bool.and_eq_true, List.all_eq_true, Bool.not_eq_true'] at hc
          exact fun n hn => hc.2 n hn
      · exact step _ (by simp only [dropIn, hc, Bool.false_eq_true, if_false])
    | _ => exact step _ (by simp only [dropIn])

theorem hooksHeap : HooksHeap Cx.none processor where
  scopeB := fun b s => by
    cases b with
    | mk ss last =>
      simp only [processor, scopeHook]
      rcases dropIn_spec (fun _ => false) last ss with h | ⟨pre, k, ns, vs, rest, h1, h2, h3, h4⟩
      · rw [h]; exact .refl _
      · rw [h2, h1]
        exact .single (LkB.dropLocal (TotalPureEs.atoms h3) fun n hn => (h4 n hn).1)
  scopeR := fun b c s => by
    cases b with
    | mk ss last =>
      simp only [processor, scopeHook, Option.getD]
      rcases dropIn_spec (fun n => c.refs (.ref n)) last ss with h | ⟨pre, k, ns, vs, rest, h1, h2, h3, h4⟩
      · rw [h]; exact .refl _
      · rw [h2, h1]
        exact .single (LkRep.dropLocal (TotalPureEs.atoms h3) (fun n hn => (h4 n hn).1) (fun n hn => (h4 n hn).2))

/-- **whole-pass theorem**, for every program -/
theorem run_refines (b : Block) {N : NumOps} (ρ : ExtOracle N) (n : Nat) (externs : List String) :
    runProgram ρ n externs (Visitor.runScoped processor b ()).1 = runProgram ρ n externs b :=
  Visitor.runScoped_heap hooksHeap b () (fun _ h => by cases h) ρ n externs (fun _ h => by cases h)

/-- non-vacuity: `local function g(a) local unused = a; local y = 1; emit(y) end; g(2)` -/
def sample : Block :=
  .mk [.localFn .loc "g" (.mk [.mk "a" none] false none none [] []
         (.mk [.localAssign .loc [.mk "unused" none] [.var "a"],
               .localAssign .loc [.mk "y" none] [.num 1],
               .callStmt (.call (.var "emit") none .tuple [.var "y"])] none)),
       .callStmt (.call (.var "g") none .tuple [.num 2])] none

example : (Visitor.runScoped processor sample ()).1 =
    .mk [.localFn .loc "g" (.mk [.mk "a" none] false none none [] []
           (.mk [.localAssign .loc [.mk "y" none] [.num 1],
                 .callStmt (.call (.var "emit") none .tuple [.var "y"])] none)),
         .callStmt (.call (.var "g") none .tuple [.num 2])] none := rfl

end Demo.DropUnusedLocal
/-! ## Worked instance (context): replacing the watched global `DEBUG` by its value

A minimal `inject_global_value`: every expression occurrence of the identifier `DEBUG` becomes `true`.
Sound in the context "`DEBUG` is a watched global (never declared, never assigned) whose value is
`true`": the theorem is for programs that do not declare / assign `DEBUG` (`NoRefB [.wat "DEBUG"]`,
decidable) started in a state where the global is preset. Prefix positions are left alone (F19). -/
namespace Demo.InjectDebug
open Sem Sem.Heap

def dcx : Cx where
  W := ["DEBUG"]
  G := fun _ => [("DEBUG", .bool true)]
  sub := fun _ p hp => by simp only [List.mem_singleton] at hp; subst hp; simp

def exprHook (e : Expr) (s : Unit) : Expr × Unit :=
  match e with
  | .var "DEBUG" => (.true, s)
  | _ => (e, s)

def processor : Processor Unit := { expr := exprHook }

theorem hooksHeap : HooksHeap dcx processor where
  expr := fun e s => by
    simp only [processor, exprHook]
    split
    · exact .single (LkE.injectGlobal (by simp [dcx])
        (fun N call ρ k env σ => ⟨.bool true, by simp [dcx], rfl⟩) (fun _ _ _ => rfl))
    · exact .refl _

/-- whole-pass theorem: same outcome from every state in which the global `DEBUG` is `true` -/
theorem run_refines (b : Block) (hb : NoRefB [.wat "DEBUG"] b) {N : NumOps} (ρ : ExtOracle N) (n : Nat)
    (σ : State N) (hd : σ.getGlobal "DEBUG" = .bool true) (hc : σ.cells = []) (hcl : σ.closures = []) :
    observe (runChunk ρ n (Visitor.runDefault processor b ()).1 σ) = observe (runChunk ρ n b σ) :=
  chain_runChunk (cx := dcx) (Visitor.visit_chain hooksHeap false _ true b ()) hb ρ n σ
    (fun p hp => by simp only [dcx, List.mem_singleton] at hp; subst hp; exact hd) hc hcl

/-- non-vacuity: `local function f(x) if DEBUG then emit(x) end end; f(1)` -/
def sample : Block :=
  .mk [.localFn .loc "f" (.mk [.mk "x" none] false none none [] []
         (.mk [.ifs [(.var "DEBUG", .mk [.callStmt (.call (.var "emit") none .tuple [.var "x"])] none)] none] none)),
       .callStmt (.call (.var "f") none .tuple [.num 1])] none

example : NoRefB [.wat "DEBUG"] sample := NoRefB.ofBool rfl
example : (Visitor.runDefault processor sample ()).1 =
    .mk [.localFn .loc "f" (.mk [.mk "x" none] false none none [] []
           (.mk [.ifs [(.true, .mk [.callStmt (.call (.var "emit") none .tuple [.var "x"])] none)] none] none)),
         .callStmt (.call (.var "f") none .tuple [.num 1])] none := rfl

end Demo.InjectDebug
/-! ## Worked instance (call facts, up to timeout): removing `assert(e)`

A minimal `remove_assertions` in expression position: `assert(e)` becomes `e`. Context: `assert` is a
watched global holding closure number 0, whose body is `function(...) return ... end` (the "modified
environment" in which assertions hold); calling it spends one call level, so the step is sound only up
to budget exhaustion of the original (`upto := true`). -/
namespace Demo.DropAssert
open Sem Sem.Heap

def acx : Cx where
  W := ["assert"]
  G := fun _ => [("assert", .fn 0)]
  sub := fun _ p hp => by simp only [List.mem_singleton] at hp; subst hp; simp
  upto := true
  F := [("assert", idBody)]
  subF := fun p hp => by simp only [List.mem_singleton] at hp; subst hp; simp
  CF := fun N call => ∀ (clo : Closure N) args σ, clo.body = idBody → clo.env = [] →
    call clo args σ = .ok args σ ∨ call clo args σ = .timeout

theorem idGlobal : IdGlobal acx "assert" 0 idBody where
  watched := by simp [acx]
  upto := rfl
  isFn := fun _ => by simp [acx]
  hasBody := by simp [acx]
  runs := fun _ _ h => h

def exprHook (e : Expr) (s : Unit) : Expr × Unit :=
  match e with
  | .call (.var "assert") none _ [a] => (a, s)
  | _ => (e, s)

def processor : Processor Unit := { expr := exprHook }

theorem hooksHeap : HooksHeap acx processor where
  expr := fun e s => by
    simp only [processor, exprHook]
    split
    · next kd a =>
      refine .single fun D _ hn => ?_
      have ha : NoRefE D a := (NoRefEs.cons.mp (NoRefE.call.mp hn).2).1
      exact ⟨.genE fun _ hq => SoundE.dropIdCall idGlobal (Heap.reflE hq a D ha), ha⟩
    · exact .refl _

/-- the modified environment: `assert` is the identity closure, closure number 0 -/
def env0 (externs : List String) {N : NumOps} : State N :=
  { (initState externs : State N) with
    globals := ("assert", .fn 0) :: (initState externs : State N).globals
    closures := [⟨idBody, [], []⟩] }

/-- whole-pass theorem: same outcome in the modified environment, unless the original exhausts its budget -/
theorem run_refines (b : Block) (hb : NoRefB [.wat "assert"] b) {N : NumOps} (ρ : ExtOracle N) (n : Nat)
    (externs : List String) :
    observe (runChunk ρ n b (env0 externs : State N)) = .timeout ∨
      observe (runChunk ρ n (Visitor.runDefault processor b ()).1 (env0 externs)) =
        observe (runChunk ρ n b (env0 externs)) := by
  have hr : RunOK acx b ρ (env0 externs : State N) :=
    { ok := trivial
      prog := hb
      cf := fun n clo args σ hb henv => callClosure_idBody ρ n clo args σ hb henv
      facts := fun p hp => by
        simp only [acx, List.mem_singleton] at hp; subst hp
        simp [env0, State.getGlobal, lookupAssoc]
      fnFacts := fun p hp => by
        simp only [acx, List.mem_singleton] at hp; subst hp
        exact ⟨0, ⟨idBody, [], []⟩, by simp [env0, State.getGlobal, lookupAssoc], rfl, rfl, rfl⟩
      cells := rfl
      closures := .cons (CRel.initSelf idBody (NoRefB.ofBool rfl |> fun h => NoRefF.mk.mpr ⟨fun _ _ => rfl, h⟩)) .nil }
  rcases Visitor.visit_heap' hooksHeap false _ true b () ρ n _ hr with h | h
  · exact .inl h.2
  · exact .inr h

/-- non-vacuity: `local function f(x) return assert(x) end; emit(f(1))` -/
def sample : Block :=
  .mk [.localFn .loc "f" (.mk [.mk "x" none] false none none [] []
         (.mk [] (some (.ret [.call (.var "assert") none .tuple [.var "x"]])))),
       .callStmt (.call (.var "emit") none .tuple [.call (.var "f") none .tuple [.num 1]])] none

example : NoRefB [.wat "assert"] sample := NoRefB.ofBool rfl
example : (Visitor.runDefault processor sample ()).1 =
    .mk [.localFn .loc "f" (.mk [.mk "x" none] false none none [] [] (.mk [] (some (.ret [.var "x"])))),
         .callStmt (.call (.var "emit") none .tuple [.call (.var "f") none .tuple [.num 1]])] none := rfl

end Demo.DropAssert
end DarkluaModel
