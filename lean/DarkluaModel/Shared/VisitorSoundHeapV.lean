import DarkluaModel.Shared.VisitorSound.HeapV.VSteps
import DarkluaModel.Shared.VisitorSound.HeapV.VOracle
import DarkluaModel.Shared.VisitorSoundHeap
/-!
# Stage 4: lifting for rules that change the allocation pattern of TABLES and CLOSURES too

**State relation** (`Sem.HeapV.SRel Q β`, `β : Inj` — three partial injections): globals related name by
name, trace equal; cells, tables, closures up to renumbering (unrelated ones are garbage on either
side); VALUES are related through the injections (`VRel`: table / closure ids renumbered, the rest
equal) — hence every compatibility lemma carries related values instead of equal ones. Observable
outcomes (`State.canon` renders tables structurally and closures as `fn`) are EQUAL for related
results (`observe_rel`), provided external functions return no heap references (`OracleFlat ρ`).
**Steps** (`Sem.HeapV.VR D a b D'`): exact steps, generic sound leaves, and `dropLocal` / `addLocal` of
declarations whose initialisers only allocate (`AllocPureEs`: `local t = {}`, `local f = function … end`,
`local x = {1, "a", y}` …).

* `HooksV P` — each hook rewrites a node by a chain of `VR` links (`Chain VkE` …).
* `Visitor.visit_v` / `runDefault_v` / `runScoped_v` — then the visited program has the same observable
  outcome, for EVERY program and every flat oracle (`HeapV/VOracle.lean`: what flat means, why it is needed,
  `driverOracle_flat`; `…_driver` variants below have no hypothesis).
* `Sem.HeapV.renumbering_invariance` (`Heap/General.lean`) — the semantics is invariant under renumbering.
* **Frontiers and pins** (`Inj.cL … fR`, `Inj.pinF`): an extension of the injections only adds pairs at or
  beyond the frontier (`Inj.le.fresh…`, `protectedFL` …), and a closure the LEFT allocates early can be pinned
  (`SRel.allocClosureLeftPinned`: content known, related to nothing through arbitrary related code) and later
  matched with the closure the right allocates (`SRel.matchClosureRight`, `le_late`) — "moving an allocation".
  Worked instance: `Rules/FunctionToAssignHeapV.lean` (`convert_function_to_assignment`, every program).
* ready-made links (`HeapV/VSteps.lean`): `VkB.dropLocal` / `VkRep.dropLocal` / `VkB.addLocal` (initialisers
  that only allocate: `AllocPureEs`, syntactic check `Expr.allocPureAll` + `allocPureAll_sound`),
  `VkB.dropLocalFn` / `VkRep.dropLocalFn`, `VkE.ofEq` … (exact steps); generic leaves `VR.genS` … with the
  exported compatibility lemmas `SoundE.bin`, `SoundS.localAssign`, … and `reflE` ….
* `HooksExact.toV` — exactly sound hooks that introduce no new references are stage-4 hooks.
* This development has no context (`Cx`): no watched globals, no up-to-timeout, no pins; those live in
  stage 3 (`VisitorSoundHeap.lean`), which renumbers cells only. Passes of the two kinds can be chained at
  the level of outcomes.
-/
namespace DarkluaModel
open Sem Sem.HeapV

macro "hook_id_v" : tactic =>
  `(tactic| (intros; first | exact Chain.refl _ | exact ⟨Chain.refl _, Chain.refl _⟩ | rfl))

/-- every hook rewrites a node by a chain of `VR` links (see `HeapV/VLinks.lean`); identity hooks are
discharged by default -/
structure HooksV {σ : Type} (P : Processor σ) : Prop where
  expr : ∀ e s, Chain VkE e (P.expr e s).1 := by hook_id_v
  pref : ∀ e s, Chain VkE e (P.pref e s).1 := by hook_id_v
  target : ∀ e s, Chain VkT e (P.target e s).1 := by hook_id_v
  node : ∀ e s, Chain VkE e (P.node e s).1 ∧ Chain VkT e (P.node e s).1 := by hook_id_v
  afterNode : ∀ e s, Chain VkE e (P.afterNode e s).1 ∧ Chain VkT e (P.afterNode e s).1 := by hook_id_v
  stmt : ∀ x s, Chain VkS x (P.stmt x s).1 := by hook_id_v
  stmtNode : ∀ x s, Chain VkS x (P.stmtNode x s).1 := by hook_id_v
  afterStmtNode : ∀ x s, Chain VkS x (P.afterStmtNode x s).1 := by hook_id_v
  last : ∀ x s, Chain VkL x (P.last x s).1 := by hook_id_v
  /-- block hooks see blocks whose final scope may still matter (`repeat` bodies): open links -/
  block : ∀ b s, Chain VkBo b (P.block b s).1 := by hook_id_v
  afterBlock : ∀ b s, Chain VkBo b (P.afterBlock b s).1 := by hook_id_v
  scopeB : ∀ b s, Chain VkB b (P.scope b none s).1.1 := by hook_id_v
  scopeR : ∀ b c s, Chain VkRep (b, c) ((P.scope b (some c) s).1.1, (P.scope b (some c) s).1.2.getD c) := by
    hook_id_v
  insert : ∀ n s, (P.insert n s).1 = n := by hook_id_v
  insertLocalName : ∀ n v s, (P.insertLocal n v s).1.1 = n := by hook_id_v
  insertLocalVal : ∀ n v s, Chain VkE v ((P.insertLocal n (some v) s).1.2.getD v) := by hook_id_v
  insertLocalFn : ∀ n s, (P.insertLocalFn n s).1 = n := by hook_id_v

variable {σ : Type} {P : Processor σ}

theorem HooksV.toRel (H : HooksV P) : HooksRel vFam P where
  expr := H.expr
  pref := H.pref
  target := H.target
  node := H.node
  afterNode := H.afterNode
  stmt := H.stmt
  stmtNode := H.stmtNode
  afterStmtNode := H.afterStmtNode
  last := H.last
  block := H.block
  afterBlock := H.afterBlock
  scopeB := H.scopeB
  scopeR := H.scopeR
  insert := H.insert
  insertLocalName := H.insertLocalName
  insertLocalVal := H.insertLocalVal
  insertLocalFn := H.insertLocalFn

theorem Sem.HeapV.wok_nil : WOK [] := fun _ h => by cases h
theorem Sem.HeapV.noRefB_nil (b : Block) : NoRefB [] b := fun _ h => by cases h

/-- **General form.** A chain of closed-block links between whole programs preserves the observable
outcome of a run from related initial states. -/
theorem Sem.HeapV.chain_runChunk {b b' : Block} (h : Chain VkB b b') {N : NumOps} (ρ : ExtOracle N)
    (hρ : OracleFlat ρ) (n : Nat) {β : Inj} {σ0 : State N} (hs : SRel VQ β σ0 σ0) :
    observe (runChunk ρ n b' σ0) = observe (runChunk ρ n b σ0) := by
  induction h with
  | refl => rfl
  | @cons a m c hl _ ih =>
    obtain ⟨⟨D', hvr⟩, _⟩ := hl [] wok_nil (noRefB_nil a)
    exact ih.trans (runChunk_vr ρ hρ n hvr hs)

theorem Sem.HeapV.chain_runProgram {b b' : Block} (h : Chain VkB b b') {N : NumOps} (ρ : ExtOracle N)
    (hρ : OracleFlat ρ) (n : Nat) (externs : List String) :
    runProgram ρ n externs b' = runProgram ρ n externs b :=
  chain_runChunk h ρ hρ n (SRel.init VQ externs)

theorem Visitor.visit_chain_v (H : HooksV P) (sc : Bool) (fuel : Nat) (pushes : Bool) (b : Block) (s : σ) :
    Chain VkB b (Visitor.visitBlock P sc fuel pushes b s).1 :=
  Visitor.visit_rel (C := vFam) H.toRel sc fuel pushes b s

/-- **Stage 4 lifting theorem.** Hooks that rewrite by `VR` links ⇒ the visited program has the same
observable outcome, for every program and every flat oracle. -/
theorem Visitor.visit_v (H : HooksV P) (sc : Bool) (fuel : Nat) (pushes : Bool) (b : Block) (s : σ)
    {N : NumOps} (ρ : ExtOracle N) (hρ : OracleFlat ρ) (n : Nat) (externs : List String) :
    runProgram ρ n externs (Visitor.visitBlock P sc fuel pushes b s).1 = runProgram ρ n externs b :=
  chain_runProgram (Visitor.visit_chain_v H sc fuel pushes b s) ρ hρ n externs

theorem Visitor.runDefault_v (H : HooksV P) (b : Block) (s : σ) {N : NumOps} (ρ : ExtOracle N) (hρ : OracleFlat ρ)
    (n : Nat) (externs : List String) :
    runProgram ρ n externs (Visitor.runDefault P b s).1 = runProgram ρ n externs b :=
  Visitor.visit_v H false _ true b s ρ hρ n externs

theorem Visitor.runScoped_v (H : HooksV P) (b : Block) (s : σ) {N : NumOps} (ρ : ExtOracle N) (hρ : OracleFlat ρ)
    (n : Nat) (externs : List String) :
    runProgram ρ n externs (Visitor.runScoped P b s).1 = runProgram ρ n externs b :=
  Visitor.visit_v H true _ true b s ρ hρ n externs

/-! ### at the oracle of the harness (`Shared.driverOracle`) no hypothesis is left (`driverOracle_flat`) -/

theorem Sem.HeapV.chain_runProgram_driver {b b' : Block} (h : Chain VkB b b') (n : Nat) (externs : List String) :
    runProgram Shared.driverOracle n externs b' = runProgram Shared.driverOracle n externs b :=
  chain_runProgram h _ driverOracle_flat n externs

theorem Visitor.runDefault_v_driver (H : HooksV P) (b : Block) (s : σ) (n : Nat) (externs : List String) :
    runProgram Shared.driverOracle n externs (Visitor.runDefault P b s).1 = runProgram Shared.driverOracle n externs b :=
  Visitor.runDefault_v H b s _ driverOracle_flat n externs

theorem Visitor.runScoped_v_driver (H : HooksV P) (b : Block) (s : σ) (n : Nat) (externs : List String) :
    runProgram Shared.driverOracle n externs (Visitor.runScoped P b s).1 = runProgram Shared.driverOracle n externs b :=
  Visitor.runScoped_v H b s _ driverOracle_flat n externs

/-! ### exact hooks are stage-4 hooks when they introduce no identifier references -/

theorem HooksExact.toV (H : HooksExact P) (F : HooksNoRef P) : HooksV P where
  expr := fun e s => .single (.ofEq (H.expr e s) (fun D _ => F.expr e s D))
  pref := fun e s => .single (.ofEq (H.pref e s) (fun D _ => F.pref e s D))
  target := fun e s => .single (.ofEq (H.target e s) (fun D _ => F.target e s D))
  node := fun e s =>
    ⟨.single (.ofEq (H.node e s).1 (fun D _ => F.node e s D)), .single (.ofEq (H.node e s).2 (fun D _ => F.nodeT e s D))⟩
  afterNode := fun e s =>
    ⟨.single (.ofEq (H.afterNode e s).1 (fun D _ => F.afterNode e s D)),
      .single (.ofEq (H.afterNode e s).2 (fun D _ => F.afterNodeT e s D))⟩
  stmt := fun e s => .single (.ofEq (H.stmt e s) (fun D _ => F.stmt e s D))
  stmtNode := fun e s => .single (.ofEq (H.stmtNode e s) (fun D _ => F.stmtNode e s D))
  afterStmtNode := fun e s => .single (.ofEq (H.afterStmtNode e s) (fun D _ => F.afterStmtNode e s D))
  last := fun e s => .single (.ofEq (H.last e s) (fun D _ => F.last e s D))
  block := fun e s => .single (.ofEq (H.block e s) (fun D _ => F.block e s D))
  afterBlock := fun e s => .single (.ofEq (H.afterBlock e s) (fun D _ => F.afterBlock e s D))
  scopeB := fun b s => .single (VkBo.ofEq (H.scopeB b none s) (fun D _ => F.scopeB b none s D)).toB
  scopeR := fun b c s => .single fun D _ hnb hnc =>
    ⟨.rep (.stepB (H.scopeB b (some c) s) (.reflB (F.scopeB b (some c) s D hnb)))
        (.stepE (H.scopeC b c s) (.reflE (F.scopeC b c s D hnc))),
      F.scopeB b (some c) s D hnb, F.scopeC b c s D hnc⟩
  insert := H.insert
  insertLocalName := H.insertLocalName
  insertLocalVal := fun n v s => .single (.ofEq (H.insertLocalVal n v s) (fun D _ => F.insertLocalVal n v s D))
  insertLocalFn := H.insertLocalFn

/-! ## Worked instance: dropping an unused `local x = <allocation>` (scope hook, as `remove_unused_variable`)

As `Demo.DropUnusedLocal`, but the dropped initialisers may be table constructors and function
expressions (`Expr.allocPureAll`): the dropped allocations renumber every later table / closure / cell. -/
namespace Demo.DropUnusedAlloc
open Sem.Heap (tailRefs)

def dropIn (cr : String → Bool) (last : Option Last) : List Stmt → List Stmt
  | [] => []
  | .localAssign k ns vs :: rest =>
    if Expr.allocPureAll vs && (ns.map TName.name).all (fun n => !tailRefs n rest last && !cr n) then rest
    else .localAssign k ns vs :: dropIn cr last rest
  | s :: rest => s :: dropIn cr last rest

def scopeHook (b : Block) (c : Option Expr) (s : Unit) : (Block × Option Expr) × Unit :=
  match b with
  | .mk ss last => ((.mk (dropIn (fun n => match c with | some e => e.refs (.ref n) | none => false) last ss) last, c), s)

def processor : Processor Unit := { scope := scopeHook }

theorem dropIn_spec (cr : String → Bool) (last : Option Last) (ss : List Stmt) :
    dropIn cr last ss = ss ∨
    ∃ pre k ns vs rest, ss = pre ++ .localAssign k ns vs :: rest ∧ dropIn cr last ss = pre ++ rest ∧
      Expr.allocPureAll vs = true ∧ (∀ n ∈ ns.map TName.name, tailRefs n rest last = false ∧ cr n = false) := by
  induction ss with
  | nil => exact .inl rfl
  | cons s rest ih =>
    have step : ∀ s', dropIn cr last (s' :: rest) = s' :: dropIn cr last rest →
        (dropIn cr last (s' :: rest) = s' :: rest ∨
          ∃ pre k ns vs rest', s' :: rest = pre ++ .localAssign k ns vs :: rest' ∧
            dropIn cr last (s' :: rest) = pre ++ rest' ∧ Expr.allocPureAll vs = true ∧
            (∀ n ∈ ns.map TName.name, tailRefs n rest' last = false ∧ cr n = false)) := by
      intro s' hs'
      rcases ih with h | ⟨pre, k, ns, vs, rest', h1, h2, h3, h4⟩
      · exact .inl (by rw [hs', h])
      · exact .inr ⟨s' :: pre, k, ns, vs, rest', by rw [h1]; rfl, by rw [hs', h2]; rfl, h3, h4⟩
    cases s with
    | localAssign k ns vs =>
      by_cases hc : (Expr.allocPureAll vs && (ns.map TName.name).all (fun n => !tailRefs n rest last && !cr n)) = true
      · right
        refine ⟨[], k, ns, vs, rest, rfl, by simp only [dropIn, hc, if_true, List.nil_append], ?_, ?_⟩
        · simp only [Bool.and_eq_true] at hc; exact hc.1
        · simp only [Bool.and_eq_true, List.all_eq_true, Bool.not_eq_true'] at hc
          exact fun n hn => hc.2 n hn
      · exact step _ (by simp only [dropIn, hc, Bool.false_eq_true, if_false])
    | _ => exact step _ (by simp only [dropIn])

theorem hooksV : HooksV processor where
  scopeB := fun b s => by
    cases b with
    | mk ss last =>
      simp only [processor, scopeHook]
      rcases dropIn_spec (fun _ => false) last ss with h | ⟨pre, k, ns, vs, rest, h1, h2, h3, h4⟩
      · rw [h]; exact .refl _
      · rw [h2, h1]
        exact .single (VkB.dropLocal (allocPureAll_sound vs h3) fun n hn => (h4 n hn).1)
  scopeR := fun b c s => by
    cases b with
    | mk ss last =>
      simp only [processor, scopeHook, Option.getD]
      rcases dropIn_spec (fun n => c.refs (.ref n)) last ss with h | ⟨pre, k, ns, vs, rest, h1, h2, h3, h4⟩
      · rw [h]; exact .refl _
      · rw [h2, h1]
        exact .single (VkRep.dropLocal (allocPureAll_sound vs h3) (fun n hn => (h4 n hn).1) (fun n hn => (h4 n hn).2))

/-- **whole-pass theorem**, for every program and every oracle returning no heap references -/
theorem run_refines (b : Block) {N : NumOps} (ρ : ExtOracle N) (hρ : OracleFlat ρ) (n : Nat) (externs : List String) :
    runProgram ρ n externs (Visitor.runScoped processor b ()).1 = runProgram ρ n externs b :=
  Visitor.runScoped_v hooksV b () ρ hρ n externs

/-- non-vacuity: `local function g(a) local cache = {a, n = 1}; local cb = function() end; local y = {}; emit(y) end; g(2)` -/
def sample : Block :=
  .mk [.localFn .loc "g" (.mk [.mk "a" none] false none none [] []
         (.mk [.localAssign .loc [.mk "cache" none] [.table [.pos (.var "a"), .named "n" (.num 1)]],
               .localAssign .loc [.mk "cb" none] [.fn (.mk [] false none none [] [] (.mk [] none))],
               .localAssign .loc [.mk "y" none] [.table []],
               .callStmt (.call (.var "emit") none .tuple [.var "y"])] none)),
       .callStmt (.call (.var "g") none .tuple [.num 2])] none

example : (Visitor.runScoped processor sample ()).1 =
    .mk [.localFn .loc "g" (.mk [.mk "a" none] false none none [] []
           (.mk [.localAssign .loc [.mk "cb" none] [.fn (.mk [] false none none [] [] (.mk [] none))],
                 .localAssign .loc [.mk "y" none] [.table []],
                 .callStmt (.call (.var "emit") none .tuple [.var "y"])] none)),
         .callStmt (.call (.var "g") none .tuple [.num 2])] none := rfl

end Demo.DropUnusedAlloc

end DarkluaModel
