import DarkluaModel.Shared.Sem
/-!
The executable instance of `NumOps`: IEEE-754 doubles (`Float`). Driver/oracle code: no
theorem mentions it (theorems quantify over every `NumOps`). `%.14g` formatting and
decimal → double conversion are done exactly, with `Nat` arithmetic.
-/
namespace DarkluaModel

/-- exact value of a finite positive double as `m * 2^e` -/
def floatDecompose (x : Float) : Nat × Int :=
  let bits := x.toBits.toNat
  let frac := bits % 2 ^ 52
  let ex : Nat := (bits / 2 ^ 52) % 2048
  if ex == 0 then (frac, -1074) else (frac + 2 ^ 52, (ex : Int) - 1075)

def pow10 (n : Nat) : Nat := 10 ^ n

/-- digits of `n` in base 10 as bytes -/
def natDigits (n : Nat) : List UInt8 := (toString n).toUTF8.toList

def stripTrailingZeros (ds : List UInt8) : List UInt8 :=
  (ds.reverse.dropWhile (· == 48)).reverse

/-- `%.14g` for a positive finite rational `num/den`: returns the text -/
def fmtG14Pos (num den : Nat) : List UInt8 :=
  -- find X with 10^X ≤ num/den < 10^(X+1)
  let approx : Int := ((Nat.log2 num : Int) - (Nat.log2 den : Int)) * 30103 / 100000
  let ge (x : Int) : Bool :=   -- num/den ≥ 10^x
    if x ≥ 0 then num ≥ den * pow10 x.toNat else num * pow10 (-x).toNat ≥ den
  let x0 := approx - 2
  -- at most 5 upward steps are ever needed
  let x1 := (List.range 6).foldl (fun x _ => if ge (x + 1) then x + 1 else x) x0
  -- q = round(num/den / 10^(x1-13)) half-even
  let scale : Int := x1 - 13
  let (n2, d2) := if scale ≥ 0 then (num, den * pow10 scale.toNat) else (num * pow10 (-scale).toNat, den)
  let q0 := n2 / d2
  let r := n2 % d2
  let q1 := if 2 * r > d2 then q0 + 1 else if 2 * r == d2 then (if q0 % 2 == 1 then q0 + 1 else q0) else q0
  let (q, x) := if q1 ≥ pow10 14 then (q1 / 10, x1 + 1) else (q1, x1)
  let ds := natDigits q   -- exactly 14 digits
  if x < -4 || x ≥ 14 then
    let mant := stripTrailingZeros ds
    let m := match mant with
      | [] => [48]
      | [d] => [d]
      | d :: rest => d :: 46 :: rest
    let ex := natDigits x.natAbs
    let ex := if ex.length < 2 then 48 :: ex else ex
    m ++ [101, (if x < 0 then 45 else 43)] ++ ex
  else if x ≥ 0 then
    let intPart := ds.take (x.toNat + 1)
    let frac := stripTrailingZeros (ds.drop (x.toNat + 1))
    if frac.isEmpty then intPart else intPart ++ [46] ++ frac
  else
    let zeros := List.replicate ((-x).toNat - 1) (48 : UInt8)
    let frac := stripTrailingZeros (zeros ++ ds)
    [48, 46] ++ frac

def floatToStr (x : Float) : List UInt8 :=
  if x.isNaN then "nan".toUTF8.toList
  else if x == 0.0 then (if x.toBits ≥ 2 ^ 63 then "-0" else "0").toUTF8.toList
  else
    let neg := x < 0.0
    let ax := if neg then -x else x
    let body :=
      if ax.isInf then "inf".toUTF8.toList
      else
        let (m, e) := floatDecompose ax
        if e ≥ 0 then fmtG14Pos (m * 2 ^ e.toNat) 1 else fmtG14Pos m (2 ^ (-e).toNat)
    if neg then 45 :: body else body

/-- nearest double (ties to even) to the positive rational `num/den` -/
def ratToFloat (num den : Nat) : Float :=
  if num == 0 then 0.0 else
  -- choose s so that q = num*2^s/den (or num/(den*2^-s)) has 55..56 bits
  let lb : Int := (Nat.log2 num : Int) - (Nat.log2 den : Int)
  let s : Int := 55 - lb
  let (n2, d2) := if s ≥ 0 then (num * 2 ^ s.toNat, den) else (num, den * 2 ^ (-s).toNat)
  let q := n2 / d2
  let sticky := n2 % d2 != 0
  -- value = q * 2^(-s), q has 55 or 56 bits; binary exponent of the leading bit:
  let qb := Nat.log2 q
  let e : Int := (qb : Int) - s          -- value in [2^e, 2^(e+1))
  -- number of mantissa bits available: 53 for normal, fewer for subnormal
  let keep : Int := if e ≥ -1022 then 53 else 53 - (-1022 - e)
  if keep < 0 then 0.0 else
  let drop : Nat := (qb + 1 - keep.toNat)
  let m0 := q / 2 ^ drop
  let rem := q % 2 ^ drop
  let half := 2 ^ (drop - 1)
  let up := if drop == 0 then false
    else if rem > half then true
    else if rem == half then (sticky || m0 % 2 == 1)
    else false
  let m := if up then m0 + 1 else m0
  -- value = m * 2^(e - keep + 1)
  let ex2 : Int := e - keep + 1
  -- assemble: let Lean do the (exact) scaling
  let f := Float.ofNat m
  if ex2 ≥ 0 then f * Float.ofBits (UInt64.ofNat ((1023 + (if ex2 > 1000 then 1000 else ex2.toNat)) * 2 ^ 52))
       * (if ex2 > 1000 then Float.ofBits (UInt64.ofNat ((1023 + (ex2.toNat - 1000)) * 2 ^ 52)) else 1.0)
  else
    -- divide in two exact steps to avoid intermediate underflow
    let a := (-ex2).toNat
    let a1 := if a > 1000 then 1000 else a
    let a2 := a - a1
    f / Float.ofBits (UInt64.ofNat ((1023 + a1) * 2 ^ 52)) / Float.ofBits (UInt64.ofNat ((1023 + a2) * 2 ^ 52))

def isSpaceB (b : UInt8) : Bool := b == 32 || (9 ≤ b && b ≤ 13)
def isDigitB (b : UInt8) : Bool := 48 ≤ b && b ≤ 57

def hexValB? (b : UInt8) : Option Nat :=
  if 48 ≤ b && b ≤ 57 then some (b.toNat - 48)
  else if 97 ≤ b && b ≤ 102 then some (b.toNat - 87)
  else if 65 ≤ b && b ≤ 70 then some (b.toNat - 55)
  else none

/-- Lua's string → number coercion: optional spaces, sign, decimal with fraction/exponent or
hex integer, optional trailing spaces -/
def strToFloat? (s : List UInt8) : Option Float :=
  let s := s.dropWhile isSpaceB
  let s := (s.reverse.dropWhile isSpaceB).reverse
  let (neg, s) := match s with
    | 45 :: r => (true, r)
    | 43 :: r => (false, r)
    | r => (false, r)
  let sign (f : Float) : Float := if neg then -f else f
  match s with
  | 48 :: x :: rest =>
    if (x == 120 || x == 88) then
      if rest.isEmpty then none else
      (rest.foldlM (fun acc b => (hexValB? b).map (acc * 16 + ·)) 0).map fun n => sign (ratToFloat n 1)
    else decimal sign s
  | _ => decimal sign s
where
  decimal (sign : Float → Float) (s : List UInt8) : Option Float :=
    let intDs := s.takeWhile isDigitB
    let r1 := s.dropWhile isDigitB
    let (fracDs, r2) := match r1 with
      | 46 :: r => (r.takeWhile isDigitB, r.dropWhile isDigitB)
      | r => ([], r)
    if intDs.isEmpty && fracDs.isEmpty then none else
    let expPart : Option Int := match r2 with
      | [] => some 0
      | e :: r =>
        if e == 101 || e == 69 then
          let (eneg, r) := match r with
            | 45 :: r' => (true, r')
            | 43 :: r' => (false, r')
            | r' => (false, r')
          if r.isEmpty || !r.all isDigitB then none
          else
            let v : Nat := r.foldl (fun acc b => acc * 10 + (b.toNat - 48)) 0
            some (if eneg then -(v : Int) else (v : Int))
        else none
    match expPart with
    | none => none
    | some ex =>
      let digits := (intDs ++ fracDs).foldl (fun acc b => acc * 10 + (b.toNat - 48)) 0
      let e10 : Int := ex - (fracDs.length : Int)
      -- clamp absurd exponents (results are 0 or inf anyway)
      if digits == 0 then some (sign 0.0)
      else if e10 > 400 then some (sign (1.0 / 0.0))
      else if e10 < -800 then some (sign 0.0)
      else if e10 ≥ 0 then some (sign (ratToFloat (digits * 10 ^ e10.toNat) 1))
      else some (sign (ratToFloat digits (10 ^ (-e10).toNat)))

def floatToNat? (x : Float) : Option Nat :=
  if x.isNaN || x.isInf || x < 0.0 || x != x.floor || x ≥ 9007199254740992.0 then none
  else some x.toUInt64.toNat

def floatOps : NumOps where
  F := Float
  ofBits := Float.ofBits
  toBits := Float.toBits
  add := (· + ·)
  sub := (· - ·)
  mul := (· * ·)
  div := (· / ·)
  mod := fun a b => a - (a / b).floor * b
  pow := Float.pow
  idiv := fun a b => (a / b).floor
  neg := fun a => -a
  lt := fun a b => a < b
  le := fun a b => a ≤ b
  eq := fun a b => a == b
  isNaN := Float.isNaN
  ofNat := Float.ofNat
  toNat? := floatToNat?
  toStr := floatToStr
  ofStr := strToFloat?
  floor := Float.floor
  sqrt := Float.sqrt

end DarkluaModel
