import DarkluaModel.Shared.AstSexp
import DarkluaModel.Shared.FloatOps
import DarkluaModel.Shared.Run
/-! Line-protocol ops of the shared reference semantics: `sem.run <level> <externs> <block>` -/
namespace DarkluaModel.Shared
open Sem

partial def cvalToSexp : CVal → Sexp
  | .nil => .atom "nil"
  | .bool b => Sexp.ofBool b
  | .num bits => .atom ("f" ++ natToHex16 bits.toNat)
  | .str s => .atom (bytesToHex s)
  | .tbl es =>
    -- canonical order: sort entries by the text of their key
    let items := es.map fun (k, v) => ((cvalToSexp k).toString, Sexp.list [cvalToSexp k, cvalToSexp v])
    let sorted := items.toArray.qsort (fun a b => a.1 < b.1) |>.toList
    .list (.atom "tbl" :: sorted.map (·.2))
  | .fn => .atom "fn"
  | .builtin n => .list [.atom "builtin", nameToSexp n]
  | .cut => .atom "cut"

def eventToSexp (e : Event) : Sexp := .list (nameToSexp e.name :: e.args.map cvalToSexp)

def outcomeToSexp : Outcome → Sexp
  | .returned vs tr => .list [.atom "ok", .list (vs.map cvalToSexp), .list (tr.map eventToSexp)]
  | .raised v tr => .list [.atom "err", cvalToSexp v, .list (tr.map eventToSexp)]
  | .timeout => .atom "timeout"

/-- The oracle used by the driver: an external call returns nothing, except `id…` which
returns its arguments unchanged is not expressible on canonical values — so externals
whose name starts with `get` return the call counter as a number, all others nothing. -/
def driverOracle : ExtOracle floatOps := fun name k _ =>
  if name.startsWith "get" then [.num (Float.ofNat (k + 1))]
  else if name.startsWith "flag" then [.bool (k % 2 == 0)]
  else []

def handle (op : String) (args : List String) : String :=
  match op, Sexp.parseArgs args with
  | "run", some [level, .list ex, block] =>
    match level.nat?, ex.mapM nameOfSexp?, Block.ofSexp? block with
    | some n, some names, some b => (outcomeToSexp (runProgram driverOracle n names b)).toString
    | _, _, _ => "bad-request"
  | "echo", some [block] =>
    match Block.ofSexp? block with
    | some b => b.toSexp.toString
    | none => "error"
  | _, _ => "unknown-op " ++ op

end DarkluaModel.Shared
