import DarkluaModel.Shared.VisitorSound.HeapU.USteps
import DarkluaModel.Shared.VisitorSound.HeapU.UCtx
import DarkluaModel.Shared.VisitorSound.HeapU.USelf
import DarkluaModel.Shared.VisitorSound.HeapU.UOracle
import DarkluaModel.Shared.VisitorSound.HeapU.UDemoSub
import DarkluaModel.Shared.VisitorSound.HeapU.URepl
import DarkluaModel.Shared.VisitorSound.HeapU.UMatch
import DarkluaModel.Shared.VisitorSoundHeap
import DarkluaModel.Shared.VisitorSoundHeapV
/-!
# Stage 4, unified (`Sem.HeapU`): renumbering of cells, tables and closures + context + private heap invariants

Successor of `Shared/VisitorSoundHeapV.lean` (which stays as it is). Same development — values related through
three partial injections with frontiers, `VR` congruence closure, links, lifting through the visitor — plus:

* **a context parameter** `cx : HeapU.Cx`, threaded exactly like stage 3: `SRel Q cx β`, `RRel Q cx β`,
  `SoundE Q cx D`, `VR cx D`, `VkE cx`, `HooksU cx P`. Lemma APPLICATIONS look as in `HeapV` (cx is implicit).
  - `cx.upto`: results related up to budget exhaustion of the original (`RRel … .timeout _`, `LeE cx.upto` steps
    `VR.stepE`, `VkE.ofLe`); conclusions `… = .timeout ∨ … = …` (`runProgram_vr_upto`, `visit_u_upto`).
  - `cx.uptoR`: the mirror image — the REWRITTEN program may exhaust its budget where the original does not
    (rewrites that spend more budget levels: boxed reads, `tostring` instead of interpolation); a leaf returns
    `RRel.timeout_right`; conclusions `new = .timeout ∨ new = old` (`runProgram_vr_uptoR`, `visit_u_uptoR`,
    `runDefault_u_uptoR`, `runScoped_u_uptoR`). `upto` and `uptoR` cannot be chained together (not transitive):
    each family of theorems asks the other flag to be off.
  - `cx.CF N ρ k call`: an assumption on the call handler, the oracle and the level, available in every leaf as
    `hp.cf` (`POK`), asked of every level `callClosure ρ n` by the final theorems (default: trivial). This is where
    a CLASS OF NUMBER SYSTEMS lives (`CF := fun N _ _ _ => NOK N`), and where a leaf gets to unfold the call of a
    known closure (`CF := fun N ρ k call => k = 0 ∨ ∃ n, k = n + 1 ∧ call = callClosure ρ (n + 1)` …).
  - `cx.I N β σ σ'`: the CONSUMER'S HEAP INVARIANT, a relation between the private parts of the two heaps (tables
    of different shape kept in correspondence by designated closures, caches …). Part of every `SRel` (`hs.inv`).
    `cx.stable` (the consumer's obligation): `I` survives every step that leaves the PRIVATE cells / tables —
    below the frontier and related to nothing — untouched (`Frame β σ σ' s s'`) into any injection with more
    related pairs (`Inj.ext`). Every generic lemma satisfies `Frame` (that is the frame guarantee), so related code
    preserves `I`; a leaf that writes private objects uses `SRel.privSetTableR/L`, `SRel.privSetCellR/L` and
    re-establishes `I` itself. One-sided allocations (`SRel.allocTableRight`, …) followed by `SRel.bump` make the
    new object private.
* **`Inj N`** is indexed by the number system, so pins carry contents: `pinTR` / `pinCR` — one-sided RIGHT tables /
  cells with pinned content: `SRel.allocTableRightPinned`, `SRel.pinnedTR` (content, below the frontier, related to
  nothing — in every later `SRel`, extensions keep pins), `SRel.setPinnedTR` (the owner rewrites it: `rawSet`,
  `setMany` are `setTable`), `le_repinT` (from the injection at the ENTRY of the owner's step every re-pinned
  injection is an ordinary extension); likewise `…CR` for cells, and `…TL` / `…CL` on the LEFT
  (`SRel.allocTableLeftPinned`, `pinnedTL`, `setPinnedTL`, `le_repinTL`, …). Closure pins as in `HeapV`.
* plumbing for consumers that run one-sided preludes themselves: `SRel.rebase` (change context and closure-body
  relation while no closures are related — establish `cx.I` AFTER the preludes), `wrapCtl` / `observe_of_soundB`
  (outcome of two `SoundB`-related blocks from GIVEN environments and states).
* **watched names** (round 5; the `.wat` plumbing of stage 3, generalised): `cx.W` (names watched in every
  environment pair), `cx.G` / `cx.F` (value / function-body facts about watched GLOBALS, kept by every `SRel`:
  `hs.ginv`, `hs.finv`), `cx.bindL` / `cx.bindR` (the cell each side binds a watched name to; `EnvRel.wb`,
  `EnvOK.watL` / `watR` / `alwaysL` / `alwaysR`); `HeapU/UCtx.lean`: `SoundE.injectGlobal`, `CtxEq…` / `CtxLe…`,
  `IdGlobal`, `SoundE.dropIdCall` and their links. The final theorems take `hb : NoRefB (watD cx) b` (the program
  neither declares nor assigns an always-watched name), `hok`, `hW0 : cx.top`, `hG`, `hF` — all discharged by
  default for contexts that watch nothing. Worked instance: `Demo.DropAssertU`.
* **one source, two substitutions** (`HeapU/USub.lean`): leaves whose two sides mention ONE-SIDED names cannot travel
  through a chain of links (every intermediate program of a chain runs on both sides); `subB m true src` and
  `subB m false src` are related in one simultaneous derivation (`subB_vr`). Worked instance with an always-watched
  LOCAL established by a one-sided prelude and used inside closures: `Demo.WatchedLocal` (`HeapU/UDemoSub.lean`).
* statement lists (`HeapU/URepl.lean`, upstreamed from C01): `execSs_append`, `SoundSs.append`, `VkT.ofLe`, `ReplU` /
  `replU_sound` / `ReplListU` / `VkBo.repl` (a statement replaced, up to allocations, by a list of statements).
* late matches of CELLS (`HeapU/UMatch.lean`): `SRel.matchCellRight` / `matchCellLeft`, `le_lateC` / `le_lateCL`.
* NOT yet: an "original raises" flavour of `upto`; fuel monotonicity of `Sem`.
-/
namespace DarkluaModel
open Sem Sem.HeapU

macro "hook_id_u" : tactic =>
  `(tactic| (intros; first | exact Chain.refl _ | exact ⟨Chain.refl _, Chain.refl _⟩ | rfl))

/-- every hook rewrites a node by a chain of `VR cx` links; identity hooks are discharged by default -/
structure HooksU {σ : Type} (cx : HeapU.Cx) (P : Processor σ) : Prop where
  expr : ∀ e s, Chain (VkE cx) e (P.expr e s).1 := by hook_id_u
  pref : ∀ e s, Chain (VkE cx) e (P.pref e s).1 := by hook_id_u
  target : ∀ e s, Chain (VkT cx) e (P.target e s).1 := by hook_id_u
  node : ∀ e s, Chain (VkE cx) e (P.node e s).1 ∧ Chain (VkT cx) e (P.node e s).1 := by hook_id_u
  afterNode : ∀ e s, Chain (VkE cx) e (P.afterNode e s).1 ∧ Chain (VkT cx) e (P.afterNode e s).1 := by hook_id_u
  stmt : ∀ x s, Chain (VkS cx) x (P.stmt x s).1 := by hook_id_u
  stmtNode : ∀ x s, Chain (VkS cx) x (P.stmtNode x s).1 := by hook_id_u
  afterStmtNode : ∀ x s, Chain (VkS cx) x (P.afterStmtNode x s).1 := by hook_id_u
  last : ∀ x s, Chain (VkL cx) x (P.last x s).1 := by hook_id_u
  block : ∀ b s, Chain (VkBo cx) b (P.block b s).1 := by hook_id_u
  afterBlock : ∀ b s, Chain (VkBo cx) b (P.afterBlock b s).1 := by hook_id_u
  scopeB : ∀ b s, Chain (VkB cx) b (P.scope b none s).1.1 := by hook_id_u
  scopeR : ∀ b c s, Chain (VkRep cx) (b, c) ((P.scope b (some c) s).1.1, (P.scope b (some c) s).1.2.getD c) := by
    hook_id_u
  insert : ∀ n s, (P.insert n s).1 = n := by hook_id_u
  insertLocalName : ∀ n v s, (P.insertLocal n v s).1.1 = n := by hook_id_u
  insertLocalVal : ∀ n v s, Chain (VkE cx) v ((P.insertLocal n (some v) s).1.2.getD v) := by hook_id_u
  insertLocalFn : ∀ n s, (P.insertLocalFn n s).1 = n := by hook_id_u

variable {σ : Type} {P : Processor σ} {cx : HeapU.Cx}

theorem HooksU.toRel (H : HooksU cx P) : HooksRel (vFam cx) P where
  expr := H.expr
  pref := H.pref
  target := H.target
  node := H.node
  afterNode := H.afterNode
  stmt := H.stmt
  stmtNode := H.stmtNode
  afterStmtNode := H.afterStmtNode
  last := H.last
  block := H.block
  afterBlock := H.afterBlock
  scopeB := H.scopeB
  scopeR := H.scopeR
  insert := H.insert
  insertLocalName := H.insertLocalName
  insertLocalVal := H.insertLocalVal
  insertLocalFn := H.insertLocalFn

theorem Sem.HeapU.watOK_watD (cx : HeapU.Cx) (hok : cx.Dok (watD cx)) : WatOK cx (watD cx) :=
  ⟨fun n hn => by
    obtain ⟨m, hm, e⟩ := List.mem_map.mp hn
    cases e
    exact .inl hm, hok⟩
theorem Sem.HeapU.noRefB_nil (b : Block) : NoRefB [] b := fun _ h => by cases h

/-- the default proof of `NoRefB (watD cx) b` / `cx.Dok (watD cx)`: contexts that watch nothing -/
macro "nowat_tac" : tactic => `(tactic| first | trivial | (intro _ h; cases h))

/-- **General form.** A chain of closed-block links between whole programs preserves the observable outcome of a
run from a self-related initial state — or (only when `cx.upto`) the original exhausts its budget. -/
theorem Sem.HeapU.chain_runChunk' {b b' : Block} (h : Chain (VkB cx) b b') {N : NumOps} (ρ : ExtOracle N)
    (hρ : OracleFlat ρ) (hCF : ∀ n, cx.CF N ρ n (callClosure ρ n)) (n : Nat) {β : Inj N} {σ0 : State N}
    (hs : SRel (VQ cx) cx β σ0 σ0) (hur : cx.uptoR = false := by rfl)
    (hb : NoRefB (watD cx) b := by nowat_tac) (hok : cx.Dok (watD cx) := by nowat_tac)
    (hW0 : cx.top := by top_tac) :
    (cx.upto = true ∧ observe (runChunk ρ n b σ0) = .timeout) ∨
      observe (runChunk ρ n b' σ0) = observe (runChunk ρ n b σ0) := by
  induction h with
  | refl => exact .inr rfl
  | @cons a m c hl _ ih =>
    obtain ⟨⟨D', hvr⟩, hm⟩ := hl (watD cx) (watOK_watD cx hok) hb
    rcases runChunk_vr' ρ hρ hCF n hvr hs hur hW0 with h1 | h1
    · exact .inl h1
    · rcases ih hm with h2 | h2
      · exact .inl ⟨h2.1, by rw [← h1]; exact h2.2⟩
      · exact .inr (h2.trans h1)

/-- the mirror image (contexts with `uptoR`, without `upto`): same outcome unless the REWRITTEN program exhausts
its budget -/
theorem Sem.HeapU.chain_runChunkR {b b' : Block} (h : Chain (VkB cx) b b') {N : NumOps} (ρ : ExtOracle N)
    (hρ : OracleFlat ρ) (hCF : ∀ n, cx.CF N ρ n (callClosure ρ n)) (n : Nat) {β : Inj N} {σ0 : State N}
    (hs : SRel (VQ cx) cx β σ0 σ0) (hu : cx.upto = false := by rfl)
    (hb : NoRefB (watD cx) b := by nowat_tac) (hok : cx.Dok (watD cx) := by nowat_tac)
    (hW0 : cx.top := by top_tac) :
    observe (runChunk ρ n b' σ0) = .timeout ∨ observe (runChunk ρ n b' σ0) = observe (runChunk ρ n b σ0) := by
  induction h with
  | refl => exact .inr rfl
  | @cons a m c hl _ ih =>
    obtain ⟨⟨D', hvr⟩, hm⟩ := hl (watD cx) (watOK_watD cx hok) hb
    rcases ih hm with h2 | h2
    · exact .inl h2
    · rcases runChunk_vrR ρ hρ hCF n hvr hs hu hW0 with h1 | h1
      · exact .inl (h2.trans h1)
      · exact .inr (h2.trans h1)

theorem Sem.HeapU.chain_runProgram {b b' : Block} (h : Chain (VkB cx) b b') {N : NumOps} (ρ : ExtOracle N)
    (hρ : OracleFlat ρ) (n : Nat) (externs : List String)
    (hI : cx.I N initRel (initState externs : State N) (initState externs) := by trivial)
    (hu : cx.upto = false := by rfl) (hCF : ∀ n, cx.CF N ρ n (callClosure ρ n) := by intros; trivial)
    (hur : cx.uptoR = false := by rfl)
    (hb : NoRefB (watD cx) b := by nowat_tac) (hok : cx.Dok (watD cx) := by nowat_tac)
    (hW0 : cx.top := by top_tac)
    (hG : ∀ p ∈ cx.G N, (initState externs : State N).getGlobal p.1 = p.2 := by nowat_tac)
    (hF : ∀ p ∈ cx.F, FnGlobal (initState externs : State N) p.1 p.2 := by nowat_tac) :
    runProgram ρ n externs b' = runProgram ρ n externs b := by
  rcases chain_runChunk' h ρ hρ hCF n (SRel.init (VQ cx) externs hI hG hF) hur hb hok hW0 with ⟨h1, _⟩ | h2
  · rw [hu] at h1; cases h1
  · exact h2

theorem Sem.HeapU.chain_runProgram_upto {b b' : Block} (h : Chain (VkB cx) b b') {N : NumOps} (ρ : ExtOracle N)
    (hρ : OracleFlat ρ) (n : Nat) (externs : List String)
    (hI : cx.I N initRel (initState externs : State N) (initState externs) := by trivial)
    (hCF : ∀ n, cx.CF N ρ n (callClosure ρ n) := by intros; trivial) (hur : cx.uptoR = false := by rfl)
    (hb : NoRefB (watD cx) b := by nowat_tac) (hok : cx.Dok (watD cx) := by nowat_tac)
    (hW0 : cx.top := by top_tac)
    (hG : ∀ p ∈ cx.G N, (initState externs : State N).getGlobal p.1 = p.2 := by nowat_tac)
    (hF : ∀ p ∈ cx.F, FnGlobal (initState externs : State N) p.1 p.2 := by nowat_tac) :
    runProgram ρ n externs b = .timeout ∨ runProgram ρ n externs b' = runProgram ρ n externs b := by
  rcases chain_runChunk' h ρ hρ hCF n (SRel.init (VQ cx) externs hI hG hF) hur hb hok hW0 with ⟨_, h1⟩ | h2
  · exact .inl h1
  · exact .inr h2

theorem Sem.HeapU.chain_runProgram_uptoR {b b' : Block} (h : Chain (VkB cx) b b') {N : NumOps} (ρ : ExtOracle N)
    (hρ : OracleFlat ρ) (n : Nat) (externs : List String)
    (hI : cx.I N initRel (initState externs : State N) (initState externs) := by trivial)
    (hCF : ∀ n, cx.CF N ρ n (callClosure ρ n) := by intros; trivial) (hu : cx.upto = false := by rfl)
    (hb : NoRefB (watD cx) b := by nowat_tac) (hok : cx.Dok (watD cx) := by nowat_tac)
    (hW0 : cx.top := by top_tac)
    (hG : ∀ p ∈ cx.G N, (initState externs : State N).getGlobal p.1 = p.2 := by nowat_tac)
    (hF : ∀ p ∈ cx.F, FnGlobal (initState externs : State N) p.1 p.2 := by nowat_tac) :
    runProgram ρ n externs b' = .timeout ∨ runProgram ρ n externs b' = runProgram ρ n externs b :=
  chain_runChunkR h ρ hρ hCF n (SRel.init (VQ cx) externs hI hG hF) hu hb hok hW0

/-- from any well-formed initial state in which the consumer's invariant holds -/
theorem Sem.HeapU.chain_runChunk_wf {b b' : Block} (h : Chain (VkB cx) b b') {N : NumOps} (ρ : ExtOracle N)
    (hρ : OracleFlat ρ) (hCF : ∀ n, cx.CF N ρ n (callClosure ρ n)) (n : Nat) {σ0 : State N} (hwf : State.WF σ0)
    (hI : cx.I N (idRel σ0) σ0 σ0) (hur : cx.uptoR = false := by rfl)
    (hb : NoRefB (watD cx) b := by nowat_tac) (hok : cx.Dok (watD cx) := by nowat_tac)
    (hW0 : cx.top := by top_tac)
    (hG : ∀ p ∈ cx.G N, σ0.getGlobal p.1 = p.2 := by nowat_tac)
    (hF : ∀ p ∈ cx.F, FnGlobal σ0 p.1 p.2 := by nowat_tac)
    (hcl : ∀ c ∈ σ0.closures, NoRefF (watD cx) c.body ∧ ∀ n ∈ cx.W,
        lookupAssoc n c.env = lookupAssoc n cx.bindL ∧ lookupAssoc n c.env = lookupAssoc n cx.bindR := by
      nowat_tac) :
    (cx.upto = true ∧ observe (runChunk ρ n b σ0) = .timeout) ∨
      observe (runChunk ρ n b' σ0) = observe (runChunk ρ n b σ0) :=
  chain_runChunk' h ρ hρ hCF n (SRel.ofWF VQ_refl hwf hI hG hF hcl) hur hb hok hW0

theorem Visitor.visit_chain_u (H : HooksU cx P) (sc : Bool) (fuel : Nat) (pushes : Bool) (b : Block) (s : σ) :
    Chain (VkB cx) b (Visitor.visitBlock P sc fuel pushes b s).1 :=
  Visitor.visit_rel (C := vFam cx) H.toRel sc fuel pushes b s

/-- **lifting theorem (exact contexts)** -/
theorem Visitor.visit_u (H : HooksU cx P) (sc : Bool) (fuel : Nat) (pushes : Bool) (b : Block) (s : σ)
    {N : NumOps} (ρ : ExtOracle N) (hρ : OracleFlat ρ) (n : Nat) (externs : List String)
    (hI : cx.I N initRel (initState externs : State N) (initState externs) := by trivial)
    (hu : cx.upto = false := by rfl) (hCF : ∀ n, cx.CF N ρ n (callClosure ρ n) := by intros; trivial)
    (hur : cx.uptoR = false := by rfl)
    (hb : NoRefB (watD cx) b := by nowat_tac) (hok : cx.Dok (watD cx) := by nowat_tac)
    (hW0 : cx.top := by top_tac)
    (hG : ∀ p ∈ cx.G N, (initState externs : State N).getGlobal p.1 = p.2 := by nowat_tac)
    (hF : ∀ p ∈ cx.F, FnGlobal (initState externs : State N) p.1 p.2 := by nowat_tac) :
    runProgram ρ n externs (Visitor.visitBlock P sc fuel pushes b s).1 = runProgram ρ n externs b :=
  chain_runProgram (Visitor.visit_chain_u H sc fuel pushes b s) ρ hρ n externs hI hu hCF hur hb hok hW0 hG hF

/-- **lifting theorem (up to budget exhaustion of the original)** -/
theorem Visitor.visit_u_upto (H : HooksU cx P) (sc : Bool) (fuel : Nat) (pushes : Bool) (b : Block) (s : σ)
    {N : NumOps} (ρ : ExtOracle N) (hρ : OracleFlat ρ) (n : Nat) (externs : List String)
    (hI : cx.I N initRel (initState externs : State N) (initState externs) := by trivial)
    (hCF : ∀ n, cx.CF N ρ n (callClosure ρ n) := by intros; trivial) (hur : cx.uptoR = false := by rfl)
    (hb : NoRefB (watD cx) b := by nowat_tac) (hok : cx.Dok (watD cx) := by nowat_tac)
    (hW0 : cx.top := by top_tac)
    (hG : ∀ p ∈ cx.G N, (initState externs : State N).getGlobal p.1 = p.2 := by nowat_tac)
    (hF : ∀ p ∈ cx.F, FnGlobal (initState externs : State N) p.1 p.2 := by nowat_tac) :
    runProgram ρ n externs b = .timeout ∨
      runProgram ρ n externs (Visitor.visitBlock P sc fuel pushes b s).1 = runProgram ρ n externs b :=
  chain_runProgram_upto (Visitor.visit_chain_u H sc fuel pushes b s) ρ hρ n externs hI hCF hur hb hok hW0 hG hF

/-- **lifting theorem (up to budget exhaustion of the REWRITTEN program, `cx.uptoR`)** -/
theorem Visitor.visit_u_uptoR (H : HooksU cx P) (sc : Bool) (fuel : Nat) (pushes : Bool) (b : Block) (s : σ)
    {N : NumOps} (ρ : ExtOracle N) (hρ : OracleFlat ρ) (n : Nat) (externs : List String)
    (hI : cx.I N initRel (initState externs : State N) (initState externs) := by trivial)
    (hCF : ∀ n, cx.CF N ρ n (callClosure ρ n) := by intros; trivial) (hu : cx.upto = false := by rfl)
    (hb : NoRefB (watD cx) b := by nowat_tac) (hok : cx.Dok (watD cx) := by nowat_tac)
    (hW0 : cx.top := by top_tac)
    (hG : ∀ p ∈ cx.G N, (initState externs : State N).getGlobal p.1 = p.2 := by nowat_tac)
    (hF : ∀ p ∈ cx.F, FnGlobal (initState externs : State N) p.1 p.2 := by nowat_tac) :
    runProgram ρ n externs (Visitor.visitBlock P sc fuel pushes b s).1 = .timeout ∨
      runProgram ρ n externs (Visitor.visitBlock P sc fuel pushes b s).1 = runProgram ρ n externs b :=
  chain_runProgram_uptoR (Visitor.visit_chain_u H sc fuel pushes b s) ρ hρ n externs hI hCF hu hb hok hW0 hG hF

theorem Visitor.runDefault_u_uptoR (H : HooksU cx P) (b : Block) (s : σ) {N : NumOps} (ρ : ExtOracle N)
    (hρ : OracleFlat ρ) (n : Nat) (externs : List String)
    (hI : cx.I N initRel (initState externs : State N) (initState externs) := by trivial)
    (hCF : ∀ n, cx.CF N ρ n (callClosure ρ n) := by intros; trivial) (hu : cx.upto = false := by rfl)
    (hb : NoRefB (watD cx) b := by nowat_tac) (hok : cx.Dok (watD cx) := by nowat_tac)
    (hW0 : cx.top := by top_tac)
    (hG : ∀ p ∈ cx.G N, (initState externs : State N).getGlobal p.1 = p.2 := by nowat_tac)
    (hF : ∀ p ∈ cx.F, FnGlobal (initState externs : State N) p.1 p.2 := by nowat_tac) :
    runProgram ρ n externs (Visitor.runDefault P b s).1 = .timeout ∨
      runProgram ρ n externs (Visitor.runDefault P b s).1 = runProgram ρ n externs b :=
  Visitor.visit_u_uptoR H false _ true b s ρ hρ n externs hI hCF hu hb hok hW0 hG hF

theorem Visitor.runScoped_u_uptoR (H : HooksU cx P) (b : Block) (s : σ) {N : NumOps} (ρ : ExtOracle N)
    (hρ : OracleFlat ρ) (n : Nat) (externs : List String)
    (hI : cx.I N initRel (initState externs : State N) (initState externs) := by trivial)
    (hCF : ∀ n, cx.CF N ρ n (callClosure ρ n) := by intros; trivial) (hu : cx.upto = false := by rfl)
    (hb : NoRefB (watD cx) b := by nowat_tac) (hok : cx.Dok (watD cx) := by nowat_tac)
    (hW0 : cx.top := by top_tac)
    (hG : ∀ p ∈ cx.G N, (initState externs : State N).getGlobal p.1 = p.2 := by nowat_tac)
    (hF : ∀ p ∈ cx.F, FnGlobal (initState externs : State N) p.1 p.2 := by nowat_tac) :
    runProgram ρ n externs (Visitor.runScoped P b s).1 = .timeout ∨
      runProgram ρ n externs (Visitor.runScoped P b s).1 = runProgram ρ n externs b :=
  Visitor.visit_u_uptoR H true _ true b s ρ hρ n externs hI hCF hu hb hok hW0 hG hF

theorem Visitor.runDefault_u (H : HooksU cx P) (b : Block) (s : σ) {N : NumOps} (ρ : ExtOracle N) (hρ : OracleFlat ρ)
    (n : Nat) (externs : List String)
    (hI : cx.I N initRel (initState externs : State N) (initState externs) := by trivial)
    (hu : cx.upto = false := by rfl) (hCF : ∀ n, cx.CF N ρ n (callClosure ρ n) := by intros; trivial)
    (hur : cx.uptoR = false := by rfl)
    (hb : NoRefB (watD cx) b := by nowat_tac) (hok : cx.Dok (watD cx) := by nowat_tac)
    (hW0 : cx.top := by top_tac)
    (hG : ∀ p ∈ cx.G N, (initState externs : State N).getGlobal p.1 = p.2 := by nowat_tac)
    (hF : ∀ p ∈ cx.F, FnGlobal (initState externs : State N) p.1 p.2 := by nowat_tac) :
    runProgram ρ n externs (Visitor.runDefault P b s).1 = runProgram ρ n externs b :=
  Visitor.visit_u H false _ true b s ρ hρ n externs hI hu hCF hur hb hok hW0 hG hF

theorem Visitor.runScoped_u (H : HooksU cx P) (b : Block) (s : σ) {N : NumOps} (ρ : ExtOracle N) (hρ : OracleFlat ρ)
    (n : Nat) (externs : List String)
    (hI : cx.I N initRel (initState externs : State N) (initState externs) := by trivial)
    (hu : cx.upto = false := by rfl) (hCF : ∀ n, cx.CF N ρ n (callClosure ρ n) := by intros; trivial)
    (hur : cx.uptoR = false := by rfl)
    (hb : NoRefB (watD cx) b := by nowat_tac) (hok : cx.Dok (watD cx) := by nowat_tac)
    (hW0 : cx.top := by top_tac)
    (hG : ∀ p ∈ cx.G N, (initState externs : State N).getGlobal p.1 = p.2 := by nowat_tac)
    (hF : ∀ p ∈ cx.F, FnGlobal (initState externs : State N) p.1 p.2 := by nowat_tac) :
    runProgram ρ n externs (Visitor.runScoped P b s).1 = runProgram ρ n externs b :=
  Visitor.visit_u H true _ true b s ρ hρ n externs hI hu hCF hur hb hok hW0 hG hF

theorem Visitor.runDefault_u_upto (H : HooksU cx P) (b : Block) (s : σ) {N : NumOps} (ρ : ExtOracle N)
    (hρ : OracleFlat ρ) (n : Nat) (externs : List String)
    (hI : cx.I N initRel (initState externs : State N) (initState externs) := by trivial)
    (hCF : ∀ n, cx.CF N ρ n (callClosure ρ n) := by intros; trivial) (hur : cx.uptoR = false := by rfl)
    (hb : NoRefB (watD cx) b := by nowat_tac) (hok : cx.Dok (watD cx) := by nowat_tac)
    (hW0 : cx.top := by top_tac)
    (hG : ∀ p ∈ cx.G N, (initState externs : State N).getGlobal p.1 = p.2 := by nowat_tac)
    (hF : ∀ p ∈ cx.F, FnGlobal (initState externs : State N) p.1 p.2 := by nowat_tac) :
    runProgram ρ n externs b = .timeout ∨
      runProgram ρ n externs (Visitor.runDefault P b s).1 = runProgram ρ n externs b :=
  Visitor.visit_u_upto H false _ true b s ρ hρ n externs hI hCF hur hb hok hW0 hG hF

theorem Visitor.runScoped_u_upto (H : HooksU cx P) (b : Block) (s : σ) {N : NumOps} (ρ : ExtOracle N)
    (hρ : OracleFlat ρ) (n : Nat) (externs : List String)
    (hI : cx.I N initRel (initState externs : State N) (initState externs) := by trivial)
    (hCF : ∀ n, cx.CF N ρ n (callClosure ρ n) := by intros; trivial) (hur : cx.uptoR = false := by rfl)
    (hb : NoRefB (watD cx) b := by nowat_tac) (hok : cx.Dok (watD cx) := by nowat_tac)
    (hW0 : cx.top := by top_tac)
    (hG : ∀ p ∈ cx.G N, (initState externs : State N).getGlobal p.1 = p.2 := by nowat_tac)
    (hF : ∀ p ∈ cx.F, FnGlobal (initState externs : State N) p.1 p.2 := by nowat_tac) :
    runProgram ρ n externs b = .timeout ∨
      runProgram ρ n externs (Visitor.runScoped P b s).1 = runProgram ρ n externs b :=
  Visitor.visit_u_upto H true _ true b s ρ hρ n externs hI hCF hur hb hok hW0 hG hF

/-! ### exact hooks are unified hooks when they introduce no identifier references -/

theorem HooksExact.toU (H : HooksExact P) (F : HooksNoRef P) : HooksU cx P where
  expr := fun e s => .single (.ofEq (H.expr e s) (fun D _ => F.expr e s D))
  pref := fun e s => .single (.ofEq (H.pref e s) (fun D _ => F.pref e s D))
  target := fun e s => .single (.ofEq (H.target e s) (fun D _ => F.target e s D))
  node := fun e s =>
    ⟨.single (.ofEq (H.node e s).1 (fun D _ => F.node e s D)), .single (.ofEq (H.node e s).2 (fun D _ => F.nodeT e s D))⟩
  afterNode := fun e s =>
    ⟨.single (.ofEq (H.afterNode e s).1 (fun D _ => F.afterNode e s D)),
      .single (.ofEq (H.afterNode e s).2 (fun D _ => F.afterNodeT e s D))⟩
  stmt := fun e s => .single (.ofEq (H.stmt e s) (fun D _ => F.stmt e s D))
  stmtNode := fun e s => .single (.ofEq (H.stmtNode e s) (fun D _ => F.stmtNode e s D))
  afterStmtNode := fun e s => .single (.ofEq (H.afterStmtNode e s) (fun D _ => F.afterStmtNode e s D))
  last := fun e s => .single (.ofEq (H.last e s) (fun D _ => F.last e s D))
  block := fun e s => .single (.ofEq (H.block e s) (fun D _ => F.block e s D))
  afterBlock := fun e s => .single (.ofEq (H.afterBlock e s) (fun D _ => F.afterBlock e s D))
  scopeB := fun b s => .single (VkBo.ofEq (H.scopeB b none s) (fun D _ => F.scopeB b none s D)).toB
  scopeR := fun b c s => .single fun D _ hnb hnc =>
    ⟨.rep (.stepB (H.scopeB b (some c) s).le (.reflB (F.scopeB b (some c) s D hnb)))
        (.stepE (H.scopeC b c s).le (.reflE (F.scopeC b c s D hnc))),
      F.scopeB b (some c) s D hnb, F.scopeC b c s D hnc⟩
  insert := H.insert
  insertLocalName := H.insertLocalName
  insertLocalVal := fun n v s => .single (.ofEq (H.insertLocalVal n v s) (fun D _ => F.insertLocalVal n v s D))
  insertLocalFn := H.insertLocalFn

/-! ## A consumer's heap invariant: shape of the stability proof

"the right table `b` is private and has no metatable": the three facts the consumer needs come from `Inj.ext`
(frontier grows, new table pairs are fresh) and `Frame` (private tables untouched). -/
namespace Demo.PrivateTable

def icx (b : Nat) : HeapU.Cx where
  I := fun _ β _ σ' => b < β.tR ∧ (∀ a, ¬ β.t a b) ∧ ∃ t, σ'.tables[b]? = some t ∧ t.mt = none
  stable := fun _ β β' σ σ' s s' he _ hf hI => by
    obtain ⟨h1, h2, t, h3, h4⟩ := hI
    refine ⟨Nat.lt_of_lt_of_le h1 he.front.2.2.2.1, fun a ha => ?_, t, hf.tR b t h1 h2 h3, h4⟩
    rcases he.freshT a b ha with h5 | h5
    · exact h2 a h5
    · omega

/-- in every state pair related under this context the private table is still there, whatever code has run -/
example {b : Nat} {Q : HeapU.QRel} {N : NumOps} {β : HeapU.Inj N} {σ σ' : State N}
    (h : HeapU.SRel Q (icx b) β σ σ') : ∃ t, σ'.tables[b]? = some t ∧ t.mt = none := h.inv.2.2

end Demo.PrivateTable

/-! ## Worked instance: the `Demo.DropUnusedAlloc` pass again, through the unified development -/
namespace Demo.DropUnusedAllocU
open Demo.DropUnusedAlloc

theorem hooksU : HooksU HeapU.Cx.none processor where
  scopeB := fun b s => by
    cases b with
    | mk ss last =>
      simp only [processor, scopeHook]
      rcases dropIn_spec (fun _ => false) last ss with h | ⟨pre, k, ns, vs, rest, h1, h2, h3, h4⟩
      · rw [h]; exact .refl _
      · rw [h2, h1]
        exact .single (HeapU.VkB.dropLocal (HeapU.allocPureAll_sound vs h3) fun n hn => (h4 n hn).1)
  scopeR := fun b c s => by
    cases b with
    | mk ss last =>
      simp only [processor, scopeHook, Option.getD]
      rcases dropIn_spec (fun n => c.refs (.ref n)) last ss with h | ⟨pre, k, ns, vs, rest, h1, h2, h3, h4⟩
      · rw [h]; exact .refl _
      · rw [h2, h1]
        exact .single (HeapU.VkRep.dropLocal (HeapU.allocPureAll_sound vs h3) (fun n hn => (h4 n hn).1)
          (fun n hn => (h4 n hn).2))

theorem run_refines (b : Block) (n : Nat) (externs : List String) :
    runProgram Shared.driverOracle n externs (Visitor.runScoped processor b ()).1 =
      runProgram Shared.driverOracle n externs b :=
  Visitor.runScoped_u hooksU b () _ HeapU.driverOracle_flat n externs

end Demo.DropUnusedAllocU

/-! ## Worked instance: a call fact about a watched global (`Demo.DropAssert` of stage 3, through `Sem.HeapU`) -/
namespace Demo.DropAssertU
open Sem.Heap (idBody callClosure_idBody)
open Demo.DropAssert (processor exprHook env0)

def acx : HeapU.Cx where
  W := ["assert"]
  G := fun _ => [("assert", .fn 0)]
  sub := fun _ p hp => by simp only [List.mem_singleton] at hp; subst hp; simp
  upto := true
  F := [("assert", idBody)]
  subF := fun p hp => by simp only [List.mem_singleton] at hp; subst hp; simp
  CF := fun N _ _ call => ∀ (clo : Closure N) args σ, clo.body = idBody → clo.env = [] →
    call clo args σ = .ok args σ ∨ call clo args σ = .timeout

theorem idGlobal : HeapU.IdGlobal acx "assert" 0 idBody where
  watched := by simp [acx]
  upto := rfl
  isFn := fun _ => by simp [acx]
  hasBody := by simp [acx]
  runs := fun _ _ _ _ h => h

theorem hooksU : HooksU acx processor where
  expr := fun e s => by
    simp only [processor, exprHook]
    split
    · exact .single (HeapU.VkE.dropIdCall idGlobal)
    · exact .refl _

/-- whole-pass theorem: same outcome in the modified environment, unless the original exhausts its budget -/
theorem run_refines (b : Block) (hb : NoRefB [.wat "assert"] b) {N : NumOps} (ρ : ExtOracle N)
    (hρ : HeapU.OracleFlat ρ) (n : Nat) (externs : List String) :
    observe (runChunk ρ n b (env0 externs : State N)) = .timeout ∨
      observe (runChunk ρ n (Visitor.runDefault processor b ()).1 (env0 externs)) =
        observe (runChunk ρ n b (env0 externs)) := by
  have hwf : HeapU.State.WF (env0 externs : State N) :=
    HeapU.State.WF.presetFn (HeapU.State.WF.init externs) "assert" idBody
  rcases HeapU.chain_runChunk_wf (cx := acx) (Visitor.visit_chain_u hooksU false _ true b ()) ρ hρ
      (fun n clo args σ hb henv => callClosure_idBody ρ n clo args σ hb henv) n hwf trivial rfl hb trivial
      (fun _ _ => ⟨rfl, rfl⟩)
      (fun p hp => by
        simp only [acx, List.mem_singleton] at hp; subst hp
        simp [env0, State.getGlobal, lookupAssoc])
      (fun p hp => by
        simp only [acx, List.mem_singleton] at hp; subst hp
        exact ⟨0, ⟨idBody, [], []⟩, by simp [env0, State.getGlobal, lookupAssoc], rfl, rfl, rfl⟩)
      (fun c hc => by
        simp only [env0, List.mem_singleton] at hc; subst hc
        exact ⟨NoRefF.mk.mpr ⟨fun _ _ => rfl, NoRefB.ofBool rfl⟩, fun _ _ => ⟨rfl, rfl⟩⟩) with h | h
  · exact .inl h.2
  · exact .inr h

end Demo.DropAssertU

end DarkluaModel
