import DarkluaModel.Shared.Ast
/-!
S-expression codec for the shared AST (driver/oracle code only: no theorem mentions it, so
`partial def` is acceptable here). Grammar: see BUILDING-AST.md.
-/
namespace DarkluaModel
open Sexp

def BinOp.name : BinOp → String
  | .and => "and" | .or => "or" | .eq => "eq" | .ne => "ne" | .lt => "lt" | .le => "le"
  | .gt => "gt" | .ge => "ge" | .add => "add" | .sub => "sub" | .mul => "mul" | .div => "div"
  | .idiv => "idiv" | .mod => "mod" | .pow => "pow" | .concat => "concat"

def BinOp.ofName? : String → Option BinOp
  | "and" => some .and | "or" => some .or | "eq" => some .eq | "ne" => some .ne
  | "lt" => some .lt | "le" => some .le | "gt" => some .gt | "ge" => some .ge
  | "add" => some .add | "sub" => some .sub | "mul" => some .mul | "div" => some .div
  | "idiv" => some .idiv | "mod" => some .mod | "pow" => some .pow | "concat" => some .concat
  | _ => none

def UnOp.name : UnOp → String
  | .neg => "neg" | .not => "not" | .len => "len"

def UnOp.ofName? : String → Option UnOp
  | "neg" => some .neg | "not" => some .not | "len" => some .len | _ => none

/-- identifiers travel as hex of their UTF-8 bytes -/
def nameToSexp (s : String) : Sexp := .atom (bytesToHex (strToBytes s))

def nameOfSexp? : Sexp → Option String
  | .atom a => do
    let bs ← hexToBytes? a
    String.fromUTF8? (ByteArray.mk bs.toArray)
  | _ => none

def optNameToSexp : Option String → Sexp
  | none => .atom "-"
  | some s => nameToSexp s

def optNameOfSexp? : Sexp → Option (Option String)
  | .atom "-" => some none
  | s => (nameOfSexp? s).map some

def bitsToSexp (b : UInt64) : Sexp := .atom ("f" ++ natToHex16 b.toNat)

def bitsOfSexp? : Sexp → Option UInt64
  | .atom a =>
    match a.toList with
    | 'f' :: rest => if rest.length == 16 then (hexNat? rest).map UInt64.ofNat else none
    | _ => none
  | _ => none

def bytesOfSexp? : Sexp → Option (List UInt8)
  | .atom a => hexToBytes? a
  | _ => none

mutual
  partial def Ty.toSexp : Ty → Sexp
    | .mk tag kids => .list (.atom "ty" :: nameToSexp tag :: kids.map Ty.toSexp)
    | .typeof e => .list [.atom "typeof", e.toSexp]
  partial def optTyToSexp : Option Ty → Sexp
    | none => .atom "-"
    | some t => t.toSexp
  partial def TName.toSexp : TName → Sexp
    | .mk n ty => .list [.atom "n", nameToSexp n, optTyToSexp ty]
  partial def Expr.toSexp : Expr → Sexp
    | .nil => .atom "nil" | .true => .atom "true" | .false => .atom "false" | .vararg => .atom "vararg"
    | .num b => .list [.atom "num", bitsToSexp b]
    | .str b => .list [.atom "str", .atom (bytesToHex b)]
    | .var n => .list [.atom "var", nameToSexp n]
    | .paren e => .list [.atom "paren", e.toSexp]
    | .un op e => .list [.atom "un", .atom op.name, e.toSexp]
    | .bin op l r => .list [.atom "bin", .atom op.name, l.toSexp, r.toSexp]
    | .call f m k args =>
      let kind := match k with | .tuple => "t" | .str => "s" | .tbl => "b"
      .list (.atom "call" :: f.toSexp :: optNameToSexp m :: .atom kind :: args.map Expr.toSexp)
    | .field e n => .list [.atom "field", e.toSexp, nameToSexp n]
    | .index e k => .list [.atom "index", e.toSexp, k.toSexp]
    | .fn body => .list [.atom "fn", body.toSexp]
    | .table es => .list (.atom "table" :: es.map Entry.toSexp)
    | .ifx c t elifs e =>
      .list [.atom "ifx", c.toSexp, t.toSexp,
             .list (elifs.map fun (a, b) => .list [a.toSexp, b.toSexp]), e.toSexp]
    | .interp segs => .list (.atom "interp" :: segs.map Seg.toSexp)
    | .cast e ty => .list [.atom "cast", e.toSexp, ty.toSexp]
    | .inst e tys => .list (.atom "inst" :: e.toSexp :: tys.map Ty.toSexp)
  partial def Entry.toSexp : Entry → Sexp
    | .pos v => .list [.atom "pos", v.toSexp]
    | .named k v => .list [.atom "named", nameToSexp k, v.toSexp]
    | .keyed k v => .list [.atom "keyed", k.toSexp, v.toSexp]
  partial def Seg.toSexp : Seg → Sexp
    | .s b => .list [.atom "s", .atom (bytesToHex b)]
    | .v e => .list [.atom "v", e.toSexp]
  partial def FnBody.toSexp : FnBody → Sexp
    | .mk params variadic varTy ret generics attrs body =>
      .list [.atom "fnbody", .list (params.map TName.toSexp), Sexp.ofBool variadic, optTyToSexp varTy,
             optTyToSexp ret, .list (generics.map nameToSexp), .list (attrs.map nameToSexp), body.toSexp]
  partial def Stmt.toSexp : Stmt → Sexp
    | .assign ts vs => .list [.atom "assign", .list (ts.map Expr.toSexp), .list (vs.map Expr.toSexp)]
    | .cassign op t v => .list [.atom "cassign", .atom op.name, t.toSexp, v.toSexp]
    | .callStmt c => .list [.atom "callstmt", c.toSexp]
    | .doBlock b => .list [.atom "do", b.toSexp]
    | .function name m body =>
      .list [.atom "function", .list (name.map nameToSexp), optNameToSexp m, body.toSexp]
    | .gfor names vs body =>
      .list [.atom "gfor", .list (names.map TName.toSexp), .list (vs.map Expr.toSexp), body.toSexp]
    | .nfor n a b step body =>
      .list [.atom "nfor", n.toSexp, a.toSexp, b.toSexp,
             (match step with | none => .atom "-" | some s => s.toSexp), body.toSexp]
    | .ifs branches els =>
      .list [.atom "if", .list (branches.map fun (c, b) => .list [c.toSexp, b.toSexp]),
             (match els with | none => .atom "-" | some b => b.toSexp)]
    | .localAssign k names vs =>
      .list [.atom "local", .atom (match k with | .loc => "local" | .const => "const"),
             .list (names.map TName.toSexp), .list (vs.map Expr.toSexp)]
    | .localFn k n body =>
      .list [.atom "localfn", .atom (match k with | .loc => "local" | .const => "const"), nameToSexp n, body.toSexp]
    | .repeat_ b c => .list [.atom "repeat", b.toSexp, c.toSexp]
    | .while_ c b => .list [.atom "while", c.toSexp, b.toSexp]
    | .typeDecl ex n ty => .list [.atom "typedecl", Sexp.ofBool ex, nameToSexp n, ty.toSexp]
    | .typeFn ex n body => .list [.atom "typefn", Sexp.ofBool ex, nameToSexp n, body.toSexp]
  partial def Last.toSexp : Last → Sexp
    | .ret es => .list (.atom "return" :: es.map Expr.toSexp)
    | .brk => .atom "break"
    | .cont => .atom "continue"
  partial def Block.toSexp : Block → Sexp
    | .mk stmts last =>
      .list (.atom "block" :: .list (stmts.map Stmt.toSexp) ::
             (match last with | none => [] | some l => [l.toSexp]))
end

def localKindOf? : Sexp → Option LocalKind
  | .atom "local" => some .loc
  | .atom "const" => some .const
  | _ => none

mutual
  partial def Ty.ofSexp? : Sexp → Option Ty
    | .list (.atom "ty" :: tag :: kids) => do
      let t ← nameOfSexp? tag
      let ks ← kids.mapM Ty.ofSexp?
      pure (.mk t ks)
    | .list [.atom "typeof", e] => do pure (.typeof (← Expr.ofSexp? e))
    | _ => none
  partial def optTyOfSexp? : Sexp → Option (Option Ty)
    | .atom "-" => some none
    | s => (Ty.ofSexp? s).map some
  partial def TName.ofSexp? : Sexp → Option TName
    | .list [.atom "n", n, ty] => do pure (.mk (← nameOfSexp? n) (← optTyOfSexp? ty))
    | _ => none
  partial def Expr.ofSexp? : Sexp → Option Expr
    | .atom "nil" => some .nil | .atom "true" => some .true | .atom "false" => some .false
    | .atom "vararg" => some .vararg
    | .list [.atom "num", b] => do pure (.num (← bitsOfSexp? b))
    | .list [.atom "str", b] => do pure (.str (← bytesOfSexp? b))
    | .list [.atom "var", n] => do pure (.var (← nameOfSexp? n))
    | .list [.atom "paren", e] => do pure (.paren (← Expr.ofSexp? e))
    | .list [.atom "un", .atom op, e] => do pure (.un (← UnOp.ofName? op) (← Expr.ofSexp? e))
    | .list [.atom "bin", .atom op, l, r] => do
      pure (.bin (← BinOp.ofName? op) (← Expr.ofSexp? l) (← Expr.ofSexp? r))
    | .list (.atom "call" :: f :: m :: .atom kind :: args) => do
      let k ← match kind with
        | "t" => some ArgKind.tuple | "s" => some ArgKind.str | "b" => some ArgKind.tbl | _ => none
      pure (.call (← Expr.ofSexp? f) (← optNameOfSexp? m) k (← args.mapM Expr.ofSexp?))
    | .list [.atom "field", e, n] => do pure (.field (← Expr.ofSexp? e) (← nameOfSexp? n))
    | .list [.atom "index", e, k] => do pure (.index (← Expr.ofSexp? e) (← Expr.ofSexp? k))
    | .list [.atom "fn", body] => do pure (.fn (← FnBody.ofSexp? body))
    | .list (.atom "table" :: es) => do pure (.table (← es.mapM Entry.ofSexp?))
    | .list [.atom "ifx", c, t, .list elifs, e] => do
      let el ← elifs.mapM fun
        | .list [a, b] => do pure ((← Expr.ofSexp? a), (← Expr.ofSexp? b))
        | _ => none
      pure (.ifx (← Expr.ofSexp? c) (← Expr.ofSexp? t) el (← Expr.ofSexp? e))
    | .list (.atom "interp" :: segs) => do pure (.interp (← segs.mapM Seg.ofSexp?))
    | .list [.atom "cast", e, ty] => do pure (.cast (← Expr.ofSexp? e) (← Ty.ofSexp? ty))
    | .list (.atom "inst" :: e :: tys) => do pure (.inst (← Expr.ofSexp? e) (← tys.mapM Ty.ofSexp?))
    | _ => none
  partial def Entry.ofSexp? : Sexp → Option Entry
    | .list [.atom "pos", v] => do pure (.pos (← Expr.ofSexp? v))
    | .list [.atom "named", k, v] => do pure (.named (← nameOfSexp? k) (← Expr.ofSexp? v))
    | .list [.atom "keyed", k, v] => do pure (.keyed (← Expr.ofSexp? k) (← Expr.ofSexp? v))
    | _ => none
  partial def Seg.ofSexp? : Sexp → Option Seg
    | .list [.atom "s", b] => do pure (.s (← bytesOfSexp? b))
    | .list [.atom "v", e] => do pure (.v (← Expr.ofSexp? e))
    | _ => none
  partial def FnBody.ofSexp? : Sexp → Option FnBody
    | .list [.atom "fnbody", .list params, variadic, varTy, ret, .list generics, .list attrs, body] => do
      pure (.mk (← params.mapM TName.ofSexp?) (← variadic.bool?) (← optTyOfSexp? varTy) (← optTyOfSexp? ret)
                (← generics.mapM nameOfSexp?) (← attrs.mapM nameOfSexp?) (← Block.ofSexp? body))
    | _ => none
  partial def Stmt.ofSexp? : Sexp → Option Stmt
    | .list [.atom "assign", .list ts, .list vs] => do
      pure (.assign (← ts.mapM Expr.ofSexp?) (← vs.mapM Expr.ofSexp?))
    | .list [.atom "cassign", .atom op, t, v] => do
      pure (.cassign (← BinOp.ofName? op) (← Expr.ofSexp? t) (← Expr.ofSexp? v))
    | .list [.atom "callstmt", c] => do pure (.callStmt (← Expr.ofSexp? c))
    | .list [.atom "do", b] => do pure (.doBlock (← Block.ofSexp? b))
    | .list [.atom "function", .list name, m, body] => do
      pure (.function (← name.mapM nameOfSexp?) (← optNameOfSexp? m) (← FnBody.ofSexp? body))
    | .list [.atom "gfor", .list names, .list vs, body] => do
      pure (.gfor (← names.mapM TName.ofSexp?) (← vs.mapM Expr.ofSexp?) (← Block.ofSexp? body))
    | .list [.atom "nfor", n, a, b, step, body] => do
      let st ← match step with
        | .atom "-" => some none
        | s => (Expr.ofSexp? s).map some
      pure (.nfor (← TName.ofSexp? n) (← Expr.ofSexp? a) (← Expr.ofSexp? b) st (← Block.ofSexp? body))
    | .list [.atom "if", .list branches, els] => do
      let bs ← branches.mapM fun
        | .list [c, b] => do pure ((← Expr.ofSexp? c), (← Block.ofSexp? b))
        | _ => none
      let e ← match els with
        | .atom "-" => some none
        | s => (Block.ofSexp? s).map some
      pure (.ifs bs e)
    | .list [.atom "local", k, .list names, .list vs] => do
      pure (.localAssign (← localKindOf? k) (← names.mapM TName.ofSexp?) (← vs.mapM Expr.ofSexp?))
    | .list [.atom "localfn", k, n, body] => do
      pure (.localFn (← localKindOf? k) (← nameOfSexp? n) (← FnBody.ofSexp? body))
    | .list [.atom "repeat", b, c] => do pure (.repeat_ (← Block.ofSexp? b) (← Expr.ofSexp? c))
    | .list [.atom "while", c, b] => do pure (.while_ (← Expr.ofSexp? c) (← Block.ofSexp? b))
    | .list [.atom "typedecl", ex, n, ty] => do
      pure (.typeDecl (← ex.bool?) (← nameOfSexp? n) (← Ty.ofSexp? ty))
    | .list [.atom "typefn", ex, n, body] => do
      pure (.typeFn (← ex.bool?) (← nameOfSexp? n) (← FnBody.ofSexp? body))
    | _ => none
  partial def Last.ofSexp? : Sexp → Option Last
    | .list (.atom "return" :: es) => do pure (.ret (← es.mapM Expr.ofSexp?))
    | .atom "break" => some .brk
    | .atom "continue" => some .cont
    | _ => none
  partial def Block.ofSexp? : Sexp → Option Block
    | .list [.atom "block", .list stmts] => do pure (.mk (← stmts.mapM Stmt.ofSexp?) none)
    | .list [.atom "block", .list stmts, last] => do
      pure (.mk (← stmts.mapM Stmt.ofSexp?) (some (← Last.ofSexp? last)))
    | _ => none
end

def Block.parse? (s : String) : Option Block := (Sexp.parse s).bind Block.ofSexp?
def Expr.parse? (s : String) : Option Expr := (Sexp.parse s).bind Expr.ofSexp?

end DarkluaModel
