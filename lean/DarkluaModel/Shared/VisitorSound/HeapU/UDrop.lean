import DarkluaModel.Shared.VisitorSound.HeapU.URefl
import DarkluaModel.Shared.VisitorSound.Heap.HDrop
import DarkluaModel.Shared.VisitorSound.HeapV.VDrop
/-!
# Stage 4: dropping / adding a `local` declaration whose values only ALLOCATE

`local ns = vs; rest` against `rest'` (and symmetrically): sound when evaluating `vs` always succeeds
and changes the state only by allocating fresh cells / tables / closures (`AllocPureEs`) — so
`local t = {}`, `local f = function … end`, `local x = {1, "a", y}` qualify — and `rest` / `rest'`
are related with the declared names dead. Everything allocated on one side only is garbage for the
relation. `Expr.allocPure` is a syntactic sufficient condition.
-/
namespace DarkluaModel.Sem.HeapU
open Heap (refNames)

variable {N : NumOps} {Q : QRel} {cx : Cx} {β : Inj N}

/-- `σ1` is `σ` plus allocations: everything that exists in `σ` is unchanged -/
structure StExt (σ σ1 : State N) : Prop where
  globals : σ1.globals = σ.globals
  trace : σ1.trace = σ.trace
  cells : ∀ (i : Nat) v, σ.cells[i]? = some v → σ1.cells[i]? = some v
  tables : ∀ (i : Nat) t, σ.tables[i]? = some t → σ1.tables[i]? = some t
  closures : ∀ (i : Nat) c, σ.closures[i]? = some c → σ1.closures[i]? = some c

theorem StExt.refl (σ : State N) : StExt σ σ := ⟨rfl, rfl, fun _ _ h => h, fun _ _ h => h, fun _ _ h => h⟩

theorem StExt.trans {a b c : State N} (h1 : StExt a b) (h2 : StExt b c) : StExt a c :=
  ⟨h2.globals.trans h1.globals, h2.trace.trans h1.trace, fun i v h => h2.cells i v (h1.cells i v h),
    fun i v h => h2.tables i v (h1.tables i v h), fun i v h => h2.closures i v (h1.closures i v h)⟩

theorem StExt.allocCell (σ : State N) (v : Val N) : StExt σ (σ.allocCell v).2 :=
  ⟨rfl, rfl, fun _ _ h => getElem?_append_of_some h _, fun _ _ h => h, fun _ _ h => h⟩
theorem StExt.allocTable (σ : State N) (t : Table N) : StExt σ (σ.allocTable t).2 :=
  ⟨rfl, rfl, fun _ _ h => h, fun _ _ h => getElem?_append_of_some h _, fun _ _ h => h⟩
theorem StExt.allocClosure (σ : State N) (c : Closure N) : StExt σ (σ.allocClosure c).2 :=
  ⟨rfl, rfl, fun _ _ h => h, fun _ _ h => h, fun _ _ h => getElem?_append_of_some h _⟩

/-- writing to a table that does not exist in the base state -/
theorem StExt.rawSet {σ σ1 : State N} (h : StExt σ σ1) {t : Nat} (ht : σ.tables[t]? = none) (k v : Val N) :
    StExt σ (σ1.rawSet t k v) :=
  ⟨h.globals, h.trace, h.cells, fun i tb hi => by
    simp only [State.rawSet, State.setTable, Heap.getElem?_listSet]
    split
    · next hc => rw [← hc.1, ht] at hi; cases hi
    · exact h.tables i tb hi, h.closures⟩

theorem StExt.setMany {σ σ1 : State N} (h : StExt σ σ1) {t : Nat} (ht : σ.tables[t]? = none) (i : Nat)
    (vs : List (Val N)) : StExt σ (Sem.setMany t i vs σ1) := by
  induction vs generalizing i σ1 with
  | nil => exact h
  | cons v vs ih => simp only [Sem.setMany]; exact ih (h.rawSet ht _ _) _

theorem length_le_of_get {α : Type} {l l1 : List α} (h : ∀ (i : Nat) v, l[i]? = some v → l1[i]? = some v) :
    l.length ≤ l1.length := by
  apply Nat.le_of_not_lt
  intro hlt
  have h1 : l[l1.length]? = some (l[l1.length]'hlt) := List.getElem?_eq_getElem hlt
  have := getElem?_lt (h _ _ h1)
  omega

theorem StExt.front {σ σ1 σ' σ1' : State N} (hx : StExt σ σ1) (hx' : StExt σ' σ1') (h : Front β σ σ') : Front β σ1 σ1' :=
  h.of_le (length_le_of_get hx.cells) (length_le_of_get hx'.cells) (length_le_of_get hx.tables)
    (length_le_of_get hx'.tables) (length_le_of_get hx.closures) (length_le_of_get hx'.closures)

theorem SRel.extLeft {σ σ1 σ' : State N} (h : SRel Q cx β σ σ') (hx : StExt σ σ1) : SRel Q cx β σ1 σ' where
  globals := by rw [hx.globals]; exact h.globals
  trace := by rw [hx.trace]; exact h.trace
  injC := h.injC
  injT := h.injT
  injF := h.injF
  cell := fun hab => let ⟨v, v', h1, h2, hv⟩ := h.cell hab; ⟨v, v', hx.cells _ _ h1, h2, hv⟩
  tbl := fun hab => let ⟨v, v', h1, h2, hv⟩ := h.tbl hab; ⟨v, v', hx.tables _ _ h1, h2, hv⟩
  clo := fun hab => let ⟨v, v', h1, h2, hv⟩ := h.clo hab; ⟨v, v', hx.closures _ _ h1, h2, hv⟩
  strlib := h.strlib
  ginv := fun p hp => ⟨by simp only [State.getGlobal, hx.globals]; exact (h.ginv p hp).1, (h.ginv p hp).2⟩
  finv := fun p hp => ⟨FnGlobal.grow (h.finv p hp).1 (by simp only [State.getGlobal, hx.globals]) hx.closures,
    (h.finv p hp).2⟩
  front := hx.front (StExt.refl _) h.front
  pin := fun p hp => ⟨hx.closures _ _ (h.pin p hp).1, (h.pin p hp).2⟩
  pinR := h.pinR
  pinT := h.pinT
  pinC := h.pinC
  pinTl := fun p hp => ⟨hx.tables _ _ (h.pinTl p hp).1, (h.pinTl p hp).2⟩
  pinCl := fun p hp => ⟨hx.cells _ _ (h.pinCl p hp).1, (h.pinCl p hp).2⟩
  inv := h.inv_step (Inj.ext.refl β) (Frame.ofGrow hx.cells (fun _ _ e => e) hx.tables (fun _ _ e => e) hx.closures (fun _ _ e => e))

theorem SRel.extRight {σ σ' σ1' : State N} (h : SRel Q cx β σ σ') (hx : StExt σ' σ1') : SRel Q cx β σ σ1' where
  globals := by rw [hx.globals]; exact h.globals
  trace := by rw [hx.trace]; exact h.trace
  injC := h.injC
  injT := h.injT
  injF := h.injF
  cell := fun hab => let ⟨v, v', h1, h2, hv⟩ := h.cell hab; ⟨v, v', h1, hx.cells _ _ h2, hv⟩
  tbl := fun hab => let ⟨v, v', h1, h2, hv⟩ := h.tbl hab; ⟨v, v', h1, hx.tables _ _ h2, hv⟩
  clo := fun hab => let ⟨v, v', h1, h2, hv⟩ := h.clo hab; ⟨v, v', h1, hx.closures _ _ h2, hv⟩
  strlib := h.strlib
  ginv := fun p hp => ⟨(h.ginv p hp).1, by simp only [State.getGlobal, hx.globals]; exact (h.ginv p hp).2⟩
  finv := fun p hp => ⟨(h.finv p hp).1,
    FnGlobal.grow (h.finv p hp).2 (by simp only [State.getGlobal, hx.globals]) hx.closures⟩
  front := (StExt.refl _).front hx h.front
  pin := h.pin
  pinR := fun p hp => ⟨hx.closures _ _ (h.pinR p hp).1, (h.pinR p hp).2⟩
  pinT := fun p hp => ⟨hx.tables _ _ (h.pinT p hp).1, (h.pinT p hp).2⟩
  pinC := fun p hp => ⟨hx.cells _ _ (h.pinC p hp).1, (h.pinC p hp).2⟩
  pinTl := h.pinTl
  pinCl := h.pinCl
  inv := h.inv_step (Inj.ext.refl β) (Frame.ofGrow (fun _ _ e => e) hx.cells (fun _ _ e => e) hx.tables (fun _ _ e => e) hx.closures)

/-- evaluating `e` succeeds in every context and only allocates -/
def AllocPureE (e : Expr) : Prop :=
  ∀ (N : NumOps) (call : CallFn N) (ρ : ExtOracle N) (k : Nat) (env : Env N) (σ : State N),
    ∃ ws σ1, evalE call ρ k env e σ = .ok ws σ1 ∧ StExt σ σ1
def AllocPureEs (vs : List Expr) : Prop :=
  ∀ (N : NumOps) (call : CallFn N) (ρ : ExtOracle N) (k : Nat) (env : Env N) (σ : State N),
    ∃ ws σ1, evalEs call ρ k env vs σ = .ok ws σ1 ∧ StExt σ σ1
/-- … for the entries of a table constructor, filling a table that is new w.r.t. a base state -/
def AllocPureEntries (es : List Entry) : Prop :=
  ∀ (N : NumOps) (call : CallFn N) (ρ : ExtOracle N) (k : Nat) (env : Env N) (t i : Nat) (σ0 σ : State N),
    StExt σ0 σ → σ0.tables[t]? = none → ∃ σ1, evalEntries call ρ k env t i es σ = .ok () σ1 ∧ StExt σ0 σ1

theorem AllocPureEs.ofTotalPure {vs : List Expr} (h : Heap.TotalPureEs vs) : AllocPureEs vs := by
  intro N call ρ k env σ
  obtain ⟨ws, hw⟩ := h N call ρ k env σ
  exact ⟨ws, σ, hw, StExt.refl σ⟩

theorem AllocPureEs.nil : AllocPureEs [] := fun N call ρ k env σ => ⟨[], σ, by simp only [evalEs], StExt.refl σ⟩

theorem AllocPureEs.cons {e : Expr} {es : List Expr} (he : AllocPureE e) (hes : AllocPureEs es) :
    AllocPureEs (e :: es) := by
  intro N call ρ k env σ
  obtain ⟨ws, σ1, h1, x1⟩ := he N call ρ k env σ
  cases es with
  | nil => exact ⟨ws, σ1, by simp only [evalEs, h1], x1⟩
  | cons e2 es =>
    obtain ⟨ws2, σ2, h2, x2⟩ := hes N call ρ k env σ1
    exact ⟨first ws :: ws2, σ2, by simp only [evalEs, h1, Res.bind, h2], x1.trans x2⟩

/-! ### a syntactic sufficient condition -/

mutual
  theorem allocPure_sound : ∀ (e : Expr), e.allocPure = true → AllocPureE e
    | .nil, _ => fun N call ρ k env σ => ⟨_, σ, (by simp only [evalE]; rfl), StExt.refl σ⟩
    | .true, _ => fun N call ρ k env σ => ⟨_, σ, (by simp only [evalE]; rfl), StExt.refl σ⟩
    | .false, _ => fun N call ρ k env σ => ⟨_, σ, (by simp only [evalE]; rfl), StExt.refl σ⟩
    | .num _, _ => fun N call ρ k env σ => ⟨_, σ, (by simp only [evalE]; rfl), StExt.refl σ⟩
    | .str _, _ => fun N call ρ k env σ => ⟨_, σ, (by simp only [evalE]; rfl), StExt.refl σ⟩
    | .var _, _ => fun N call ρ k env σ => ⟨_, σ, (by simp only [evalE]; rfl), StExt.refl σ⟩
    | .vararg, _ => fun N call ρ k env σ => ⟨_, σ, (by simp only [evalE]; rfl), StExt.refl σ⟩
    | .paren e, h => fun N call ρ k env σ => by
      obtain ⟨ws, σ1, h1, x1⟩ := allocPure_sound e (by simpa only [Expr.allocPure] using h) N call ρ k env σ
      exact ⟨_, σ1, (by simp only [evalE, h1, Res.bind]; rfl), x1⟩
    | .fn f, _ => fun N call ρ k env σ => ⟨_, _, (by simp only [evalE]; rfl), StExt.allocClosure σ _⟩
    | .table es, h => fun N call ρ k env σ => by
      have hx := StExt.allocTable σ ({ entries := [], mt := none } : Table N)
      obtain ⟨σ1, h1, x1⟩ := allocPureEntries_sound es (by simpa only [Expr.allocPure] using h) N call ρ k env
        σ.tables.length 1 σ _ hx (by simp)
      exact ⟨_, σ1, (by simp only [evalE, State.allocTable] at h1 ⊢; simp only [h1, Res.bind]; rfl), x1⟩
    | .un _ _, h | .bin _ _ _, h | .call _ _ _ _, h | .field _ _, h | .index _ _, h | .ifx _ _ _ _, h
    | .interp _, h | .cast _ _, h | .inst _ _, h => by simp [Expr.allocPure] at h
  theorem allocPureEntries_sound : ∀ (es : List Entry), Entry.allocPureList es = true → AllocPureEntries es
    | [], _ => fun N call ρ k env t i σ0 σ hx ht => ⟨σ, by simp only [evalEntries], hx⟩
    | .pos v :: rest, h => fun N call ρ k env t i σ0 σ hx ht => by
      simp only [Entry.allocPureList, Bool.and_eq_true] at h
      obtain ⟨ws, σ1, h1, x1⟩ := allocPure_sound v h.1 N call ρ k env σ
      cases rest with
      | nil => exact ⟨_, (by simp only [evalEntries, h1, Res.bind]; rfl), (hx.trans x1).setMany ht _ _⟩
      | cons e2 rest =>
        obtain ⟨σ2, h2, x2⟩ := allocPureEntries_sound (e2 :: rest) h.2 N call ρ k env t (i + 1) σ0 _
          ((hx.trans x1).rawSet ht (.num (N.ofNat i)) (first ws)) ht
        exact ⟨σ2, by simp only [evalEntries, h1, Res.bind, h2], x2⟩
    | .named key v :: rest, h => fun N call ρ k env t i σ0 σ hx ht => by
      simp only [Entry.allocPureList, Bool.and_eq_true] at h
      obtain ⟨ws, σ1, h1, x1⟩ := allocPure_sound v h.1 N call ρ k env σ
      obtain ⟨σ2, h2, x2⟩ := allocPureEntries_sound rest h.2 N call ρ k env t i σ0 _
        ((hx.trans x1).rawSet ht (strVal key) (first ws)) ht
      exact ⟨σ2, by simp only [evalEntries, h1, Res.bind, h2], x2⟩
    | .keyed _ _ :: _, h => by simp [Entry.allocPureList] at h
end

theorem allocPureAll_sound : ∀ (es : List Expr), Expr.allocPureAll es = true → AllocPureEs es
  | [], _ => AllocPureEs.nil
  | e :: es, h => by
    simp only [Expr.allocPureAll, Bool.and_eq_true] at h
    exact AllocPureEs.cons (allocPure_sound e h.1) (allocPureAll_sound es h.2)

/-! ### the steps -/

theorem refNames_ok {ns : List TName} {D : List DName} (hw : ∀ n ∈ ns.map TName.name, DName.wat n ∉ D) :
    ∀ n ∈ ns.map TName.name, DName.ref n ∈ refNames ns ++ D ∧ DName.wat n ∉ refNames ns ++ D := by
  intro n hn
  refine ⟨List.mem_append_left _ (List.mem_map_of_mem hn), fun hm => ?_⟩
  rcases List.mem_append.mp hm with h | h
  · obtain ⟨m, _, hm⟩ := List.mem_map.mp h; cases hm
  · exact hw n hn h

theorem dropLocal_sound {D D' : List DName} {kind : LocalKind} {ns : List TName} {vs : List Expr}
    {rest rest' : List Stmt} (hpure : AllocPureEs vs) (hw : ∀ n ∈ ns.map TName.name, DName.wat n ∉ D)
    (hrest : SoundSs Q cx (refNames ns ++ D) rest rest' D') :
    SoundSs Q cx D (.localAssign kind ns vs :: rest) rest' D' :=
  ⟨(DSub.refs _ D).trans hrest.1, fun N call ρ k env env' σ σ' β hp hs he => by
    obtain ⟨ws, σ1, hw', hx⟩ := hpure N call ρ k env σ
    simp only [execSs, execS, hw', Res.bind]
    have hb := (hs.extLeft hx).bindLocalsLeft (D := refNames ns ++ D) (ns.map TName.name) (refNames_ok hw) ws
      (he.loc.weaken (DSub.refs _ D))
    exact hrest.2 N call ρ k _ _ _ _ _ hp hb.1 ⟨he.va, hb.2⟩⟩

theorem addLocal_sound {D D' : List DName} {kind : LocalKind} {ns : List TName} {vs : List Expr}
    {rest rest' : List Stmt} (hpure : AllocPureEs vs) (hw : ∀ n ∈ ns.map TName.name, DName.wat n ∉ D)
    (hrest : SoundSs Q cx (refNames ns ++ D) rest rest' D') :
    SoundSs Q cx D rest (.localAssign kind ns vs :: rest') D' :=
  ⟨(DSub.refs _ D).trans hrest.1, fun N call ρ k env env' σ σ' β hp hs he => by
    obtain ⟨ws, σ1, hw', hx⟩ := hpure N call ρ k env' σ'
    simp only [execSs, execS, hw', Res.bind]
    have hb := (hs.extRight hx).bindLocalsRight (D := refNames ns ++ D) (ns.map TName.name) (refNames_ok hw) ws
      (he.loc.weaken (DSub.refs _ D))
    exact hrest.2 N call ρ k _ _ _ _ _ hp hb.1 ⟨he.va, hb.2⟩⟩

end DarkluaModel.Sem.HeapU
