import DarkluaModel.Shared.VisitorSound.Cong
import DarkluaModel.Shared.VisitorSound.Heap.Refs
import DarkluaModel.Shared.Run
/-!
# States up to renumbering of cells, tables and closures (stage 4)

`β : Inj N` — three partial injections (cells, tables, closures). Values are related through them
(`VRel`: table and closure ids are renumbered, everything else is equal); tables entrywise
(`TRel`), closures with `Q`-related bodies and environments related outside a dead set (`CRel`).
`SRel Q cx β σ σ'`: globals related name by name, trace equal, related cells / tables / closures have
related contents, unrelated ones are garbage. `RRel`: Kripke-style, in some extension `β' ⊇ β`.
The cell-only development (`Heap/`) is the special case of identity injections on tables and closures;
it is kept as it is (watched globals, up-to-timeout, pins live there).
-/
namespace DarkluaModel.Sem.HeapU
variable {N : NumOps}

/-- three partial injections (cells, tables, closures), each with a FRONTIER `(xL, xR)`: an extension may
only add pairs at or beyond the frontier, so an object below it that is unrelated stays unrelated
through arbitrary related code (one-sided objects; allocations that happen earlier on one side than on
the other) -/
structure Inj (N : NumOps) where
  c : Nat → Nat → Prop
  t : Nat → Nat → Prop
  f : Nat → Nat → Prop
  cL : Nat := 0
  cR : Nat := 0
  tL : Nat := 0
  tR : Nat := 0
  fL : Nat := 0
  fR : Nat := 0
  /-- pinned LEFT closures `(id, body, captured environment)`: they exist on the left with that content (and no
  varargs), and are related to nothing — a closure allocated earlier on the left than on the right, waiting for
  its partner (`SRel.matchClosureRight` releases the pin) -/
  pinF : List (Nat × FnBody × List (String × Nat)) := []
  /-- pinned RIGHT closures, symmetrically (a closure the right allocates earlier than the left, or a helper
  closure that exists on the right only) -/
  pinFR : List (Nat × FnBody × List (String × Nat)) := []
  /-- pinned RIGHT tables / cells with their content: one-sided objects owned by the step that allocated them;
  related code never touches them, the owner may overwrite them (`SRel.setPinnedTR`, `SRel.setPinnedCR`) -/
  pinTR : List (Nat × Table N) := []
  pinCR : List (Nat × Val N) := []
  /-- … and LEFT ones, symmetrically -/
  pinTL : List (Nat × Table N) := []
  pinCL : List (Nat × Val N) := []

structure Inj.le (β β' : Inj N) : Prop where
  c : ∀ a b, β.c a b → β'.c a b
  t : ∀ a b, β.t a b → β'.t a b
  f : ∀ a b, β.f a b → β'.f a b
  front : β.cL ≤ β'.cL ∧ β.cR ≤ β'.cR ∧ β.tL ≤ β'.tL ∧ β.tR ≤ β'.tR ∧ β.fL ≤ β'.fL ∧ β.fR ≤ β'.fR
  freshC : ∀ a b, β'.c a b → β.c a b ∨ (β.cL ≤ a ∧ β.cR ≤ b)
  freshT : ∀ a b, β'.t a b → β.t a b ∨ (β.tL ≤ a ∧ β.tR ≤ b)
  freshF : ∀ a b, β'.f a b → β.f a b ∨ (β.fL ≤ a ∧ β.fR ≤ b)
  pins : ∀ p ∈ β.pinF, p ∈ β'.pinF
  pinsR : ∀ p ∈ β.pinFR, p ∈ β'.pinFR
  pinsTR : ∀ p ∈ β.pinTR, p ∈ β'.pinTR
  pinsCR : ∀ p ∈ β.pinCR, p ∈ β'.pinCR
  pinsTL : ∀ p ∈ β.pinTL, p ∈ β'.pinTL
  pinsCL : ∀ p ∈ β.pinCL, p ∈ β'.pinCL

theorem Inj.le_refl (β : Inj N) : β.le β :=
  ⟨fun _ _ h => h, fun _ _ h => h, fun _ _ h => h,
    ⟨Nat.le_refl _, Nat.le_refl _, Nat.le_refl _, Nat.le_refl _, Nat.le_refl _, Nat.le_refl _⟩,
    fun _ _ h => .inl h, fun _ _ h => .inl h, fun _ _ h => .inl h, fun _ h => h, fun _ h => h, fun _ h => h, fun _ h => h, fun _ h => h, fun _ h => h⟩
theorem Inj.le_trans {a b c : Inj N} (h1 : a.le b) (h2 : b.le c) : a.le c :=
  ⟨fun _ _ h => h2.c _ _ (h1.c _ _ h), fun _ _ h => h2.t _ _ (h1.t _ _ h), fun _ _ h => h2.f _ _ (h1.f _ _ h),
    ⟨Nat.le_trans h1.front.1 h2.front.1, Nat.le_trans h1.front.2.1 h2.front.2.1,
      Nat.le_trans h1.front.2.2.1 h2.front.2.2.1, Nat.le_trans h1.front.2.2.2.1 h2.front.2.2.2.1,
      Nat.le_trans h1.front.2.2.2.2.1 h2.front.2.2.2.2.1, Nat.le_trans h1.front.2.2.2.2.2 h2.front.2.2.2.2.2⟩,
    fun x y h => by
      rcases h2.freshC x y h with h | h
      · exact h1.freshC x y h
      · exact .inr ⟨Nat.le_trans h1.front.1 h.1, Nat.le_trans h1.front.2.1 h.2⟩,
    fun x y h => by
      rcases h2.freshT x y h with h | h
      · exact h1.freshT x y h
      · exact .inr ⟨Nat.le_trans h1.front.2.2.1 h.1, Nat.le_trans h1.front.2.2.2.1 h.2⟩,
    fun x y h => by
      rcases h2.freshF x y h with h | h
      · exact h1.freshF x y h
      · exact .inr ⟨Nat.le_trans h1.front.2.2.2.2.1 h.1, Nat.le_trans h1.front.2.2.2.2.2 h.2⟩,
    fun p hp => h2.pins p (h1.pins p hp), fun p hp => h2.pinsR p (h1.pinsR p hp),
    fun p hp => h2.pinsTR p (h1.pinsTR p hp), fun p hp => h2.pinsCR p (h1.pinsCR p hp),
    fun p hp => h2.pinsTL p (h1.pinsTL p hp), fun p hp => h2.pinsCL p (h1.pinsCL p hp)⟩

/-- a closure on the left that is below the frontier and unrelated: no extension ever relates it -/
theorem Inj.le.protectedFL {β β' : Inj N} (h : β.le β') {a : Nat} (hlt : a < β.fL) (hu : ∀ b, ¬ β.f a b) :
    ∀ b, ¬ β'.f a b := fun b hb => by
  rcases h.freshF a b hb with h1 | h1
  · exact hu b h1
  · omega
theorem Inj.le.protectedFR {β β' : Inj N} (h : β.le β') {b : Nat} (hlt : b < β.fR) (hu : ∀ a, ¬ β.f a b) :
    ∀ a, ¬ β'.f a b := fun a ha => by
  rcases h.freshF a b ha with h1 | h1
  · exact hu a h1
  · omega
theorem Inj.le.protectedTL {β β' : Inj N} (h : β.le β') {a : Nat} (hlt : a < β.tL) (hu : ∀ b, ¬ β.t a b) :
    ∀ b, ¬ β'.t a b := fun b hb => by
  rcases h.freshT a b hb with h1 | h1
  · exact hu b h1
  · omega
theorem Inj.le.protectedTR {β β' : Inj N} (h : β.le β') {b : Nat} (hlt : b < β.tR) (hu : ∀ a, ¬ β.t a b) :
    ∀ a, ¬ β'.t a b := fun a ha => by
  rcases h.freshT a b ha with h1 | h1
  · exact hu a h1
  · omega
theorem Inj.le.protectedCL {β β' : Inj N} (h : β.le β') {a : Nat} (hlt : a < β.cL) (hu : ∀ b, ¬ β.c a b) :
    ∀ b, ¬ β'.c a b := fun b hb => by
  rcases h.freshC a b hb with h1 | h1
  · exact hu b h1
  · omega
theorem Inj.le.protectedCR {β β' : Inj N} (h : β.le β') {b : Nat} (hlt : b < β.cR) (hu : ∀ a, ¬ β.c a b) :
    ∀ a, ¬ β'.c a b := fun a ha => by
  rcases h.freshC a b ha with h1 | h1
  · exact hu a h1
  · omega

/-- the part of an extension that matters for assertions about private objects: relations and frontiers grow,
new cell / table pairs are fresh (new closure pairs need not be: closures are immutable) -/
structure Inj.ext (β β' : Inj N) : Prop where
  c : ∀ a b, β.c a b → β'.c a b
  t : ∀ a b, β.t a b → β'.t a b
  f : ∀ a b, β.f a b → β'.f a b
  front : β.cL ≤ β'.cL ∧ β.cR ≤ β'.cR ∧ β.tL ≤ β'.tL ∧ β.tR ≤ β'.tR ∧ β.fL ≤ β'.fL ∧ β.fR ≤ β'.fR
  freshC : ∀ a b, β'.c a b → β.c a b ∨ (β.cL ≤ a ∧ β.cR ≤ b)
  freshT : ∀ a b, β'.t a b → β.t a b ∨ (β.tL ≤ a ∧ β.tR ≤ b)

theorem Inj.le.toExt {β β' : Inj N} (h : β.le β') : β.ext β' := ⟨h.c, h.t, h.f, h.front, h.freshC, h.freshT⟩
theorem Inj.ext.refl (β : Inj N) : β.ext β := (Inj.le_refl β).toExt

/-- **frame**: from `(σ, σ')` to `(s, s')` the PRIVATE cells and tables of `β` (below the frontier and related to
nothing) are untouched, and closures are only added. Every generic step satisfies it (`SRel.…` lemmas). -/
structure Frame (β : Inj N) (σ σ' s s' : State N) : Prop where
  cL : ∀ (a : Nat) v, a < β.cL → (∀ b, ¬ β.c a b) → σ.cells[a]? = some v → s.cells[a]? = some v
  cR : ∀ (b : Nat) v, b < β.cR → (∀ a, ¬ β.c a b) → σ'.cells[b]? = some v → s'.cells[b]? = some v
  tL : ∀ (a : Nat) v, a < β.tL → (∀ b, ¬ β.t a b) → σ.tables[a]? = some v → s.tables[a]? = some v
  tR : ∀ (b : Nat) v, b < β.tR → (∀ a, ¬ β.t a b) → σ'.tables[b]? = some v → s'.tables[b]? = some v
  fL : ∀ (a : Nat) v, σ.closures[a]? = some v → s.closures[a]? = some v
  fR : ∀ (b : Nat) v, σ'.closures[b]? = some v → s'.closures[b]? = some v

/-- the CONTENT pins (tables / cells, both sides) are the same: what every generic step satisfies (only the
consumer's own pinned allocations / writes change them), so that the consumer's invariant may say which of its
private objects are NOT pinned (needed for `SRel.privSet…` on a private object that exists from the start) -/
def Inj.samePins (β β' : Inj N) : Prop :=
  β'.pinTL = β.pinTL ∧ β'.pinCL = β.pinCL ∧ β'.pinTR = β.pinTR ∧ β'.pinCR = β.pinCR

theorem Inj.samePins.refl (β : Inj N) : β.samePins β := ⟨rfl, rfl, rfl, rfl⟩

theorem Frame.refl (β : Inj N) (σ σ' : State N) : Frame β σ σ' σ σ' :=
  ⟨fun _ _ _ _ h => h, fun _ _ _ _ h => h, fun _ _ _ _ h => h, fun _ _ _ _ h => h, fun _ _ h => h, fun _ _ h => h⟩

/-- context of a development (as in stage 3): watched global names with facts about their values, closure facts,
the class of dead sets, up-to-timeout, and an assumption on the call handler that may mention the oracle and the
level (so that a leaf can unfold the call of a known closure; also the place for a class of number systems) -/
structure Cx where
  W : List String := []
  G : (N : NumOps) → List (String × Val N) := fun _ => []
  sub : ∀ N p, p ∈ G N → p.1 ∈ W := by intros; simp_all
  Dok : List DName → Prop := fun _ => True
  upto : Bool := false
  /-- the mirror image: the REWRITTEN program may exhaust its budget where the original does not (rewrites that
  spend more budget levels) -/
  uptoR : Bool := false
  F : List (String × FnBody) := []
  subF : ∀ p, p ∈ F → p.1 ∈ W := by intros; simp_all
  CF : (N : NumOps) → ExtOracle N → Nat → CallFn N → Prop := fun _ _ _ _ => True
  /-- WATCHED NAMES WITH KNOWN BINDINGS: the cell each side binds a watched name to (`none` = not bound on that side:
  the name reads the global there). Where a name is watched (`.wat n ∈ D`) it is never declared or assigned, so
  every environment — the captured environments of closures created in that scope included — binds it exactly like
  this. The names of `W` are watched in EVERY environment pair (`EnvRel.dw`): watched globals (bound on neither
  side, the only kind allowed when the related code starts from the empty environment, `Cx.top`), and locals that
  the consumer's own one-sided preludes declared before any related code runs. Other names of `bindL` / `bindR`
  become watched at a one-sided declaration inside the related code (`EnvRel.watchLeft` / `watchRight`). -/
  bindL : List (String × Nat) := []
  bindR : List (String × Nat) := []
  /-- the consumer's heap invariant: a relation between the PRIVATE parts of the two heaps (objects that are
  related to nothing: tables / cells of different shape kept in correspondence by designated closures …). It holds
  in every `SRel` state pair; generic code preserves it because it only changes related objects (`stable`);
  a leaf that writes private objects re-establishes it (`SRel.privSet…`). -/
  I : (N : NumOps) → Inj N → State N → State N → Prop := fun _ _ _ _ => True
  stable : ∀ (N : NumOps) (β β' : Inj N) (σ σ' s s' : State N), β.ext β' → β.samePins β' → Frame β σ σ' s s' →
    I N β σ σ' → I N β' s s' := by intros; trivial

/-- the always-watched names are globals (what the theorems that start from the EMPTY environment ask) -/
def Cx.top (cx : Cx) : Prop := ∀ n ∈ cx.W, lookupAssoc n cx.bindL = none ∧ lookupAssoc n cx.bindR = none

/-- default proof of `cx.top` (no watched names, or no bindings) -/
macro "top_tac" : tactic => `(tactic| first | (intro _ h; cases h) | (intro _ _; exact ⟨rfl, rfl⟩))

/-- the empty context -/
def Cx.none : Cx := {}

def Injective (r : Nat → Nat → Prop) : Prop := ∀ {a b a' b'}, r a b → r a' b' → (a = a' ↔ b = b')

/-- values up to renumbering of table and closure ids -/
def VRel (β : Inj N) : Val N → Val N → Prop
  | .nil, .nil => True
  | .bool a, .bool b => a = b
  | .num a, .num b => a = b
  | .str a, .str b => a = b
  | .builtin a, .builtin b => a = b
  | .tbl a, .tbl b => β.t a b
  | .fn a, .fn b => β.f a b
  | _, _ => False

abbrev VsRel (β : Inj N) : List (Val N) → List (Val N) → Prop := Forall2 (VRel β)

theorem VRel.mono {β β' : Inj N} (h : β.le β') {v v' : Val N} (hv : VRel β v v') : VRel β' v v' := by
  cases v <;> cases v' <;> simp only [VRel] at hv ⊢ <;> first | exact hv | exact h.t _ _ hv | exact h.f _ _ hv

theorem VsRel.mono {β β' : Inj N} (h : β.le β') {vs vs' : List (Val N)} (hv : VsRel β vs vs') : VsRel β' vs vs' :=
  Forall2.imp (fun _ _ => VRel.mono h) hv

/-- a value without heap references is related to itself -/
def Val.flat : Val N → Prop
  | .tbl _ => False
  | .fn _ => False
  | _ => True

theorem VRel.flat {β : Inj N} {v : Val N} (h : Val.flat v) : VRel β v v := by
  cases v <;> simp only [Val.flat] at h <;> simp only [VRel]

theorem VRel.first {β : Inj N} {vs vs' : List (Val N)} (h : VsRel β vs vs') : VRel β (first vs) (first vs') := by
  cases h with
  | nil => simp only [Sem.first, List.headD, VRel]
  | cons h1 _ => exact h1

theorem VsRel.drop {β : Inj N} {vs vs' : List (Val N)} (h : VsRel β vs vs') : ∀ n, VsRel β (vs.drop n) (vs'.drop n)
  | 0 => h
  | n + 1 => by
    cases h with
    | nil => exact .nil
    | cons _ t => exact VsRel.drop t n

theorem VsRel.length {β : Inj N} {vs vs' : List (Val N)} (h : VsRel β vs vs') : vs.length = vs'.length := by
  induction h with
  | nil => rfl
  | cons _ _ ih => simp only [List.length_cons, ih]

theorem VRel.truthy {β : Inj N} {v v' : Val N} (h : VRel β v v') : v'.truthy = v.truthy := by
  cases v <;> cases v' <;> simp only [VRel] at h <;> simp only [Val.truthy, h]

theorem VRel.typeName {β : Inj N} {v v' : Val N} (h : VRel β v v') : v'.typeName = v.typeName := by
  cases v <;> cases v' <;> simp only [VRel] at h <;> rfl

theorem VRel.toNumber {β : Inj N} {v v' : Val N} (h : VRel β v v') : toNumber? v' = toNumber? v := by
  cases v <;> cases v' <;> simp only [VRel] at h <;> simp only [toNumber?, h]

theorem VRel.toStringPrim {β : Inj N} {v v' : Val N} (h : VRel β v v') : toStringPrim? v' = toStringPrim? v := by
  cases v <;> cases v' <;> simp only [VRel] at h <;> simp only [toStringPrim?, h]

theorem VRel.tostringBasic {β : Inj N} {v v' : Val N} (h : VRel β v v') : tostringBasic v' = tostringBasic v := by
  cases v <;> cases v' <;> simp only [VRel] at h <;> first | rfl | (subst h; rfl)

/-- raw equality is invariant (this is where injectivity is used) -/
theorem VRel.rawEq {β : Inj N} (ht : Injective β.t) (hf : Injective β.f) {a a' b b' : Val N}
    (ha : VRel β a a') (hb : VRel β b b') : rawEq a' b' = rawEq a b := by
  cases a <;> cases a' <;> simp only [VRel] at ha <;> cases b <;> cases b' <;> simp only [VRel] at hb <;>
    simp only [Sem.rawEq, ha, hb]
  · rename_i x x' y y'
    have := ht ha hb
    by_cases h : x = y
    · have h2 := this.mp h
      subst h; subst h2; simp only [beq_self_eq_true]
    · have h' : ¬ x' = y' := fun e => h (this.mpr e)
      rw [beq_eq_false_iff_ne.mpr h, beq_eq_false_iff_ne.mpr h']
  · rename_i x x' y y'
    have := hf ha hb
    by_cases h : x = y
    · have h2 := this.mp h
      subst h; subst h2; simp only [beq_self_eq_true]
    · have h' : ¬ x' = y' := fun e => h (this.mpr e)
      rw [beq_eq_false_iff_ne.mpr h, beq_eq_false_iff_ne.mpr h']

def ERel (β : Inj N) (p q : Val N × Val N) : Prop := VRel β p.1 q.1 ∧ VRel β p.2 q.2

/-- tables: entries pairwise related in order, metatables related -/
structure TRel (β : Inj N) (t t' : Table N) : Prop where
  entries : Forall2 (ERel β) t.entries t'.entries
  mt : OptRel β.t t.mt t'.mt

theorem TRel.mono {β β' : Inj N} (h : β.le β') {t t' : Table N} (ht : TRel β t t') : TRel β' t t' :=
  ⟨Forall2.imp (fun _ _ he => ⟨VRel.mono h he.1, VRel.mono h he.2⟩) ht.entries, by
    have := ht.mt
    cases h1 : t.mt <;> cases h2 : t'.mt <;> rw [h1, h2] at this <;> simp only [OptRel] at this ⊢
    exact h.t _ _ this⟩

abbrev QRel := List DName → FnBody → FnBody → Prop

/-- `D ⊆ D'` without watching more names -/
def DSub (D D' : List DName) : Prop := (∀ x ∈ D, x ∈ D') ∧ ∀ n, DName.wat n ∈ D' → DName.wat n ∈ D
theorem DSub.refl (D : List DName) : DSub D D := ⟨fun _ h => h, fun _ h => h⟩
theorem DSub.trans {A B C : List DName} (h1 : DSub A B) (h2 : DSub B C) : DSub A C :=
  ⟨fun x h => h2.1 x (h1.1 x h), fun n h => h1.2 n (h2.2 n h)⟩
theorem DSub.refs (ns : List String) (D : List DName) : DSub D (ns.map DName.ref ++ D) :=
  ⟨fun _ h => List.mem_append_right _ h, fun n h => by
    rcases List.mem_append.mp h with h | h
    · obtain ⟨m, _, e⟩ := List.mem_map.mp h; cases e
    · exact h⟩
theorem DSub.consRef (n : String) (D : List DName) : DSub D (DName.ref n :: D) :=
  ⟨fun _ h => List.mem_cons_of_mem _ h, fun m h => by
    rcases List.mem_cons.mp h with e | h
    · cases e
    · exact h⟩

theorem OptRel.imp {α γ : Type} {R S : α → γ → Prop} (h : ∀ a b, R a b → S a b) :
    ∀ {x y}, OptRel R x y → OptRel S x y
  | none, none, _ => trivial
  | some _, some _, hr => h _ _ hr
  | none, some _, hr => hr
  | some _, none, hr => hr

theorem lookup_cons_ne {α : Type} {n m : String} {c : α} {l : List (String × α)} (h : m ≠ n) :
    lookupAssoc m ((n, c) :: l) = lookupAssoc m l := by
  simp only [lookupAssoc]
  split
  · next heq => exact absurd (beq_iff_eq.mp heq).symm h
  · rfl

/-- local environments: they agree (through the cell injection) on every name not dead; every watched global is
recorded in `D`; every watched name (`.wat n ∈ D`) has exactly the binding the context prescribes -/
structure EnvRel (cx : Cx) (β : Inj N) (D : List DName) (l l' : List (String × Nat)) : Prop where
  rel : ∀ n, DName.ref n ∉ D → OptRel β.c (lookupAssoc n l) (lookupAssoc n l')
  dw : ∀ n ∈ cx.W, DName.wat n ∈ D
  wb : ∀ n, DName.wat n ∈ D → lookupAssoc n l = lookupAssoc n cx.bindL ∧ lookupAssoc n l' = lookupAssoc n cx.bindR

/-- dead sets that watch nothing (contexts without watched names): only the agreement clause is left -/
theorem EnvRel.ofNoWat {cx : Cx} {β : Inj N} {D l l'}
    (hrel : ∀ n, DName.ref n ∉ D → OptRel β.c (lookupAssoc n l) (lookupAssoc n l'))
    (hD : ∀ n, DName.wat n ∉ D) (hW : ∀ n ∈ cx.W, DName.wat n ∈ D := by intro _ h; cases h) : EnvRel cx β D l l' :=
  ⟨hrel, hW, fun n h => (hD n h).elim⟩

theorem EnvRel.mono {cx : Cx} {β β' : Inj N} {D l l'} (h : EnvRel cx β D l l') (hβ : β.le β') : EnvRel cx β' D l l' :=
  ⟨fun n hn => OptRel.imp hβ.c (h.rel n hn), h.dw, h.wb⟩

theorem EnvRel.ofExt {cx : Cx} {β β' : Inj N} {D l l'} (h : EnvRel cx β D l l') (hβ : β.ext β') : EnvRel cx β' D l l' :=
  ⟨fun n hn => OptRel.imp hβ.c (h.rel n hn), h.dw, h.wb⟩

theorem EnvRel.weaken {cx : Cx} {β : Inj N} {D D' l l'} (h : EnvRel cx β D l l') (hD : DSub D D') :
    EnvRel cx β D' l l' :=
  ⟨fun n hn => h.rel n (fun hx => hn (hD.1 _ hx)), fun n hn => hD.1 _ (h.dw n hn), fun n hn => h.wb n (hD.2 n hn)⟩

theorem EnvRel.cons {cx : Cx} {β : Inj N} {D l l'} (h : EnvRel cx β D l l') (n : String) (hn : DName.wat n ∉ D)
    {c c' : Nat} (hc : β.c c c') : EnvRel cx β D ((n, c) :: l) ((n, c') :: l') :=
  ⟨fun m hm => by
    simp only [lookupAssoc]
    split
    · exact hc
    · exact h.rel m hm, h.dw, fun m hm => by
    have hne : m ≠ n := fun e => hn (e ▸ hm)
    rw [lookup_cons_ne hne, lookup_cons_ne hne]; exact h.wb m hm⟩

theorem EnvRel.consLeft {cx : Cx} {β : Inj N} {D l l'} (h : EnvRel cx β D l l') (n : String) (c : Nat)
    (hr : DName.ref n ∈ D) (hn : DName.wat n ∉ D) : EnvRel cx β D ((n, c) :: l) l' :=
  ⟨fun m hm => by
    simp only [lookupAssoc]
    split
    · next heq => exact absurd (by rw [← (beq_iff_eq.mp heq)]; exact hr) hm
    · exact h.rel m hm, h.dw, fun m hm => by
    have hne : m ≠ n := fun e => hn (e ▸ hm)
    rw [lookup_cons_ne hne]; exact h.wb m hm⟩

theorem EnvRel.consRight {cx : Cx} {β : Inj N} {D l l'} (h : EnvRel cx β D l l') (n : String) (c : Nat)
    (hr : DName.ref n ∈ D) (hn : DName.wat n ∉ D) : EnvRel cx β D l ((n, c) :: l') :=
  ⟨fun m hm => by
    simp only [lookupAssoc]
    split
    · next heq => exact absurd (by rw [← (beq_iff_eq.mp heq)]; exact hr) hm
    · exact h.rel m hm, h.dw, fun m hm => by
    have hne : m ≠ n := fun e => hn (e ▸ hm)
    rw [lookup_cons_ne hne]; exact h.wb m hm⟩

/-- **a watched local is declared on the left only** (it becomes dead AND watched): the binding is the one the
context prescribes -/
theorem EnvRel.watchLeft {cx : Cx} {β : Inj N} {D l l'} (h : EnvRel cx β D l l') (n : String) (c : Nat)
    (hL : lookupAssoc n cx.bindL = some c) (hR : lookupAssoc n l' = lookupAssoc n cx.bindR) :
    EnvRel cx β (DName.wat n :: DName.ref n :: D) ((n, c) :: l) l' :=
  ⟨fun m hm => by
    have hne : m ≠ n := fun e => hm (e ▸ List.mem_cons_of_mem _ List.mem_cons_self)
    rw [lookup_cons_ne hne]
    exact h.rel m fun hx => hm (List.mem_cons_of_mem _ (List.mem_cons_of_mem _ hx)),
   fun m hm => List.mem_cons_of_mem _ (List.mem_cons_of_mem _ (h.dw m hm)), fun m hm => by
    rcases List.mem_cons.mp hm with e | hm
    · cases e; exact ⟨by simp [lookupAssoc, hL], hR⟩
    · rcases List.mem_cons.mp hm with e | hm2
      · cases e
      · by_cases hne : m = n
        · exact ⟨by rw [hne]; simp [lookupAssoc, hL], (h.wb m hm2).2⟩
        · rw [lookup_cons_ne hne]; exact h.wb m hm2⟩

theorem EnvRel.watchRight {cx : Cx} {β : Inj N} {D l l'} (h : EnvRel cx β D l l') (n : String) (c : Nat)
    (hR : lookupAssoc n cx.bindR = some c) (hL : lookupAssoc n l = lookupAssoc n cx.bindL) :
    EnvRel cx β (DName.wat n :: DName.ref n :: D) l ((n, c) :: l') :=
  ⟨fun m hm => by
    have hne : m ≠ n := fun e => hm (e ▸ List.mem_cons_of_mem _ List.mem_cons_self)
    rw [lookup_cons_ne hne]
    exact h.rel m fun hx => hm (List.mem_cons_of_mem _ (List.mem_cons_of_mem _ hx)),
   fun m hm => List.mem_cons_of_mem _ (List.mem_cons_of_mem _ (h.dw m hm)), fun m hm => by
    rcases List.mem_cons.mp hm with e | hm
    · cases e; exact ⟨hL, by simp [lookupAssoc, hR]⟩
    · rcases List.mem_cons.mp hm with e | hm2
      · cases e
      · by_cases hne : m = n
        · exact ⟨(h.wb m hm2).1, by rw [hne]; simp [lookupAssoc, hR]⟩
        · rw [lookup_cons_ne hne]; exact h.wb m hm2⟩

/-- the global `name` holds a closure with body `body` and an empty captured environment -/
def FnGlobal (σ : State N) (name : String) (body : FnBody) : Prop :=
  ∃ id clo, σ.getGlobal name = .fn id ∧ σ.closures[id]? = some clo ∧ clo.body = body ∧ clo.env = []

structure CRel (Q : QRel) (cx : Cx) (β : Inj N) (c c' : Closure N) : Prop where
  varargs : VsRel β c.varargs c'.varargs
  body : ∃ D, Q D c.body c'.body ∧ EnvRel cx β D c.env c'.env

theorem CRel.mono {Q : QRel} {β β' : Inj N} {c c' : Closure N} (h : CRel Q cx β c c') (hβ : β.le β') : CRel Q cx β' c c' :=
  ⟨h.varargs.mono hβ, let ⟨D, hq, he⟩ := h.body; ⟨D, hq, he.mono hβ⟩⟩

/-- the frontiers of `β` are at most the current allocation points -/
structure Front (β : Inj N) (σ σ' : State N) : Prop where
  cL : β.cL ≤ σ.cells.length
  cR : β.cR ≤ σ'.cells.length
  tL : β.tL ≤ σ.tables.length
  tR : β.tR ≤ σ'.tables.length
  fL : β.fL ≤ σ.closures.length
  fR : β.fR ≤ σ'.closures.length

theorem Front.of_le {β : Inj N} {σ σ' s s' : State N} (h : Front β σ σ') (h1 : σ.cells.length ≤ s.cells.length)
    (h2 : σ'.cells.length ≤ s'.cells.length) (h3 : σ.tables.length ≤ s.tables.length)
    (h4 : σ'.tables.length ≤ s'.tables.length) (h5 : σ.closures.length ≤ s.closures.length)
    (h6 : σ'.closures.length ≤ s'.closures.length) : Front β s s' :=
  ⟨Nat.le_trans h.cL h1, Nat.le_trans h.cR h2, Nat.le_trans h.tL h3, Nat.le_trans h.tR h4,
    Nat.le_trans h.fL h5, Nat.le_trans h.fR h6⟩

def GRel (β : Inj N) (p q : String × Val N) : Prop := p.1 = q.1 ∧ VRel β p.2 q.2

structure SRel (Q : QRel) (cx : Cx) (β : Inj N) (σ σ' : State N) : Prop where
  globals : Forall2 (GRel β) σ.globals σ'.globals
  trace : σ'.trace = σ.trace
  injC : Injective β.c
  injT : Injective β.t
  injF : Injective β.f
  cell : ∀ {a b}, β.c a b → ∃ v v', σ.cells[a]? = some v ∧ σ'.cells[b]? = some v' ∧ VRel β v v'
  tbl : ∀ {a b}, β.t a b → ∃ t t', σ.tables[a]? = some t ∧ σ'.tables[b]? = some t' ∧ TRel β t t'
  clo : ∀ {a b}, β.f a b → ∃ c c', σ.closures[a]? = some c ∧ σ'.closures[b]? = some c' ∧ CRel Q cx β c c'
  /-- the `string` library table (strings index into it) is related to itself -/
  strlib : β.t stringLibId stringLibId
  /-- the facts about watched globals hold, on both sides -/
  ginv : ∀ p ∈ cx.G N, σ.getGlobal p.1 = p.2 ∧ σ'.getGlobal p.1 = p.2
  /-- the closure facts about watched globals hold, on both sides -/
  finv : ∀ p ∈ cx.F, FnGlobal σ p.1 p.2 ∧ FnGlobal σ' p.1 p.2
  /-- the frontiers are at most the current allocation points -/
  front : Front β σ σ'
  /-- pinned left closures hold their content and are related to nothing -/
  pin : ∀ p ∈ β.pinF, σ.closures[p.1]? = some ⟨p.2.1, p.2.2, []⟩ ∧ ∀ b, ¬ β.f p.1 b
  pinR : ∀ p ∈ β.pinFR, σ'.closures[p.1]? = some ⟨p.2.1, p.2.2, []⟩ ∧ ∀ a, ¬ β.f a p.1
  /-- pinned right tables / cells hold their content, are below the frontier and related to nothing -/
  pinT : ∀ p ∈ β.pinTR, σ'.tables[p.1]? = some p.2 ∧ p.1 < β.tR ∧ ∀ a, ¬ β.t a p.1
  pinC : ∀ p ∈ β.pinCR, σ'.cells[p.1]? = some p.2 ∧ p.1 < β.cR ∧ ∀ a, ¬ β.c a p.1
  pinTl : ∀ p ∈ β.pinTL, σ.tables[p.1]? = some p.2 ∧ p.1 < β.tL ∧ ∀ b, ¬ β.t p.1 b
  pinCl : ∀ p ∈ β.pinCL, σ.cells[p.1]? = some p.2 ∧ p.1 < β.cL ∧ ∀ b, ¬ β.c p.1 b
  /-- the consumer's invariant on the private parts of the heaps -/
  inv : cx.I N β σ σ'

abbrev ARel (N : NumOps) (α : Type) := Inj N → α → α → Prop
def AEq {α : Type} : ARel N α := fun _ a b => a = b
def AVs : ARel N (List (Val N)) := fun β a b => VsRel β a b
def AV : ARel N (Val N) := fun β a b => VRel β a b

def RRel (Q : QRel) (cx : Cx) (β : Inj N) {α : Type} (A : ARel N α) (r r' : Res N α) : Prop :=
  match r, r' with
  | .ok a σ, .ok a' σ' => ∃ β', β.le β' ∧ A β' a a' ∧ SRel Q cx β' σ σ'
  | .err v σ, .err v' σ' => ∃ β', β.le β' ∧ VRel β' v v' ∧ SRel Q cx β' σ σ'
  | .timeout, .timeout => True
  -- only when `cx.upto`: the original may exhaust its budget where the rewritten program does not
  | .timeout, _ => cx.upto = true
  -- only when `cx.uptoR`: the rewritten program may exhaust its budget where the original does not
  | _, .timeout => cx.uptoR = true
  | _, _ => False

variable {Q : QRel} {cx : Cx} {β : Inj N}

theorem RRel.ok {α : Type} {A : ARel N α} {a a' : α} {σ σ' : State N} (ha : A β a a') (h : SRel Q cx β σ σ') :
    RRel Q cx β A (.ok a σ) (.ok a' σ') := ⟨β, β.le_refl, ha, h⟩
theorem RRel.err {α : Type} {A : ARel N α} {v v' : Val N} {σ σ' : State N} (hv : VRel β v v') (h : SRel Q cx β σ σ') :
    RRel Q cx β A (.err v σ : Res N α) (.err v' σ') := ⟨β, β.le_refl, hv, h⟩
theorem RRel.errS {α : Type} {A : ARel N α} {m : String} {σ σ' : State N} (h : SRel Q cx β σ σ') :
    RRel Q cx β A (errS m σ : Res N α) (errS m σ') := ⟨β, β.le_refl, by simp only [strVal, VRel], h⟩
theorem RRel.timeout {α : Type} {A : ARel N α} : RRel Q cx β A (.timeout : Res N α) .timeout := trivial

theorem RRel.timeout_left {α : Type} {A : ARel N α} (hu : cx.upto = true) (r' : Res N α) :
    RRel Q cx β A (.timeout : Res N α) r' := by
  cases r' <;> simp only [RRel, hu]

theorem RRel.timeout_right {α : Type} {A : ARel N α} (hu : cx.uptoR = true) (r : Res N α) :
    RRel Q cx β A r (.timeout : Res N α) := by
  cases r <;> simp only [RRel, hu]

theorem RRel.mono {α : Type} {A : ARel N α} {β' : Inj N} {r r' : Res N α} (hβ : β.le β')
    (h : RRel Q cx β' A r r') : RRel Q cx β A r r' := by
  cases r <;> cases r' <;> simp only [RRel] at h ⊢
  · obtain ⟨β2, h1, h2, h3⟩ := h; exact ⟨β2, Inj.le_trans hβ h1, h2, h3⟩
  · exact h
  · obtain ⟨β2, h1, h2, h3⟩ := h; exact ⟨β2, Inj.le_trans hβ h1, h2, h3⟩
  · exact h
  · exact h
  · exact h

theorem RRel.bind {α γ : Type} {A : ARel N α} {B : ARel N γ} {r r' : Res N α} {f f' : α → State N → Res N γ}
    (h : RRel Q cx β A r r')
    (hf : ∀ β', β.le β' → ∀ a a', A β' a a' → ∀ σ σ', SRel Q cx β' σ σ' → RRel Q cx β' B (f a σ) (f' a' σ')) :
    RRel Q cx β B (r.bind f) (r'.bind f') := by
  cases r <;> cases r' <;> simp only [RRel] at h
  · obtain ⟨β1, h1, h2, h3⟩ := h
    exact RRel.mono h1 (hf β1 h1 _ _ h2 _ _ h3)
  · exact RRel.timeout_right h _
  · exact h
  · exact RRel.timeout_right h _
  · exact RRel.timeout_left h _
  · exact RRel.timeout_left h _
  · trivial

theorem RRel.mapA {α : Type} {A B : ARel N α} {r r' : Res N α} (h : RRel Q cx β A r r')
    (hab : ∀ β', β.le β' → ∀ a a', A β' a a' → B β' a a') : RRel Q cx β B r r' := by
  cases r <;> cases r' <;> simp only [RRel] at h ⊢
  · obtain ⟨β1, h1, h2, h3⟩ := h; exact ⟨β1, h1, hab β1 h1 _ _ h2, h3⟩
  · exact h
  · exact h
  · exact h
  · exact h
  · exact h

end DarkluaModel.Sem.HeapU
