import DarkluaModel.Shared.VisitorSound.HeapU.USoundStmt2
import DarkluaModel.Shared.VisitorSound.Heap.HRefl
/-!
# Stage 4: reflexive soundness, for every closure-body relation `Q` that is reflexive on `NoRef` syntax

`refl… : NoRef… D a → Sound… Q D a a` — the same code, run in environments that agree outside `D`
on related states, gives related results, provided it references no name of `D`.
-/
namespace DarkluaModel.Sem.HeapU
open Heap (addSelf NoRefF.addSelf)
set_option linter.unusedSectionVars false

/-- `Q` relates every function body to itself under any dead set it does not reference -/
def QRefl (Q : QRel) : Prop := ∀ D f, NoRefF D f → Q D f f

variable {Q : QRel} {cx : Cx} (hq : QRefl Q)
include hq

mutual
  theorem reflE : ∀ (e : Expr) (D : List DName), NoRefE D e → SoundE Q cx D e e
    | .nil, _, h => SoundE.leaf rfl h
    | .true, _, h => SoundE.leaf rfl h
    | .false, _, h => SoundE.leaf rfl h
    | .vararg, _, h => SoundE.leaf rfl h
    | .num _, _, h => SoundE.leaf rfl h
    | .str _, _, h => SoundE.leaf rfl h
    | .var _, _, h => SoundE.leaf rfl h
    | .paren e, D, h => SoundE.paren (reflE e D (NoRefE.paren.mp h))
    | .un _ e, D, h => SoundE.un (reflE e D (NoRefE.un.mp h))
    | .bin _ l r, D, h => SoundE.bin (reflE l D (NoRefE.bin.mp h).1) (reflE r D (NoRefE.bin.mp h).2)
    | .call f _ _ args, D, h => SoundE.call (reflE f D (NoRefE.call.mp h).1) (reflEs args D (NoRefE.call.mp h).2)
    | .field e _, D, h => SoundE.field (reflE e D (NoRefE.field.mp h))
    | .index e k, D, h => SoundE.index (reflE e D (NoRefE.index.mp h).1) (reflE k D (NoRefE.index.mp h).2)
    | .fn f, D, h => SoundE.fn (hq D f (NoRefE.fn.mp h))
    | .table es, D, h => SoundE.table (reflEntries es D (NoRefE.table.mp h))
    | .ifx c t el e, D, h =>
      SoundE.ifx (reflE c D (NoRefE.ifx.mp h).1) (reflE t D (NoRefE.ifx.mp h).2.1)
        (reflElifs el D (NoRefE.ifx.mp h).2.2.1) (reflE e D (NoRefE.ifx.mp h).2.2.2)
    | .interp segs, D, h => SoundE.interp (reflSegs segs D (NoRefE.interp.mp h))
    | .cast e _, D, h => SoundE.cast (reflE e D (NoRefE.cast.mp h))
    | .inst e _, D, h => SoundE.inst (reflE e D (NoRefE.inst.mp h))
  theorem reflEs : ∀ (es : List Expr) (D : List DName), NoRefEs D es → SoundEs Q cx D es es
    | [], _, _ => SoundEs.nil
    | e :: es, D, h => SoundEs.cons Iff.rfl (reflE e D (NoRefEs.cons.mp h).1) (reflEs es D (NoRefEs.cons.mp h).2)
  theorem reflElifs : ∀ (es : List (Expr × Expr)) (D : List DName), NoRefElifs D es → SoundElifs Q cx D es es
    | [], _, _ => SoundElifs.nil
    | (c, t) :: es, D, h =>
      SoundElifs.cons (reflE c D (NoRefElifs.cons.mp h).1) (reflE t D (NoRefElifs.cons.mp h).2.1)
        (reflElifs es D (NoRefElifs.cons.mp h).2.2)
  theorem reflEntries : ∀ (es : List Entry) (D : List DName), NoRefEntries D es → SoundEntries Q cx D es es
    | [], _, _ => SoundEntries.nil
    | .pos v :: es, D, h =>
      SoundEntries.pos Iff.rfl (reflE v D (NoRefEntries.pos.mp h).1) (reflEntries es D (NoRefEntries.pos.mp h).2)
    | .named _ v :: es, D, h =>
      SoundEntries.named (reflE v D (NoRefEntries.named.mp h).1) (reflEntries es D (NoRefEntries.named.mp h).2)
    | .keyed k v :: es, D, h =>
      SoundEntries.keyed (reflE k D (NoRefEntries.keyed.mp h).1) (reflE v D (NoRefEntries.keyed.mp h).2.1)
        (reflEntries es D (NoRefEntries.keyed.mp h).2.2)
  theorem reflSegs : ∀ (es : List Seg) (D : List DName), NoRefSegs D es → SoundSegs Q cx D es es
    | [], _, _ => SoundSegs.nil
    | .s _ :: es, D, h => SoundSegs.s (reflSegs es D (NoRefSegs.s.mp h))
    | .v e :: es, D, h => SoundSegs.v (reflE e D (NoRefSegs.v.mp h).1) (reflSegs es D (NoRefSegs.v.mp h).2)
  theorem reflT : ∀ (e : Expr) (D : List DName), NoRefT D e → SoundT Q cx D e e
    | .var _, _, h => SoundT.var (NoRefT.var.mp h)
    | .field x _, D, h => SoundT.field (reflE x D (NoRefT.field.mp h))
    | .index x k, D, h => SoundT.index (reflE x D (NoRefT.index.mp h).1) (reflE k D (NoRefT.index.mp h).2)
    | .nil, _, _ => SoundT.nonLv rfl rfl | .true, _, _ => SoundT.nonLv rfl rfl | .false, _, _ => SoundT.nonLv rfl rfl
    | .vararg, _, _ => SoundT.nonLv rfl rfl | .num _, _, _ => SoundT.nonLv rfl rfl
    | .str _, _, _ => SoundT.nonLv rfl rfl | .paren _, _, _ => SoundT.nonLv rfl rfl
    | .un _ _, _, _ => SoundT.nonLv rfl rfl | .bin _ _ _, _, _ => SoundT.nonLv rfl rfl
    | .call _ _ _ _, _, _ => SoundT.nonLv rfl rfl | .fn _, _, _ => SoundT.nonLv rfl rfl
    | .table _, _, _ => SoundT.nonLv rfl rfl | .ifx _ _ _ _, _, _ => SoundT.nonLv rfl rfl
    | .interp _, _, _ => SoundT.nonLv rfl rfl | .cast _ _, _, _ => SoundT.nonLv rfl rfl
    | .inst _ _, _, _ => SoundT.nonLv rfl rfl
  theorem reflTs : ∀ (es : List Expr) (D : List DName), NoRefTs D es → SoundTs Q cx D es es
    | [], _, _ => SoundTs.nil
    | e :: es, D, h => SoundTs.cons (reflT e D (NoRefTs.cons.mp h).1) (reflTs es D (NoRefTs.cons.mp h).2)
  theorem reflS : ∀ (s : Stmt) (D : List DName), NoRefS D s → SoundS Q cx D s s
    | .assign ts vs, D, h => SoundS.assign (reflTs ts D (NoRefS.assign.mp h).1) (reflEs vs D (NoRefS.assign.mp h).2)
    | .cassign _ t v, D, h => SoundS.cassign (reflT t D (NoRefS.cassign.mp h).1) (reflE v D (NoRefS.cassign.mp h).2)
    | .callStmt c, D, h => SoundS.callStmt (reflE c D (NoRefS.callStmt.mp h))
    | .doBlock b, D, h => SoundS.doBlock (reflB b D (NoRefS.doBlock.mp h))
    | .function [] m f, D, h =>
      SoundS.function (fun _ hr => by simp at hr)
        (hq D _ (NoRefF.addSelf (NoRefS.functionNil.mp h).2 (NoRefS.functionNil.mp h).1))
    | .function (root :: _) m f, D, h =>
      SoundS.function (fun _ hr => by cases hr; exact ⟨(NoRefS.functionCons.mp h).1, (NoRefS.functionCons.mp h).2.1⟩)
        (hq D _ (NoRefF.addSelf (NoRefS.functionCons.mp h).2.2.2 (NoRefS.functionCons.mp h).2.2.1))
    | .gfor _ vs b, D, h =>
      SoundS.gfor rfl (Heap.NoWat.names (NoRefS.gfor.mp h).1) (reflEs vs D (NoRefS.gfor.mp h).2.1)
        (reflB b D (NoRefS.gfor.mp h).2.2)
    | .nfor (.mk _ _) a b none body, D, h =>
      SoundS.nforNone rfl (NoRefS.nforNone.mp h).1 (reflE a D (NoRefS.nforNone.mp h).2.1)
        (reflE b D (NoRefS.nforNone.mp h).2.2.1) (reflB body D (NoRefS.nforNone.mp h).2.2.2)
    | .nfor (.mk _ _) a b (some st) body, D, h =>
      SoundS.nforSome rfl (NoRefS.nforSome.mp h).1 (reflE a D (NoRefS.nforSome.mp h).2.1)
        (reflE b D (NoRefS.nforSome.mp h).2.2.1) (reflE st D (NoRefS.nforSome.mp h).2.2.2.1)
        (reflB body D (NoRefS.nforSome.mp h).2.2.2.2)
    | .ifs brs none, D, h => SoundS.ifsNone (reflBranches brs D (NoRefS.ifsNone.mp h))
    | .ifs brs (some b), D, h =>
      SoundS.ifsSome (reflBranches brs D (NoRefS.ifsSome.mp h).1) (reflB b D (NoRefS.ifsSome.mp h).2)
    | .localAssign _ _ vs, D, h =>
      SoundS.localAssign rfl (Heap.NoWat.names (NoRefS.localAssign.mp h).1) (reflEs vs D (NoRefS.localAssign.mp h).2)
    | .localFn _ _ f, D, h => SoundS.localFn (NoRefS.localFn.mp h).1 (hq D f (NoRefS.localFn.mp h).2)
    | .repeat_ b c, D, h =>
      SoundS.repeat_ (SoundRep.mk (reflB b D (NoRefS.repeat_.mp h).1) (reflE c D (NoRefS.repeat_.mp h).2))
    | .while_ c b, D, h => SoundS.while_ (reflE c D (NoRefS.while_.mp h).1) (reflB b D (NoRefS.while_.mp h).2)
    | .typeDecl _ _ _, _, _ => SoundS.typeDecl
    | .typeFn _ _ _, _, _ => SoundS.typeFn
  theorem reflBranches : ∀ (es : List (Expr × Block)) (D : List DName), NoRefBranches D es → SoundBranches Q cx D es es
    | [], _, _ => SoundBranches.nil
    | (c, b) :: es, D, h =>
      SoundBranches.cons (reflE c D (NoRefBranches.cons.mp h).1) (reflB b D (NoRefBranches.cons.mp h).2.1)
        (reflBranches es D (NoRefBranches.cons.mp h).2.2)
  theorem reflSs : ∀ (ss : List Stmt) (D : List DName), NoRefSs D ss → SoundSs Q cx D ss ss D
    | [], _, _ => SoundSs.nil
    | s :: ss, D, h => SoundSs.cons (reflS s D (NoRefSs.cons.mp h).1) (reflSs ss D (NoRefSs.cons.mp h).2)
  theorem reflL : ∀ (l : Last) (D : List DName), NoRefL D l → SoundL Q cx D l l
    | .ret es, D, h => SoundL.ret (reflEs es D (NoRefL.ret.mp h))
    | .brk, _, _ => SoundL.brk
    | .cont, _, _ => SoundL.cont
  theorem reflB : ∀ (b : Block) (D : List DName), NoRefB D b → SoundB Q cx D b b D
    | .mk ss none, D, h => SoundB.none (reflSs ss D (NoRefB.none.mp h))
    | .mk ss (some l), D, h => SoundB.some (reflSs ss D (NoRefB.some.mp h).1) (reflL l D (NoRefB.some.mp h).2)
end

end DarkluaModel.Sem.HeapU
