import DarkluaModel.Shared.VisitorSound.HeapU.ULoops
import DarkluaModel.Shared.VisitorSound.Exact
/-!
# Stage 4: soundness judgments for the renumbering relation; compatibility lemmas (expressions)

`SoundE Q cx D x y`: in environments that agree (through the cell injection) outside the dead set `D`, on
`SRel Q`-related states, with a call handler respecting the relation and a flat oracle, `x` and `y`
evaluate to RELATED values and related states. Generic in the closure-body relation `Q`.
-/
namespace DarkluaModel.Sem.HeapU

structure EnvOK {N : NumOps} (cx : Cx) (β : Inj N) (D : List DName) (env env' : Env N) : Prop where
  va : VsRel β env.varargs env'.varargs
  loc : EnvRel cx β D env.locals env'.locals

theorem EnvOK.mono {N : NumOps} {cx : Cx} {β β' : Inj N} {D} {env env' : Env N} (h : EnvOK cx β D env env')
    (hβ : β.le β') : EnvOK cx β' D env env' := ⟨h.va.mono hβ, h.loc.mono hβ⟩

theorem EnvOK.weaken {N : NumOps} {cx : Cx} {β : Inj N} {D D'} {env env' : Env N} (h : EnvOK cx β D env env')
    (hD : DSub D D') : EnvOK cx β D' env env' := ⟨h.va, h.loc.weaken hD⟩

/-- the parameters of an evaluation respect the relation -/
structure POK {N : NumOps} (Q : QRel) (cx : Cx) (call : CallFn N) (ρ : ExtOracle N) (k : Nat) : Prop where
  /-- the context's assumption on the call handler, the oracle and the level -/
  cf : cx.CF N ρ k call
  call : CallOK Q cx call
  flat : OracleFlat ρ
  /-- the closure-call handlers of the levels up to `k` respect the relation too: what a leaf needs that unfolds a
  call of its own known closures (`cx.CF` ties `call` to `callClosure ρ k`) and then runs RELATED code at a lower
  level through the fundamental lemma (the bundle's accessor against the reference `require`) -/
  lower : ∀ m, m ≤ k → CallOK Q cx (callClosure ρ m)

/-- evaluated targets: related, and storable (a variable target is not dead) -/
def ATarget {N : NumOps} (D : List DName) : ARel N (Target N) := fun β t t' => TgRel β t t' ∧ TargetOK D t
def ATargets {N : NumOps} (D : List DName) : ARel N (List (Target N)) :=
  fun β t t' => Forall2 (TgRel β) t t' ∧ ∀ tg ∈ t, TargetOK D tg

def SoundE (Q : QRel) (cx : Cx) (D : List DName) (x y : Expr) : Prop :=
  ∀ (N : NumOps) (call : CallFn N) (ρ : ExtOracle N) (k : Nat) (env env' : Env N) (σ σ' : State N) (β : Inj N),
    POK Q cx call ρ k → SRel Q cx β σ σ' → EnvOK cx β D env env' →
      RRel Q cx β AVs (evalE call ρ k env x σ) (evalE call ρ k env' y σ')
def SoundT (Q : QRel) (cx : Cx) (D : List DName) (x y : Expr) : Prop :=
  ∀ (N : NumOps) (call : CallFn N) (ρ : ExtOracle N) (k : Nat) (env env' : Env N) (σ σ' : State N) (β : Inj N),
    POK Q cx call ρ k → SRel Q cx β σ σ' → EnvOK cx β D env env' →
      RRel Q cx β (ATarget D) (evalTarget call ρ k env x σ) (evalTarget call ρ k env' y σ')
def SoundEs (Q : QRel) (cx : Cx) (D : List DName) (x y : List Expr) : Prop :=
  ∀ (N : NumOps) (call : CallFn N) (ρ : ExtOracle N) (k : Nat) (env env' : Env N) (σ σ' : State N) (β : Inj N),
    POK Q cx call ρ k → SRel Q cx β σ σ' → EnvOK cx β D env env' →
      RRel Q cx β AVs (evalEs call ρ k env x σ) (evalEs call ρ k env' y σ')
def SoundTs (Q : QRel) (cx : Cx) (D : List DName) (x y : List Expr) : Prop :=
  ∀ (N : NumOps) (call : CallFn N) (ρ : ExtOracle N) (k : Nat) (env env' : Env N) (σ σ' : State N) (β : Inj N),
    POK Q cx call ρ k → SRel Q cx β σ σ' → EnvOK cx β D env env' →
      RRel Q cx β (ATargets D) (evalTargets call ρ k env x σ) (evalTargets call ρ k env' y σ')
def SoundElifs (Q : QRel) (cx : Cx) (D : List DName) (x y : List (Expr × Expr)) : Prop :=
  ∀ (N : NumOps) (call : CallFn N) (ρ : ExtOracle N) (k : Nat) (env env' : Env N) (σ σ' : State N) (β : Inj N),
    POK Q cx call ρ k → SRel Q cx β σ σ' → EnvOK cx β D env env' →
      RRel Q cx β AOVs (evalElifs call ρ k env x σ) (evalElifs call ρ k env' y σ')
def SoundEntries (Q : QRel) (cx : Cx) (D : List DName) (x y : List Entry) : Prop :=
  ∀ (N : NumOps) (call : CallFn N) (ρ : ExtOracle N) (k : Nat) (env env' : Env N) (t t' i : Nat) (σ σ' : State N)
    (β : Inj N), POK Q cx call ρ k → SRel Q cx β σ σ' → EnvOK cx β D env env' → β.t t t' →
      RRel Q cx β AEq (evalEntries call ρ k env t i x σ) (evalEntries call ρ k env' t' i y σ')
def SoundSegs (Q : QRel) (cx : Cx) (D : List DName) (x y : List Seg) : Prop :=
  ∀ (N : NumOps) (call : CallFn N) (ρ : ExtOracle N) (k : Nat) (env env' : Env N) (acc : List UInt8)
    (σ σ' : State N) (β : Inj N), POK Q cx call ρ k → SRel Q cx β σ σ' → EnvOK cx β D env env' →
      RRel Q cx β AEq (evalSegs call ρ k env x acc σ) (evalSegs call ρ k env' y acc σ')

variable {Q : QRel} {cx : Cx} {D : List DName}

/-- `[first vs]` of related lists -/
theorem RRel.okFirst {N : NumOps} {β : Inj N} {vs vs' : List (Val N)} {σ σ' : State N} (hv : VsRel β vs vs')
    (h : SRel Q cx β σ σ') : RRel Q cx β AVs (.ok [first vs] σ) (.ok [first vs'] σ') :=
  RRel.ok (A := AVs) (.cons (VRel.first hv) .nil) h

theorem RRel.okOne {N : NumOps} {β : Inj N} {v v' : Val N} {σ σ' : State N} (hv : VRel β v v')
    (h : SRel Q cx β σ σ') : RRel Q cx β AVs (.ok [v] σ) (.ok [v'] σ') :=
  RRel.ok (A := AVs) (.cons hv .nil) h

/-! ### exact steps on the left -/

theorem SoundE.step {a m b} (h : LeE cx.upto a m) (ih : SoundE Q cx D m b) : SoundE Q cx D a b := by
  intro N call ρ k env env' σ σ' β hp hs he
  cases h N call ρ k env σ with
  | inl h => rw [h.2]; exact RRel.timeout_left h.1 _
  | inr h => rw [← h]; exact ih N call ρ k env env' σ σ' β hp hs he
theorem SoundT.step {a m b} (h : LeT cx.upto a m) (ih : SoundT Q cx D m b) : SoundT Q cx D a b := by
  intro N call ρ k env env' σ σ' β hp hs he
  cases h N call ρ k env σ with
  | inl h => rw [h.2]; exact RRel.timeout_left h.1 _
  | inr h => rw [← h]; exact ih N call ρ k env env' σ σ' β hp hs he

/-! ### expressions -/

theorem SoundE.leaf {x : Expr} (hl : x.isLeaf = true) (hx : NoRefE D x) : SoundE Q cx D x x := by
  intro N call ρ k env env' σ σ' β hp hs he
  cases x <;> first | (simp [Expr.isLeaf] at hl; done) | simp only [evalE]
  case var n =>
    have hn : DName.ref n ∉ D := NoRefE.var.mp hx
    exact RRel.okOne (hs.lookupVar he.loc hn) hs
  case vararg => exact RRel.ok (A := AVs) he.va hs
  all_goals exact RRel.okOne (by vr) hs

theorem SoundE.paren {x x'} (ih : SoundE Q cx D x x') : SoundE Q cx D (.paren x) (.paren x') := by
  intro N call ρ k env env' σ σ' β hp hs he
  simp only [evalE]
  exact RRel.bind (ih N call ρ k env env' σ σ' β hp hs he) fun _ _ _ _ hv _ _ h => RRel.okFirst hv h

theorem SoundE.un {op x x'} (ih : SoundE Q cx D x x') : SoundE Q cx D (.un op x) (.un op x') := by
  intro N call ρ k env env' σ σ' β hp hs he
  simp only [evalE]
  exact RRel.bind (ih N call ρ k env env' σ σ' β hp hs he) fun _ _ _ _ hv _ _ h =>
    RRel.bind (unopVal_param hp.call hp.flat _ _ (VRel.first hv) h) fun _ _ _ _ hv _ _ h => RRel.okOne hv h

theorem SoundE.bin {op l l' r r'} (ihl : SoundE Q cx D l l') (ihr : SoundE Q cx D r r') :
    SoundE Q cx D (.bin op l r) (.bin op l' r') := by
  intro N call ρ k env env' σ σ' β hp hs he
  cases op <;> simp only [evalE]
  case and =>
    refine RRel.bind (ihl N call ρ k env env' σ σ' β hp hs he) fun β1 h1 _ _ hv _ _ h => ?_
    rw [VRel.truthy (VRel.first hv)]
    split
    · exact RRel.bind (ihr N call ρ k env env' _ _ _ hp h (he.mono h1)) fun _ _ _ _ hv _ _ h => RRel.okFirst hv h
    · exact RRel.okFirst hv h
  case or =>
    refine RRel.bind (ihl N call ρ k env env' σ σ' β hp hs he) fun β1 h1 _ _ hv _ _ h => ?_
    rw [VRel.truthy (VRel.first hv)]
    split
    · exact RRel.okFirst hv h
    · exact RRel.bind (ihr N call ρ k env env' _ _ _ hp h (he.mono h1)) fun _ _ _ _ hv _ _ h => RRel.okFirst hv h
  all_goals
    exact RRel.bind (ihl N call ρ k env env' σ σ' β hp hs he) fun β1 h1 _ _ hv1 _ _ h =>
      RRel.bind (ihr N call ρ k env env' _ _ _ hp h (he.mono h1)) fun _ h2 _ _ hv2 _ _ h =>
        RRel.bind (binopVal_param hp.call hp.flat _ _ ((VRel.first hv1).mono h2) (VRel.first hv2) h)
          fun _ _ _ _ hv _ _ h => RRel.okOne hv h

theorem SoundE.call {f f' m kd args args'} (ihf : SoundE Q cx D f f') (iha : SoundEs Q cx D args args') :
    SoundE Q cx D (.call f m kd args) (.call f' m kd args') := by
  intro N call ρ k env env' σ σ' β hp hs he
  cases m <;> simp only [evalE]
  · exact RRel.bind (ihf N call ρ k env env' σ σ' β hp hs he) fun β1 h1 _ _ hf _ _ h =>
      RRel.bind (iha N call ρ k env env' _ _ _ hp h (he.mono h1)) fun _ h2 _ _ ha _ _ h =>
        callVal_param hp.call hp.flat _ ((VRel.first hf).mono h2) ha h
  · exact RRel.bind (ihf N call ρ k env env' σ σ' β hp hs he) fun β1 h1 _ _ ho _ _ h =>
      RRel.bind (indexVal_param hp.call hp.flat _ (VRel.first ho) (by simp only [strVal, VRel]) h)
        fun β2 h2 _ _ hfv _ _ h =>
          RRel.bind (iha N call ρ k env env' _ _ _ hp h ((he.mono h1).mono h2)) fun _ h3 _ _ ha _ _ h =>
            callVal_param hp.call hp.flat _ (hfv.mono h3)
              (.cons ((VRel.first ho).mono (Inj.le_trans h2 h3)) ha) h

theorem SoundE.field {x x' n} (ih : SoundE Q cx D x x') : SoundE Q cx D (.field x n) (.field x' n) := by
  intro N call ρ k env env' σ σ' β hp hs he
  simp only [evalE]
  exact RRel.bind (ih N call ρ k env env' σ σ' β hp hs he) fun _ _ _ _ hv _ _ h =>
    RRel.bind (indexVal_param hp.call hp.flat _ (VRel.first hv) (by simp only [strVal, VRel]) h)
      fun _ _ _ _ hv _ _ h => RRel.okOne hv h

theorem SoundE.index {x x' i i'} (ih : SoundE Q cx D x x') (ihi : SoundE Q cx D i i') :
    SoundE Q cx D (.index x i) (.index x' i') := by
  intro N call ρ k env env' σ σ' β hp hs he
  simp only [evalE]
  exact RRel.bind (ih N call ρ k env env' σ σ' β hp hs he) fun β1 h1 _ _ hv1 _ _ h =>
    RRel.bind (ihi N call ρ k env env' _ _ _ hp h (he.mono h1)) fun _ h2 _ _ hv2 _ _ h =>
      RRel.bind (indexVal_param hp.call hp.flat _ ((VRel.first hv1).mono h2) (VRel.first hv2) h)
        fun _ _ _ _ hv _ _ h => RRel.okOne hv h

theorem SoundE.fn {f f'} (hf : Q D f f') : SoundE Q cx D (.fn f) (.fn f') := by
  intro N call ρ k env env' σ σ' β hp hs he
  simp only [evalE]
  have := hs.allocClosure (c := ⟨f, env.locals, []⟩) (c' := ⟨f', env'.locals, []⟩) ⟨.nil, D, hf, he.loc⟩
  exact RRel.mono hs.le_extF (RRel.okOne (by simp only [VRel, extF]; exact .inr ⟨rfl, rfl⟩) this)

theorem SoundE.table {es es'} (ih : SoundEntries Q cx D es es') : SoundE Q cx D (.table es) (.table es') := by
  intro N call ρ k env env' σ σ' β hp hs he
  simp only [evalE]
  have := hs.allocTable (t := { entries := [], mt := none }) (t' := { entries := [], mt := none }) ⟨.nil, trivial⟩
  refine RRel.mono hs.le_extT ?_
  have ht : (extT β σ.tables.length σ'.tables.length).t σ.tables.length σ'.tables.length := .inr ⟨rfl, rfl⟩
  exact RRel.bind (ih N call ρ k env env' _ _ _ _ _ _ hp this (he.mono hs.le_extT) ht) fun _ hle _ _ _ _ _ h =>
    RRel.okOne (by simp only [VRel]; exact hle.t _ _ ht) h

theorem SoundE.ifx {c c' t t' el el' e e'} (ihc : SoundE Q cx D c c') (iht : SoundE Q cx D t t')
    (ihel : SoundElifs Q cx D el el') (ihe : SoundE Q cx D e e') : SoundE Q cx D (.ifx c t el e) (.ifx c' t' el' e') := by
  intro N call ρ k env env' σ σ' β hp hs he
  simp only [evalE]
  refine RRel.bind (ihc N call ρ k env env' σ σ' β hp hs he) fun β1 h1 _ _ hv _ _ h => ?_
  rw [VRel.truthy (VRel.first hv)]
  split
  · exact RRel.bind (iht N call ρ k env env' _ _ _ hp h (he.mono h1)) fun _ _ _ _ hv _ _ h => RRel.okFirst hv h
  · refine RRel.bind (ihel N call ρ k env env' _ _ _ hp h (he.mono h1)) fun β2 h2 r r' hr _ _ h => ?_
    cases r <;> cases r' <;> simp only [AOVs, OptRel] at hr
    · exact RRel.bind (ihe N call ρ k env env' _ _ _ hp h ((he.mono h1).mono h2)) fun _ _ _ _ hv _ _ h =>
        RRel.okFirst hv h
    · exact RRel.ok (A := AVs) hr h

theorem SoundE.interp {segs segs'} (ih : SoundSegs Q cx D segs segs') : SoundE Q cx D (.interp segs) (.interp segs') := by
  intro N call ρ k env env' σ σ' β hp hs he
  simp only [evalE]
  exact RRel.bind (ih N call ρ k env env' _ σ σ' β hp hs he) fun _ _ _ _ hv _ _ h => by
    cases hv; exact RRel.okOne (by vr) h

theorem SoundE.cast {x x' ty ty'} (ih : SoundE Q cx D x x') : SoundE Q cx D (.cast x ty) (.cast x' ty') := by
  intro N call ρ k env env' σ σ' β hp hs he
  simp only [evalE]
  exact RRel.bind (ih N call ρ k env env' σ σ' β hp hs he) fun _ _ _ _ hv _ _ h => RRel.okFirst hv h

theorem SoundE.inst {x x' ty ty'} (ih : SoundE Q cx D x x') : SoundE Q cx D (.inst x ty) (.inst x' ty') := by
  intro N call ρ k env env' σ σ' β hp hs he
  simp only [evalE]
  exact RRel.bind (ih N call ρ k env env' σ σ' β hp hs he) fun _ _ _ _ hv _ _ h => RRel.okFirst hv h

end DarkluaModel.Sem.HeapU
