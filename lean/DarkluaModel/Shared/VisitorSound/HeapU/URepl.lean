import DarkluaModel.Shared.VisitorSound.HeapU.UCtx
/-!
# `Sem.HeapU`: statement lists — concatenation, and statements replaced up to allocations (upstreamed from C01)

* `execSs_append`, `SoundSs.append` — related prefixes in front of related rests;
* `VkT.ofLe` — the target flavour of `VkE.ofLe`;
* `ReplU cx s repl` — under the context's assumption on the call handler, statement `s` exhausts the budget
  (only when `cx.upto`), or behaves exactly as the statement list `repl` started in the current state PLUS
  allocations (`StExt`): the shape of a rewrite that drops an allocating but otherwise pure evaluation
  (`while not {} do … end` ↦ nothing, `if {} then A else B end` ↦ `do A end`). `replU_sound` is the generic leaf,
  `ReplListU` / `VkBo.repl` the block hook that replaces statements one by one (generalises `Rules/AtNU.lean`,
  which pins the number system, to every context).
-/
namespace DarkluaModel.Sem.HeapU
variable {cx : Cx} {Q : QRel} {D : List DName}

theorem execSs_append {N : NumOps} (call : CallFn N) (ρ : ExtOracle N) (k : Nat) :
    ∀ (a b : List Stmt) (env : Env N) (σ : State N),
      execSs call ρ k env (a ++ b) σ = (execSs call ρ k env a σ).bind fun c σ1 =>
        match c with
        | .next env1 => execSs call ρ k env1 b σ1
        | other => .ok other σ1
  | [], b, env, σ => by simp only [List.nil_append, execSs, Res.bind]
  | s :: a, b, env, σ => by
    simp only [List.cons_append, execSs]
    cases h : execS call ρ k env s σ with
    | ok c σ1 =>
      simp only [Res.bind]
      cases c with
      | next env1 => exact execSs_append call ρ k a b env1 σ1
      | cont _ => rfl
      | brk => rfl
      | ret _ => rfl
    | err v σ1 => rfl
    | timeout => rfl

/-- related prefixes in front of related rests -/
theorem SoundSs.append {a a' b b' : List Stmt} {D1 D2 : List DName} (ha : SoundSs Q cx D a a' D1)
    (hb : SoundSs Q cx D1 b b' D2) : SoundSs Q cx D (a ++ b) (a' ++ b') D2 :=
  ⟨ha.1.trans hb.1, fun N call ρ k env env' σ σ' β hp hs he => by
    rw [execSs_append, execSs_append]
    refine RRel.bind (ha.2 N call ρ k env env' σ σ' β hp hs he) fun β1 _ c c' hcc _ _ h => ?_
    cases c <;> cases c' <;> simp only [ACtl] at hcc
    · exact hb.2 N call ρ k _ _ _ _ _ hp h hcc
    · exact RRel.ok (A := ACtl cx D2) trivial h
    · exact RRel.ok (A := ACtl cx D2) (hcc.weaken hb.1) h
    · exact RRel.ok (A := ACtl cx D2) hcc h⟩

theorem VkT.ofLe {e e' : Expr} (h : LeT cx.upto e e') (hv : ∀ a, e = .var a → e' = .var a)
    (hn : ∀ D, WatOK cx D → NoRefT D e → NoRefT D e') : (VkT cx) e e' :=
  ⟨fun D hw hd => ⟨.stepT h (.reflT (hn D hw hd)), hn D hw hd⟩, hv⟩

/-- `s` exhausts the budget (contexts with `upto`), or is the list `repl` run from the current state plus
allocations -/
def ReplU (cx : Cx) (s : Stmt) (repl : List Stmt) : Prop :=
  ∀ (N : NumOps) (call : CallFn N) (ρ : ExtOracle N) (k : Nat) (env : Env N) (σ : State N), cx.CF N ρ k call →
    (cx.upto = true ∧ execS call ρ k env s σ = .timeout) ∨
      ∃ σ1, StExt σ σ1 ∧ execSs call ρ k env repl σ1 = execSs call ρ k env [s] σ

theorem ReplU.refl (s : Stmt) : ReplU cx s [s] := fun _ _ _ _ _ σ _ => .inr ⟨σ, StExt.refl σ, rfl⟩

/-- replaced by nothing: the statement only allocates -/
theorem ReplU.ofNil {s : Stmt}
    (h : ∀ (N : NumOps) (call : CallFn N) (ρ : ExtOracle N) (k : Nat) (env : Env N) (σ : State N), cx.CF N ρ k call →
      (cx.upto = true ∧ execS call ρ k env s σ = .timeout) ∨
        ∃ σ1, StExt σ σ1 ∧ execS call ρ k env s σ = .ok (.next env) σ1) : ReplU cx s [] :=
  fun N call ρ k env σ hc => (h N call ρ k env σ hc).elim .inl fun ⟨σ1, hx, he⟩ =>
    .inr ⟨σ1, hx, by simp only [execSs, he, Res.bind]⟩

/-- replaced by one statement run from the current state plus allocations -/
theorem ReplU.ofOne {s s' : Stmt}
    (h : ∀ (N : NumOps) (call : CallFn N) (ρ : ExtOracle N) (k : Nat) (env : Env N) (σ : State N), cx.CF N ρ k call →
      (cx.upto = true ∧ execS call ρ k env s σ = .timeout) ∨
        ∃ σ1, StExt σ σ1 ∧ execS call ρ k env s' σ1 = execS call ρ k env s σ) : ReplU cx s [s'] :=
  fun N call ρ k env σ hc => (h N call ρ k env σ hc).elim .inl fun ⟨σ1, hx, he⟩ =>
    .inr ⟨σ1, hx, by simp only [execSs, he]⟩

/-- **generic leaf**: a statement replaced, up to allocations, by a list of statements related to themselves, in
front of related rests -/
theorem replU_sound {D' : List DName} {s : Stmt} {repl rest rest' : List Stmt} (h : ReplU cx s repl)
    (hr : SoundSs Q cx D repl repl D) (hrest : SoundSs Q cx D rest rest' D') :
    SoundSs Q cx D (s :: rest) (repl ++ rest') D' :=
  ⟨hrest.1, fun N call ρ k env env' σ σ' β hp hs he => by
    rcases h N call ρ k env σ hp.cf with h1 | ⟨σ1, hx, h1⟩
    · simp only [execSs, h1.2, Res.bind]; exact RRel.timeout_left h1.1 _
    · have h2 := (hr.append hrest).2 N call ρ k env env' σ1 σ' β hp (hs.extLeft hx) he
      rw [execSs_append, h1, ← execSs_append] at h2
      exact h2⟩

/-- statement lists related by statement-wise replacement -/
inductive ReplListU (cx : Cx) : List Stmt → List Stmt → Prop
  | nil : ReplListU cx [] []
  | cons {s repl ss ss'} : ReplU cx s repl → (∀ x, s.refs x = false → Stmt.refsList x repl = false) →
      ReplListU cx ss ss' → ReplListU cx (s :: ss) (repl ++ ss')

theorem refsList_append (x : DName) : ∀ (a b : List Stmt),
    Stmt.refsList x (a ++ b) = (Stmt.refsList x a || Stmt.refsList x b)
  | [], b => by simp [Stmt.refsList]
  | s :: a, b => by simp [Stmt.refsList, refsList_append x a b, Bool.or_assoc]

theorem ReplListU.noRef {ss ss' : List Stmt} (h : ReplListU cx ss ss') (hn : NoRefSs D ss) : NoRefSs D ss' := by
  induction h with
  | nil => exact hn
  | cons _ hrefs _ ih =>
    have h2 := NoRefSs.cons.mp hn
    intro x hx
    rw [refsList_append, hrefs x (h2.1 x hx), ih h2.2 x hx]; rfl

theorem ReplListU.sound (hq : QRefl Q) {ss ss' : List Stmt} (h : ReplListU cx ss ss') (hn : NoRefSs D ss) :
    SoundSs Q cx D ss ss' D := by
  induction h with
  | nil => exact SoundSs.nil
  | @cons s repl ss ss' hA hrefs _ ih =>
    have h2 := NoRefSs.cons.mp hn
    exact replU_sound hA (reflSs hq repl D fun x hx => hrefs x (h2.1 x hx)) (ih h2.2)

/-- a block hook that replaces statements one by one is an open-block link -/
theorem VkBo.repl {ss ss' : List Stmt} {last : Option Last} (h : ReplListU cx ss ss') :
    (VkBo cx) (.mk ss last) (.mk ss' last) := by
  intro D _ hn
  cases last with
  | none =>
    have h1 := NoRefB.none.mp hn
    exact ⟨.genB fun _ hq => SoundB.none (h.sound hq h1), NoRefB.none.mpr (h.noRef h1)⟩
  | some l =>
    have h1 := NoRefB.some.mp hn
    exact ⟨.genB fun _ hq => SoundB.some (h.sound hq h1.1) (reflL hq l D h1.2),
      NoRefB.some.mpr ⟨h.noRef h1.1, h1.2⟩⟩

end DarkluaModel.Sem.HeapU
