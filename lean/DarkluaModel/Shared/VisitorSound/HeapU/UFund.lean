import DarkluaModel.Shared.VisitorSound.HeapU.UR
/-!
# Stage 4: fundamental theorem of `VR`, call levels, observable outcomes
-/
namespace DarkluaModel.Sem.HeapU
open Heap (refNames addSelf)
variable {cx : Cx}

def VSound (Q : QRel) (cx : Cx) : List DName → Node → Node → List DName → Prop
  | D, .e x, .e y, _ => SoundE Q cx D x y
  | D, .t x, .t y, _ => SoundT Q cx D x y
  | D, .es x, .es y, _ => SoundEs Q cx D x y
  | D, .ts x, .ts y, _ => SoundTs Q cx D x y
  | D, .elifs x, .elifs y, _ => SoundElifs Q cx D x y
  | D, .entries x, .entries y, _ => SoundEntries Q cx D x y
  | D, .segs x, .segs y, _ => SoundSegs Q cx D x y
  | D, .s x, .s y, _ => SoundS Q cx D x y
  | D, .ss x, .ss y, D' => SoundSs Q cx D x y D'
  | D, .branches x, .branches y, _ => SoundBranches Q cx D x y
  | D, .l x, .l y, _ => SoundL Q cx D x y
  | D, .b x, .b y, D' => SoundB Q cx D x y D'
  | D, .rep b c, .rep b' c', _ => SoundRep Q cx D b c b' c'
  | _, _, _, _ => True

theorem VQ_refl : QRefl (VQ cx) := by
  intro D f h
  cases f with
  | mk ps v vt r g a b =>
    exact .fnBody rfl (Heap.NoWat.names (NoRefF.mk.mp h).1) (.genB fun Q hq => reflB hq b D (NoRefF.mk.mp h).2)

theorem VR.es_nil_iff {D xs xs' D'} (h : VR cx D (.es xs) (.es xs') D') : xs = [] ↔ xs' = [] := by
  cases h <;> simp

theorem VR.entries_nil_iff {D xs xs' D'} (h : VR cx D (.entries xs) (.entries xs') D') : xs = [] ↔ xs' = [] := by
  cases h <;> simp

theorem fund {D a b D'} (h : VR cx D a b D') : VSound (VQ cx) cx D a b D' := by
  induction h with
  | stepE h _ ih => exact SoundE.step h ih
  | stepT h _ ih => exact SoundT.step h ih
  | stepS h _ ih => exact SoundS.step h ih
  | stepL h _ ih => exact SoundL.step h ih
  | stepB h _ ih => exact SoundB.step h ih
  | genE h => exact h (VQ cx) VQ_refl
  | genT h => exact h (VQ cx) VQ_refl
  | genS h => exact h (VQ cx) VQ_refl
  | genSs h => exact h (VQ cx) VQ_refl
  | genL h => exact h (VQ cx) VQ_refl
  | genB h => exact h (VQ cx) VQ_refl
  | genRep h => exact h (VQ cx) VQ_refl
  | dropLocal hp hw _ ih => exact dropLocal_sound hp hw ih
  | addLocal hp hw _ ih => exact addLocal_sound hp hw ih
  | paren _ ih => exact SoundE.paren ih
  | un _ ih => exact SoundE.un ih
  | bin _ _ ih1 ih2 => exact SoundE.bin ih1 ih2
  | call _ _ ih1 ih2 => exact SoundE.call ih1 ih2
  | field _ ih => exact SoundE.field ih
  | index _ _ ih1 ih2 => exact SoundE.index ih1 ih2
  | fn h _ => exact SoundE.fn (Q := (VQ cx)) h
  | table _ ih => exact SoundE.table ih
  | ifx _ _ _ _ ih1 ih2 ih3 ih4 => exact SoundE.ifx ih1 ih2 ih3 ih4
  | interp _ ih => exact SoundE.interp ih
  | cast _ ih => exact SoundE.cast ih
  | inst _ ih => exact SoundE.inst ih
  | esNil => exact SoundEs.nil
  | esCons _ h2 ih1 ih2 => exact SoundEs.cons h2.es_nil_iff ih1 ih2
  | tsNil => exact SoundTs.nil
  | tsCons _ _ ih1 ih2 => exact SoundTs.cons ih1 ih2
  | elifsNil => exact SoundElifs.nil
  | elifsCons _ _ _ ih1 ih2 ih3 => exact SoundElifs.cons ih1 ih2 ih3
  | entriesNil => exact SoundEntries.nil
  | entriesPos _ h2 ih1 ih2 => exact SoundEntries.pos h2.entries_nil_iff ih1 ih2
  | entriesNamed _ _ ih1 ih2 => exact SoundEntries.named ih1 ih2
  | entriesKeyed _ _ _ ih1 ih2 ih3 => exact SoundEntries.keyed ih1 ih2 ih3
  | segsNil => exact SoundSegs.nil
  | segsS _ ih => exact SoundSegs.s ih
  | segsV _ _ ih1 ih2 => exact SoundSegs.v ih1 ih2
  | tField _ ih => exact SoundT.field ih
  | tIndex _ _ ih1 ih2 => exact SoundT.index ih1 ih2
  | tNonLv h h' => exact SoundT.nonLv h h'
  | fnBody _ _ _ _ => trivial
  | assign _ _ ih1 ih2 => exact SoundS.assign ih1 ih2
  | cassign _ _ ih1 ih2 => exact SoundS.cassign ih1 ih2
  | callStmt _ ih => exact SoundS.callStmt ih
  | doBlock _ ih => exact SoundS.doBlock ih
  | function hr h _ => exact SoundS.function (Q := (VQ cx)) hr h
  | gfor hn hw _ _ ih1 ih2 => exact SoundS.gfor hn hw ih1 ih2
  | nforNone hn hw _ _ _ ih1 ih2 ih3 => exact SoundS.nforNone hn hw ih1 ih2 ih3
  | nforSome hn hw _ _ _ _ ih1 ih2 ih3 ih4 => exact SoundS.nforSome hn hw ih1 ih2 ih3 ih4
  | ifsNone _ ih => exact SoundS.ifsNone ih
  | ifsSome _ _ ih1 ih2 => exact SoundS.ifsSome ih1 ih2
  | localAssign hn hw _ ih => exact SoundS.localAssign hn hw ih
  | localFn hw h _ => exact SoundS.localFn (Q := (VQ cx)) hw h
  | rep _ _ ih1 ih2 => exact SoundRep.mk ih1 ih2
  | repeat_ _ ih => exact SoundS.repeat_ ih
  | while_ _ _ ih1 ih2 => exact SoundS.while_ ih1 ih2
  | typeDecl => exact SoundS.typeDecl
  | typeFn => exact SoundS.typeFn
  | ssNil => exact SoundSs.nil
  | ssCons _ _ ih1 ih2 => exact SoundSs.cons ih1 ih2
  | branchesNil => exact SoundBranches.nil
  | branchesCons _ _ _ ih1 ih2 ih3 => exact SoundBranches.cons ih1 ih2 ih3
  | ret _ ih => exact SoundL.ret ih
  | blockNone _ ih => exact SoundB.none ih
  | blockSome _ _ ih1 ih2 => exact SoundB.some ih1 ih2

theorem fundB {D b b' D'} (h : VR cx D (.b b) (.b b') D') : SoundB (VQ cx) cx D b b' D' := fund h

/-! ### call levels -/

theorem RRel.retWrap {N : NumOps} {Q : QRel} {β : Inj N} {D' : List DName} {r r' : Res N (Ctl N)} :
    RRel Q cx β (ACtl cx D') r r' →
    RRel Q cx β AVs (match r with
        | .ok (.ret vs) σ2 => (Res.ok vs σ2 : Res N (List (Val N)))
        | .ok _ σ2 => .ok [] σ2
        | .err v σ2 => .err v σ2
        | .timeout => .timeout)
      (match (generalizing := false) r' with
        | .ok (.ret vs) σ2 => .ok vs σ2
        | .ok _ σ2 => .ok [] σ2
        | .err v σ2 => .err v σ2
        | .timeout => .timeout) := by
  intro hr
  cases r <;> cases r' <;> simp only [RRel] at hr
  any_goals (first | exact RRel.timeout_right hr _ | exact RRel.timeout_left hr _ | exact True.intro)
  · obtain ⟨β1, hle, ha, h⟩ := hr
    rename_i c _ c' _
    cases c <;> cases c' <;> simp only [ACtl] at ha
    · exact RRel.mono hle (RRel.ok (A := AVs) .nil h)
    · exact RRel.mono hle (RRel.ok (A := AVs) .nil h)
    · exact RRel.mono hle (RRel.ok (A := AVs) .nil h)
    · exact RRel.mono hle (RRel.ok (A := AVs) ha h)
  · obtain ⟨β1, hle, hv, h⟩ := hr
    exact RRel.mono hle (RRel.err hv h)

/-- every call level respects the relation -/
theorem callClosure_ok_le {N : NumOps} (ρ : ExtOracle N) (hρ : OracleFlat ρ)
    (hCF : ∀ n, cx.CF N ρ n (callClosure ρ n)) : ∀ n m, m ≤ n → CallOK (VQ cx) cx (callClosure ρ m)
  | 0 => fun m hm => by
    have : m = 0 := by omega
    subst this
    exact fun _ _ _ _ _ _ _ _ _ _ => RRel.timeout
  | n + 1 => by
    intro m hm
    by_cases hmn : m ≤ n
    · exact callClosure_ok_le ρ hρ hCF n m hmn
    have : m = n + 1 := by omega
    subst this
    intro β c c' args args' σ σ' hcc ha hs
    obtain ⟨body, cenv, va⟩ := c
    obtain ⟨body', cenv', va'⟩ := c'
    obtain ⟨hv, D, hb, he⟩ := hcc
    simp only [] at hv hb he
    cases hb with
    | @fnBody _ ps ps' v vt vt' r r' g g' a a' b b' D' hn hwp hbb =>
      simp only [callClosure, hn]
      obtain ⟨β1, h1, hs1, he1⟩ := hs.bindLocals (List.map TName.name ps') hwp ha he
      refine RRel.mono h1 (RRel.retWrap (D' := D') ?_)
      refine (fundB hbb).2 N _ ρ n _ _ _ _ _ ⟨hCF n, callClosure_ok_le ρ hρ hCF n n (Nat.le_refl n), hρ,
        callClosure_ok_le ρ hρ hCF n⟩ hs1 ⟨?_, he1⟩
      simp only []
      split
      · exact (ha.drop _).mono h1
      · exact .nil

theorem callClosure_ok {N : NumOps} (ρ : ExtOracle N) (hρ : OracleFlat ρ)
    (hCF : ∀ n, cx.CF N ρ n (callClosure ρ n)) (n : Nat) : CallOK (VQ cx) cx (callClosure ρ n) :=
  callClosure_ok_le ρ hρ hCF n n (Nat.le_refl n)

/-! ### the initial state -/

/-- the initial dead set: the watched globals -/
def watD (cx : Cx) : List DName := cx.W.map DName.wat

theorem EnvRel.init {N : NumOps} {β : Inj N} (hW0 : cx.top) : EnvRel cx β (watD cx) [] [] :=
  ⟨fun _ _ => by simp only [lookupAssoc, OptRel], fun _ hn => List.mem_map_of_mem hn, fun n hn => by
    obtain ⟨m, hm, e⟩ := List.mem_map.mp hn
    cases e
    have := hW0 n hm
    exact ⟨by simp only [lookupAssoc]; exact this.1.symm, by simp only [lookupAssoc]; exact this.2.symm⟩⟩


/-- the initial injections: identity on the three library tables, nothing else -/
def initRel : Inj N := { c := fun _ _ => False, t := fun a b => a = b ∧ a < 3, f := fun _ _ => False }

theorem forall2_self {α : Type} {R : α → α → Prop} : ∀ (l : List α), (∀ x ∈ l, R x x) → Forall2 R l l
  | [], _ => .nil
  | x :: xs, h => .cons (h x List.mem_cons_self) (forall2_self xs fun y hy => h y (List.mem_cons_of_mem _ hy))

theorem libTable_rel {N : NumOps} {β : Inj N} (pre : String) (names : List String) :
    Forall2 (ERel (N := N) β) (libTable pre names).entries (libTable pre names).entries := by
  apply forall2_self
  intro p hp
  simp only [libTable, List.mem_map] at hp
  obtain ⟨n, _, rfl⟩ := hp
  exact ⟨by simp only [strVal, VRel], by simp only [VRel]⟩

/-- the initial state is related to itself -/
theorem SRel.init {N : NumOps} (Q : QRel) (externs : List String)
    (hI : cx.I N initRel (initState externs : State N) (initState externs))
    (hG : ∀ p ∈ cx.G N, (initState externs : State N).getGlobal p.1 = p.2 := by intro _ h; cases h)
    (hF : ∀ p ∈ cx.F, FnGlobal (initState externs : State N) p.1 p.2 := by intro _ h; cases h) :
    SRel Q cx initRel (initState externs : State N) (initState externs) where
  globals := by
    apply forall2_self
    intro p hp
    simp only [initState, List.mem_append, List.mem_cons, List.mem_map, List.not_mem_nil, or_false] at hp
    refine ⟨rfl, ?_⟩
    rcases hp with ((rfl | rfl | rfl) | ⟨n, _, rfl⟩) | ⟨n, _, rfl⟩
    · exact ⟨rfl, by decide⟩
    · exact ⟨rfl, by decide⟩
    · exact ⟨rfl, by decide⟩
    · simp only [VRel]
    · simp only [VRel]
  trace := rfl
  injC := fun h => False.elim h
  injT := fun h1 h2 => by obtain ⟨rfl, _⟩ := h1; obtain ⟨rfl, _⟩ := h2; exact Iff.rfl
  injF := fun h => False.elim h
  cell := fun h => False.elim h
  tbl := by
    intro a b hab
    obtain ⟨rfl, hlt⟩ := hab
    have hrel : ∀ (pre : String) (names : List String), TRel (N := N) initRel (libTable pre names) (libTable pre names) :=
      fun pre names => ⟨libTable_rel pre names, trivial⟩
    match a, hlt with
    | 0, _ => exact ⟨_, _, rfl, rfl, hrel _ _⟩
    | 1, _ =>
      refine ⟨_, _, rfl, rfl, ⟨?_, trivial⟩⟩
      simp only []
      apply forall2_self
      intro p hp
      rcases List.mem_append.mp hp with hp | hp
      · simp only [libTable, List.mem_map] at hp
        obtain ⟨n, _, rfl⟩ := hp
        exact ⟨by simp only [strVal, VRel], by simp only [VRel]⟩
      · simp only [List.mem_cons, List.not_mem_nil, or_false] at hp
        subst hp
        exact ⟨by simp only [strVal, VRel], by simp only [VRel]⟩
    | 2, _ => exact ⟨_, _, rfl, rfl, hrel _ _⟩
  clo := fun h => False.elim h
  strlib := ⟨rfl, by decide⟩
  ginv := fun p hp => ⟨hG p hp, hG p hp⟩
  finv := fun p hp => ⟨hF p hp, hF p hp⟩
  front := ⟨Nat.zero_le _, Nat.zero_le _, Nat.zero_le _, Nat.zero_le _, Nat.zero_le _, Nat.zero_le _⟩
  pin := fun _ hp => by cases hp
  pinR := fun _ hp => by cases hp
  pinT := fun _ hp => by cases hp
  pinC := fun _ hp => by cases hp
  pinTl := fun _ hp => by cases hp
  pinCl := fun _ hp => by cases hp
  inv := hI

/-- **change of context / closure-body relation** while no closures are related yet (e.g. right after the two
one-sided preludes of a bundle have been run under the trivial context): only the consumer's invariant of the
new context has to be established -/
theorem SRel.rebase {N : NumOps} {Q Q' : QRel} {cx' : Cx} {β : Inj N} {σ σ' : State N} (h : SRel Q cx β σ σ')
    (hf : ∀ a b, ¬ β.f a b) (hI : cx'.I N β σ σ')
    (hG : ∀ p ∈ cx'.G N, σ.getGlobal p.1 = p.2 ∧ σ'.getGlobal p.1 = p.2 := by intro _ h; cases h)
    (hF : ∀ p ∈ cx'.F, FnGlobal σ p.1 p.2 ∧ FnGlobal σ' p.1 p.2 := by intro _ h; cases h) : SRel Q' cx' β σ σ' where
  globals := h.globals
  trace := h.trace
  injC := h.injC
  injT := h.injT
  injF := h.injF
  cell := h.cell
  tbl := h.tbl
  clo := fun hab => absurd hab (hf _ _)
  strlib := h.strlib
  ginv := hG
  finv := hF
  front := h.front
  pin := h.pin
  pinR := h.pinR
  pinT := h.pinT
  pinC := h.pinC
  pinTl := h.pinTl
  pinCl := h.pinCl
  inv := hI

/-- what `runChunk` makes of the control result of its block -/
def wrapCtl {N : NumOps} (r : Res N (Ctl N)) : Res N (List (Val N)) :=
  match r with
  | .ok (.ret vs) σ2 => .ok vs σ2
  | .ok _ σ2 => .ok [] σ2
  | .err v σ2 => .err v σ2
  | .timeout => .timeout

theorem runChunk_eq_wrapCtl {N : NumOps} (ρ : ExtOracle N) (n : Nat) (b : Block) (σ : State N) :
    runChunk ρ n b σ = wrapCtl (execB (callClosure ρ n) ρ n ⟨[], []⟩ b σ) := rfl

theorem runChunk_rel {N : NumOps} (ρ : ExtOracle N) (hρ : OracleFlat ρ) (hCF : ∀ n, cx.CF N ρ n (callClosure ρ n))
    (n : Nat) {b b' : Block} {D' : List DName} (h : VR cx (watD cx) (.b b) (.b b') D') {β : Inj N} {σ σ' : State N} (hs : SRel (VQ cx) cx β σ σ')
    (hW0 : cx.top := by top_tac) :
    RRel (VQ cx) cx β AVs (runChunk ρ n b σ) (runChunk ρ n b' σ') := by
  unfold runChunk
  exact RRel.retWrap ((fundB h).2 N _ ρ n _ _ _ _ _ ⟨hCF n, callClosure_ok ρ hρ hCF n, hρ, fun m _ => callClosure_ok ρ hρ hCF m⟩ hs
    ⟨.nil, EnvRel.init hW0⟩)

theorem observe_rel {N : NumOps} {β : Inj N} {r r' : Res N (List (Val N))} (h : RRel (VQ cx) cx β AVs r r') :
    (cx.upto = true ∧ observe r = .timeout) ∨ (cx.uptoR = true ∧ observe r' = .timeout) ∨ observe r' = observe r := by
  cases r <;> cases r' <;> simp only [RRel] at h
  · obtain ⟨β1, _, ha, hs⟩ := h
    right; right; simp only [observe, hs.trace, hs.canonList ha]
  · exact .inr (.inl ⟨h, rfl⟩)
  · obtain ⟨β1, _, hv, hs⟩ := h
    right; right; simp only [observe, hs.trace, hs.canon hv]
  · exact .inr (.inl ⟨h, rfl⟩)
  · exact .inl ⟨h, rfl⟩
  · exact .inl ⟨h, rfl⟩
  · exact .inr (.inr rfl)

/-- **outcome of two blocks related by `SoundB`, run from GIVEN environments and states** (the rest of a program
after both sides have executed their own preludes): the final-theorem form of `runChunk_vr''` without the empty
initial environment -/
theorem observe_of_soundB {N : NumOps} {D D' : List DName} {b b' : Block} (h : SoundB (VQ cx) cx D b b' D')
    (ρ : ExtOracle N) (hρ : OracleFlat ρ) (hCF : ∀ n, cx.CF N ρ n (callClosure ρ n)) (n : Nat) {β : Inj N}
    {env env' : Env N} {σ σ' : State N} (hs : SRel (VQ cx) cx β σ σ') (he : EnvOK cx β D env env') :
    (cx.upto = true ∧ observe (wrapCtl (execB (callClosure ρ n) ρ n env b σ)) = .timeout) ∨
      (cx.uptoR = true ∧ observe (wrapCtl (execB (callClosure ρ n) ρ n env' b' σ')) = .timeout) ∨
      observe (wrapCtl (execB (callClosure ρ n) ρ n env' b' σ')) =
        observe (wrapCtl (execB (callClosure ρ n) ρ n env b σ)) :=
  observe_rel (RRel.retWrap (h.2 N _ ρ n env env' σ σ' β ⟨hCF n, callClosure_ok ρ hρ hCF n, hρ, fun m _ => callClosure_ok ρ hρ hCF m⟩ hs he))

/-- **Observational refinement, most general form**: same outcome, or (only when `cx.upto`) the original exhausts
its budget, or (only when `cx.uptoR`) the rewritten program does -/
theorem runChunk_vr'' {N : NumOps} (ρ : ExtOracle N) (hρ : OracleFlat ρ) (hCF : ∀ n, cx.CF N ρ n (callClosure ρ n))
    (n : Nat) {b b' : Block} {D' : List DName} (h : VR cx (watD cx) (.b b) (.b b') D') {β : Inj N} {σ σ' : State N}
    (hs : SRel (VQ cx) cx β σ σ')
    (hW0 : cx.top := by top_tac) :
    (cx.upto = true ∧ observe (runChunk ρ n b σ) = .timeout) ∨
      (cx.uptoR = true ∧ observe (runChunk ρ n b' σ') = .timeout) ∨
      observe (runChunk ρ n b' σ') = observe (runChunk ρ n b σ) :=
  observe_rel (runChunk_rel ρ hρ hCF n h hs hW0)

/-- contexts without `uptoR`: same outcome — or (only when `cx.upto`) the original exhausts its budget -/
theorem runChunk_vr' {N : NumOps} (ρ : ExtOracle N) (hρ : OracleFlat ρ) (hCF : ∀ n, cx.CF N ρ n (callClosure ρ n))
    (n : Nat) {b b' : Block} {D' : List DName} (h : VR cx (watD cx) (.b b) (.b b') D') {β : Inj N} {σ σ' : State N}
    (hs : SRel (VQ cx) cx β σ σ') (hur : cx.uptoR = false := by rfl)
    (hW0 : cx.top := by top_tac) :
    (cx.upto = true ∧ observe (runChunk ρ n b σ) = .timeout) ∨
      observe (runChunk ρ n b' σ') = observe (runChunk ρ n b σ) := by
  rcases runChunk_vr'' ρ hρ hCF n h hs hW0 with h1 | ⟨h2, _⟩ | h3
  · exact .inl h1
  · rw [hur] at h2; cases h2
  · exact .inr h3

/-- contexts without `upto`: same outcome — or (only when `cx.uptoR`) the REWRITTEN program exhausts its budget -/
theorem runChunk_vrR {N : NumOps} (ρ : ExtOracle N) (hρ : OracleFlat ρ) (hCF : ∀ n, cx.CF N ρ n (callClosure ρ n))
    (n : Nat) {b b' : Block} {D' : List DName} (h : VR cx (watD cx) (.b b) (.b b') D') {β : Inj N} {σ σ' : State N}
    (hs : SRel (VQ cx) cx β σ σ') (hu : cx.upto = false := by rfl)
    (hW0 : cx.top := by top_tac) :
    observe (runChunk ρ n b' σ') = .timeout ∨ observe (runChunk ρ n b' σ') = observe (runChunk ρ n b σ) := by
  rcases runChunk_vr'' ρ hρ hCF n h hs hW0 with ⟨h1, _⟩ | ⟨_, h2⟩ | h3
  · rw [hu] at h1; cases h1
  · exact .inl h2
  · exact .inr h3

/-- exact contexts: equality -/
theorem runChunk_vr {N : NumOps} (ρ : ExtOracle N) (hρ : OracleFlat ρ) (n : Nat) {b b' : Block} {D' : List DName}
    (h : VR cx (watD cx) (.b b) (.b b') D') {β : Inj N} {σ σ' : State N} (hs : SRel (VQ cx) cx β σ σ')
    (hu : cx.upto = false := by rfl) (hCF : ∀ n, cx.CF N ρ n (callClosure ρ n) := by intros; trivial)
    (hur : cx.uptoR = false := by rfl)
    (hW0 : cx.top := by top_tac) :
    observe (runChunk ρ n b' σ') = observe (runChunk ρ n b σ) := by
  rcases runChunk_vr' ρ hρ hCF n h hs hur hW0 with ⟨h1, _⟩ | h2
  · rw [hu] at h1; cases h1
  · exact h2

theorem runProgram_vr {N : NumOps} (ρ : ExtOracle N) (hρ : OracleFlat ρ) (n : Nat) (externs : List String)
    {b b' : Block} {D' : List DName} (h : VR cx (watD cx) (.b b) (.b b') D')
    (hI : cx.I N initRel (initState externs : State N) (initState externs) := by trivial)
    (hG : ∀ p ∈ cx.G N, (initState externs : State N).getGlobal p.1 = p.2 := by intro _ h; cases h)
    (hF : ∀ p ∈ cx.F, FnGlobal (initState externs : State N) p.1 p.2 := by intro _ h; cases h)
    (hu : cx.upto = false := by rfl) (hCF : ∀ n, cx.CF N ρ n (callClosure ρ n) := by intros; trivial)
    (hur : cx.uptoR = false := by rfl)
    (hW0 : cx.top := by top_tac) :
    runProgram ρ n externs b' = runProgram ρ n externs b :=
  runChunk_vr ρ hρ n h (SRel.init (VQ cx) externs hI hG hF) hu hCF hur hW0

/-- up-to-timeout contexts: same outcome unless the original exhausts its budget -/
theorem runProgram_vr_upto {N : NumOps} (ρ : ExtOracle N) (hρ : OracleFlat ρ) (n : Nat) (externs : List String)
    {b b' : Block} {D' : List DName} (h : VR cx (watD cx) (.b b) (.b b') D')
    (hI : cx.I N initRel (initState externs : State N) (initState externs) := by trivial)
    (hG : ∀ p ∈ cx.G N, (initState externs : State N).getGlobal p.1 = p.2 := by intro _ h; cases h)
    (hF : ∀ p ∈ cx.F, FnGlobal (initState externs : State N) p.1 p.2 := by intro _ h; cases h)
    (hCF : ∀ n, cx.CF N ρ n (callClosure ρ n) := by intros; trivial) (hur : cx.uptoR = false := by rfl)
    (hW0 : cx.top := by top_tac) :
    runProgram ρ n externs b = .timeout ∨ runProgram ρ n externs b' = runProgram ρ n externs b := by
  rcases runChunk_vr' ρ hρ hCF n h (SRel.init (VQ cx) externs hI hG hF) hur hW0 with ⟨_, h1⟩ | h2
  · exact .inl h1
  · exact .inr h2

/-- `uptoR` contexts: same outcome unless the REWRITTEN program exhausts its budget -/
theorem runProgram_vr_uptoR {N : NumOps} (ρ : ExtOracle N) (hρ : OracleFlat ρ) (n : Nat) (externs : List String)
    {b b' : Block} {D' : List DName} (h : VR cx (watD cx) (.b b) (.b b') D')
    (hI : cx.I N initRel (initState externs : State N) (initState externs) := by trivial)
    (hG : ∀ p ∈ cx.G N, (initState externs : State N).getGlobal p.1 = p.2 := by intro _ h; cases h)
    (hF : ∀ p ∈ cx.F, FnGlobal (initState externs : State N) p.1 p.2 := by intro _ h; cases h)
    (hCF : ∀ n, cx.CF N ρ n (callClosure ρ n) := by intros; trivial) (hu : cx.upto = false := by rfl)
    (hW0 : cx.top := by top_tac) :
    runProgram ρ n externs b' = .timeout ∨ runProgram ρ n externs b' = runProgram ρ n externs b :=
  runChunk_vrR ρ hρ hCF n h (SRel.init (VQ cx) externs hI hG hF) hu hW0

end DarkluaModel.Sem.HeapU
