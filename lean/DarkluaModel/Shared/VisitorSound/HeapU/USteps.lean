import DarkluaModel.Shared.VisitorSound.HeapU.UFam
import DarkluaModel.Shared.VisitorSound.Heap.HSteps
/-!
# Stage 4: reusable steps for rule builders (links)

* `VkB.dropLocal` / `VkB.addLocal` — drop (add) a `local` declaration whose initialisers only allocate
  (`AllocPureEs`; `allocPureAll_sound` for the syntactic check `Expr.allocPureAll`: literals, variables,
  function expressions, table constructors of such) anywhere in a closed block when its names are not
  referenced afterwards in the block; `VkRep.dropLocal` the same for a `repeat` body, the `until`
  condition included.
* `VkB.dropLocalFn` / `VkRep.dropLocalFn` — drop a `local function` that is not referenced afterwards.
* `VkE.ofEq` … (in `VLinks.lean`) — exact steps.
-/
namespace DarkluaModel.Sem.HeapU
open Heap (refNames tailRefs)
variable {cx : Cx}

theorem VR.ssPrefix {D D' : List DName} {xs ys : List Stmt} : ∀ (pre : List Stmt), NoRefSs D pre →
    VR cx D (.ss xs) (.ss ys) D' → VR cx D (.ss (pre ++ xs)) (.ss (pre ++ ys)) D'
  | [], _, h => h
  | s :: pre, hn, h =>
    .ssCons (.reflS (NoRefSs.cons.mp hn).1) (VR.ssPrefix pre (NoRefSs.cons.mp hn).2 h)

/-- In a closed block, a `local ns = vs` whose values only allocate and whose names are not referenced
in the rest of the block can be dropped. -/
theorem VkB.dropLocal {pre rest : List Stmt} {last : Option Last} {kind : LocalKind} {ns : List TName}
    {vs : List Expr} (hp : AllocPureEs vs) (hx : ∀ n ∈ ns.map TName.name, tailRefs n rest last = false) :
    (VkB cx) (.mk (pre ++ .localAssign kind ns vs :: rest) last) (.mk (pre ++ rest) last) := by
  intro D _ hn
  have hx1 : ∀ n ∈ ns.map TName.name, Stmt.refsList (.ref n) rest = false := fun n h => by
    have := hx n h; simp only [tailRefs, Bool.or_eq_false_iff] at this; exact this.1
  cases last with
  | none =>
    have h1 := Heap.NoRefSs.append.mp (NoRefB.none.mp hn)
    have h2 := NoRefSs.cons.mp h1.2
    exact ⟨⟨_, .blockNone (.ssPrefix pre h1.1 (.dropLocal hp (Heap.NoWat.names (NoRefS.localAssign.mp h2.1).1) (.reflSs (Heap.NoRefSs.consName h2.2 hx1))))⟩,
      NoRefB.none.mpr (Heap.NoRefSs.append.mpr ⟨h1.1, h2.2⟩)⟩
  | some l =>
    have h0 := NoRefB.some.mp hn
    have h1 := Heap.NoRefSs.append.mp h0.1
    have h2 := NoRefSs.cons.mp h1.2
    have hx2 : ∀ n ∈ ns.map TName.name, l.refs (.ref n) = false := fun n h => by
      have := hx n h; simp only [tailRefs, Bool.or_eq_false_iff] at this; exact this.2
    exact ⟨⟨_, .blockSome (.ssPrefix pre h1.1 (.dropLocal hp (Heap.NoWat.names (NoRefS.localAssign.mp h2.1).1) (.reflSs (Heap.NoRefSs.consName h2.2 hx1))))
        (.reflL (Heap.NoRefL.consName h0.2 hx2))⟩,
      NoRefB.some.mpr ⟨Heap.NoRefSs.append.mpr ⟨h1.1, h2.2⟩, h0.2⟩⟩

theorem noWat_of_fresh {D : List DName} (hd : WatOK cx D) : ∀ (ns : List TName),
    (∀ n ∈ ns.map TName.name, ¬ cx.watched n) → NoWat D ns
  | [], _ => fun _ _ => rfl
  | .mk m ty :: ts, h => NoWat.cons.mpr ⟨fun hm => h m (by simp [TName.name]) (hd.wat m hm),
      noWat_of_fresh hd ts fun n hn => h n (by simp [hn])⟩

/-- In a closed block, a `local ns = vs` with allocation-only, closed values (`hvs`: they reference
nothing a dead set may contain) whose names are not referenced in the rest of the block can be
introduced. -/
theorem VkB.addLocal {pre rest : List Stmt} {last : Option Last} {kind : LocalKind} {ns : List TName}
    {vs : List Expr} (hp : AllocPureEs vs) (hvs : ∀ D, NoRefEs D vs)
    (hfresh : ∀ n ∈ ns.map TName.name, ¬ cx.watched n)
    (hx : ∀ n ∈ ns.map TName.name, tailRefs n rest last = false) :
    (VkB cx) (.mk (pre ++ rest) last) (.mk (pre ++ .localAssign kind ns vs :: rest) last) := by
  intro D hd hn
  have hx1 : ∀ n ∈ ns.map TName.name, Stmt.refsList (.ref n) rest = false := fun n h => by
    have := hx n h; simp only [tailRefs, Bool.or_eq_false_iff] at this; exact this.1
  have hnw : NoWat D ns := noWat_of_fresh hd ns hfresh
  have hw := Heap.NoWat.names hnw
  cases last with
  | none =>
    have h1 := Heap.NoRefSs.append.mp (NoRefB.none.mp hn)
    exact ⟨⟨_, .blockNone (.ssPrefix pre h1.1 (.addLocal hp hw (.reflSs (Heap.NoRefSs.consName h1.2 hx1))))⟩,
      NoRefB.none.mpr (Heap.NoRefSs.append.mpr ⟨h1.1, NoRefSs.cons.mpr ⟨NoRefS.localAssign.mpr ⟨hnw, hvs D⟩, h1.2⟩⟩)⟩
  | some l =>
    have h0 := NoRefB.some.mp hn
    have h1 := Heap.NoRefSs.append.mp h0.1
    have hx2 : ∀ n ∈ ns.map TName.name, l.refs (.ref n) = false := fun n h => by
      have := hx n h; simp only [tailRefs, Bool.or_eq_false_iff] at this; exact this.2
    exact ⟨⟨_, .blockSome (.ssPrefix pre h1.1 (.addLocal hp hw (.reflSs (Heap.NoRefSs.consName h1.2 hx1))))
        (.reflL (Heap.NoRefL.consName h0.2 hx2))⟩,
      NoRefB.some.mpr ⟨Heap.NoRefSs.append.mpr ⟨h1.1, NoRefSs.cons.mpr ⟨NoRefS.localAssign.mpr ⟨hnw, hvs D⟩, h1.2⟩⟩, h0.2⟩⟩

/-- the same inside a `repeat` body: the `until` condition must not reference the names either -/
theorem VkRep.dropLocal {pre rest : List Stmt} {last : Option Last} {kind : LocalKind} {ns : List TName}
    {vs : List Expr} {c : Expr} (hp : AllocPureEs vs)
    (hx : ∀ n ∈ ns.map TName.name, tailRefs n rest last = false)
    (hc : ∀ n ∈ ns.map TName.name, c.refs (.ref n) = false) :
    (VkRep cx) (.mk (pre ++ .localAssign kind ns vs :: rest) last, c) (.mk (pre ++ rest) last, c) := by
  intro D _ hnb hnc
  have hx1 : ∀ n ∈ ns.map TName.name, Stmt.refsList (.ref n) rest = false := fun n h => by
    have := hx n h; simp only [tailRefs, Bool.or_eq_false_iff] at this; exact this.1
  cases last with
  | none =>
    have h1 := Heap.NoRefSs.append.mp (NoRefB.none.mp hnb)
    have h2 := NoRefSs.cons.mp h1.2
    exact ⟨.rep (.blockNone (.ssPrefix pre h1.1 (.dropLocal hp (Heap.NoWat.names (NoRefS.localAssign.mp h2.1).1) (.reflSs (Heap.NoRefSs.consName h2.2 hx1)))))
        (.reflE (Heap.NoRefE.consName hnc hc)),
      NoRefB.none.mpr (Heap.NoRefSs.append.mpr ⟨h1.1, h2.2⟩), hnc⟩
  | some l =>
    have h0 := NoRefB.some.mp hnb
    have h1 := Heap.NoRefSs.append.mp h0.1
    have h2 := NoRefSs.cons.mp h1.2
    have hx2 : ∀ n ∈ ns.map TName.name, l.refs (.ref n) = false := fun n h => by
      have := hx n h; simp only [tailRefs, Bool.or_eq_false_iff] at this; exact this.2
    exact ⟨.rep (.blockSome (.ssPrefix pre h1.1 (.dropLocal hp (Heap.NoWat.names (NoRefS.localAssign.mp h2.1).1) (.reflSs (Heap.NoRefSs.consName h2.2 hx1))))
          (.reflL (Heap.NoRefL.consName h0.2 hx2))) (.reflE (Heap.NoRefE.consName hnc hc)),
      NoRefB.some.mpr ⟨Heap.NoRefSs.append.mpr ⟨h1.1, h2.2⟩, h0.2⟩, hnc⟩

/-! ### dropping an unreferenced `local function` (a cell and a closure allocation) -/

theorem StExt.setNewCell {N : NumOps} {σ σ1 : State N} (h : StExt σ σ1) {c : Nat} (hc : σ.cells[c]? = none) (v : Val N) :
    StExt σ (σ1.setCell c v) :=
  ⟨h.globals, h.trace, fun i w hi => by
    simp only [State.setCell, Heap.getElem?_listSet]
    split
    · next hcc => rw [← hcc.1, hc] at hi; cases hi
    · exact h.cells i w hi, h.tables, h.closures⟩

theorem dropLocalFn_sound {Q : QRel} {D D' : List DName} {kind : LocalKind} {name : String} {f : FnBody}
    {rest rest' : List Stmt} (hw : DName.wat name ∉ D) (hrest : SoundSs Q cx (DName.ref name :: D) rest rest' D') :
    SoundSs Q cx D (.localFn kind name f :: rest) rest' D' :=
  ⟨(DSub.consRef name D).trans hrest.1, fun N call ρ k env env' σ σ' β hp hs he => by
    simp only [execSs, execS, Res.bind]
    have hx : StExt σ (((σ.allocCell .nil).2.allocClosure ⟨f, (name, (σ.allocCell .nil).1) :: env.locals, []⟩).2.setCell
        (σ.allocCell .nil).1 (.fn ((σ.allocCell .nil).2.allocClosure ⟨f, (name, (σ.allocCell .nil).1) :: env.locals, []⟩).1)) :=
      StExt.setNewCell ((StExt.allocCell σ .nil).trans (StExt.allocClosure _ _)) (by simp [State.allocCell]) _
    have hD : DSub D (DName.ref name :: D) := DSub.consRef name D
    exact hrest.2 N call ρ k _ _ _ _ _ hp (hs.extLeft hx)
      ⟨he.va, (he.loc.weaken hD).consLeft name _ List.mem_cons_self (fun hm => by
        rcases List.mem_cons.mp hm with e | hm
        · cases e
        · exact hw hm)⟩⟩

theorem VkB.dropLocalFn {pre rest : List Stmt} {last : Option Last} {kind : LocalKind} {name : String} {f : FnBody}
    (hx : tailRefs name rest last = false) :
    (VkB cx) (.mk (pre ++ .localFn kind name f :: rest) last) (.mk (pre ++ rest) last) := by
  intro D _ hn
  have hx' : ∀ n ∈ ([TName.mk name none] : List TName).map TName.name, tailRefs n rest last = false := by
    intro n hn; simp only [List.map_cons, List.map_nil, TName.name, List.mem_singleton] at hn; subst hn; exact hx
  have hx1 : ∀ n ∈ ([TName.mk name none] : List TName).map TName.name, Stmt.refsList (.ref n) rest = false := fun n h => by
    have := hx' n h; simp only [tailRefs, Bool.or_eq_false_iff] at this; exact this.1
  cases last with
  | none =>
    have h1 := Heap.NoRefSs.append.mp (NoRefB.none.mp hn)
    have h2 := NoRefSs.cons.mp h1.2
    exact ⟨⟨_, .blockNone (.ssPrefix pre h1.1 (.genSs fun Q hq =>
        dropLocalFn_sound (NoRefS.localFn.mp h2.1).1 (reflSs hq rest _ (Heap.NoRefSs.consName (ns := [TName.mk name none]) h2.2 hx1))))⟩,
      NoRefB.none.mpr (Heap.NoRefSs.append.mpr ⟨h1.1, h2.2⟩)⟩
  | some l =>
    have h0 := NoRefB.some.mp hn
    have h1 := Heap.NoRefSs.append.mp h0.1
    have h2 := NoRefSs.cons.mp h1.2
    have hx2 : ∀ n ∈ ([TName.mk name none] : List TName).map TName.name, l.refs (.ref n) = false := fun n h => by
      have := hx' n h; simp only [tailRefs, Bool.or_eq_false_iff] at this; exact this.2
    exact ⟨⟨_, .blockSome (.ssPrefix pre h1.1 (.genSs fun Q hq =>
        dropLocalFn_sound (NoRefS.localFn.mp h2.1).1 (reflSs hq rest _ (Heap.NoRefSs.consName (ns := [TName.mk name none]) h2.2 hx1))))
        (.reflL (Heap.NoRefL.consName (ns := [TName.mk name none]) h0.2 hx2))⟩,
      NoRefB.some.mpr ⟨Heap.NoRefSs.append.mpr ⟨h1.1, h2.2⟩, h0.2⟩⟩

theorem VkRep.dropLocalFn {pre rest : List Stmt} {last : Option Last} {kind : LocalKind} {name : String} {f : FnBody}
    {c : Expr} (hx : tailRefs name rest last = false) (hc : c.refs (.ref name) = false) :
    (VkRep cx) (.mk (pre ++ .localFn kind name f :: rest) last, c) (.mk (pre ++ rest) last, c) := by
  intro D _ hnb hnc
  have hx' : ∀ n ∈ ([TName.mk name none] : List TName).map TName.name, tailRefs n rest last = false := by
    intro n hn; simp only [List.map_cons, List.map_nil, TName.name, List.mem_singleton] at hn; subst hn; exact hx
  have hc' : ∀ n ∈ ([TName.mk name none] : List TName).map TName.name, c.refs (.ref n) = false := by
    intro n hn; simp only [List.map_cons, List.map_nil, TName.name, List.mem_singleton] at hn; subst hn; exact hc
  have hx1 : ∀ n ∈ ([TName.mk name none] : List TName).map TName.name, Stmt.refsList (.ref n) rest = false := fun n h => by
    have := hx' n h; simp only [tailRefs, Bool.or_eq_false_iff] at this; exact this.1
  cases last with
  | none =>
    have h1 := Heap.NoRefSs.append.mp (NoRefB.none.mp hnb)
    have h2 := NoRefSs.cons.mp h1.2
    exact ⟨.rep (.blockNone (.ssPrefix pre h1.1 (.genSs fun Q hq =>
        dropLocalFn_sound (NoRefS.localFn.mp h2.1).1 (reflSs hq rest _ (Heap.NoRefSs.consName (ns := [TName.mk name none]) h2.2 hx1)))))
        (.reflE (Heap.NoRefE.consName (ns := [TName.mk name none]) hnc hc')),
      NoRefB.none.mpr (Heap.NoRefSs.append.mpr ⟨h1.1, h2.2⟩), hnc⟩
  | some l =>
    have h0 := NoRefB.some.mp hnb
    have h1 := Heap.NoRefSs.append.mp h0.1
    have h2 := NoRefSs.cons.mp h1.2
    have hx2 : ∀ n ∈ ([TName.mk name none] : List TName).map TName.name, l.refs (.ref n) = false := fun n h => by
      have := hx' n h; simp only [tailRefs, Bool.or_eq_false_iff] at this; exact this.2
    exact ⟨.rep (.blockSome (.ssPrefix pre h1.1 (.genSs fun Q hq =>
        dropLocalFn_sound (NoRefS.localFn.mp h2.1).1 (reflSs hq rest _ (Heap.NoRefSs.consName (ns := [TName.mk name none]) h2.2 hx1))))
          (.reflL (Heap.NoRefL.consName (ns := [TName.mk name none]) h0.2 hx2)))
        (.reflE (Heap.NoRefE.consName (ns := [TName.mk name none]) hnc hc')),
      NoRefB.some.mpr ⟨Heap.NoRefSs.append.mpr ⟨h1.1, h2.2⟩, h0.2⟩, hnc⟩

end DarkluaModel.Sem.HeapU
