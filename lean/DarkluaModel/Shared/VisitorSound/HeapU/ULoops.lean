import DarkluaModel.Shared.VisitorSound.HeapU.UOps
/-!
# Stage 4: loops — related step functions (at every extension of the injections) give related loops
-/
namespace DarkluaModel.Sem.HeapU
variable {N : NumOps} {Q : QRel} {cx : Cx} {β : Inj N}

/-- control results agree for the enclosing LOOP: `next` and `continue` both mean "iterate again",
`break` matches `break`, returned values are related; environments are ignored -/
def CtlShape (β : Inj N) : Ctl N → Ctl N → Prop
  | .next _, .next _ => True
  | .cont _, .cont _ => True
  | .next _, .cont _ => True
  | .cont _, .next _ => True
  | .brk, .brk => True
  | .ret vs, .ret vs' => VsRel β vs vs'
  | _, _ => False

def OCtlShape (β : Inj N) : Option (Ctl N) → Option (Ctl N) → Prop
  | none, none => True
  | some c, some c' => CtlShape β c c'
  | _, _ => False

/-- optional returned values -/
def AOVs : ARel N (Option (List (Val N))) := fun β a b => OptRel (VsRel β) a b

theorem whileLoop_rel {step step' : State N → Res N (Option (Ctl N))}
    (hstep : ∀ β', β.le β' → ∀ s s', SRel Q cx β' s s' → RRel Q cx β' OCtlShape (step s) (step' s'))
    (n : Nat) {σ σ' : State N} (h : SRel Q cx β σ σ') :
    RRel Q cx β AOVs (whileLoop step n σ) (whileLoop step' n σ') := by
  induction n generalizing σ σ' β with
  | zero => simp only [whileLoop]; exact RRel.timeout
  | succ n ih =>
    have hr := hstep β β.le_refl σ σ' h
    unfold whileLoop
    revert hr
    generalize step σ = r
    generalize step' σ' = r'
    intro hr
    cases r <;> cases r' <;> simp only [RRel] at hr
    any_goals (first | exact RRel.timeout_right hr _ | exact RRel.timeout_left hr _ | exact True.intro)
    · obtain ⟨β1, hle, ha, hs⟩ := hr
      rename_i a _ a' _
      have ihn := fun {s s' : State N} (hs : SRel Q cx β1 s s') =>
        RRel.mono hle (ih (fun β2 h2 => hstep β2 (Inj.le_trans hle h2)) hs)
      cases a <;> cases a' <;> simp only [OCtlShape] at ha
      · exact RRel.mono hle (RRel.ok (A := AOVs) trivial hs)
      · rename_i c c'
        cases c <;> cases c' <;> simp only [CtlShape] at ha <;>
          (first | exact ihn hs | exact RRel.mono hle (RRel.ok (A := AOVs) trivial hs) | exact RRel.mono hle (RRel.ok (A := AOVs) ha hs))
    · obtain ⟨β1, hle, hv, hs⟩ := hr
      exact RRel.mono hle (RRel.err hv hs)

theorem forLoop_rel {body body' : N.F → State N → Res N (Ctl N)}
    (hbody : ∀ β', β.le β' → ∀ i s s', SRel Q cx β' s s' → RRel Q cx β' CtlShape (body i s) (body' i s'))
    (limit step : N.F) (n : Nat) (i : N.F) {σ σ' : State N} (h : SRel Q cx β σ σ') :
    RRel Q cx β AOVs (forLoop body limit step n i σ) (forLoop body' limit step n i σ') := by
  induction n generalizing i σ σ' β with
  | zero => simp only [forLoop]; exact RRel.timeout
  | succ n ih =>
    unfold forLoop
    simp only []
    generalize (if N.lt (N.ofNat 0) step = true then N.le i limit else N.le limit i) = cont
    cases cont
    · simp only [Bool.not_false, if_true]
      exact RRel.ok (A := AOVs) trivial h
    · simp only [Bool.not_true, Bool.false_eq_true, if_false]
      have hr := hbody β β.le_refl i σ σ' h
      revert hr
      generalize body i σ = r
      generalize body' i σ' = r'
      intro hr
      cases r <;> cases r' <;> simp only [RRel] at hr
      any_goals (first | exact RRel.timeout_right hr _ | exact RRel.timeout_left hr _ | exact True.intro)
      · obtain ⟨β1, hle, ha, hs⟩ := hr
        rename_i c _ c' _
        have ihn := fun (j : N.F) {s s' : State N} (hs : SRel Q cx β1 s s') =>
          RRel.mono hle (ih (fun β2 h2 => hbody β2 (Inj.le_trans hle h2)) j hs)
        cases c <;> cases c' <;> simp only [CtlShape] at ha <;>
          (first | exact ihn _ hs | exact RRel.mono hle (RRel.ok (A := AOVs) trivial hs) | exact RRel.mono hle (RRel.ok (A := AOVs) ha hs))
      · obtain ⟨β1, hle, hv, hs⟩ := hr
        exact RRel.mono hle (RRel.err hv hs)

theorem gforLoop_rel {iter iter' : Val N → State N → Res N (List (Val N))}
    {body body' : List (Val N) → State N → Res N (Ctl N)}
    (hiter : ∀ β', β.le β' → ∀ c c', VRel β' c c' → ∀ s s', SRel Q cx β' s s' → RRel Q cx β' AVs (iter c s) (iter' c' s'))
    (hbody : ∀ β', β.le β' → ∀ rs rs', VsRel β' rs rs' → ∀ s s', SRel Q cx β' s s' →
      RRel Q cx β' CtlShape (body rs s) (body' rs' s'))
    (n : Nat) {ctl ctl' : Val N} (hctl : VRel β ctl ctl') {σ σ' : State N} (h : SRel Q cx β σ σ') :
    RRel Q cx β AOVs (gforLoop iter body n ctl σ) (gforLoop iter' body' n ctl' σ') := by
  induction n generalizing ctl ctl' σ σ' β with
  | zero => simp only [gforLoop]; exact RRel.timeout
  | succ n ih =>
    unfold gforLoop
    have hr := hiter β β.le_refl ctl ctl' hctl σ σ' h
    revert hr
    generalize iter ctl σ = r
    generalize iter' ctl' σ' = r'
    intro hr
    cases r <;> cases r' <;> simp only [RRel] at hr
    any_goals (first | exact RRel.timeout_right hr _ | exact RRel.timeout_left hr _ | exact True.intro)
    · obtain ⟨β1, hle, ha, hs⟩ := hr
      rename_i rs s1 rs' s1'
      simp only []
      have hfirst := VRel.first ha
      have hb := hbody β1 hle rs rs' ha s1 s1' hs
      have hnil : RRel Q cx β AOVs (Res.ok none s1 : Res N (Option (List (Val N)))) (Res.ok none s1') := RRel.mono hle (RRel.ok (A := AOVs) trivial hs)
      have hcont : ∀ {c c' : Val N}, VRel β1 c c' → RRel Q cx β AOVs
          (match body rs s1 with
            | .ok (.ret vs) σ2 => (.ok (some vs) σ2 : Res N (Option (List (Val N))))
            | .ok .brk σ2 => .ok none σ2
            | .ok _ σ2 => gforLoop iter body n c σ2
            | .err v σ2 => .err v σ2
            | .timeout => .timeout)
          (match body' rs' s1' with
            | .ok (.ret vs) σ2 => .ok (some vs) σ2
            | .ok .brk σ2 => .ok none σ2
            | .ok _ σ2 => gforLoop iter' body' n c' σ2
            | .err v σ2 => .err v σ2
            | .timeout => .timeout) := by
        intro c c' hc
        revert hb
        generalize body rs s1 = r
        generalize body' rs' s1' = r'
        intro hb
        cases r <;> cases r' <;> simp only [RRel] at hb
        any_goals (first | exact RRel.mono hle (RRel.timeout_right hb _) | exact RRel.mono hle (RRel.timeout_left hb _) | exact True.intro)
        · obtain ⟨β2, hle2, ha2, hs2⟩ := hb
          have hle' := Inj.le_trans hle hle2
          rename_i c1 _ c1' _
          have ihn := fun {s s' : State N} (hs : SRel Q cx β2 s s') =>
            RRel.mono hle' (ih (fun β3 h3 => hiter β3 (Inj.le_trans hle' h3))
              (fun β3 h3 => hbody β3 (Inj.le_trans hle' h3)) (hc.mono hle2) hs)
          cases c1 <;> cases c1' <;> simp only [CtlShape] at ha2 <;>
            (first | exact ihn hs2 | exact RRel.mono hle' (RRel.ok (A := AOVs) trivial hs2) | exact RRel.mono hle' (RRel.ok (A := AOVs) ha2 hs2))
        · obtain ⟨β2, hle2, hv2, hs2⟩ := hb
          exact RRel.mono (Inj.le_trans hle hle2) (RRel.err hv2 hs2)
      revert hcont
      vcases hfirst : first rs , first rs'
      all_goals intro hcont
      all_goals try simp only []
      · exact hnil
      all_goals exact hcont (by vr)
    · obtain ⟨β1, hle, hv, hs⟩ := hr
      exact RRel.mono hle (RRel.err hv hs)

end DarkluaModel.Sem.HeapU
