import DarkluaModel.Shared.VisitorSound.HeapU.UGet
import DarkluaModel.Shared.VisitorSound.Heap.HState
/-!
# Stage 4: state updates and allocations
-/
namespace DarkluaModel.Sem.HeapU
open Heap (length_listSet getElem?_listSet lookup_setAssoc_ne)
variable {N : NumOps} {Q : QRel} {cx : Cx} {β : Inj N}

/-- lengths of the heap components only grow / stay -/
macro "lenU_tac" : tactic => `(tactic| first
  | exact Nat.le_refl _
  | (simp only [State.allocCell, State.allocTable, State.allocClosure, State.setCell, State.setTable, State.rawSet,
       List.length_append, List.length_cons, List.length_nil, length_listSet]; omega))

/-- re-establish `Front` after an update that does not shrink the heap, for injections with the same frontiers -/
macro "frontU_tac " h:term : tactic => `(tactic|
  exact ⟨Nat.le_trans (SRel.front $h).cL (by lenU_tac), Nat.le_trans (SRel.front $h).cR (by lenU_tac),
    Nat.le_trans (SRel.front $h).tL (by lenU_tac), Nat.le_trans (SRel.front $h).tR (by lenU_tac),
    Nat.le_trans (SRel.front $h).fL (by lenU_tac), Nat.le_trans (SRel.front $h).fR (by lenU_tac)⟩)

theorem getElem?_lt {α : Type} {l : List α} {i : Nat} {a : α} (h : l[i]? = some a) : i < l.length :=
  (List.getElem?_eq_some_iff.mp h).1

theorem getElem?_append_of_some {α : Type} {l : List α} {i : Nat} {a : α} (h : l[i]? = some a) (xs : List α) :
    (l ++ xs)[i]? = some a := by
  rw [List.getElem?_append_left (getElem?_lt h)]; exact h

theorem lift_globals {β' : Inj N} (hle : β.le β') {g g' : List (String × Val N)} (h : Forall2 (GRel β) g g') :
    Forall2 (GRel β') g g' := Forall2.imp (fun _ _ hp => ⟨hp.1, VRel.mono hle hp.2⟩) h

/-! ### frames of the primitive steps, and what every step keeps: content pins and the consumer's invariant -/

theorem Frame.ofGrow {σ σ' s s' : State N}
    (h1 : ∀ (i : Nat) v, σ.cells[i]? = some v → s.cells[i]? = some v)
    (h2 : ∀ (i : Nat) v, σ'.cells[i]? = some v → s'.cells[i]? = some v)
    (h3 : ∀ (i : Nat) v, σ.tables[i]? = some v → s.tables[i]? = some v)
    (h4 : ∀ (i : Nat) v, σ'.tables[i]? = some v → s'.tables[i]? = some v)
    (h5 : ∀ (i : Nat) v, σ.closures[i]? = some v → s.closures[i]? = some v)
    (h6 : ∀ (i : Nat) v, σ'.closures[i]? = some v → s'.closures[i]? = some v) : Frame β σ σ' s s' :=
  ⟨fun a v _ _ h => h1 a v h, fun a v _ _ h => h2 a v h, fun a v _ _ h => h3 a v h, fun a v _ _ h => h4 a v h, h5, h6⟩

macro "grow1" : tactic => `(tactic| first
  | exact fun _ _ h => h
  | (intro i v h; simp only [State.allocCell, State.allocTable, State.allocClosure]; exact getElem?_append_of_some h _))
/-- the frame of a step that only appends to the heap components -/
macro "frame_grow" : tactic =>
  `(tactic| exact Frame.ofGrow (by grow1) (by grow1) (by grow1) (by grow1) (by grow1) (by grow1))

theorem FnGlobal.grow {σ s : State N} {n : String} {b : FnBody} (hf : FnGlobal σ n b)
    (hg : s.getGlobal n = σ.getGlobal n) (hc : ∀ (i : Nat) c, σ.closures[i]? = some c → s.closures[i]? = some c) :
    FnGlobal s n b :=
  let ⟨id, clo, h1, h2, h3⟩ := hf
  ⟨id, clo, hg.trans h1, hc _ _ h2, h3⟩

/-- the facts about watched globals after a step that does not touch the globals and only adds closures -/
macro "ginv_tac " h:term : tactic =>
  `(tactic| exact fun p hp => ⟨(SRel.ginv $h p hp).1, (SRel.ginv $h p hp).2⟩)
macro "finv_tac " h:term : tactic =>
  `(tactic| exact fun p hp => ⟨FnGlobal.grow (SRel.finv $h p hp).1 rfl (by grow1), FnGlobal.grow (SRel.finv $h p hp).2 rfl (by grow1)⟩)

theorem Frame.setCell {σ σ' : State N} {a b : Nat} (hab : β.c a b) (v v' : Val N) :
    Frame β σ σ' (σ.setCell a v) (σ'.setCell b v') where
  cL := fun x w _ hu hx => by
    have hne : ¬ a = x := fun e => hu b (e ▸ hab)
    simp only [State.setCell, getElem?_listSet, hne, false_and, if_false]; exact hx
  cR := fun y w _ hu hy => by
    have hne : ¬ b = y := fun e => hu a (e ▸ hab)
    simp only [State.setCell, getElem?_listSet, hne, false_and, if_false]; exact hy
  tL := fun _ _ _ _ h => h
  tR := fun _ _ _ _ h => h
  fL := fun _ _ h => h
  fR := fun _ _ h => h

theorem Frame.setTable {σ σ' : State N} {a b : Nat} (hab : β.t a b) (t t' : Table N) :
    Frame β σ σ' (σ.setTable a t) (σ'.setTable b t') where
  cL := fun _ _ _ _ h => h
  cR := fun _ _ _ _ h => h
  tL := fun x w _ hu hx => by
    have hne : ¬ a = x := fun e => hu b (e ▸ hab)
    simp only [State.setTable, getElem?_listSet, hne, false_and, if_false]; exact hx
  tR := fun y w _ hu hy => by
    have hne : ¬ b = y := fun e => hu a (e ▸ hab)
    simp only [State.setTable, getElem?_listSet, hne, false_and, if_false]; exact hy
  fL := fun _ _ h => h
  fR := fun _ _ h => h

/-- content pins survive every framed step into an `ext`-later injection with the same pin lists -/
theorem SRel.pinT_step {σ σ' s s' : State N} {β' : Inj N} (h : SRel Q cx β σ σ') (he : β.ext β')
    (hp : β'.pinTR = β.pinTR) (hf : Frame β σ σ' s s') :
    ∀ p ∈ β'.pinTR, s'.tables[p.1]? = some p.2 ∧ p.1 < β'.tR ∧ ∀ a, ¬ β'.t a p.1 := fun p hp' => by
  rw [hp] at hp'
  obtain ⟨h1, h2, h3⟩ := h.pinT p hp'
  refine ⟨hf.tR _ _ h2 h3 h1, Nat.lt_of_lt_of_le h2 he.front.2.2.2.1, fun a ha => ?_⟩
  rcases he.freshT a p.1 ha with h4 | h4
  · exact h3 a h4
  · omega

theorem SRel.pinC_step {σ σ' s s' : State N} {β' : Inj N} (h : SRel Q cx β σ σ') (he : β.ext β')
    (hp : β'.pinCR = β.pinCR) (hf : Frame β σ σ' s s') :
    ∀ p ∈ β'.pinCR, s'.cells[p.1]? = some p.2 ∧ p.1 < β'.cR ∧ ∀ a, ¬ β'.c a p.1 := fun p hp' => by
  rw [hp] at hp'
  obtain ⟨h1, h2, h3⟩ := h.pinC p hp'
  refine ⟨hf.cR _ _ h2 h3 h1, Nat.lt_of_lt_of_le h2 he.front.2.1, fun a ha => ?_⟩
  rcases he.freshC a p.1 ha with h4 | h4
  · exact h3 a h4
  · omega

theorem SRel.pinTL_step {σ σ' s s' : State N} {β' : Inj N} (h : SRel Q cx β σ σ') (he : β.ext β')
    (hp : β'.pinTL = β.pinTL) (hf : Frame β σ σ' s s') :
    ∀ p ∈ β'.pinTL, s.tables[p.1]? = some p.2 ∧ p.1 < β'.tL ∧ ∀ b, ¬ β'.t p.1 b := fun p hp' => by
  rw [hp] at hp'
  obtain ⟨h1, h2, h3⟩ := h.pinTl p hp'
  refine ⟨hf.tL _ _ h2 h3 h1, Nat.lt_of_lt_of_le h2 he.front.2.2.1, fun b hb => ?_⟩
  rcases he.freshT p.1 b hb with h4 | h4
  · exact h3 b h4
  · omega

theorem SRel.pinCL_step {σ σ' s s' : State N} {β' : Inj N} (h : SRel Q cx β σ σ') (he : β.ext β')
    (hp : β'.pinCL = β.pinCL) (hf : Frame β σ σ' s s') :
    ∀ p ∈ β'.pinCL, s.cells[p.1]? = some p.2 ∧ p.1 < β'.cL ∧ ∀ b, ¬ β'.c p.1 b := fun p hp' => by
  rw [hp] at hp'
  obtain ⟨h1, h2, h3⟩ := h.pinCl p hp'
  refine ⟨hf.cL _ _ h2 h3 h1, Nat.lt_of_lt_of_le h2 he.front.1, fun b hb => ?_⟩
  rcases he.freshC p.1 b hb with h4 | h4
  · exact h3 b h4
  · omega

theorem SRel.inv_step {σ σ' s s' : State N} {β' : Inj N} (h : SRel Q cx β σ σ') (he : β.ext β')
    (hf : Frame β σ σ' s s') (hp : β.samePins β' := by exact ⟨rfl, rfl, rfl, rfl⟩) : cx.I N β' s s' :=
  cx.stable N β β' σ σ' s s' he hp hf h.inv

section
variable {σ σ' : State N} (h : SRel Q cx β σ σ')
include h

/-! ### updates with the same injections -/

theorem SRel.setGlobal (n : String) (hn : n ∉ cx.W) {v v' : Val N} (hv : VRel β v v') :
    SRel Q cx β (σ.setGlobal n v) (σ'.setGlobal n v') :=
  { h with globals := setAssoc_grel h.globals n hv,
           ginv := fun p hp => by
             have hne : p.1 ≠ n := fun e => hn (e ▸ cx.sub N p hp)
             simp only [State.getGlobal, State.setGlobal, lookup_setAssoc_ne hne]
             exact h.ginv p hp,
           finv := fun p hp => by
             have hne : p.1 ≠ n := fun e => hn (e ▸ cx.subF p hp)
             obtain ⟨⟨id, clo, h1, h2⟩, ⟨id', clo', h1', h2'⟩⟩ := h.finv p hp
             refine ⟨⟨id, clo, ?_, h2⟩, ⟨id', clo', ?_, h2'⟩⟩
             · simp only [State.getGlobal, State.setGlobal, lookup_setAssoc_ne hne]; exact h1
             · simp only [State.getGlobal, State.setGlobal, lookup_setAssoc_ne hne]; exact h1',
           front := ⟨h.front.cL, h.front.cR, h.front.tL, h.front.tR, h.front.fL, h.front.fR⟩,
           pinT := h.pinT, pinC := h.pinC, pinTl := h.pinTl, pinCl := h.pinCl,
           inv := h.inv_step (Inj.ext.refl β) (by frame_grow) }

theorem SRel.pushTrace (e : Event) :
    SRel Q cx β { σ with trace := e :: σ.trace } { σ' with trace := e :: σ'.trace } :=
  { h with trace := by simp only [h.trace],
           front := ⟨h.front.cL, h.front.cR, h.front.tL, h.front.tR, h.front.fL, h.front.fR⟩,
           pinT := h.pinT, pinC := h.pinC, pinTl := h.pinTl, pinCl := h.pinCl,
           inv := h.inv_step (Inj.ext.refl β) (by frame_grow) }

theorem SRel.setCell {a b : Nat} (hab : β.c a b) {v v' : Val N} (hv : VRel β v v') :
    SRel Q cx β (σ.setCell a v) (σ'.setCell b v') :=
  { h with
    cell := fun {x y} hxy => by
      obtain ⟨w, w', h1, h2, hw⟩ := h.cell hxy
      obtain ⟨_, _, ha1, ha2, _⟩ := h.cell hab
      simp only [State.setCell, getElem?_listSet]
      have hi := h.injC hab hxy
      by_cases hax : a = x
      · have hby : b = y := hi.mp hax
        subst hax; subst hby
        simp only [true_and, getElem?_lt ha1, getElem?_lt ha2, if_true]
        exact ⟨v, v', rfl, rfl, hv⟩
      · have hby : ¬ b = y := fun e => hax (hi.mpr e)
        simp only [hax, hby, false_and, if_false]
        exact ⟨w, w', h1, h2, hw⟩,
    ginv := by ginv_tac h
    finv := by finv_tac h
    front := by frontU_tac h
    pinT := h.pinT_step (Inj.ext.refl β) rfl (Frame.setCell hab v v')
    pinC := h.pinC_step (Inj.ext.refl β) rfl (Frame.setCell hab v v')
    pinTl := h.pinTL_step (Inj.ext.refl β) rfl (Frame.setCell hab v v')
    pinCl := h.pinCL_step (Inj.ext.refl β) rfl (Frame.setCell hab v v')
    inv := h.inv_step (Inj.ext.refl β) (Frame.setCell hab v v') }

theorem SRel.setTable {a b : Nat} (hab : β.t a b) {t t' : Table N} (ht : TRel β t t') :
    SRel Q cx β (σ.setTable a t) (σ'.setTable b t') :=
  { h with
    tbl := fun {x y} hxy => by
      obtain ⟨w, w', h1, h2, hw⟩ := h.tbl hxy
      obtain ⟨_, _, ha1, ha2, _⟩ := h.tbl hab
      simp only [State.setTable, getElem?_listSet]
      have hi := h.injT hab hxy
      by_cases hax : a = x
      · have hby : b = y := hi.mp hax
        subst hax; subst hby
        simp only [true_and, getElem?_lt ha1, getElem?_lt ha2, if_true]
        exact ⟨t, t', rfl, rfl, ht⟩
      · have hby : ¬ b = y := fun e => hax (hi.mpr e)
        simp only [hax, hby, false_and, if_false]
        exact ⟨w, w', h1, h2, hw⟩,
    ginv := by ginv_tac h
    finv := by finv_tac h
    front := by frontU_tac h
    pinT := h.pinT_step (Inj.ext.refl β) rfl (Frame.setTable hab t t')
    pinC := h.pinC_step (Inj.ext.refl β) rfl (Frame.setTable hab t t')
    pinTl := h.pinTL_step (Inj.ext.refl β) rfl (Frame.setTable hab t t')
    pinCl := h.pinCL_step (Inj.ext.refl β) rfl (Frame.setTable hab t t')
    inv := h.inv_step (Inj.ext.refl β) (Frame.setTable hab t t') }

theorem SRel.rawSet {a b : Nat} (hab : β.t a b) {k k' v v' : Val N} (hk : VRel β k k') (hv : VRel β v v') :
    SRel Q cx β (σ.rawSet a k v) (σ'.rawSet b k' v') := by
  simp only [State.rawSet]
  have ht := h.getTable hab
  exact h.setTable hab ⟨rawSetEntries_rel h.injT h.injF ht.entries hk hv, ht.mt⟩

theorem SRel.setMt {a b : Nat} (hab : β.t a b) {m m' : Option Nat} (hm : OptRel β.t m m') :
    SRel Q cx β (σ.setTable a { σ.getTable a with mt := m }) (σ'.setTable b { σ'.getTable b with mt := m' }) :=
  h.setTable hab ⟨(h.getTable hab).entries, hm⟩

theorem SRel.setMany {a b : Nat} (hab : β.t a b) (i : Nat) {vs vs' : List (Val N)} (hv : VsRel β vs vs') :
    SRel Q cx β (Sem.setMany a i vs σ) (Sem.setMany b i vs' σ') := by
  induction hv generalizing i σ σ' with
  | nil => exact h
  | cons h1 _ ih => simp only [Sem.setMany]; exact ih (h.rawSet hab (show VRel β (.num (N.ofNat i)) (.num (N.ofNat i)) from rfl) h1) _

theorem SRel.assignVar {D : List DName} {env env' : Env N} (he : EnvRel cx β D env.locals env'.locals)
    {n : String} (hn : DName.ref n ∉ D) (hw : DName.wat n ∉ D) {v v' : Val N} (hv : VRel β v v') :
    SRel Q cx β (Sem.assignVar env n v σ) (Sem.assignVar env' n v' σ') := by
  have := he.rel n hn
  simp only [Sem.assignVar]
  cases h1 : lookupAssoc n env.locals <;> cases h2 : lookupAssoc n env'.locals <;> rw [h1, h2] at this <;>
    simp only [OptRel] at this
  · exact h.setGlobal n (fun hm => hw (he.dw n hm)) hv
  · exact h.setCell this hv

/-! ### one-sided allocations: garbage for the relation -/

theorem SRel.allocCellLeft (v : Val N) : SRel Q cx β (σ.allocCell v).2 σ' :=
  { h with
    ginv := by ginv_tac h
    finv := by finv_tac h
    front := by frontU_tac h
    pinT := h.pinT_step (Inj.ext.refl β) rfl (by frame_grow)
    pinC := h.pinC_step (Inj.ext.refl β) rfl (by frame_grow)
    pinTl := h.pinTL_step (Inj.ext.refl β) rfl (by frame_grow)
    pinCl := h.pinCL_step (Inj.ext.refl β) rfl (by frame_grow)
    inv := h.inv_step (Inj.ext.refl β) (by frame_grow)
    cell := fun hxy =>
      let ⟨w, w', h1, h2, hw⟩ := h.cell hxy
      ⟨w, w', getElem?_append_of_some h1 _, h2, hw⟩ }
theorem SRel.allocCellRight (v : Val N) : SRel Q cx β σ (σ'.allocCell v).2 :=
  { h with
    ginv := by ginv_tac h
    finv := by finv_tac h
    front := by frontU_tac h
    pinT := h.pinT_step (Inj.ext.refl β) rfl (by frame_grow)
    pinC := h.pinC_step (Inj.ext.refl β) rfl (by frame_grow)
    pinTl := h.pinTL_step (Inj.ext.refl β) rfl (by frame_grow)
    pinCl := h.pinCL_step (Inj.ext.refl β) rfl (by frame_grow)
    inv := h.inv_step (Inj.ext.refl β) (by frame_grow)
    cell := fun hxy =>
      let ⟨w, w', h1, h2, hw⟩ := h.cell hxy
      ⟨w, w', h1, getElem?_append_of_some h2 _, hw⟩ }
theorem SRel.allocTableLeft (t : Table N) : SRel Q cx β (σ.allocTable t).2 σ' :=
  { h with
    ginv := by ginv_tac h
    finv := by finv_tac h
    front := by frontU_tac h
    pinT := h.pinT_step (Inj.ext.refl β) rfl (by frame_grow)
    pinC := h.pinC_step (Inj.ext.refl β) rfl (by frame_grow)
    pinTl := h.pinTL_step (Inj.ext.refl β) rfl (by frame_grow)
    pinCl := h.pinCL_step (Inj.ext.refl β) rfl (by frame_grow)
    inv := h.inv_step (Inj.ext.refl β) (by frame_grow)
    tbl := fun hxy =>
      let ⟨w, w', h1, h2, hw⟩ := h.tbl hxy
      ⟨w, w', getElem?_append_of_some h1 _, h2, hw⟩ }
theorem SRel.allocTableRight (t : Table N) : SRel Q cx β σ (σ'.allocTable t).2 :=
  { h with
    ginv := by ginv_tac h
    finv := by finv_tac h
    front := by frontU_tac h
    pinT := h.pinT_step (Inj.ext.refl β) rfl (by frame_grow)
    pinC := h.pinC_step (Inj.ext.refl β) rfl (by frame_grow)
    pinTl := h.pinTL_step (Inj.ext.refl β) rfl (by frame_grow)
    pinCl := h.pinCL_step (Inj.ext.refl β) rfl (by frame_grow)
    inv := h.inv_step (Inj.ext.refl β) (by frame_grow)
    tbl := fun hxy =>
      let ⟨w, w', h1, h2, hw⟩ := h.tbl hxy
      ⟨w, w', h1, getElem?_append_of_some h2 _, hw⟩ }
theorem SRel.allocClosureLeft (c : Closure N) : SRel Q cx β (σ.allocClosure c).2 σ' :=
  { h with
    ginv := by ginv_tac h
    finv := by finv_tac h
    front := by frontU_tac h
    pinT := h.pinT_step (Inj.ext.refl β) rfl (by frame_grow)
    pinC := h.pinC_step (Inj.ext.refl β) rfl (by frame_grow)
    pinTl := h.pinTL_step (Inj.ext.refl β) rfl (by frame_grow)
    pinCl := h.pinCL_step (Inj.ext.refl β) rfl (by frame_grow)
    inv := h.inv_step (Inj.ext.refl β) (by frame_grow)
    pin := fun p hp => ⟨getElem?_append_of_some (h.pin p hp).1 _, (h.pin p hp).2⟩
    clo := fun hxy =>
      let ⟨w, w', h1, h2, hw⟩ := h.clo hxy
      ⟨w, w', getElem?_append_of_some h1 _, h2, hw⟩ }
theorem SRel.allocClosureRight (c : Closure N) : SRel Q cx β σ (σ'.allocClosure c).2 :=
  { h with
    ginv := by ginv_tac h
    finv := by finv_tac h
    front := by frontU_tac h
    pinT := h.pinT_step (Inj.ext.refl β) rfl (by frame_grow)
    pinC := h.pinC_step (Inj.ext.refl β) rfl (by frame_grow)
    pinTl := h.pinTL_step (Inj.ext.refl β) rfl (by frame_grow)
    pinCl := h.pinCL_step (Inj.ext.refl β) rfl (by frame_grow)
    inv := h.inv_step (Inj.ext.refl β) (by frame_grow)
    pinR := fun p hp => ⟨getElem?_append_of_some (h.pinR p hp).1 _, (h.pinR p hp).2⟩
    clo := fun hxy =>
      let ⟨w, w', h1, h2, hw⟩ := h.clo hxy
      ⟨w, w', h1, getElem?_append_of_some h2 _, hw⟩ }
end

/-! ### two-sided allocations: the fresh ids are paired up -/

def extC (β : Inj N) (a b : Nat) : Inj N := { β with c := fun x y => β.c x y ∨ (x = a ∧ y = b) }
def extT (β : Inj N) (a b : Nat) : Inj N := { β with t := fun x y => β.t x y ∨ (x = a ∧ y = b) }
def extF (β : Inj N) (a b : Nat) : Inj N := { β with f := fun x y => β.f x y ∨ (x = a ∧ y = b) }

theorem front_refl (β : Inj N) :
    β.cL ≤ β.cL ∧ β.cR ≤ β.cR ∧ β.tL ≤ β.tL ∧ β.tR ≤ β.tR ∧ β.fL ≤ β.fL ∧ β.fR ≤ β.fR :=
  ⟨Nat.le_refl _, Nat.le_refl _, Nat.le_refl _, Nat.le_refl _, Nat.le_refl _, Nat.le_refl _⟩

/-- the new pair must lie at or beyond the frontier -/
theorem le_extC {a b : Nat} (ha : β.cL ≤ a) (hb : β.cR ≤ b) : β.le (extC β a b) :=
  ⟨fun _ _ h => .inl h, fun _ _ h => h, fun _ _ h => h, front_refl β,
    fun _ _ h => h.elim .inl fun e => .inr ⟨e.1 ▸ ha, e.2 ▸ hb⟩, fun _ _ h => .inl h, fun _ _ h => .inl h, fun _ h => h, fun _ h => h, fun _ h => h, fun _ h => h, fun _ h => h, fun _ h => h⟩
theorem le_extT {a b : Nat} (ha : β.tL ≤ a) (hb : β.tR ≤ b) : β.le (extT β a b) :=
  ⟨fun _ _ h => h, fun _ _ h => .inl h, fun _ _ h => h, front_refl β,
    fun _ _ h => .inl h, fun _ _ h => h.elim .inl fun e => .inr ⟨e.1 ▸ ha, e.2 ▸ hb⟩, fun _ _ h => .inl h, fun _ h => h, fun _ h => h, fun _ h => h, fun _ h => h, fun _ h => h, fun _ h => h⟩
theorem le_extF {a b : Nat} (ha : β.fL ≤ a) (hb : β.fR ≤ b) : β.le (extF β a b) :=
  ⟨fun _ _ h => h, fun _ _ h => h, fun _ _ h => .inl h, front_refl β,
    fun _ _ h => .inl h, fun _ _ h => .inl h, fun _ _ h => h.elim .inl fun e => .inr ⟨e.1 ▸ ha, e.2 ▸ hb⟩, fun _ h => h, fun _ h => h, fun _ h => h, fun _ h => h, fun _ h => h, fun _ h => h⟩

theorem SRel.le_extC {σ σ' : State N} (h : SRel Q cx β σ σ') : β.le (extC β σ.cells.length σ'.cells.length) :=
  HeapU.le_extC h.front.cL h.front.cR
theorem SRel.le_extT {σ σ' : State N} (h : SRel Q cx β σ σ') : β.le (extT β σ.tables.length σ'.tables.length) :=
  HeapU.le_extT h.front.tL h.front.tR
theorem SRel.le_extF {σ σ' : State N} (h : SRel Q cx β σ σ') : β.le (extF β σ.closures.length σ'.closures.length) :=
  HeapU.le_extF h.front.fL h.front.fR

theorem injective_ext {r : Nat → Nat → Prop} (hr : Injective r) {L L' : Nat}
    (hb : ∀ {a b}, r a b → a < L ∧ b < L') : Injective (fun x y => r x y ∨ (x = L ∧ y = L')) := by
  intro a b a' b' h1 h2
  rcases h1 with h1 | ⟨rfl, rfl⟩ <;> rcases h2 with h2 | ⟨rfl, rfl⟩
  · exact hr h1 h2
  · have := hb h1; constructor <;> intro e <;> omega
  · have := hb h2; constructor <;> intro e <;> omega
  · exact ⟨fun _ => rfl, fun _ => rfl⟩

variable {σ σ' : State N}

theorem SRel.allocCell (h : SRel Q cx β σ σ') {v v' : Val N} (hv : VRel β v v') :
    SRel Q cx (extC β σ.cells.length σ'.cells.length) (σ.allocCell v).2 (σ'.allocCell v').2 where
  globals := lift_globals h.le_extC h.globals
  trace := h.trace
  injC := injective_ext h.injC fun hab => by
    obtain ⟨_, _, h1, h2, _⟩ := h.cell hab; exact ⟨getElem?_lt h1, getElem?_lt h2⟩
  injT := h.injT
  injF := h.injF
  cell := fun {a b} hab => by
    simp only [State.allocCell]
    rcases hab with hab | ⟨rfl, rfl⟩
    · obtain ⟨w, w', h1, h2, hw⟩ := h.cell hab
      exact ⟨w, w', getElem?_append_of_some h1 _, getElem?_append_of_some h2 _, VRel.mono h.le_extC hw⟩
    · exact ⟨v, v', by simp, by simp, VRel.mono h.le_extC hv⟩
  tbl := fun hab => by
    obtain ⟨w, w', h1, h2, hw⟩ := h.tbl hab
    exact ⟨w, w', h1, h2, hw.mono h.le_extC⟩
  clo := fun hab => by
    obtain ⟨w, w', h1, h2, hw⟩ := h.clo hab
    exact ⟨w, w', h1, h2, hw.mono h.le_extC⟩
  strlib := h.strlib
  ginv := by ginv_tac h
  finv := by finv_tac h
  front := by frontU_tac h
  pinT := h.pinT_step h.le_extC.toExt rfl (by frame_grow)
  pinC := h.pinC_step h.le_extC.toExt rfl (by frame_grow)
  pinTl := h.pinTL_step h.le_extC.toExt rfl (by frame_grow)
  pinCl := h.pinCL_step h.le_extC.toExt rfl (by frame_grow)
  inv := h.inv_step h.le_extC.toExt (by frame_grow)
  pin := h.pin
  pinR := h.pinR

theorem SRel.allocTable (h : SRel Q cx β σ σ') {t t' : Table N} (ht : TRel β t t') :
    SRel Q cx (extT β σ.tables.length σ'.tables.length) (σ.allocTable t).2 (σ'.allocTable t').2 where
  globals := lift_globals h.le_extT h.globals
  trace := h.trace
  injC := h.injC
  injT := injective_ext h.injT fun hab => by
    obtain ⟨_, _, h1, h2, _⟩ := h.tbl hab; exact ⟨getElem?_lt h1, getElem?_lt h2⟩
  injF := h.injF
  cell := fun hab => by
    obtain ⟨w, w', h1, h2, hw⟩ := h.cell hab
    exact ⟨w, w', h1, h2, VRel.mono h.le_extT hw⟩
  tbl := fun {a b} hab => by
    simp only [State.allocTable]
    rcases hab with hab | ⟨rfl, rfl⟩
    · obtain ⟨w, w', h1, h2, hw⟩ := h.tbl hab
      exact ⟨w, w', getElem?_append_of_some h1 _, getElem?_append_of_some h2 _, hw.mono h.le_extT⟩
    · exact ⟨t, t', by simp, by simp, ht.mono h.le_extT⟩
  clo := fun hab => by
    obtain ⟨w, w', h1, h2, hw⟩ := h.clo hab
    exact ⟨w, w', h1, h2, hw.mono h.le_extT⟩
  strlib := .inl h.strlib
  ginv := by ginv_tac h
  finv := by finv_tac h
  front := by frontU_tac h
  pinT := h.pinT_step h.le_extT.toExt rfl (by frame_grow)
  pinC := h.pinC_step h.le_extT.toExt rfl (by frame_grow)
  pinTl := h.pinTL_step h.le_extT.toExt rfl (by frame_grow)
  pinCl := h.pinCL_step h.le_extT.toExt rfl (by frame_grow)
  inv := h.inv_step h.le_extT.toExt (by frame_grow)
  pin := h.pin
  pinR := h.pinR

theorem SRel.allocClosure (h : SRel Q cx β σ σ') {c c' : Closure N} (hc : CRel Q cx β c c') :
    SRel Q cx (extF β σ.closures.length σ'.closures.length) (σ.allocClosure c).2 (σ'.allocClosure c').2 where
  globals := lift_globals h.le_extF h.globals
  trace := h.trace
  injC := h.injC
  injT := h.injT
  injF := injective_ext h.injF fun hab => by
    obtain ⟨_, _, h1, h2, _⟩ := h.clo hab; exact ⟨getElem?_lt h1, getElem?_lt h2⟩
  cell := fun hab => by
    obtain ⟨w, w', h1, h2, hw⟩ := h.cell hab
    exact ⟨w, w', h1, h2, VRel.mono h.le_extF hw⟩
  tbl := fun hab => by
    obtain ⟨w, w', h1, h2, hw⟩ := h.tbl hab
    exact ⟨w, w', h1, h2, hw.mono h.le_extF⟩
  clo := fun {a b} hab => by
    simp only [State.allocClosure]
    rcases hab with hab | ⟨rfl, rfl⟩
    · obtain ⟨w, w', h1, h2, hw⟩ := h.clo hab
      exact ⟨w, w', getElem?_append_of_some h1 _, getElem?_append_of_some h2 _, hw.mono h.le_extF⟩
    · exact ⟨c, c', by simp, by simp, hc.mono h.le_extF⟩
  strlib := h.strlib
  ginv := by ginv_tac h
  finv := by finv_tac h
  front := by frontU_tac h
  pinT := h.pinT_step h.le_extF.toExt rfl (by frame_grow)
  pinC := h.pinC_step h.le_extF.toExt rfl (by frame_grow)
  pinTl := h.pinTL_step h.le_extF.toExt rfl (by frame_grow)
  pinCl := h.pinCL_step h.le_extF.toExt rfl (by frame_grow)
  inv := h.inv_step h.le_extF.toExt (by frame_grow)
  pin := fun p hp => ⟨getElem?_append_of_some (h.pin p hp).1 _, fun b hb =>
    hb.elim ((h.pin p hp).2 b) fun e => by have := getElem?_lt (h.pin p hp).1; omega⟩
  pinR := fun p hp => ⟨getElem?_append_of_some (h.pinR p hp).1 _, fun a ha =>
    ha.elim ((h.pinR p hp).2 a) fun e => by have := getElem?_lt (h.pinR p hp).1; omega⟩

/-- `bindLocals` on both sides with related values -/
theorem SRel.bindLocals (h : SRel Q cx β σ σ') {D : List DName} (ns : List String) {vs vs' : List (Val N)}
    (hns : ∀ n ∈ ns, DName.wat n ∉ D) (hv : VsRel β vs vs') {l l' : List (String × Nat)} (he : EnvRel cx β D l l') :
    ∃ β', β.le β' ∧ SRel Q cx β' (Sem.bindLocals ns vs l σ).2 (Sem.bindLocals ns vs' l' σ').2 ∧
      EnvRel cx β' D (Sem.bindLocals ns vs l σ).1 (Sem.bindLocals ns vs' l' σ').1 := by
  induction ns generalizing vs vs' l l' σ σ' β with
  | nil => exact ⟨β, β.le_refl, h, he⟩
  | cons n ns ih =>
    simp only [Sem.bindLocals]
    have h1 := h.allocCell (VRel.first hv)
    obtain ⟨β', hle, hs, henv⟩ := ih h1 (fun m hm => hns m (List.mem_cons_of_mem _ hm)) ((hv.drop 1).mono h.le_extC)
      ((he.mono h.le_extC).cons n (hns n List.mem_cons_self) (.inr ⟨rfl, rfl⟩))
    exact ⟨β', Inj.le_trans h.le_extC hle, hs, henv⟩

theorem SRel.bindLocalsLeft (h : SRel Q cx β σ σ') {D : List DName} (ns : List String)
    (hns : ∀ n ∈ ns, DName.ref n ∈ D ∧ DName.wat n ∉ D) (vs : List (Val N)) {l l' : List (String × Nat)}
    (he : EnvRel cx β D l l') :
    SRel Q cx β (Sem.bindLocals ns vs l σ).2 σ' ∧ EnvRel cx β D (Sem.bindLocals ns vs l σ).1 l' := by
  induction ns generalizing vs l σ with
  | nil => exact ⟨h, he⟩
  | cons n ns ih =>
    simp only [Sem.bindLocals]
    exact ih (h.allocCellLeft _) (fun m hm => hns m (List.mem_cons_of_mem _ hm)) _
      (he.consLeft n _ (hns n List.mem_cons_self).1 (hns n List.mem_cons_self).2)

theorem SRel.bindLocalsRight (h : SRel Q cx β σ σ') {D : List DName} (ns : List String)
    (hns : ∀ n ∈ ns, DName.ref n ∈ D ∧ DName.wat n ∉ D) (vs : List (Val N)) {l l' : List (String × Nat)}
    (he : EnvRel cx β D l l') :
    SRel Q cx β σ (Sem.bindLocals ns vs l' σ').2 ∧ EnvRel cx β D l (Sem.bindLocals ns vs l' σ').1 := by
  induction ns generalizing vs l' σ' with
  | nil => exact ⟨h, he⟩
  | cons n ns ih =>
    simp only [Sem.bindLocals]
    exact ih (h.allocCellRight _) (fun m hm => hns m (List.mem_cons_of_mem _ hm)) _
      (he.consRight n _ (hns n List.mem_cons_self).1 (hns n List.mem_cons_self).2)

/-! ### the frontier: one-sided objects stay one-sided; an allocation may happen earlier on one side -/

/-- move all frontiers to the current allocation points -/
def Inj.bump (β : Inj N) (σ σ' : State N) : Inj N :=
  { β with cL := σ.cells.length, cR := σ'.cells.length, tL := σ.tables.length, tR := σ'.tables.length,
           fL := σ.closures.length, fR := σ'.closures.length }

theorem SRel.le_bump (h : SRel Q cx β σ σ') : β.le (β.bump σ σ') :=
  ⟨fun _ _ h => h, fun _ _ h => h, fun _ _ h => h,
    ⟨h.front.cL, h.front.cR, h.front.tL, h.front.tR, h.front.fL, h.front.fR⟩,
    fun _ _ h => .inl h, fun _ _ h => .inl h, fun _ _ h => .inl h, fun _ h => h, fun _ h => h, fun _ h => h, fun _ h => h, fun _ h => h, fun _ h => h⟩

theorem SRel.bump (h : SRel Q cx β σ σ') : SRel Q cx (β.bump σ σ') σ σ' where
  globals := lift_globals h.le_bump h.globals
  trace := h.trace
  injC := h.injC
  injT := h.injT
  injF := h.injF
  cell := fun hab => let ⟨v, v', h1, h2, hv⟩ := h.cell hab; ⟨v, v', h1, h2, hv.mono h.le_bump⟩
  tbl := fun hab => let ⟨v, v', h1, h2, hv⟩ := h.tbl hab; ⟨v, v', h1, h2, hv.mono h.le_bump⟩
  clo := fun hab => let ⟨v, v', h1, h2, hv⟩ := h.clo hab; ⟨v, v', h1, h2, hv.mono h.le_bump⟩
  strlib := h.strlib
  ginv := by ginv_tac h
  finv := by finv_tac h
  front := ⟨Nat.le_refl _, Nat.le_refl _, Nat.le_refl _, Nat.le_refl _, Nat.le_refl _, Nat.le_refl _⟩
  pinT := h.pinT_step h.le_bump.toExt rfl (Frame.refl β σ σ')
  pinC := h.pinC_step h.le_bump.toExt rfl (Frame.refl β σ σ')
  pinTl := h.pinTL_step h.le_bump.toExt rfl (Frame.refl β σ σ')
  pinCl := h.pinCL_step h.le_bump.toExt rfl (Frame.refl β σ σ')
  inv := h.inv_step h.le_bump.toExt (Frame.refl β σ σ')
  pin := h.pin
  pinR := h.pinR

/-- ids that do not exist (yet) are related to nothing -/
theorem SRel.unrelatedFL (h : SRel Q cx β σ σ') {a : Nat} (ha : σ.closures.length ≤ a) : ∀ b, ¬ β.f a b := fun b hab => by
  obtain ⟨_, _, h1, _, _⟩ := h.clo hab
  have := getElem?_lt h1; omega
theorem SRel.unrelatedFR (h : SRel Q cx β σ σ') {b : Nat} (hb : σ'.closures.length ≤ b) : ∀ a, ¬ β.f a b := fun a hab => by
  obtain ⟨_, _, _, h2, _⟩ := h.clo hab
  have := getElem?_lt h2; omega
theorem SRel.unrelatedTL (h : SRel Q cx β σ σ') {a : Nat} (ha : σ.tables.length ≤ a) : ∀ b, ¬ β.t a b := fun b hab => by
  obtain ⟨_, _, h1, _, _⟩ := h.tbl hab
  have := getElem?_lt h1; omega
theorem SRel.unrelatedTR (h : SRel Q cx β σ σ') {b : Nat} (hb : σ'.tables.length ≤ b) : ∀ a, ¬ β.t a b := fun a hab => by
  obtain ⟨_, _, _, h2, _⟩ := h.tbl hab
  have := getElem?_lt h2; omega

theorem injective_ext' {r : Nat → Nat → Prop} (hr : Injective r) {a b : Nat}
    (ha : ∀ y, ¬ r a y) (hb : ∀ x, ¬ r x b) : Injective (fun x y => r x y ∨ (x = a ∧ y = b)) := by
  intro x y x' y' h1 h2
  rcases h1 with h1 | ⟨rfl, rfl⟩ <;> rcases h2 with h2 | ⟨rfl, rfl⟩
  · exact hr h1 h2
  · exact ⟨fun e => absurd (e ▸ h1) (ha _), fun e => absurd (e ▸ h1) (hb _)⟩
  · exact ⟨fun e => absurd (e ▸ h2) (ha _), fun e => absurd (e ▸ h2) (hb _)⟩
  · exact ⟨fun _ => rfl, fun _ => rfl⟩

/-- pin a closure the left allocates now (the right will allocate its partner later) -/
def Inj.pinNew (β : Inj N) (a : Nat) (body : FnBody) (env : List (String × Nat)) : Inj N :=
  { β with pinF := (a, body, env) :: β.pinF }

theorem le_pinNew (a : Nat) (body : FnBody) (env : List (String × Nat)) : β.le (β.pinNew a body env) :=
  ⟨fun _ _ h => h, fun _ _ h => h, fun _ _ h => h, front_refl β, fun _ _ h => .inl h, fun _ _ h => .inl h,
    fun _ _ h => .inl h, fun _ h => List.mem_cons_of_mem _ h, fun _ h => h, fun _ h => h, fun _ h => h, fun _ h => h, fun _ h => h⟩

/-- **the left allocates a closure EARLY**: it is pinned (content known, related to nothing) until the right
allocates its partner (`SRel.matchClosureRight`) -/
theorem SRel.allocClosureLeftPinned (h : SRel Q cx β σ σ') (body : FnBody) (env : List (String × Nat)) :
    SRel Q cx (β.pinNew σ.closures.length body env) (σ.allocClosure ⟨body, env, []⟩).2 σ' := by
  have hle := le_pinNew (β := β) σ.closures.length body env
  have h1 := h.allocClosureLeft ⟨body, env, []⟩
  exact {
    globals := lift_globals hle h1.globals
    trace := h1.trace
    injC := h.injC
    injT := h.injT
    injF := h.injF
    cell := fun hab => let ⟨v, v', e1, e2, hv⟩ := h1.cell hab; ⟨v, v', e1, e2, hv.mono hle⟩
    tbl := fun hab => let ⟨v, v', e1, e2, hv⟩ := h1.tbl hab; ⟨v, v', e1, e2, hv.mono hle⟩
    clo := fun hab => let ⟨v, v', e1, e2, hv⟩ := h1.clo hab; ⟨v, v', e1, e2, hv.mono hle⟩
    strlib := h.strlib
    ginv := by ginv_tac h
    finv := by finv_tac h
    front := ⟨h1.front.cL, h1.front.cR, h1.front.tL, h1.front.tR, h1.front.fL, h1.front.fR⟩
    pinT := h.pinT_step hle.toExt rfl (by frame_grow)
    pinC := h.pinC_step hle.toExt rfl (by frame_grow)
    pinTl := h.pinTL_step hle.toExt rfl (by frame_grow)
    pinCl := h.pinCL_step hle.toExt rfl (by frame_grow)
    inv := h.inv_step hle.toExt (by frame_grow)
    pin := fun p hp => by
      rcases List.mem_cons.mp hp with rfl | hp
      · exact ⟨by simp [State.allocClosure], h.unrelatedFL (Nat.le_refl _)⟩
      · exact h1.pin p hp
    pinR := h1.pinR }

/-- relate the pinned left closure `a` with the closure the right allocates now; the pin is released -/
def Inj.matchF (β : Inj N) (a b : Nat) : Inj N :=
  { β with f := fun x y => β.f x y ∨ (x = a ∧ y = b), pinF := β.pinF.filter (fun p => p.1 != a) }

theorem ext_matchF (β : Inj N) (a b : Nat) : β.ext (β.matchF a b) :=
  ⟨fun _ _ h => h, fun _ _ h => h, fun _ _ h => .inl h, front_refl β, fun _ _ h => .inl h, fun _ _ h => .inl h⟩

/-- **A closure allocated EARLIER on the left is matched by one allocated now on the right.**
The new pair `(a, |σ'.closures|)` is in general below the left frontier of `β`, so the result is NOT an
extension of `β` — it is an extension of the relation `β0` at the entry of the step (`le_late`). -/
theorem SRel.matchClosureRight (h : SRel Q cx β σ σ') {a : Nat} {body : FnBody} {env : List (String × Nat)}
    (hp : (a, body, env) ∈ β.pinF) {c' : Closure N} (hc : CRel Q cx β ⟨body, env, []⟩ c') :
    SRel Q cx (β.matchF a σ'.closures.length) σ (σ'.allocClosure c').2 := by
  have ha := (h.pin _ hp).1
  have hu := (h.pin _ hp).2
  have hle : ∀ {v v' : Val N}, VRel β v v' → VRel (β.matchF a σ'.closures.length) v v' := by
    intro v v' hv
    cases v <;> cases v' <;> simp only [VRel] at hv ⊢ <;> first | exact hv | exact .inl hv
  have hleT : ∀ {t t' : Table N}, TRel β t t' → TRel (β.matchF a σ'.closures.length) t t' := fun ht =>
    ⟨Forall2.imp (fun _ _ he => ⟨hle he.1, hle he.2⟩) ht.entries, ht.mt⟩
  have hleC : ∀ {d d' : Closure N}, CRel Q cx β d d' → CRel Q cx (β.matchF a σ'.closures.length) d d' := fun hd =>
    ⟨Forall2.imp (fun _ _ => hle) hd.varargs, let ⟨D, hq, he⟩ := hd.body; ⟨D, hq, ⟨he.rel, he.dw, he.wb⟩⟩⟩
  exact {
    globals := Forall2.imp (fun _ _ hp => ⟨hp.1, hle hp.2⟩) h.globals
    trace := h.trace
    injC := h.injC
    injT := h.injT
    injF := injective_ext' h.injF hu (h.unrelatedFR (Nat.le_refl _))
    cell := fun hab => let ⟨v, v', h1, h2, hv⟩ := h.cell hab; ⟨v, v', h1, h2, hle hv⟩
    tbl := fun hab => let ⟨v, v', h1, h2, hv⟩ := h.tbl hab; ⟨v, v', h1, h2, hleT hv⟩
    clo := fun {x y} hab => by
      simp only [State.allocClosure]
      rcases hab with hab | ⟨rfl, rfl⟩
      · obtain ⟨w, w', h1, h2, hw⟩ := h.clo hab
        exact ⟨w, w', h1, getElem?_append_of_some h2 _, hleC hw⟩
      · exact ⟨_, c', ha, by simp, hleC hc⟩
    strlib := h.strlib
    ginv := by ginv_tac h
    finv := by finv_tac h
    front := by frontU_tac h
    pinT := h.pinT_step (ext_matchF β a _) rfl (by frame_grow)
    pinC := h.pinC_step (ext_matchF β a _) rfl (by frame_grow)
    pinTl := h.pinTL_step (ext_matchF β a _) rfl (by frame_grow)
    pinCl := h.pinCL_step (ext_matchF β a _) rfl (by frame_grow)
    inv := h.inv_step (ext_matchF β a _) (by frame_grow)
    pin := fun p hp => by
      have hp' := List.mem_filter.mp hp
      refine ⟨(h.pin p hp'.1).1, fun b hb => ?_⟩
      rcases hb with hb | ⟨e, _⟩
      · exact (h.pin p hp'.1).2 b hb
      · have := hp'.2; simp only [bne_iff_ne, ne_eq] at this; exact this e
    pinR := fun p hp => ⟨getElem?_append_of_some (h.pinR p hp).1 _, fun x hx => by
      rcases hx with hx | ⟨_, e⟩
      · exact (h.pinR p hp).2 x hx
      · have := getElem?_lt (h.pinR p hp).1; omega⟩ }

/-- the late pair is fresh for every relation `β0` whose frontier it respects and that does not pin `a` -/
theorem le_late {β0 β1 : Inj N} (h : β0.le β1) {a b : Nat} (ha : β0.fL ≤ a) (hb : β0.fR ≤ b)
    (hp : ∀ p ∈ β0.pinF, p.1 ≠ a) : β0.le (β1.matchF a b) :=
  ⟨h.c, h.t, fun _ _ hf => .inl (h.f _ _ hf), h.front, h.freshC, h.freshT, fun x y hf => by
    rcases hf with hf | ⟨rfl, rfl⟩
    · exact h.freshF x y hf
    · exact .inr ⟨ha, hb⟩,
    fun p hp0 => List.mem_filter.mpr ⟨h.pins p hp0, by simp only [bne_iff_ne, ne_eq]; exact hp p hp0⟩, h.pinsR, h.pinsTR, h.pinsCR, h.pinsTL, h.pinsCL⟩

/-! ### the symmetric case: the RIGHT allocates a closure early (or owns a helper closure for good) -/

def Inj.pinNewR (β : Inj N) (b : Nat) (body : FnBody) (env : List (String × Nat)) : Inj N :=
  { β with pinFR := (b, body, env) :: β.pinFR }

theorem le_pinNewR (b : Nat) (body : FnBody) (env : List (String × Nat)) : β.le (β.pinNewR b body env) :=
  ⟨fun _ _ h => h, fun _ _ h => h, fun _ _ h => h, front_refl β, fun _ _ h => .inl h, fun _ _ h => .inl h,
    fun _ _ h => .inl h, fun _ h => h, fun _ h => List.mem_cons_of_mem _ h, fun _ h => h, fun _ h => h, fun _ h => h, fun _ h => h⟩

theorem SRel.allocClosureRightPinned (h : SRel Q cx β σ σ') (body : FnBody) (env : List (String × Nat)) :
    SRel Q cx (β.pinNewR σ'.closures.length body env) σ (σ'.allocClosure ⟨body, env, []⟩).2 := by
  have hle := le_pinNewR (β := β) σ'.closures.length body env
  have h1 := h.allocClosureRight ⟨body, env, []⟩
  exact {
    globals := lift_globals hle h1.globals
    trace := h1.trace
    injC := h.injC
    injT := h.injT
    injF := h.injF
    cell := fun hab => let ⟨v, v', e1, e2, hv⟩ := h1.cell hab; ⟨v, v', e1, e2, hv.mono hle⟩
    tbl := fun hab => let ⟨v, v', e1, e2, hv⟩ := h1.tbl hab; ⟨v, v', e1, e2, hv.mono hle⟩
    clo := fun hab => let ⟨v, v', e1, e2, hv⟩ := h1.clo hab; ⟨v, v', e1, e2, hv.mono hle⟩
    strlib := h.strlib
    ginv := by ginv_tac h
    finv := by finv_tac h
    front := ⟨h1.front.cL, h1.front.cR, h1.front.tL, h1.front.tR, h1.front.fL, h1.front.fR⟩
    pinT := h.pinT_step hle.toExt rfl (by frame_grow)
    pinC := h.pinC_step hle.toExt rfl (by frame_grow)
    pinTl := h.pinTL_step hle.toExt rfl (by frame_grow)
    pinCl := h.pinCL_step hle.toExt rfl (by frame_grow)
    inv := h.inv_step hle.toExt (by frame_grow)
    pin := h1.pin
    pinR := fun p hp => by
      rcases List.mem_cons.mp hp with rfl | hp
      · exact ⟨by simp [State.allocClosure], h.unrelatedFR (Nat.le_refl _)⟩
      · exact h1.pinR p hp }

/-- a pinned right closure holds its content, whatever related code has run since -/
theorem SRel.pinnedR (h : SRel Q cx β σ σ') {b : Nat} {body : FnBody} {env : List (String × Nat)}
    (hp : (b, body, env) ∈ β.pinFR) : σ'.closures[b]? = some ⟨body, env, []⟩ := (h.pinR _ hp).1
theorem SRel.pinnedL (h : SRel Q cx β σ σ') {a : Nat} {body : FnBody} {env : List (String × Nat)}
    (hp : (a, body, env) ∈ β.pinF) : σ.closures[a]? = some ⟨body, env, []⟩ := (h.pin _ hp).1

/-- relate the closure the left allocates now with the pinned right closure `b`; the pin is released -/
def Inj.matchFL (β : Inj N) (a b : Nat) : Inj N :=
  { β with f := fun x y => β.f x y ∨ (x = a ∧ y = b), pinFR := β.pinFR.filter (fun p => p.1 != b) }

theorem ext_matchFL (β : Inj N) (a b : Nat) : β.ext (β.matchFL a b) :=
  ⟨fun _ _ h => h, fun _ _ h => h, fun _ _ h => .inl h, front_refl β, fun _ _ h => .inl h, fun _ _ h => .inl h⟩

theorem SRel.matchClosureLeft (h : SRel Q cx β σ σ') {b : Nat} {body : FnBody} {env : List (String × Nat)}
    (hp : (b, body, env) ∈ β.pinFR) {c : Closure N} (hc : CRel Q cx β c ⟨body, env, []⟩) :
    SRel Q cx (β.matchFL σ.closures.length b) (σ.allocClosure c).2 σ' := by
  have hb := (h.pinR _ hp).1
  have hu := (h.pinR _ hp).2
  have hle : ∀ {v v' : Val N}, VRel β v v' → VRel (β.matchFL σ.closures.length b) v v' := by
    intro v v' hv
    cases v <;> cases v' <;> simp only [VRel] at hv ⊢ <;> first | exact hv | exact .inl hv
  have hleT : ∀ {t t' : Table N}, TRel β t t' → TRel (β.matchFL σ.closures.length b) t t' := fun ht =>
    ⟨Forall2.imp (fun _ _ he => ⟨hle he.1, hle he.2⟩) ht.entries, ht.mt⟩
  have hleC : ∀ {d d' : Closure N}, CRel Q cx β d d' → CRel Q cx (β.matchFL σ.closures.length b) d d' := fun hd =>
    ⟨Forall2.imp (fun _ _ => hle) hd.varargs, let ⟨D, hq, he⟩ := hd.body; ⟨D, hq, ⟨he.rel, he.dw, he.wb⟩⟩⟩
  exact {
    globals := Forall2.imp (fun _ _ hp => ⟨hp.1, hle hp.2⟩) h.globals
    trace := h.trace
    injC := h.injC
    injT := h.injT
    injF := injective_ext' h.injF (h.unrelatedFL (Nat.le_refl _)) hu
    cell := fun hab => let ⟨v, v', h1, h2, hv⟩ := h.cell hab; ⟨v, v', h1, h2, hle hv⟩
    tbl := fun hab => let ⟨v, v', h1, h2, hv⟩ := h.tbl hab; ⟨v, v', h1, h2, hleT hv⟩
    clo := fun {x y} hab => by
      simp only [State.allocClosure]
      rcases hab with hab | ⟨rfl, rfl⟩
      · obtain ⟨w, w', h1, h2, hw⟩ := h.clo hab
        exact ⟨w, w', getElem?_append_of_some h1 _, h2, hleC hw⟩
      · exact ⟨c, _, by simp, hb, hleC hc⟩
    strlib := h.strlib
    ginv := by ginv_tac h
    finv := by finv_tac h
    front := by frontU_tac h
    pinT := h.pinT_step (ext_matchFL β _ b) rfl (by frame_grow)
    pinC := h.pinC_step (ext_matchFL β _ b) rfl (by frame_grow)
    pinTl := h.pinTL_step (ext_matchFL β _ b) rfl (by frame_grow)
    pinCl := h.pinCL_step (ext_matchFL β _ b) rfl (by frame_grow)
    inv := h.inv_step (ext_matchFL β _ b) (by frame_grow)
    pin := fun p hp => ⟨getElem?_append_of_some (h.pin p hp).1 _, fun y hy => by
      rcases hy with hy | ⟨e, _⟩
      · exact (h.pin p hp).2 y hy
      · have := getElem?_lt (h.pin p hp).1; omega⟩
    pinR := fun p hp => by
      have hp' := List.mem_filter.mp hp
      refine ⟨(h.pinR p hp'.1).1, fun a ha => ?_⟩
      rcases ha with ha | ⟨_, e⟩
      · exact (h.pinR p hp'.1).2 a ha
      · have := hp'.2; simp only [bne_iff_ne, ne_eq] at this; exact this e }

theorem le_lateL {β0 β1 : Inj N} (h : β0.le β1) {a b : Nat} (ha : β0.fL ≤ a) (hb : β0.fR ≤ b)
    (hp : ∀ p ∈ β0.pinFR, p.1 ≠ b) : β0.le (β1.matchFL a b) :=
  ⟨h.c, h.t, fun _ _ hf => .inl (h.f _ _ hf), h.front, h.freshC, h.freshT, fun x y hf => by
    rcases hf with hf | ⟨rfl, rfl⟩
    · exact h.freshF x y hf
    · exact .inr ⟨ha, hb⟩,
    h.pins, fun p hp0 => List.mem_filter.mpr ⟨h.pinsR p hp0, by simp only [bne_iff_ne, ne_eq]; exact hp p hp0⟩,
    h.pinsTR, h.pinsCR, h.pinsTL, h.pinsCL⟩

/-! ### private objects: writes by their owner, content pins for one-sided right tables and cells -/

theorem getElem?_listSet_ne {α : Type} {l : List α} {i j : Nat} (a : α) (h : i ≠ j) : (listSet l i a)[j]? = l[j]? := by
  rw [getElem?_listSet]; simp [h]

/-- a write to a right table that is related to nothing: everything but the content pins of that table and the
consumer's invariant is unaffected -/
theorem SRel.privSetTableR (h : SRel Q cx β σ σ') {b : Nat} (hu : ∀ a, ¬ β.t a b) (hnp : ∀ p ∈ β.pinTR, p.1 ≠ b)
    (t2 : Table N) (hI : cx.I N β σ (σ'.setTable b t2)) : SRel Q cx β σ (σ'.setTable b t2) :=
  { h with
    tbl := fun {x y} hxy => by
      obtain ⟨w, w', h1, h2, hw⟩ := h.tbl hxy
      have hne : b ≠ y := fun e => hu x (e ▸ hxy)
      exact ⟨w, w', h1, by simp only [State.setTable]; rw [getElem?_listSet_ne _ hne]; exact h2, hw⟩
    ginv := by ginv_tac h
    finv := by finv_tac h
    front := by frontU_tac h
    pinT := fun p hp => ⟨by simp only [State.setTable]; rw [getElem?_listSet_ne _ (hnp p hp).symm]; exact (h.pinT p hp).1,
      (h.pinT p hp).2⟩
    inv := hI }

theorem SRel.privSetTableL (h : SRel Q cx β σ σ') {a : Nat} (hu : ∀ b, ¬ β.t a b) (hnp : ∀ p ∈ β.pinTL, p.1 ≠ a)
    (t2 : Table N) (hI : cx.I N β (σ.setTable a t2) σ') : SRel Q cx β (σ.setTable a t2) σ' :=
  { h with
    pinTl := fun p hp => ⟨by simp only [State.setTable]; rw [getElem?_listSet_ne _ (hnp p hp).symm]; exact (h.pinTl p hp).1,
      (h.pinTl p hp).2⟩
    tbl := fun {x y} hxy => by
      obtain ⟨w, w', h1, h2, hw⟩ := h.tbl hxy
      have hne : a ≠ x := fun e => hu y (e ▸ hxy)
      exact ⟨w, w', by simp only [State.setTable]; rw [getElem?_listSet_ne _ hne]; exact h1, h2, hw⟩
    ginv := by ginv_tac h
    finv := by finv_tac h
    front := by frontU_tac h
    inv := hI }

theorem SRel.privSetCellR (h : SRel Q cx β σ σ') {b : Nat} (hu : ∀ a, ¬ β.c a b) (hnp : ∀ p ∈ β.pinCR, p.1 ≠ b)
    (v : Val N) (hI : cx.I N β σ (σ'.setCell b v)) : SRel Q cx β σ (σ'.setCell b v) :=
  { h with
    cell := fun {x y} hxy => by
      obtain ⟨w, w', h1, h2, hw⟩ := h.cell hxy
      have hne : b ≠ y := fun e => hu x (e ▸ hxy)
      exact ⟨w, w', h1, by simp only [State.setCell]; rw [getElem?_listSet_ne _ hne]; exact h2, hw⟩
    ginv := by ginv_tac h
    finv := by finv_tac h
    front := by frontU_tac h
    pinC := fun p hp => ⟨by simp only [State.setCell]; rw [getElem?_listSet_ne _ (hnp p hp).symm]; exact (h.pinC p hp).1,
      (h.pinC p hp).2⟩
    inv := hI }

theorem SRel.privSetCellL (h : SRel Q cx β σ σ') {a : Nat} (hu : ∀ b, ¬ β.c a b) (hnp : ∀ p ∈ β.pinCL, p.1 ≠ a)
    (v : Val N) (hI : cx.I N β (σ.setCell a v) σ') : SRel Q cx β (σ.setCell a v) σ' :=
  { h with
    pinCl := fun p hp => ⟨by simp only [State.setCell]; rw [getElem?_listSet_ne _ (hnp p hp).symm]; exact (h.pinCl p hp).1,
      (h.pinCl p hp).2⟩
    cell := fun {x y} hxy => by
      obtain ⟨w, w', h1, h2, hw⟩ := h.cell hxy
      have hne : a ≠ x := fun e => hu y (e ▸ hxy)
      exact ⟨w, w', by simp only [State.setCell]; rw [getElem?_listSet_ne _ hne]; exact h1, h2, hw⟩
    ginv := by ginv_tac h
    finv := by finv_tac h
    front := by frontU_tac h
    inv := hI }

/-- add / replace the content pin of the right table `b` -/
def Inj.repinT (β : Inj N) (b : Nat) (t : Table N) : Inj N :=
  { β with pinTR := (b, t) :: β.pinTR.filter (fun p => p.1 != b) }
def Inj.repinC (β : Inj N) (b : Nat) (v : Val N) : Inj N :=
  { β with pinCR := (b, v) :: β.pinCR.filter (fun p => p.1 != b) }

theorem ext_repinT (β : Inj N) (b : Nat) (t : Table N) : β.ext (β.repinT b t) :=
  ⟨fun _ _ h => h, fun _ _ h => h, fun _ _ h => h, front_refl β, fun _ _ h => .inl h, fun _ _ h => .inl h⟩
theorem ext_repinC (β : Inj N) (b : Nat) (v : Val N) : β.ext (β.repinC b v) :=
  ⟨fun _ _ h => h, fun _ _ h => h, fun _ _ h => h, front_refl β, fun _ _ h => .inl h, fun _ _ h => .inl h⟩

/-- the relations on values, tables, closures only depend on the three injections -/
theorem VRel.ofExt {β' : Inj N} (h : β.ext β') {v v' : Val N} (hv : VRel β v v') : VRel β' v v' := by
  cases v <;> cases v' <;> simp only [VRel] at hv ⊢ <;> first | exact hv | exact h.t _ _ hv | exact h.f _ _ hv
theorem TRel.ofExt {β' : Inj N} (h : β.ext β') {t t' : Table N} (ht : TRel β t t') : TRel β' t t' :=
  ⟨Forall2.imp (fun _ _ he => ⟨VRel.ofExt h he.1, VRel.ofExt h he.2⟩) ht.entries, by
    have := ht.mt
    cases h1 : t.mt <;> cases h2 : t'.mt <;> rw [h1, h2] at this <;> simp only [OptRel] at this ⊢
    exact h.t _ _ this⟩
theorem CRel.ofExt {β' : Inj N} (h : β.ext β') {c c' : Closure N} (hc : CRel Q cx β c c') : CRel Q cx β' c c' :=
  ⟨Forall2.imp (fun _ _ => VRel.ofExt h) hc.varargs,
    let ⟨D, hq, he⟩ := hc.body; ⟨D, hq, he.ofExt h⟩⟩

/-- from the injection at the ENTRY of the owner's step (which does not pin `b`) every later re-pinned injection
is an ordinary extension -/
theorem le_repinT {β0 β1 : Inj N} (h : β0.le β1) {b : Nat} (t : Table N) (hp : ∀ p ∈ β0.pinTR, p.1 ≠ b) :
    β0.le (β1.repinT b t) :=
  ⟨h.c, h.t, h.f, h.front, h.freshC, h.freshT, h.freshF, h.pins, h.pinsR,
    fun p hp0 => List.mem_cons_of_mem _ (List.mem_filter.mpr ⟨h.pinsTR p hp0, by simp only [bne_iff_ne, ne_eq]; exact hp p hp0⟩),
    h.pinsCR, h.pinsTL, h.pinsCL⟩
theorem le_repinC {β0 β1 : Inj N} (h : β0.le β1) {b : Nat} (v : Val N) (hp : ∀ p ∈ β0.pinCR, p.1 ≠ b) :
    β0.le (β1.repinC b v) :=
  ⟨h.c, h.t, h.f, h.front, h.freshC, h.freshT, h.freshF, h.pins, h.pinsR, h.pinsTR,
    fun p hp0 => List.mem_cons_of_mem _ (List.mem_filter.mpr ⟨h.pinsCR p hp0, by simp only [bne_iff_ne, ne_eq]; exact hp p hp0⟩),
    h.pinsTL, h.pinsCL⟩

/-- the owner (re)writes a one-sided right table that is below the frontier and related to nothing, and pins the
new content; the other content pins are kept. The consumer's invariant must be re-established (`trivial` for
contexts without one). -/
theorem SRel.setPinnedTR (h : SRel Q cx β σ σ') {b : Nat} (hlt : b < σ'.tables.length) (hfr : b < β.tR)
    (hu : ∀ a, ¬ β.t a b) (t2 : Table N) (hI : cx.I N (β.repinT b t2) σ (σ'.setTable b t2)) :
    SRel Q cx (β.repinT b t2) σ (σ'.setTable b t2) := by
  have he := ext_repinT β b t2
  exact {
    globals := Forall2.imp (fun _ _ hp => ⟨hp.1, VRel.ofExt he hp.2⟩) h.globals
    trace := h.trace
    injC := h.injC
    injT := h.injT
    injF := h.injF
    cell := fun hab => let ⟨v, v', e1, e2, hv⟩ := h.cell hab; ⟨v, v', e1, e2, VRel.ofExt he hv⟩
    tbl := fun {x y} hxy => by
      obtain ⟨w, w', h1, h2, hw⟩ := h.tbl hxy
      have hne : b ≠ y := fun e => hu x (e ▸ hxy)
      exact ⟨w, w', h1, by simp only [State.setTable]; rw [getElem?_listSet_ne _ hne]; exact h2, TRel.ofExt he hw⟩
    clo := fun hab => let ⟨v, v', e1, e2, hv⟩ := h.clo hab; ⟨v, v', e1, e2, CRel.ofExt he hv⟩
    strlib := h.strlib
    ginv := by ginv_tac h
    finv := by finv_tac h
    front := by frontU_tac h
    pin := h.pin
    pinR := h.pinR
    pinT := fun p hp => by
      rcases List.mem_cons.mp hp with rfl | hp
      · exact ⟨by simp only [State.setTable, getElem?_listSet, hlt, and_self, if_true], hfr, hu⟩
      · have hp' := List.mem_filter.mp hp
        have hne : p.1 ≠ b := by have := hp'.2; simpa only [bne_iff_ne, ne_eq] using this
        exact ⟨by simp only [State.setTable]; rw [getElem?_listSet_ne _ hne.symm]; exact (h.pinT p hp'.1).1,
          (h.pinT p hp'.1).2⟩
    pinC := h.pinC
    pinTl := h.pinTl
    pinCl := h.pinCl
    inv := hI }

theorem SRel.setPinnedCR (h : SRel Q cx β σ σ') {b : Nat} (hlt : b < σ'.cells.length) (hfr : b < β.cR)
    (hu : ∀ a, ¬ β.c a b) (v : Val N) (hI : cx.I N (β.repinC b v) σ (σ'.setCell b v)) :
    SRel Q cx (β.repinC b v) σ (σ'.setCell b v) := by
  have he := ext_repinC β b v
  exact {
    globals := Forall2.imp (fun _ _ hp => ⟨hp.1, VRel.ofExt he hp.2⟩) h.globals
    trace := h.trace
    injC := h.injC
    injT := h.injT
    injF := h.injF
    cell := fun {x y} hxy => by
      obtain ⟨w, w', h1, h2, hw⟩ := h.cell hxy
      have hne : b ≠ y := fun e => hu x (e ▸ hxy)
      exact ⟨w, w', h1, by simp only [State.setCell]; rw [getElem?_listSet_ne _ hne]; exact h2, VRel.ofExt he hw⟩
    tbl := fun hab => let ⟨v, v', e1, e2, hv⟩ := h.tbl hab; ⟨v, v', e1, e2, TRel.ofExt he hv⟩
    clo := fun hab => let ⟨v, v', e1, e2, hv⟩ := h.clo hab; ⟨v, v', e1, e2, CRel.ofExt he hv⟩
    strlib := h.strlib
    ginv := by ginv_tac h
    finv := by finv_tac h
    front := by frontU_tac h
    pin := h.pin
    pinR := h.pinR
    pinT := h.pinT
    pinC := fun p hp => by
      rcases List.mem_cons.mp hp with rfl | hp
      · exact ⟨by simp only [State.setCell, getElem?_listSet, hlt, and_self, if_true], hfr, hu⟩
      · have hp' := List.mem_filter.mp hp
        have hne : p.1 ≠ b := by have := hp'.2; simpa only [bne_iff_ne, ne_eq] using this
        exact ⟨by simp only [State.setCell]; rw [getElem?_listSet_ne _ hne.symm]; exact (h.pinC p hp'.1).1,
          (h.pinC p hp'.1).2⟩
    pinTl := h.pinTl
    pinCl := h.pinCl
    inv := hI }

/-- **the right allocates a one-sided table**: the frontier moves past it and its content is pinned — it stays
related to nothing and unchanged through arbitrary related code (`SRel.pinnedTR` in every later `SRel`, since
extensions keep pins), until its owner rewrites it (`SRel.setPinnedTR`). -/
theorem SRel.allocTableRightPinned (h : SRel Q cx β σ σ') (t : Table N)
    (hI : cx.I N ((β.bump σ (σ'.allocTable t).2).repinT σ'.tables.length t) σ (σ'.allocTable t).2) :
    SRel Q cx ((β.bump σ (σ'.allocTable t).2).repinT σ'.tables.length t) σ (σ'.allocTable t).2 := by
  have h1 := (h.allocTableRight t).bump
  have hsame : (σ'.allocTable t).2.setTable σ'.tables.length t = (σ'.allocTable t).2 := by
    simp only [State.allocTable, State.setTable, Heap.listSet_append_len']
  have h2 := h1.setPinnedTR (b := σ'.tables.length) (by simp [State.allocTable]) (by simp [Inj.bump, State.allocTable])
    (fun a ha => h.unrelatedTR (Nat.le_refl _) a ha) t (by rw [hsame]; exact hI)
  rw [hsame] at h2
  exact h2

theorem SRel.allocCellRightPinned (h : SRel Q cx β σ σ') (v : Val N)
    (hI : cx.I N ((β.bump σ (σ'.allocCell v).2).repinC σ'.cells.length v) σ (σ'.allocCell v).2) :
    SRel Q cx ((β.bump σ (σ'.allocCell v).2).repinC σ'.cells.length v) σ (σ'.allocCell v).2 := by
  have h1 := (h.allocCellRight v).bump
  have hsame : (σ'.allocCell v).2.setCell σ'.cells.length v = (σ'.allocCell v).2 := by
    simp only [State.allocCell, State.setCell, Heap.listSet_append_len']
  have hu : ∀ a, ¬ β.c a σ'.cells.length := fun a hab => by
    obtain ⟨_, _, _, h2, _⟩ := h.cell hab
    have := getElem?_lt h2; omega
  have h2 := h1.setPinnedCR (b := σ'.cells.length) (by simp [State.allocCell]) (by simp [Inj.bump, State.allocCell])
    hu v (by rw [hsame]; exact hI)
  rw [hsame] at h2
  exact h2

/-- the entry injection is below the pinned one (`b` is fresh, so no pin of the entry injection is on it) -/
theorem SRel.le_allocTableRightPinned (h : SRel Q cx β σ σ') (t : Table N) :
    β.le ((β.bump σ (σ'.allocTable t).2).repinT σ'.tables.length t) :=
  le_repinT (h.allocTableRight t).le_bump t fun p hp e => by
    have := getElem?_lt (h.pinT p hp).1; omega
theorem SRel.le_allocCellRightPinned (h : SRel Q cx β σ σ') (v : Val N) :
    β.le ((β.bump σ (σ'.allocCell v).2).repinC σ'.cells.length v) :=
  le_repinC (h.allocCellRight v).le_bump v fun p hp e => by
    have := getElem?_lt (h.pinC p hp).1; omega

/-- a pinned right table holds its content and is related to nothing, whatever related code has run since -/
theorem SRel.pinnedTR (h : SRel Q cx β σ σ') {b : Nat} {t : Table N} (hp : (b, t) ∈ β.pinTR) :
    σ'.tables[b]? = some t ∧ b < β.tR ∧ ∀ a, ¬ β.t a b := h.pinT _ hp
theorem SRel.pinnedCR (h : SRel Q cx β σ σ') {b : Nat} {v : Val N} (hp : (b, v) ∈ β.pinCR) :
    σ'.cells[b]? = some v ∧ b < β.cR ∧ ∀ a, ¬ β.c a b := h.pinC _ hp

/-! ### the same on the LEFT -/

def Inj.repinTL (β : Inj N) (a : Nat) (t : Table N) : Inj N :=
  { β with pinTL := (a, t) :: β.pinTL.filter (fun p => p.1 != a) }
def Inj.repinCL (β : Inj N) (a : Nat) (v : Val N) : Inj N :=
  { β with pinCL := (a, v) :: β.pinCL.filter (fun p => p.1 != a) }

theorem ext_repinTL (β : Inj N) (a : Nat) (t : Table N) : β.ext (β.repinTL a t) :=
  ⟨fun _ _ h => h, fun _ _ h => h, fun _ _ h => h, front_refl β, fun _ _ h => .inl h, fun _ _ h => .inl h⟩
theorem ext_repinCL (β : Inj N) (a : Nat) (v : Val N) : β.ext (β.repinCL a v) :=
  ⟨fun _ _ h => h, fun _ _ h => h, fun _ _ h => h, front_refl β, fun _ _ h => .inl h, fun _ _ h => .inl h⟩

theorem le_repinTL {β0 β1 : Inj N} (h : β0.le β1) {a : Nat} (t : Table N) (hp : ∀ p ∈ β0.pinTL, p.1 ≠ a) :
    β0.le (β1.repinTL a t) :=
  ⟨h.c, h.t, h.f, h.front, h.freshC, h.freshT, h.freshF, h.pins, h.pinsR, h.pinsTR, h.pinsCR,
    fun p hp0 => List.mem_cons_of_mem _ (List.mem_filter.mpr ⟨h.pinsTL p hp0, by simp only [bne_iff_ne, ne_eq]; exact hp p hp0⟩),
    h.pinsCL⟩
theorem le_repinCL {β0 β1 : Inj N} (h : β0.le β1) {a : Nat} (v : Val N) (hp : ∀ p ∈ β0.pinCL, p.1 ≠ a) :
    β0.le (β1.repinCL a v) :=
  ⟨h.c, h.t, h.f, h.front, h.freshC, h.freshT, h.freshF, h.pins, h.pinsR, h.pinsTR, h.pinsCR, h.pinsTL,
    fun p hp0 => List.mem_cons_of_mem _ (List.mem_filter.mpr ⟨h.pinsCL p hp0, by simp only [bne_iff_ne, ne_eq]; exact hp p hp0⟩)⟩

theorem SRel.setPinnedTL (h : SRel Q cx β σ σ') {a : Nat} (hlt : a < σ.tables.length) (hfr : a < β.tL)
    (hu : ∀ b, ¬ β.t a b) (t2 : Table N) (hI : cx.I N (β.repinTL a t2) (σ.setTable a t2) σ') :
    SRel Q cx (β.repinTL a t2) (σ.setTable a t2) σ' := by
  have he := ext_repinTL β a t2
  exact {
    globals := Forall2.imp (fun _ _ hp => ⟨hp.1, VRel.ofExt he hp.2⟩) h.globals
    trace := h.trace
    injC := h.injC
    injT := h.injT
    injF := h.injF
    cell := fun hab => let ⟨v, v', e1, e2, hv⟩ := h.cell hab; ⟨v, v', e1, e2, VRel.ofExt he hv⟩
    tbl := fun {x y} hxy => by
      obtain ⟨w, w', h1, h2, hw⟩ := h.tbl hxy
      have hne : a ≠ x := fun e => hu y (e ▸ hxy)
      exact ⟨w, w', by simp only [State.setTable]; rw [getElem?_listSet_ne _ hne]; exact h1, h2, TRel.ofExt he hw⟩
    clo := fun hab => let ⟨v, v', e1, e2, hv⟩ := h.clo hab; ⟨v, v', e1, e2, CRel.ofExt he hv⟩
    strlib := h.strlib
    ginv := by ginv_tac h
    finv := by finv_tac h
    front := by frontU_tac h
    pin := h.pin
    pinR := h.pinR
    pinT := h.pinT
    pinC := h.pinC
    pinTl := fun p hp => by
      rcases List.mem_cons.mp hp with rfl | hp
      · exact ⟨by simp only [State.setTable, getElem?_listSet, hlt, and_self, if_true], hfr, hu⟩
      · have hp' := List.mem_filter.mp hp
        have hne : p.1 ≠ a := by have := hp'.2; simpa only [bne_iff_ne, ne_eq] using this
        exact ⟨by simp only [State.setTable]; rw [getElem?_listSet_ne _ hne.symm]; exact (h.pinTl p hp'.1).1,
          (h.pinTl p hp'.1).2⟩
    pinCl := h.pinCl
    inv := hI }

theorem SRel.setPinnedCL (h : SRel Q cx β σ σ') {a : Nat} (hlt : a < σ.cells.length) (hfr : a < β.cL)
    (hu : ∀ b, ¬ β.c a b) (v : Val N) (hI : cx.I N (β.repinCL a v) (σ.setCell a v) σ') :
    SRel Q cx (β.repinCL a v) (σ.setCell a v) σ' := by
  have he := ext_repinCL β a v
  exact {
    globals := Forall2.imp (fun _ _ hp => ⟨hp.1, VRel.ofExt he hp.2⟩) h.globals
    trace := h.trace
    injC := h.injC
    injT := h.injT
    injF := h.injF
    cell := fun {x y} hxy => by
      obtain ⟨w, w', h1, h2, hw⟩ := h.cell hxy
      have hne : a ≠ x := fun e => hu y (e ▸ hxy)
      exact ⟨w, w', by simp only [State.setCell]; rw [getElem?_listSet_ne _ hne]; exact h1, h2, VRel.ofExt he hw⟩
    tbl := fun hab => let ⟨v, v', e1, e2, hv⟩ := h.tbl hab; ⟨v, v', e1, e2, TRel.ofExt he hv⟩
    clo := fun hab => let ⟨v, v', e1, e2, hv⟩ := h.clo hab; ⟨v, v', e1, e2, CRel.ofExt he hv⟩
    strlib := h.strlib
    ginv := by ginv_tac h
    finv := by finv_tac h
    front := by frontU_tac h
    pin := h.pin
    pinR := h.pinR
    pinT := h.pinT
    pinC := h.pinC
    pinTl := h.pinTl
    pinCl := fun p hp => by
      rcases List.mem_cons.mp hp with rfl | hp
      · exact ⟨by simp only [State.setCell, getElem?_listSet, hlt, and_self, if_true], hfr, hu⟩
      · have hp' := List.mem_filter.mp hp
        have hne : p.1 ≠ a := by have := hp'.2; simpa only [bne_iff_ne, ne_eq] using this
        exact ⟨by simp only [State.setCell]; rw [getElem?_listSet_ne _ hne.symm]; exact (h.pinCl p hp'.1).1,
          (h.pinCl p hp'.1).2⟩
    inv := hI }

theorem SRel.allocTableLeftPinned (h : SRel Q cx β σ σ') (t : Table N)
    (hI : cx.I N ((β.bump (σ.allocTable t).2 σ').repinTL σ.tables.length t) (σ.allocTable t).2 σ') :
    SRel Q cx ((β.bump (σ.allocTable t).2 σ').repinTL σ.tables.length t) (σ.allocTable t).2 σ' := by
  have h1 := (h.allocTableLeft t).bump
  have hsame : (σ.allocTable t).2.setTable σ.tables.length t = (σ.allocTable t).2 := by
    simp only [State.allocTable, State.setTable, Heap.listSet_append_len']
  have h2 := h1.setPinnedTL (a := σ.tables.length) (by simp [State.allocTable]) (by simp [Inj.bump, State.allocTable])
    (fun b hb => h.unrelatedTL (Nat.le_refl _) b hb) t (by rw [hsame]; exact hI)
  rw [hsame] at h2
  exact h2

theorem SRel.allocCellLeftPinned (h : SRel Q cx β σ σ') (v : Val N)
    (hI : cx.I N ((β.bump (σ.allocCell v).2 σ').repinCL σ.cells.length v) (σ.allocCell v).2 σ') :
    SRel Q cx ((β.bump (σ.allocCell v).2 σ').repinCL σ.cells.length v) (σ.allocCell v).2 σ' := by
  have h1 := (h.allocCellLeft v).bump
  have hsame : (σ.allocCell v).2.setCell σ.cells.length v = (σ.allocCell v).2 := by
    simp only [State.allocCell, State.setCell, Heap.listSet_append_len']
  have hu : ∀ b, ¬ β.c σ.cells.length b := fun b hab => by
    obtain ⟨_, _, h2, _, _⟩ := h.cell hab
    have := getElem?_lt h2; omega
  have h2 := h1.setPinnedCL (a := σ.cells.length) (by simp [State.allocCell]) (by simp [Inj.bump, State.allocCell])
    hu v (by rw [hsame]; exact hI)
  rw [hsame] at h2
  exact h2

theorem SRel.le_allocTableLeftPinned (h : SRel Q cx β σ σ') (t : Table N) :
    β.le ((β.bump (σ.allocTable t).2 σ').repinTL σ.tables.length t) :=
  le_repinTL (h.allocTableLeft t).le_bump t fun p hp e => by
    have := getElem?_lt (h.pinTl p hp).1; omega
theorem SRel.le_allocCellLeftPinned (h : SRel Q cx β σ σ') (v : Val N) :
    β.le ((β.bump (σ.allocCell v).2 σ').repinCL σ.cells.length v) :=
  le_repinCL (h.allocCellLeft v).le_bump v fun p hp e => by
    have := getElem?_lt (h.pinCl p hp).1; omega

theorem SRel.pinnedTL (h : SRel Q cx β σ σ') {a : Nat} {t : Table N} (hp : (a, t) ∈ β.pinTL) :
    σ.tables[a]? = some t ∧ a < β.tL ∧ ∀ b, ¬ β.t a b := h.pinTl _ hp
theorem SRel.pinnedCL (h : SRel Q cx β σ σ') {a : Nat} {v : Val N} (hp : (a, v) ∈ β.pinCL) :
    σ.cells[a]? = some v ∧ a < β.cL ∧ ∀ b, ¬ β.c a b := h.pinCl _ hp

end DarkluaModel.Sem.HeapU
