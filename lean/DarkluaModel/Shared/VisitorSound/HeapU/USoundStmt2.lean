import DarkluaModel.Shared.VisitorSound.HeapU.USoundStmt
import DarkluaModel.Shared.VisitorSound.Heap.HSoundStmt2
/-!
# Stage 4 compatibility lemmas: the statement constructors
-/
namespace DarkluaModel.Sem.HeapU
variable {Q : QRel} {cx : Cx} {D : List DName}

theorem RRel.loopEnd {N : NumOps} {β β0 : Inj N} {env env' : Env N} {r r' : Option (List (Val N))} {σ σ' : State N}
    (he : EnvOK cx β0 D env env') (hle : β0.le β) (hr : AOVs β r r') (h : SRel Q cx β σ σ') :
    RRel Q cx β (ACtlS cx D)
      (match (generalizing := false) r with | some rv => (Res.ok (Ctl.ret rv) σ : Res N (Ctl N)) | none => .ok (.next env) σ)
      (match (generalizing := false) r' with | some rv => .ok (.ret rv) σ' | none => .ok (.next env') σ') := by
  cases r <;> cases r' <;> simp only [AOVs, OptRel] at hr
  · exact RRel.ok (A := ACtlS cx D) (he.mono hle) h
  · exact RRel.ok (A := ACtlS cx D) hr h

theorem SoundS.assign {ts ts' vs vs'} (iht : SoundTs Q cx D ts ts') (ihv : SoundEs Q cx D vs vs') :
    SoundS Q cx D (.assign ts vs) (.assign ts' vs') := by
  intro N call ρ k env env' σ σ' β hp hs he
  simp only [execS]
  refine RRel.bind (iht N call ρ k env env' σ σ' β hp hs he) fun β1 h1 tgs tgs' htg _ _ h => ?_
  obtain ⟨hrel, hok⟩ := htg
  refine RRel.bind (ihv N call ρ k env env' _ _ _ hp h (he.mono h1)) fun β2 h2 _ _ hv _ _ h => ?_
  refine RRel.bind (storeTargets_param hp.call hp.flat _ ((he.mono h1).mono h2).2
    (Forall2.imp (fun _ _ => TgRel.mono h2) hrel) hok hv h) fun β3 h3 _ _ _ _ _ h => ?_
  exact RRel.ok (A := ACtlS cx D) (((he.mono h1).mono h2).mono h3) h

theorem oldVal_rel {N : NumOps} {call : CallFn N} {ρ : ExtOracle N} {k : Nat} {env env' : Env N} {β : Inj N}
    (hp : POK Q cx call ρ k) (he : EnvOK cx β D env env') {tg tg' : Target N} (ht : TgRel β tg tg')
    {s s' : State N} (h : SRel Q cx β s s') : TargetOK D tg →
    RRel Q cx β AV (match (generalizing := false) tg with
        | .var n => (Res.ok (lookupVar env n s) s : Res N (Val N))
        | .slot t key => indexVal call ρ k t key s)
      (match (generalizing := false) tg' with
        | .var n => .ok (lookupVar env' n s') s'
        | .slot t key => indexVal call ρ k t key s') := by
  intro hok
  cases tg <;> cases tg' <;> simp only [TgRel] at ht
  · subst ht; exact RRel.ok (A := AV) (h.lookupVar he.loc hok.1) h
  · exact indexVal_param hp.call hp.flat _ ht.1 ht.2 h

theorem SoundS.cassign {op t t' v v'} (iht : SoundT Q cx D t t') (ihv : SoundE Q cx D v v') :
    SoundS Q cx D (.cassign op t v) (.cassign op t' v') := by
  intro N call ρ k env env' σ σ' β hp hs he
  simp only [execS]
  refine RRel.bind (iht N call ρ k env env' σ σ' β hp hs he) fun β1 h1 tg tg' htg s s' h => ?_
  obtain ⟨hrel, hok⟩ := htg
  have he1 := he.mono h1
  have hold := oldVal_rel (k := k) hp he1 hrel h hok
  refine RRel.bind hold fun β2 h2 _ _ hov _ _ h => ?_
  refine RRel.bind (ihv N call ρ k env env' _ _ _ hp h (he1.mono h2)) fun β3 h3 _ _ hv _ _ h => ?_
  refine RRel.bind (binopVal_param hp.call hp.flat _ _ (hov.mono h3) (VRel.first hv) h) fun β4 h4 _ _ hnv _ _ h => ?_
  have he4 := ((he1.mono h2).mono h3).mono h4
  refine RRel.bind (storeTarget_param hp.call hp.flat _ he4.loc
    (hrel.mono (Inj.le_trans h2 (Inj.le_trans h3 h4))) hok hnv h) fun β5 h5 _ _ _ _ _ h => ?_
  exact RRel.ok (A := ACtlS cx D) (he4.mono h5) h

theorem SoundS.callStmt {c c'} (ih : SoundE Q cx D c c') : SoundS Q cx D (.callStmt c) (.callStmt c') := by
  intro N call ρ k env env' σ σ' β hp hs he
  simp only [execS]
  exact RRel.bind (ih N call ρ k env env' σ σ' β hp hs he) fun _ h1 _ _ _ _ _ h =>
    RRel.ok (A := ACtlS cx D) (he.mono h1) h

theorem SoundS.doBlock {b b' D'} (ih : SoundB Q cx D b b' D') : SoundS Q cx D (.doBlock b) (.doBlock b') := by
  intro N call ρ k env env' σ σ' β hp hs he
  simp only [execS]
  exact RRel.bind (ih.2 N call ρ k env env' σ σ' β hp hs he) fun β1 h1 c c' hcc _ _ h =>
    RRel.blockEnd he h1 h hcc

open Heap (addSelf)

theorem function_tail {N : NumOps} {call : CallFn N} {ρ : ExtOracle N} {k : Nat} {env env' : Env N} {β : Inj N}
    (hp : POK Q cx call ρ k) (he : EnvOK cx β D env env') {σ σ' : State N} (hs : SRel Q cx β σ σ')
    (name : List String) (m : Option String) (F F' : FnBody) (hF : Q D F F') :
    (∀ r, name.head? = some r → DName.ref r ∉ D ∧ DName.wat r ∉ D) →
    RRel Q cx β (ACtlS cx D)
      (match name, m with
        | [n], none => (Res.ok (Ctl.next env) (assignVar env n (.fn (σ.allocClosure ⟨F, env.locals, []⟩).1)
            (σ.allocClosure ⟨F, env.locals, []⟩).2) : Res N (Ctl N))
        | root :: path, _ =>
          (walkFields call ρ k (lookupVar env root (σ.allocClosure ⟨F, env.locals, []⟩).2)
            (path ++ (match m with | some mm => [mm] | none => []))
            (σ.allocClosure ⟨F, env.locals, []⟩).2).bind fun (tv, last) σ2 =>
            (setIndexVal call ρ k tv (strVal last) (.fn (σ.allocClosure ⟨F, env.locals, []⟩).1) σ2).bind
              fun _ σ3 => .ok (.next env) σ3
        | [], _ => errS "function statement without a name" (σ.allocClosure ⟨F, env.locals, []⟩).2)
      (match name, m with
        | [n], none => .ok (.next env') (assignVar env' n (.fn (σ'.allocClosure ⟨F', env'.locals, []⟩).1)
            (σ'.allocClosure ⟨F', env'.locals, []⟩).2)
        | root :: path, _ =>
          (walkFields call ρ k (lookupVar env' root (σ'.allocClosure ⟨F', env'.locals, []⟩).2)
            (path ++ (match m with | some mm => [mm] | none => []))
            (σ'.allocClosure ⟨F', env'.locals, []⟩).2).bind fun (tv, last) σ2 =>
            (setIndexVal call ρ k tv (strVal last) (.fn (σ'.allocClosure ⟨F', env'.locals, []⟩).1) σ2).bind
              fun _ σ3 => .ok (.next env') σ3
        | [], _ => errS "function statement without a name" (σ'.allocClosure ⟨F', env'.locals, []⟩).2) := by
  intro hroot
  have ha := hs.allocClosure (c := ⟨F, env.locals, []⟩) (c' := ⟨F', env'.locals, []⟩) ⟨.nil, D, hF, he.loc⟩
  have hle := hs.le_extF
  have he1 := he.mono hle
  have hid : VRel (N := N) (extF β σ.closures.length σ'.closures.length)
      (.fn (σ.allocClosure ⟨F, env.locals, []⟩).1) (.fn (σ'.allocClosure ⟨F', env'.locals, []⟩).1) := by
    show (extF β σ.closures.length σ'.closures.length).f σ.closures.length σ'.closures.length
    exact .inr ⟨rfl, rfl⟩
  refine RRel.mono hle ?_
  split
  · exact RRel.ok (A := ACtlS cx D) he1 (ha.assignVar he1.loc (hroot _ rfl).1 (hroot _ rfl).2 hid)
  · exact RRel.bind (walkFields_param hp.call hp.flat _ (ha.lookupVar he1.loc (hroot _ rfl).1) _ ha)
      fun β1 h1 p p' hpq _ _ h =>
        RRel.bind (setIndexVal_param hp.call hp.flat _ hpq.1 (by rw [hpq.2]; simp only [strVal, VRel]) (hid.mono h1) h)
          fun β2 h2 _ _ _ _ _ h => RRel.ok (A := ACtlS cx D) ((he1.mono h1).mono h2) h
  · exact RRel.errS ha

theorem SoundS.function {name m f f'} (hroot : ∀ r, name.head? = some r → DName.ref r ∉ D ∧ DName.wat r ∉ D)
    (hf : Q D (addSelf m f) (addSelf m f')) : SoundS Q cx D (.function name m f) (.function name m f') := by
  intro N call ρ k env env' σ σ' β hp hs he
  cases m with
  | none => simp only [execS]; exact function_tail hp he hs name none _ _ hf hroot
  | some mm =>
    cases f; cases f'
    simp only [execS]
    exact function_tail hp he hs name (some mm) _ _ hf hroot

theorem SoundS.gfor {ns ns' vs vs' b b' D'} (hn : ns.map TName.name = ns'.map TName.name)
    (hw : ∀ n ∈ ns'.map TName.name, DName.wat n ∉ D) (ihv : SoundEs Q cx D vs vs') (ihb : SoundB Q cx D b b' D') : SoundS Q cx D (.gfor ns vs b) (.gfor ns' vs' b') := by
  intro N call ρ k env env' σ σ' β hp hs he
  simp only [execS, hn]
  refine RRel.bind (ihv N call ρ k env env' σ σ' β hp hs he) fun β1 h1 vals vals' hv _ _ h => ?_
  have he1 := he.mono h1
  refine RRel.bind ?_ fun β2 h2 r r' hr _ _ h => RRel.loopEnd he1 h2 hr h
  apply gforLoop_rel
  · intro β2 h2 c c' hc s s' h
    exact callVal_param hp.call hp.flat _ ((VRel.first hv).mono h2)
      (.cons ((VRel.first (hv.drop 1)).mono h2) (.cons hc .nil)) h
  · intro β2 h2 rs rs' hrs s s' h
    obtain ⟨β3, h3, hs3, he3⟩ := h.bindLocals (ns'.map TName.name) hw hrs (he1.mono h2).loc
    refine RRel.mono h3 ?_
    have he4 : EnvOK cx β3 D { env with locals := (bindLocals (ns'.map TName.name) rs env.locals s).1 }
        { env' with locals := (bindLocals (ns'.map TName.name) rs' env'.locals s').1 } :=
      ⟨((he1.mono h2).mono h3).va, he3⟩
    exact (ihb.2 N call ρ k _ _ _ _ _ hp hs3 he4).mapA fun _ _ _ _ ha => ha.shape
  · exact VRel.first (hv.drop 2)
  · exact h

theorem nfor_tail {N : NumOps} {call : CallFn N} {ρ : ExtOracle N} {k : Nat} {env env' : Env N} {β : Inj N}
    (hp : POK Q cx call ρ k) (he : EnvOK cx β D env env')
    {n n' : TName} {body body' : Block} {D' : List DName} (hn : n.name = n'.name) (hw : DName.wat n'.name ∉ D)
    (ihbody : SoundB Q cx D body body' D')
    {a a' b b' c c' : List (Val N)} (ha : VsRel β a a') (hb : VsRel β b b') (hc : VsRel β c c')
    {σ σ' : State N} (h : SRel Q cx β σ σ') :
    RRel Q cx β (ACtlS cx D)
      (match toNumber? (first a), toNumber? (first b), toNumber? (first c) with
        | some x, some y, some z =>
          (forLoop (fun i σ =>
              execB call ρ k { env with locals := (n.name, (σ.allocCell (.num i)).1) :: env.locals } body
                (σ.allocCell (.num i)).2)
            y z k x σ).bind fun r σ4 =>
            match r with
            | some rv => (Res.ok (Ctl.ret rv) σ4 : Res N (Ctl N))
            | none => .ok (Ctl.next env) σ4
        | _, _, _ => errS "'for' initial value, limit and step must be numbers" σ)
      (match toNumber? (first a'), toNumber? (first b'), toNumber? (first c') with
        | some x, some y, some z =>
          (forLoop (fun i σ =>
              execB call ρ k { env' with locals := (n'.name, (σ.allocCell (.num i)).1) :: env'.locals } body'
                (σ.allocCell (.num i)).2)
            y z k x σ').bind fun r σ4 =>
            match r with
            | some rv => (Res.ok (Ctl.ret rv) σ4 : Res N (Ctl N))
            | none => .ok (Ctl.next env') σ4
        | _, _, _ => errS "'for' initial value, limit and step must be numbers" σ') := by
  rw [VRel.toNumber (VRel.first ha), VRel.toNumber (VRel.first hb), VRel.toNumber (VRel.first hc)]
  split
  · refine RRel.bind ?_ fun β2 h2 r r' hr _ _ h => RRel.loopEnd he h2 hr h
    apply forLoop_rel
    · intro β2 h2 i s s' h
      have hal := h.allocCell (v := .num i) (v' := .num i) rfl
      refine RRel.mono h.le_extC ?_
      rw [hn]
      have he3 : EnvOK cx (extC β2 s.cells.length s'.cells.length) D
          { env with locals := (n'.name, (s.allocCell (.num i)).1) :: env.locals }
          { env' with locals := (n'.name, (s'.allocCell (.num i)).1) :: env'.locals } :=
        ⟨((he.mono h2).mono h.le_extC).va, ((he.mono h2).loc.mono h.le_extC).cons _ hw (.inr ⟨rfl, rfl⟩)⟩
      exact (ihbody.2 N call ρ k _ _ _ _ _ hp hal he3).mapA fun _ _ _ _ ha => ha.shape
    · exact h
  · exact RRel.errS h

theorem SoundS.nforNone {n n' a a' b b' body body' D'} (hn : TName.name n = TName.name n')
    (hw : DName.wat n'.name ∉ D) (iha : SoundE Q cx D a a') (ihb : SoundE Q cx D b b') (ihbody : SoundB Q cx D body body' D') :
    SoundS Q cx D (.nfor n a b none body) (.nfor n' a' b' none body') := by
  intro N call ρ k env env' σ σ' β hp hs he
  simp only [execS]
  exact RRel.bind (iha N call ρ k env env' σ σ' β hp hs he) fun β1 h1 _ _ hva _ _ h =>
    RRel.bind (ihb N call ρ k env env' _ _ _ hp h (he.mono h1)) fun β2 h2 _ _ hvb _ _ h =>
      RRel.bind (RRel.okOne (show VRel β2 (.num (N.ofNat 1)) (.num (N.ofNat 1)) from rfl) h) fun β3 h3 _ _ hvc _ _ h =>
        nfor_tail hp (((he.mono h1).mono h2).mono h3) hn hw ihbody (hva.mono (Inj.le_trans h2 h3)) (hvb.mono h3) hvc h

theorem SoundS.nforSome {n n' a a' b b' st st' body body' D'} (hn : TName.name n = TName.name n')
    (hw : DName.wat n'.name ∉ D) (iha : SoundE Q cx D a a') (ihb : SoundE Q cx D b b') (ihst : SoundE Q cx D st st') (ihbody : SoundB Q cx D body body' D') :
    SoundS Q cx D (.nfor n a b (some st) body) (.nfor n' a' b' (some st') body') := by
  intro N call ρ k env env' σ σ' β hp hs he
  simp only [execS]
  exact RRel.bind (iha N call ρ k env env' σ σ' β hp hs he) fun β1 h1 _ _ hva _ _ h =>
    RRel.bind (ihb N call ρ k env env' _ _ _ hp h (he.mono h1)) fun β2 h2 _ _ hvb _ _ h =>
      RRel.bind (ihst N call ρ k env env' _ _ _ hp h ((he.mono h1).mono h2)) fun β3 h3 _ _ hvc _ _ h =>
        nfor_tail hp (((he.mono h1).mono h2).mono h3) hn hw ihbody (hva.mono (Inj.le_trans h2 h3)) (hvb.mono h3) hvc h

theorem SoundS.ifsNone {brs brs'} (ih : SoundBranches Q cx D brs brs') : SoundS Q cx D (.ifs brs none) (.ifs brs' none) := by
  intro N call ρ k env env' σ σ' β hp hs he
  simp only [execS]
  refine RRel.bind (ih N call ρ k env env' σ σ' β hp hs he) fun β1 h1 r r' hr _ _ h => ?_
  cases r <;> cases r' <;> simp only [AOCtlS] at hr
  · exact RRel.ok (A := ACtlS cx D) (he.mono h1) h
  · exact RRel.ok (A := ACtlS cx D) hr h

theorem SoundS.ifsSome {brs brs' b b' D'} (ih : SoundBranches Q cx D brs brs') (ihb : SoundB Q cx D b b' D') :
    SoundS Q cx D (.ifs brs (some b)) (.ifs brs' (some b')) := by
  intro N call ρ k env env' σ σ' β hp hs he
  simp only [execS]
  refine RRel.bind (ih N call ρ k env env' σ σ' β hp hs he) fun β1 h1 r r' hr _ _ h => ?_
  cases r <;> cases r' <;> simp only [AOCtlS] at hr
  · exact RRel.bind (ihb.2 N call ρ k env env' _ _ _ hp h (he.mono h1)) fun β2 h2 c c' hcc _ _ h =>
      RRel.blockEnd (he.mono h1) h2 h hcc
  · exact RRel.ok (A := ACtlS cx D) hr h

theorem SoundS.localAssign {kind kind' ns ns' vs vs'} (hn : ns.map TName.name = ns'.map TName.name)
    (hw : ∀ n ∈ ns'.map TName.name, DName.wat n ∉ D) (ihv : SoundEs Q cx D vs vs') : SoundS Q cx D (.localAssign kind ns vs) (.localAssign kind' ns' vs') := by
  intro N call ρ k env env' σ σ' β hp hs he
  simp only [execS, hn]
  refine RRel.bind (ihv N call ρ k env env' σ σ' β hp hs he) fun β1 h1 vals vals' hv s s' h => ?_
  obtain ⟨β2, h2, hs2, he2⟩ := h.bindLocals (ns'.map TName.name) hw hv (he.mono h1).loc
  exact RRel.mono h2 (RRel.ok (A := ACtlS cx D) ⟨((he.mono h1).mono h2).va, he2⟩ hs2)

theorem SoundS.localFn {kind kind' name f f'} (hw : DName.wat name ∉ D) (hf : Q D f f') :
    SoundS Q cx D (.localFn kind name f) (.localFn kind' name f') := by
  intro N call ρ k env env' σ σ' β hp hs he
  simp only [execS]
  have h1 := hs.allocCell (v := .nil) (v' := .nil) trivial
  have hle1 := hs.le_extC
  have hnew : (extC β σ.cells.length σ'.cells.length).c (σ.allocCell .nil).1 (σ'.allocCell .nil).1 := .inr ⟨rfl, rfl⟩
  have he1 : EnvRel cx (extC β σ.cells.length σ'.cells.length) D ((name, (σ.allocCell .nil).1) :: env.locals)
      ((name, (σ'.allocCell .nil).1) :: env'.locals) := (he.loc.mono hle1).cons _ hw hnew
  have h2 := h1.allocClosure (c := ⟨f, (name, (σ.allocCell .nil).1) :: env.locals, []⟩)
    (c' := ⟨f', (name, (σ'.allocCell .nil).1) :: env'.locals, []⟩) ⟨.nil, D, hf, he1⟩
  have hle2 := h1.le_extF
  refine RRel.mono (Inj.le_trans hle1 hle2) (RRel.ok (A := ACtlS cx D) ⟨(he.mono (Inj.le_trans hle1 hle2)).va, he1.mono hle2⟩ ?_)
  exact h2.setCell (hle2.c _ _ hnew) (show (extF _ _ _).f _ _ from .inr ⟨rfl, rfl⟩)

/-- a `repeat` iteration from its body (as an open block) and its condition -/
theorem SoundRep.mk {b b' c c' D'} (ihb : SoundB Q cx D b b' D') (ihc : SoundE Q cx D' c c') : SoundRep Q cx D b c b' c' := by
  intro N call ρ k env env' σ σ' β hp hs he
  simp only [repeatStep_eq_execB]
  refine RRel.bind (ihb.2 N call ρ k env env' σ σ' β hp hs he) fun β1 h1 ctl ctl' hcc _ _ h => ?_
  have fin : ∀ (e e' : Env N), EnvOK cx β1 D' e e' → ∀ s s', SRel Q cx β1 s s' →
      RRel Q cx β1 (AOCtlS cx D)
        ((evalE call ρ k e c s).bind fun cv σ3 =>
          if (first cv).truthy then (Res.ok (some Ctl.brk) σ3 : Res N (Option (Ctl N)))
          else .ok (some (.next env)) σ3)
        ((evalE call ρ k e' c' s').bind fun cv σ3 =>
          if (first cv).truthy then .ok (some .brk) σ3 else .ok (some (.next env')) σ3) := by
    intro e e' hee s s' hss
    refine RRel.bind (ihc N call ρ k e e' s s' β1 hp hss hee) fun β2 h2 _ _ hv _ _ h => ?_
    rw [VRel.truthy (VRel.first hv)]
    split
    · exact RRel.ok (A := AOCtlS cx D) (show AOCtlS cx D β2 (some .brk) (some .brk) from trivial) h
    · exact RRel.ok (A := AOCtlS cx D) (show AOCtlS cx D β2 (some (.next env)) (some (.next env')) from
        (he.mono h1).mono h2) h
  cases ctl <;> cases ctl' <;> simp only [ACtl] at hcc
  · exact fin _ _ hcc _ _ h
  · exact RRel.ok (A := AOCtlS cx D) (show AOCtlS cx D β1 (some .brk) (some .brk) from trivial) h
  · exact fin _ _ hcc _ _ h
  · exact RRel.ok (A := AOCtlS cx D) (show AOCtlS cx D β1 (some (.ret _)) (some (.ret _)) from hcc) h

theorem AOCtlS.shape {N : NumOps} {β : Inj N} {c c' : Option (Ctl N)} (h : AOCtlS cx D β c c') : OCtlShape β c c' := by
  cases c <;> cases c' <;> simp only [AOCtlS, OCtlShape] at h ⊢
  exact h.shape

theorem SoundS.repeat_ {b b' c c'} (ih : SoundRep Q cx D b c b' c') : SoundS Q cx D (.repeat_ b c) (.repeat_ b' c') := by
  intro N call ρ k env env' σ σ' β hp hs he
  simp only [execS]
  refine RRel.bind ?_ fun β2 h2 r r' hr _ _ h => RRel.loopEnd he h2 hr h
  apply whileLoop_rel
  · intro β2 h2 s s' h
    exact (ih N call ρ k env env' s s' β2 hp h (he.mono h2)).mapA fun _ _ _ _ ha => ha.shape
  · exact hs

theorem SoundS.while_ {b b' c c' D'} (ihc : SoundE Q cx D c c') (ihb : SoundB Q cx D b b' D') :
    SoundS Q cx D (.while_ c b) (.while_ c' b') := by
  intro N call ρ k env env' σ σ' β hp hs he
  simp only [execS]
  refine RRel.bind ?_ fun β2 h2 r r' hr _ _ h => RRel.loopEnd he h2 hr h
  apply whileLoop_rel
  · intro β2 h2 s s' h
    refine RRel.bind (ihc N call ρ k env env' s s' β2 hp h (he.mono h2)) fun β3 h3 _ _ hv _ _ h => ?_
    rw [VRel.truthy (VRel.first hv)]
    split
    · refine RRel.bind (ihb.2 N call ρ k env env' _ _ _ hp h ((he.mono h2).mono h3)) fun β4 h4 ct ct' hcc _ _ h => ?_
      exact RRel.ok (A := OCtlShape) (show OCtlShape β4 (some ct) (some ct') from hcc.shape) h
    · exact RRel.ok (A := OCtlShape) (show OCtlShape β3 none none from trivial) h
  · exact hs

theorem SoundS.typeDecl {ex ex' name name' ty ty'} : SoundS Q cx D (.typeDecl ex name ty) (.typeDecl ex' name' ty') := by
  intro N call ρ k env env' σ σ' β hp hs he; simp only [execS]; exact RRel.ok (A := ACtlS cx D) he hs

theorem SoundS.typeFn {ex ex' name name' f f'} : SoundS Q cx D (.typeFn ex name f) (.typeFn ex' name' f') := by
  intro N call ρ k env env' σ σ' β hp hs he; simp only [execS]; exact RRel.ok (A := ACtlS cx D) he hs

end DarkluaModel.Sem.HeapU
