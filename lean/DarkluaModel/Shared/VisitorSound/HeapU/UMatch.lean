import DarkluaModel.Shared.VisitorSound.HeapU.URepl
/-!
# `Sem.HeapU`: late matches of CELLS (the cell flavour of `SRel.matchClosureRight` / `matchClosureLeft`)

A rewrite that moves a `local` declaration across an evaluation (`local a = e1; local b = e2` ↦
`local a, b = e1, e2`: the cell of `a` is allocated BEFORE `e2` runs on one side, AFTER it on the other) first
allocates the cell one-sidedly with its content pinned (`SRel.allocCellLeftPinned` / `RightPinned`: private, below
the frontier, untouched by the related code that runs in between — the pin survives every extension), and relates
it LATE to the cell the other side allocates: `SRel.matchCellRight` / `SRel.matchCellLeft`. The pair is below one
frontier, so the result extends the injection at the ENTRY of the rewrite step (`le_lateC` / `le_lateCL`), not the
current one; the consumer's invariant is re-established by the caller (`hI`; `trivial` for contexts without one),
since a private cell becomes a related one.
-/
namespace DarkluaModel.Sem.HeapU
variable {N : NumOps} {Q : QRel} {cx : Cx} {β : Inj N} {σ σ' : State N}

/-- relate the pinned left cell `a` with the right cell `b`; the pin is released -/
def Inj.matchC (β : Inj N) (a b : Nat) : Inj N :=
  { β with c := fun x y => β.c x y ∨ (x = a ∧ y = b), pinCL := β.pinCL.filter (fun p => p.1 != a) }

/-- relate the left cell `a` with the pinned right cell `b`; the pin is released -/
def Inj.matchCL (β : Inj N) (a b : Nat) : Inj N :=
  { β with c := fun x y => β.c x y ∨ (x = a ∧ y = b), pinCR := β.pinCR.filter (fun p => p.1 != b) }

private theorem vrel_c {β' : Inj N} (ht : β'.t = β.t) (hf : β'.f = β.f) {v v' : Val N} (hv : VRel β v v') :
    VRel β' v v' := by
  cases v <;> cases v' <;> simp only [VRel, ht, hf] at hv ⊢ <;> exact hv

private theorem crel_c {β' : Inj N} (ht : β'.t = β.t) (hf : β'.f = β.f) (hc : ∀ x y, β.c x y → β'.c x y)
    {d d' : Closure N} (hd : CRel Q cx β d d') : CRel Q cx β' d d' :=
  ⟨Forall2.imp (fun _ _ => vrel_c ht hf) hd.varargs,
    let ⟨D, hq, he⟩ := hd.body; ⟨D, hq, ⟨fun n hn => OptRel.imp hc (he.rel n hn), he.dw, he.wb⟩⟩⟩

/-- **A cell allocated EARLIER on the left (content pinned) is matched by one allocated now on the right.** -/
theorem SRel.matchCellRight (h : SRel Q cx β σ σ') {a : Nat} {v v' : Val N} (hp : (a, v) ∈ β.pinCL)
    (hv : VRel β v v') (hI : cx.I N (β.matchC a σ'.cells.length) σ (σ'.allocCell v').2) :
    SRel Q cx (β.matchC a σ'.cells.length) σ (σ'.allocCell v').2 := by
  obtain ⟨ha, _, hu⟩ := h.pinCl _ hp
  have hub : ∀ x, ¬ β.c x σ'.cells.length := fun x hx => by
    obtain ⟨_, _, _, h2, _⟩ := h.cell hx
    have := getElem?_lt h2; omega
  have hle : ∀ {w w' : Val N}, VRel β w w' → VRel (β.matchC a σ'.cells.length) w w' := vrel_c rfl rfl
  exact {
    globals := Forall2.imp (fun _ _ hp => ⟨hp.1, hle hp.2⟩) h.globals
    trace := h.trace
    injC := injective_ext' h.injC hu hub
    injT := h.injT
    injF := h.injF
    cell := fun {x y} hab => by
      simp only [State.allocCell]
      rcases hab with hab | ⟨rfl, rfl⟩
      · obtain ⟨w, w', h1, h2, hw⟩ := h.cell hab
        exact ⟨w, w', h1, getElem?_append_of_some h2 _, hle hw⟩
      · exact ⟨v, v', ha, by simp, hle hv⟩
    tbl := fun hab => let ⟨w, w', h1, h2, hw⟩ := h.tbl hab
      ⟨w, w', h1, h2, ⟨Forall2.imp (fun _ _ he => ⟨hle he.1, hle he.2⟩) hw.entries, hw.mt⟩⟩
    clo := fun hab => let ⟨w, w', h1, h2, hw⟩ := h.clo hab
      ⟨w, w', h1, h2, crel_c (β := β) (β' := β.matchC a σ'.cells.length) rfl rfl (fun _ _ hc => Or.inl hc) hw⟩
    strlib := h.strlib
    ginv := by ginv_tac h
    finv := by finv_tac h
    front := by frontU_tac h
    pin := h.pin
    pinR := h.pinR
    pinT := h.pinT
    pinC := fun p hp => ⟨getElem?_append_of_some (h.pinC p hp).1 _, (h.pinC p hp).2.1, fun x hx => by
      rcases hx with hx | ⟨_, e⟩
      · exact (h.pinC p hp).2.2 x hx
      · have := getElem?_lt (h.pinC p hp).1; omega⟩
    pinTl := h.pinTl
    pinCl := fun p hp => by
      have hp' := List.mem_filter.mp hp
      refine ⟨(h.pinCl p hp'.1).1, (h.pinCl p hp'.1).2.1, fun b hb => ?_⟩
      rcases hb with hb | ⟨e, _⟩
      · exact (h.pinCl p hp'.1).2.2 b hb
      · have := hp'.2; simp only [bne_iff_ne, ne_eq] at this; exact this e
    inv := hI }

/-- the late pair is fresh for every injection `β0` whose frontiers it respects and that does not pin `a` -/
theorem le_lateC {β0 β1 : Inj N} (h : β0.le β1) {a b : Nat} (ha : β0.cL ≤ a) (hb : β0.cR ≤ b)
    (hp : ∀ p ∈ β0.pinCL, p.1 ≠ a) : β0.le (β1.matchC a b) :=
  ⟨fun _ _ hc => .inl (h.c _ _ hc), h.t, h.f, h.front, fun x y hc => by
    rcases hc with hc | ⟨rfl, rfl⟩
    · exact h.freshC x y hc
    · exact .inr ⟨ha, hb⟩,
    h.freshT, h.freshF, h.pins, h.pinsR, h.pinsTR, h.pinsCR, h.pinsTL,
    fun p hp0 => List.mem_filter.mpr ⟨h.pinsCL p hp0, by simp only [bne_iff_ne, ne_eq]; exact hp p hp0⟩⟩

/-- **A cell allocated EARLIER on the right (content pinned) is matched by one allocated now on the left.** -/
theorem SRel.matchCellLeft (h : SRel Q cx β σ σ') {b : Nat} {v v' : Val N} (hp : (b, v') ∈ β.pinCR)
    (hv : VRel β v v') (hI : cx.I N (β.matchCL σ.cells.length b) (σ.allocCell v).2 σ') :
    SRel Q cx (β.matchCL σ.cells.length b) (σ.allocCell v).2 σ' := by
  obtain ⟨hb, _, hu⟩ := h.pinC _ hp
  have hua : ∀ y, ¬ β.c σ.cells.length y := fun y hy => by
    obtain ⟨_, _, h1, _, _⟩ := h.cell hy
    have := getElem?_lt h1; omega
  have hle : ∀ {w w' : Val N}, VRel β w w' → VRel (β.matchCL σ.cells.length b) w w' := vrel_c rfl rfl
  exact {
    globals := Forall2.imp (fun _ _ hp => ⟨hp.1, hle hp.2⟩) h.globals
    trace := h.trace
    injC := injective_ext' h.injC hua hu
    injT := h.injT
    injF := h.injF
    cell := fun {x y} hab => by
      simp only [State.allocCell]
      rcases hab with hab | ⟨rfl, rfl⟩
      · obtain ⟨w, w', h1, h2, hw⟩ := h.cell hab
        exact ⟨w, w', getElem?_append_of_some h1 _, h2, hle hw⟩
      · exact ⟨v, v', by simp, hb, hle hv⟩
    tbl := fun hab => let ⟨w, w', h1, h2, hw⟩ := h.tbl hab
      ⟨w, w', h1, h2, ⟨Forall2.imp (fun _ _ he => ⟨hle he.1, hle he.2⟩) hw.entries, hw.mt⟩⟩
    clo := fun hab => let ⟨w, w', h1, h2, hw⟩ := h.clo hab
      ⟨w, w', h1, h2, crel_c (β := β) (β' := β.matchCL σ.cells.length b) rfl rfl (fun _ _ hc => Or.inl hc) hw⟩
    strlib := h.strlib
    ginv := by ginv_tac h
    finv := by finv_tac h
    front := by frontU_tac h
    pin := h.pin
    pinR := h.pinR
    pinT := h.pinT
    pinC := fun p hp => by
      have hp' := List.mem_filter.mp hp
      refine ⟨(h.pinC p hp'.1).1, (h.pinC p hp'.1).2.1, fun x hx => ?_⟩
      rcases hx with hx | ⟨_, e⟩
      · exact (h.pinC p hp'.1).2.2 x hx
      · have := hp'.2; simp only [bne_iff_ne, ne_eq] at this; exact this e
    pinTl := h.pinTl
    pinCl := fun p hp => ⟨getElem?_append_of_some (h.pinCl p hp).1 _, (h.pinCl p hp).2.1, fun y hy => by
      rcases hy with hy | ⟨e, _⟩
      · exact (h.pinCl p hp).2.2 y hy
      · have := getElem?_lt (h.pinCl p hp).1; omega⟩
    inv := hI }

theorem le_lateCL {β0 β1 : Inj N} (h : β0.le β1) {a b : Nat} (ha : β0.cL ≤ a) (hb : β0.cR ≤ b)
    (hp : ∀ p ∈ β0.pinCR, p.1 ≠ b) : β0.le (β1.matchCL a b) :=
  ⟨fun _ _ hc => .inl (h.c _ _ hc), h.t, h.f, h.front, fun x y hc => by
    rcases hc with hc | ⟨rfl, rfl⟩
    · exact h.freshC x y hc
    · exact .inr ⟨ha, hb⟩,
    h.freshT, h.freshF, h.pins, h.pinsR, h.pinsTR,
    fun p hp0 => List.mem_filter.mpr ⟨h.pinsCR p hp0, by simp only [bne_iff_ne, ne_eq]; exact hp p hp0⟩,
    h.pinsTL, h.pinsCL⟩

end DarkluaModel.Sem.HeapU
