import DarkluaModel.Shared.VisitorSound.HeapU.UParam
/-!
# Stage 4: indexing, operators and assignment targets under renumbering
-/
namespace DarkluaModel.Sem.HeapU
variable {N : NumOps} {Q : QRel} {cx : Cx} {β : Inj N} {call : CallFn N} {ρ : ExtOracle N}

/-- discharge a `VRel` side goal from the context -/
macro "vr" : tactic => `(tactic| first
  | assumption | exact rfl | exact trivial | (simp only [VRel]; assumption) | (simp only [VRel]))

theorem callVal_param (hc : CallOK Q cx call) (hρ : OracleFlat ρ) (d : Nat) {f f' : Val N} (hf : VRel β f f')
    {args args' : List (Val N)} (ha : VsRel β args args') {σ σ' : State N} (h : SRel Q cx β σ σ') :
    RRel Q cx β AVs (callVal call ρ d f args σ) (callVal call ρ d f' args' σ') :=
  (libP hc hρ d).callVal _ _ _ _ _ _ hf ha h

theorem tostringVal_param (hc : CallOK Q cx call) (hρ : OracleFlat ρ) (d : Nat) {v v' : Val N} (hv : VRel β v v')
    {σ σ' : State N} (h : SRel Q cx β σ σ') :
    RRel Q cx β AEq (tostringVal call ρ d v σ) (tostringVal call ρ d v' σ') :=
  (libP hc hρ d).tostringVal _ _ _ _ hv h

theorem RRel.firstOf {r r' : Res N (List (Val N))} (h : RRel Q cx β AVs r r') :
    RRel Q cx β AV (r.bind fun rs s => .ok (first rs) s) (r'.bind fun rs s => .ok (first rs) s) :=
  RRel.bind h fun _ _ _ _ hrs _ _ hs => RRel.ok (A := AV) (VRel.first hrs) hs

theorem indexVal_param (hc : CallOK Q cx call) (hρ : OracleFlat ρ) (d : Nat) {v v' k k' : Val N} (hv : VRel β v v')
    (hk : VRel β k k') {σ σ' : State N} (h : SRel Q cx β σ σ') :
    RRel Q cx β AV (indexVal call ρ d v k σ) (indexVal call ρ d v' k' σ') := by
  induction d generalizing v v' with
  | zero => simp only [indexVal]; exact RRel.timeout
  | succ d ih =>
    unfold indexVal
    have hm := h.metamethod hv "__index"
    rw [VRel.typeName hv]
    cases v <;> cases v' <;> simp only [VRel] at hv
    case tbl.tbl t t' =>
      simp only []
      have hr := h.rawGet hv hk
      vcases hr : σ.rawGet t k , σ'.rawGet t' k'
      all_goals try simp only []
      all_goals first | exact RRel.ok (A := AV) (by vr) h | skip
      vcases hm : σ.metamethod (Val.tbl t) "__index" , σ'.metamethod (Val.tbl t') "__index"
      all_goals try simp only []
      · exact RRel.ok (A := AV) (by vr) h
      · exact ih (by vr)
      · exact ih (by vr)
      · exact ih (by vr)
      · exact ih (by vr)
      · exact RRel.firstOf (callVal_param hc hρ _ (by vr) (.cons (by vr) (.cons hk .nil)) h)
      · exact RRel.firstOf (callVal_param hc hρ _ (by vr) (.cons (by vr) (.cons hk .nil)) h)
    case str.str s s' =>
      simp only []
      exact RRel.ok (A := AV) (h.rawGet h.strlib hk) h
    all_goals exact RRel.errS h

theorem setIndexVal_param (hc : CallOK Q cx call) (hρ : OracleFlat ρ) (d : Nat) {v v' k k' x x' : Val N}
    (hv : VRel β v v') (hk : VRel β k k') (hx : VRel β x x') {σ σ' : State N} (h : SRel Q cx β σ σ') :
    RRel Q cx β AEq (setIndexVal call ρ d v k x σ) (setIndexVal call ρ d v' k' x' σ') := by
  induction d generalizing v v' with
  | zero => simp only [setIndexVal]; exact RRel.timeout
  | succ d ih =>
    unfold setIndexVal
    have hm := h.metamethod hv "__newindex"
    rw [VRel.typeName hv]
    cases v <;> cases v' <;> simp only [VRel] at hv
    case tbl.tbl t t' =>
      simp only []
      have hr := h.rawGet hv hk
      have hset : RRel Q cx β AEq (Res.ok () (σ.rawSet t k x)) (Res.ok () (σ'.rawSet t' k' x')) :=
        RRel.ok (A := AEq) rfl (h.rawSet hv hk hx)
      vcases hr : σ.rawGet t k , σ'.rawGet t' k'
      all_goals try simp only []
      all_goals first | exact hset | skip
      vcases hm : σ.metamethod (Val.tbl t) "__newindex" , σ'.metamethod (Val.tbl t') "__newindex"
      all_goals try simp only []
      · revert hset
        vcases hk : k , k'
        all_goals try simp only []
        all_goals intro hset
        all_goals first | exact hset | exact RRel.errS h | skip
        split
        · exact RRel.errS h
        · exact hset
      · exact ih (by vr)
      · exact ih (by vr)
      · exact ih (by vr)
      · exact ih (by vr)
      · exact RRel.bind (callVal_param hc hρ _ (by vr) (.cons (by vr) (.cons hk (.cons hx .nil))) h)
          fun _ _ _ _ _ _ _ hs => RRel.ok (A := AEq) rfl hs
      · exact RRel.bind (callVal_param hc hρ _ (by vr) (.cons (by vr) (.cons hk (.cons hx .nil))) h)
          fun _ _ _ _ _ _ _ hs => RRel.ok (A := AEq) rfl hs
    all_goals exact RRel.errS h

theorem callMeta2_param (hc : CallOK Q cx call) (hρ : OracleFlat ρ) (d : Nat) (name : String) {a a' b b' : Val N}
    (ha : VRel β a a') (hb : VRel β b b') {σ σ' : State N} (h : SRel Q cx β σ σ')
    {f f' : State N → Res N (Val N)} (hf : ∀ s s', SRel Q cx β s s' → RRel Q cx β AV (f s) (f' s')) :
    RRel Q cx β AV (callMeta2 call ρ d name a b σ f) (callMeta2 call ρ d name a' b' σ' f') := by
  simp only [callMeta2]
  have hm1 := h.metamethod ha name
  have hm2 := h.metamethod hb name
  have hcall : ∀ {m m' : Val N}, VRel β m m' →
      RRel Q cx β AV ((callVal call ρ d m [a, b] σ).bind fun rs s => .ok (first rs) s)
        ((callVal call ρ d m' [a', b'] σ').bind fun rs s => .ok (first rs) s) :=
    fun hm => RRel.firstOf (callVal_param hc hρ _ hm (.cons ha (.cons hb .nil)) h)
  vcases hm1 : σ.metamethod a name , σ'.metamethod a' name
  all_goals try simp only []
  all_goals first | exact hcall (by vr) | skip
  vcases hm2 : σ.metamethod b name , σ'.metamethod b' name
  all_goals try simp only []
  all_goals first | exact hcall (by vr) | skip
  exact hf _ _ h

theorem beq_inj {r : Nat → Nat → Prop} (hr : Injective r) {x x' y y' : Nat} (hx : r x x') (hy : r y y') :
    (x' == y') = (x == y) := by
  by_cases hxy : x = y
  · have := (hr hx hy).mp hxy
    subst hxy this
    simp only [beq_self_eq_true]
  · have : ¬ x' = y' := fun e => hxy ((hr hx hy).mpr e)
    simp only [beq_eq_false_iff_ne.mpr hxy, beq_eq_false_iff_ne.mpr this]

/-- destructure two related pairs of values simultaneously (49 cases) -/
syntax "vcases2 " ident " , " ident : tactic
macro_rules
  | `(tactic| vcases2 $ha , $hb) => `(tactic|
      (rename_i a a' b b'
       cases a <;> cases a' <;> simp only [VRel] at $ha:ident <;> try subst $ha:ident
       all_goals (cases b <;> cases b' <;> simp only [VRel] at $hb:ident <;> try subst $hb:ident)))

theorem binopVal_param (hc : CallOK Q cx call) (hρ : OracleFlat ρ) (d : Nat) (op : BinOp) {a a' b b' : Val N}
    (ha : VRel β a a') (hb : VRel β b b') {σ σ' : State N} (h : SRel Q cx β σ σ') :
    RRel Q cx β AV (binopVal call ρ d op a b σ) (binopVal call ρ d op a' b' σ') := by
  have hm : ∀ name (f f' : State N → Res N (Val N)), (∀ s s', SRel Q cx β s s' → RRel Q cx β AV (f s) (f' s')) →
      RRel Q cx β AV (callMeta2 call ρ d name a b σ f) (callMeta2 call ρ d name a' b' σ' f') :=
    fun name f f' hf => callMeta2_param hc hρ d name ha hb h hf
  have hm' : ∀ name (f f' : State N → Res N (Val N)), (∀ s s', SRel Q cx β s s' → RRel Q cx β AV (f s) (f' s')) →
      RRel Q cx β AV (callMeta2 call ρ d name b a σ f) (callMeta2 call ρ d name b' a' σ' f') :=
    fun name f f' hf => callMeta2_param hc hρ d name hb ha h hf
  have hre := VRel.rawEq h.injT h.injF ha hb
  have hcmp : ∀ {r r' : Res N (Val N)}, RRel Q cx β AV r r' →
      RRel Q cx β AV (r.bind fun v s => (.ok (.bool v.truthy) s : Res N (Val N))) (r'.bind fun v s => (.ok (.bool v.truthy) s : Res N (Val N))) :=
    fun hr => RRel.bind hr fun _ _ _ _ hv _ _ hs => RRel.ok (A := AV) (by simp only [AV, VRel, VRel.truthy hv]) hs
  cases op <;> simp only [binopVal, VRel.toNumber ha, VRel.toNumber hb, VRel.toStringPrim ha, VRel.toStringPrim hb,
    apply_ite Val.typeName, VRel.typeName ha, VRel.typeName hb]
  case and => exact RRel.ok (A := AV) ha h
  case or => exact RRel.ok (A := AV) ha h
  case eq | ne =>
    have hm1 := h.metamethod ha "__eq"
    have hm2 := h.metamethod hb "__eq"
    have hcall : ∀ {m m' : Val N} (neg : Bool), VRel β m m' →
        RRel Q cx β AV ((callVal call ρ d m [a, b] σ).bind fun rs s => (.ok (.bool ((first rs).truthy != neg)) s : Res N (Val N)))
          ((callVal call ρ d m' [a', b'] σ').bind fun rs s => (.ok (.bool ((first rs).truthy != neg)) s : Res N (Val N))) :=
      fun neg hm => RRel.bind (callVal_param hc hρ _ hm (.cons ha (.cons hb .nil)) h)
        fun _ _ _ _ hrs _ _ hs => RRel.ok (A := AV) (by simp only [AV, VRel, VRel.truthy (VRel.first hrs)]) hs
    revert hre hm1 hm2 hcall
    cases a <;> cases a' <;> simp only [VRel] at ha <;> try subst ha
    all_goals (cases b <;> cases b' <;> simp only [VRel] at hb <;> try subst hb)
    all_goals intro hre hm1 hm2 hcall
    all_goals try simp only []
    all_goals first | (rw [hre]; exact RRel.ok (A := AV) (by vr) h) | skip
    rw [beq_inj h.injT ha hb]
    split
    · exact RRel.ok (A := AV) (by vr) h
    · rename_i x x' y y' _
      vcases hm1 : σ.metamethod (Val.tbl x) "__eq" , σ'.metamethod (Val.tbl x') "__eq" <;>
      vcases hm2 : σ.metamethod (Val.tbl y) "__eq" , σ'.metamethod (Val.tbl y') "__eq"
      all_goals try simp only []
      all_goals first | exact RRel.ok (A := AV) (by vr) h | exact hcall _ (by vr)
  case lt | le | gt | ge =>
    revert hm hm'
    cases a <;> cases a' <;> simp only [VRel] at ha <;> try subst ha
    all_goals (cases b <;> cases b' <;> simp only [VRel] at hb <;> try subst hb)
    all_goals intro hm hm'
    all_goals try simp only []
    all_goals first
      | exact RRel.ok (A := AV) (by vr) h
      | exact hcmp (hm _ _ _ fun _ _ hs => RRel.errS hs)
      | exact hcmp (hm' _ _ _ fun _ _ hs => RRel.errS hs)
  all_goals
    split
    · exact RRel.ok (A := AV) (by vr) h
    · exact hm _ _ _ fun _ _ hs => RRel.errS hs

theorem unopVal_param (hc : CallOK Q cx call) (hρ : OracleFlat ρ) (d : Nat) (op : UnOp) {a a' : Val N}
    (ha : VRel β a a') {σ σ' : State N} (h : SRel Q cx β σ σ') :
    RRel Q cx β AV (unopVal call ρ d op a σ) (unopVal call ρ d op a' σ') := by
  have hcall : ∀ {m m' : Val N} {args args' : List (Val N)}, VRel β m m' → VsRel β args args' →
      RRel Q cx β AV ((callVal call ρ d m args σ).bind fun rs s => .ok (first rs) s)
        ((callVal call ρ d m' args' σ').bind fun rs s => .ok (first rs) s) :=
    fun hm hargs => RRel.firstOf (callVal_param hc hρ _ hm hargs h)
  cases op <;> simp only [unopVal, VRel.toNumber ha, VRel.truthy ha, VRel.typeName ha]
  · -- neg
    split
    · exact RRel.ok (A := AV) (by vr) h
    · have hm := h.metamethod ha "__unm"
      vcases hm : σ.metamethod a "__unm" , σ'.metamethod a' "__unm"
      all_goals try simp only []
      all_goals first | exact RRel.errS h | exact hcall (by vr) (.cons ha (.cons ha .nil))
  · exact RRel.ok (A := AV) (by vr) h
  · -- len
    have hm := h.metamethod ha "__len"
    revert hm hcall
    cases a <;> cases a' <;> simp only [VRel] at ha <;> try subst ha
    all_goals intro hcall hm
    all_goals try simp only []
    all_goals first | exact RRel.ok (A := AV) (by vr) h | skip
    all_goals
      revert hm
      generalize σ.metamethod _ "__len" = m
      generalize σ'.metamethod _ "__len" = m'
      intro hm
      cases m <;> cases m' <;> simp only [VRel] at hm <;> try subst hm
      all_goals try simp only []
      all_goals first
        | exact RRel.errS h
        | (rw [h.border ha]; exact RRel.ok (A := AV) (by vr) h)
        | exact hcall (by vr) (.cons (by vr) .nil)

/-! ### assignment targets -/

def TgRel (β : Inj N) : Target N → Target N → Prop
  | .var n, .var n' => n = n'
  | .slot t k, .slot t' k' => VRel β t t' ∧ VRel β k k'
  | _, _ => False

theorem TgRel.mono {β' : Inj N} (hle : β.le β') {tg tg' : Target N} (h : TgRel β tg tg') : TgRel β' tg tg' := by
  cases tg <;> cases tg' <;> simp only [TgRel] at h ⊢
  · exact h
  · exact ⟨h.1.mono hle, h.2.mono hle⟩

/-- a target that may be stored to when the names in `D` are dead -/
def TargetOK (D : List DName) : Target N → Prop
  | .var n => DName.ref n ∉ D ∧ DName.wat n ∉ D
  | .slot _ _ => True

theorem storeTarget_param (hc : CallOK Q cx call) (hρ : OracleFlat ρ) (k : Nat) {D : List DName} {env env' : Env N}
    (he : EnvRel cx β D env.locals env'.locals) {tg tg' : Target N} (ht : TgRel β tg tg') (htg : TargetOK D tg)
    {v v' : Val N} (hv : VRel β v v') {σ σ' : State N} (h : SRel Q cx β σ σ') :
    RRel Q cx β AEq (storeTarget call ρ k env tg v σ) (storeTarget call ρ k env' tg' v' σ') := by
  cases tg <;> cases tg' <;> simp only [TgRel] at ht <;> simp only [storeTarget]
  · subst ht; exact RRel.ok (A := AEq) rfl (h.assignVar he htg.1 htg.2 hv)
  · exact setIndexVal_param hc hρ _ ht.1 ht.2 hv h

theorem storeTargets_param (hc : CallOK Q cx call) (hρ : OracleFlat ρ) (k : Nat) {D : List DName} {env env' : Env N}
    (he : EnvRel cx β D env.locals env'.locals) {tgs tgs' : List (Target N)} (ht : Forall2 (TgRel β) tgs tgs')
    (htg : ∀ tg ∈ tgs, TargetOK D tg) {vs vs' : List (Val N)} (hv : VsRel β vs vs') {σ σ' : State N}
    (h : SRel Q cx β σ σ') :
    RRel Q cx β AEq (storeTargets call ρ k env tgs vs σ) (storeTargets call ρ k env' tgs' vs' σ') := by
  induction ht generalizing vs vs' with
  | nil => simp only [storeTargets]; exact RRel.ok (A := AEq) rfl h
  | @cons tg tg' rest rest' h1 _ ih =>
    simp only [storeTargets]
    exact RRel.bind (ih (fun t ht => htg t (List.mem_cons_of_mem _ ht)) (hv.drop 1)) fun _ hle _ _ _ _ _ hs =>
      storeTarget_param hc hρ _ (he.mono hle) (h1.mono hle) (htg tg List.mem_cons_self)
        ((VRel.first hv).mono hle) hs

def APair : ARel N (Val N × String) := fun β p q => VRel β p.1 q.1 ∧ p.2 = q.2

theorem walkFields_param (hc : CallOK Q cx call) (hρ : OracleFlat ρ) (k : Nat) {v v' : Val N} (hv : VRel β v v')
    (path : List String) {σ σ' : State N} (h : SRel Q cx β σ σ') :
    RRel Q cx β APair (walkFields call ρ k v path σ) (walkFields call ρ k v' path σ') := by
  induction path generalizing v v' σ σ' β with
  | nil => simp only [walkFields]; exact RRel.errS h
  | cons f rest ih =>
    cases rest with
    | nil => simp only [walkFields]; exact RRel.ok (A := APair) ⟨hv, rfl⟩ h
    | cons g rest' =>
      simp only [walkFields]
      exact RRel.bind (indexVal_param hc hρ _ hv (by simp only [strVal, VRel]) h) fun _ _ _ _ hx _ _ hs => ih hx hs

end DarkluaModel.Sem.HeapU
