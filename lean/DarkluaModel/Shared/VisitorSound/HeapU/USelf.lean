import DarkluaModel.Shared.VisitorSound.HeapU.ULinks
/-!
# Stage 4 from ANY well-formed initial state ("modified environments")

`State.WF σ` — every heap id mentioned in `σ` exists (values in globals, cells, tables, closures; cells in
captured environments; metatables; the `string` library table). A well-formed state is related to itself
through the identity injections on its existing ids (`SRel.ofWF`), so the stage-4 theorems apply to runs from
it (`chain_runChunk` in `VisitorSoundHeapU.lean` takes any self-related state). `WF.init`: `initState` is
well-formed; `WF.presetFn`: so is `initState` with one more global bound to a preset closure without captured
variables (the shape of the modified environments of stage 3: `assert`, `DEBUG` …).
-/
namespace DarkluaModel.Sem.HeapU
variable {N : NumOps}

/-- the heap ids in `v` exist in `σ` -/
def Val.inRange (σ : State N) : Val N → Prop
  | .tbl t => t < σ.tables.length
  | .fn f => f < σ.closures.length
  | _ => True

structure State.WF (σ : State N) : Prop where
  globals : ∀ p ∈ σ.globals, Val.inRange σ p.2
  cells : ∀ v ∈ σ.cells, Val.inRange σ v
  entries : ∀ t ∈ σ.tables, ∀ p ∈ t.entries, Val.inRange σ p.1 ∧ Val.inRange σ p.2
  mts : ∀ t ∈ σ.tables, ∀ m, t.mt = some m → m < σ.tables.length
  varargs : ∀ c ∈ σ.closures, ∀ v ∈ c.varargs, Val.inRange σ v
  envs : ∀ c ∈ σ.closures, ∀ p ∈ c.env, p.2 < σ.cells.length
  strlib : stringLibId < σ.tables.length

/-- the identity on the existing ids of `σ` -/
def idRel (σ : State N) : Inj N :=
  { c := fun a b => a = b ∧ a < σ.cells.length
    t := fun a b => a = b ∧ a < σ.tables.length
    f := fun a b => a = b ∧ a < σ.closures.length }

theorem VRel.ofInRange {σ : State N} {v : Val N} (h : Val.inRange σ v) : VRel (idRel σ) v v := by
  cases v <;> simp only [VRel, Val.inRange, idRel] at h ⊢ <;> first | trivial | exact ⟨rfl, h⟩

theorem lookupAssoc_mem {α : Type} {n : String} {c : α} : ∀ {l : List (String × α)}, lookupAssoc n l = some c → (n, c) ∈ l
  | [], h => by simp [lookupAssoc] at h
  | (k, v) :: rest, h => by
    simp only [lookupAssoc] at h
    split at h
    · next hk => cases h; rw [beq_iff_eq.mp hk]; exact List.mem_cons_self
    · exact List.mem_cons_of_mem _ (lookupAssoc_mem h)

/-- **a well-formed state is related to itself**, for every closure-body relation that is reflexive -/
theorem SRel.ofWF {Q : QRel} {cx : Cx} (hq : QRefl Q) {σ : State N} (h : State.WF σ) (hI : cx.I N (idRel σ) σ σ)
    (hG : ∀ p ∈ cx.G N, σ.getGlobal p.1 = p.2 := by intro _ h; cases h)
    (hF : ∀ p ∈ cx.F, FnGlobal σ p.1 p.2 := by intro _ h; cases h)
    (hcl : ∀ c ∈ σ.closures, NoRefF (watD cx) c.body ∧ ∀ n ∈ cx.W,
        lookupAssoc n c.env = lookupAssoc n cx.bindL ∧ lookupAssoc n c.env = lookupAssoc n cx.bindR := by
      intro _ h; cases h) :
    SRel Q cx (idRel σ) σ σ where
  globals := forall2_self _ fun p hp => ⟨rfl, VRel.ofInRange (h.globals p hp)⟩
  trace := rfl
  injC := fun h1 h2 => by obtain ⟨rfl, _⟩ := h1; obtain ⟨rfl, _⟩ := h2; exact Iff.rfl
  injT := fun h1 h2 => by obtain ⟨rfl, _⟩ := h1; obtain ⟨rfl, _⟩ := h2; exact Iff.rfl
  injF := fun h1 h2 => by obtain ⟨rfl, _⟩ := h1; obtain ⟨rfl, _⟩ := h2; exact Iff.rfl
  cell := fun {a b} hab => by
    obtain ⟨rfl, hlt⟩ := hab
    exact ⟨σ.cells[a], σ.cells[a], List.getElem?_eq_getElem hlt, List.getElem?_eq_getElem hlt,
      VRel.ofInRange (h.cells _ (List.getElem_mem hlt))⟩
  tbl := fun {a b} hab => by
    obtain ⟨rfl, hlt⟩ := hab
    have hm := List.getElem_mem hlt
    refine ⟨σ.tables[a], σ.tables[a], List.getElem?_eq_getElem hlt, List.getElem?_eq_getElem hlt,
      forall2_self _ fun p hp => ⟨VRel.ofInRange (h.entries _ hm p hp).1, VRel.ofInRange (h.entries _ hm p hp).2⟩, ?_⟩
    cases hmt : (σ.tables[a]).mt with
    | none => trivial
    | some m => exact ⟨rfl, h.mts _ hm m hmt⟩
  clo := fun {a b} hab => by
    obtain ⟨rfl, hlt⟩ := hab
    have hm := List.getElem_mem hlt
    refine ⟨σ.closures[a], σ.closures[a], List.getElem?_eq_getElem hlt, List.getElem?_eq_getElem hlt,
      forall2_self _ fun v hv => VRel.ofInRange (h.varargs _ hm v hv), watD cx, hq _ _ (hcl _ hm).1, ?_, ?_, ?_⟩
    · intro n _
      cases hl : lookupAssoc n (σ.closures[a]).env with
      | none => trivial
      | some c => exact ⟨rfl, h.envs _ hm _ (lookupAssoc_mem hl)⟩
    · exact fun n hn => List.mem_map_of_mem hn
    · intro n hn
      obtain ⟨m, hmW, e⟩ := List.mem_map.mp hn
      cases e
      exact (hcl _ hm).2 n hmW
  strlib := ⟨rfl, h.strlib⟩
  ginv := fun p hp => ⟨hG p hp, hG p hp⟩
  finv := fun p hp => ⟨hF p hp, hF p hp⟩
  front := ⟨Nat.zero_le _, Nat.zero_le _, Nat.zero_le _, Nat.zero_le _, Nat.zero_le _, Nat.zero_le _⟩
  pin := fun _ hp => by cases hp
  pinR := fun _ hp => by cases hp
  pinT := fun _ hp => by cases hp
  pinC := fun _ hp => by cases hp
  pinTl := fun _ hp => by cases hp
  pinCl := fun _ hp => by cases hp
  inv := hI

theorem inRange_libTable (σ : State N) (pre : String) (names : List String) :
    ∀ p ∈ (libTable (N := N) pre names).entries, Val.inRange σ p.1 ∧ Val.inRange σ p.2 := by
  intro p hp
  simp only [libTable, List.mem_map] at hp
  obtain ⟨n, _, rfl⟩ := hp
  exact ⟨trivial, trivial⟩

/-- `initState` is well-formed -/
theorem State.WF.init (externs : List String) : State.WF (initState externs : State N) where
  globals := fun p hp => by
    simp only [initState, List.mem_append, List.mem_cons, List.mem_map, List.not_mem_nil, or_false] at hp
    rcases hp with ((rfl | rfl | rfl) | ⟨n, _, rfl⟩) | ⟨n, _, rfl⟩ <;>
      first | trivial | (show _ < 3; decide)
  cells := fun _ hv => by cases hv
  entries := fun t ht => by
    simp only [initState, List.mem_cons, List.not_mem_nil, or_false] at ht
    rcases ht with rfl | rfl | rfl
    · exact inRange_libTable _ _ _
    · intro p hp
      rcases List.mem_append.mp hp with hp | hp
      · exact inRange_libTable _ _ _ p hp
      · simp only [List.mem_cons, List.not_mem_nil, or_false] at hp
        subst hp; exact ⟨trivial, trivial⟩
    · exact inRange_libTable _ _ _
  mts := fun t ht m hm => by
    simp only [initState, List.mem_cons, List.not_mem_nil, or_false] at ht
    rcases ht with rfl | rfl | rfl <;> cases hm
  varargs := fun _ hc => by cases hc
  envs := fun _ hc => by cases hc
  strlib := by show 0 < 3; decide

theorem Val.inRange_mono {σ s : State N} (ht : σ.tables.length ≤ s.tables.length)
    (hf : σ.closures.length ≤ s.closures.length) {v : Val N} (h : Val.inRange σ v) : Val.inRange s v := by
  cases v <;> simp only [Val.inRange] at h ⊢ <;> omega

/-- `σ` with one more global bound to a new closure that captures nothing: the shape of a modified
environment (`assert` preset to `function(...) return ... end`, …) -/
theorem State.WF.presetFn {σ : State N} (h : State.WF σ) (name : String) (body : FnBody) :
    State.WF { σ with globals := (name, .fn σ.closures.length) :: σ.globals,
                      closures := σ.closures ++ [⟨body, [], []⟩] } := by
  have mono : ∀ {v : Val N}, Val.inRange σ v →
      Val.inRange { σ with globals := (name, .fn σ.closures.length) :: σ.globals,
                           closures := σ.closures ++ [⟨body, [], []⟩] } v := by
    intro v hv
    cases v <;> simp only [Val.inRange, List.length_append, List.length_cons, List.length_nil] at hv ⊢ <;> omega
  exact {
    globals := fun p hp => by
      rcases List.mem_cons.mp hp with rfl | hp
      · show _ < (σ.closures ++ _).length; simp
      · exact mono (h.globals p hp)
    cells := fun v hv => mono (h.cells v hv)
    entries := fun t ht p hp => ⟨mono (h.entries t ht p hp).1, mono (h.entries t ht p hp).2⟩
    mts := h.mts
    varargs := fun c hc v hv => by
      rcases List.mem_append.mp hc with hc | hc
      · exact mono (h.varargs c hc v hv)
      · simp only [List.mem_singleton] at hc; subst hc; cases hv
    envs := fun c hc p hp => by
      rcases List.mem_append.mp hc with hc | hc
      · exact h.envs c hc p hp
      · simp only [List.mem_singleton] at hc; subst hc; cases hp
    strlib := h.strlib }

/-- … bound to a flat value (`DEBUG = true`) -/
theorem State.WF.presetFlat {σ : State N} (h : State.WF σ) (name : String) {v : Val N} (hv : Val.flat v) :
    State.WF { σ with globals := (name, v) :: σ.globals } where
  globals := fun p hp => by
    rcases List.mem_cons.mp hp with rfl | hp
    · cases v <;> first | trivial | exact absurd hv (by simp [Val.flat])
    · exact h.globals p hp
  cells := h.cells
  entries := h.entries
  mts := h.mts
  varargs := h.varargs
  envs := h.envs
  strlib := h.strlib

end DarkluaModel.Sem.HeapU
