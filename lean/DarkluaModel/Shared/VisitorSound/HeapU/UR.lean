import DarkluaModel.Shared.VisitorSound.HeapU.UDrop
/-!
# Stage 4: congruence closure of exact steps and renumbering-insensitive steps

`VR cx D a b D'` — `b` is obtained from `a` by replacing nodes, hereditarily (also inside function bodies), using
* exact steps (`EqE` …),
* *generic leaves* `gen…`: any pair of nodes that is sound for the renumbering relation, for EVERY
  closure-body relation `Q` reflexive on `NoRef` syntax (`QRefl`),
* `dropLocal` / `addLocal`: a `local` declaration whose initialisers only allocate (`AllocPureEs`:
  literals, variables, function expressions, table constructors of such) present on one side only.
`D` is the set of dead names on entry, `D' ⊇ D` the dead set at the end of a statement list / block.
No transitivity constructor: passes are chained at the level of program outcomes.
-/
namespace DarkluaModel.Sem.HeapU
open Heap (refNames addSelf)

inductive VR (cx : Cx) : List DName → Node → Node → List DName → Prop
  -- exact steps
  | stepE {D a m b} : LeE cx.upto a m → VR cx D (.e m) (.e b) D → VR cx D (.e a) (.e b) D
  | stepT {D a m b} : LeT cx.upto a m → VR cx D (.t m) (.t b) D → VR cx D (.t a) (.t b) D
  | stepS {D a m b} : LeS cx.upto a m → VR cx D (.s m) (.s b) D → VR cx D (.s a) (.s b) D
  | stepL {D a m b} : LeL cx.upto a m → VR cx D (.l m) (.l b) D → VR cx D (.l a) (.l b) D
  | stepB {D a m b D'} : LeB cx.upto a m → VR cx D (.b m) (.b b) D' → VR cx D (.b a) (.b b) D'
  -- generic sound leaves
  | genE {D a b} : (∀ Q, QRefl Q → SoundE Q cx D a b) → VR cx D (.e a) (.e b) D
  | genT {D a b} : (∀ Q, QRefl Q → SoundT Q cx D a b) → VR cx D (.t a) (.t b) D
  | genS {D a b} : (∀ Q, QRefl Q → SoundS Q cx D a b) → VR cx D (.s a) (.s b) D
  | genSs {D a b D'} : (∀ Q, QRefl Q → SoundSs Q cx D a b D') → VR cx D (.ss a) (.ss b) D'
  | genL {D a b} : (∀ Q, QRefl Q → SoundL Q cx D a b) → VR cx D (.l a) (.l b) D
  | genB {D a b D'} : (∀ Q, QRefl Q → SoundB Q cx D a b D') → VR cx D (.b a) (.b b) D'
  | genRep {D a x b y} : (∀ Q, QRefl Q → SoundRep Q cx D a x b y) → VR cx D (.rep a x) (.rep b y) D
  -- a pure `local` declaration present on one side only (its names become dead)
  | dropLocal {D kind ns vs rest rest' D'} : AllocPureEs vs → (∀ n ∈ ns.map TName.name, DName.wat n ∉ D) →
      VR cx (refNames ns ++ D) (.ss rest) (.ss rest') D' →
      VR cx D (.ss (.localAssign kind ns vs :: rest)) (.ss rest') D'
  | addLocal {D kind ns vs rest rest' D'} : AllocPureEs vs → (∀ n ∈ ns.map TName.name, DName.wat n ∉ D) →
      VR cx (refNames ns ++ D) (.ss rest) (.ss rest') D' →
      VR cx D (.ss rest) (.ss (.localAssign kind ns vs :: rest')) D'
  -- expressions
  | paren {D x x'} : VR cx D (.e x) (.e x') D → VR cx D (.e (.paren x)) (.e (.paren x')) D
  | un {D op x x'} : VR cx D (.e x) (.e x') D → VR cx D (.e (.un op x)) (.e (.un op x')) D
  | bin {D op l l' r r'} : VR cx D (.e l) (.e l') D → VR cx D (.e r) (.e r') D →
      VR cx D (.e (.bin op l r)) (.e (.bin op l' r')) D
  | call {D f f' m k args args'} : VR cx D (.e f) (.e f') D → VR cx D (.es args) (.es args') D →
      VR cx D (.e (.call f m k args)) (.e (.call f' m k args')) D
  | field {D x x' n} : VR cx D (.e x) (.e x') D → VR cx D (.e (.field x n)) (.e (.field x' n)) D
  | index {D x x' k k'} : VR cx D (.e x) (.e x') D → VR cx D (.e k) (.e k') D →
      VR cx D (.e (.index x k)) (.e (.index x' k')) D
  | fn {D f f'} : VR cx D (.f f) (.f f') D → VR cx D (.e (.fn f)) (.e (.fn f')) D
  | table {D es es'} : VR cx D (.entries es) (.entries es') D → VR cx D (.e (.table es)) (.e (.table es')) D
  | ifx {D c c' t t' el el' e e'} : VR cx D (.e c) (.e c') D → VR cx D (.e t) (.e t') D →
      VR cx D (.elifs el) (.elifs el') D → VR cx D (.e e) (.e e') D →
      VR cx D (.e (.ifx c t el e)) (.e (.ifx c' t' el' e')) D
  | interp {D segs segs'} : VR cx D (.segs segs) (.segs segs') D → VR cx D (.e (.interp segs)) (.e (.interp segs')) D
  | cast {D x x' ty ty'} : VR cx D (.e x) (.e x') D → VR cx D (.e (.cast x ty)) (.e (.cast x' ty')) D
  | inst {D x x' tys tys'} : VR cx D (.e x) (.e x') D → VR cx D (.e (.inst x tys)) (.e (.inst x' tys')) D
  -- lists
  | esNil {D} : VR cx D (.es []) (.es []) D
  | esCons {D x x' xs xs'} : VR cx D (.e x) (.e x') D → VR cx D (.es xs) (.es xs') D →
      VR cx D (.es (x :: xs)) (.es (x' :: xs')) D
  | tsNil {D} : VR cx D (.ts []) (.ts []) D
  | tsCons {D x x' xs xs'} : VR cx D (.t x) (.t x') D → VR cx D (.ts xs) (.ts xs') D →
      VR cx D (.ts (x :: xs)) (.ts (x' :: xs')) D
  | elifsNil {D} : VR cx D (.elifs []) (.elifs []) D
  | elifsCons {D c c' t t' xs xs'} : VR cx D (.e c) (.e c') D → VR cx D (.e t) (.e t') D →
      VR cx D (.elifs xs) (.elifs xs') D → VR cx D (.elifs ((c, t) :: xs)) (.elifs ((c', t') :: xs')) D
  | entriesNil {D} : VR cx D (.entries []) (.entries []) D
  | entriesPos {D v v' xs xs'} : VR cx D (.e v) (.e v') D → VR cx D (.entries xs) (.entries xs') D →
      VR cx D (.entries (.pos v :: xs)) (.entries (.pos v' :: xs')) D
  | entriesNamed {D k v v' xs xs'} : VR cx D (.e v) (.e v') D → VR cx D (.entries xs) (.entries xs') D →
      VR cx D (.entries (.named k v :: xs)) (.entries (.named k v' :: xs')) D
  | entriesKeyed {D k k' v v' xs xs'} : VR cx D (.e k) (.e k') D → VR cx D (.e v) (.e v') D →
      VR cx D (.entries xs) (.entries xs') D → VR cx D (.entries (.keyed k v :: xs)) (.entries (.keyed k' v' :: xs')) D
  | segsNil {D} : VR cx D (.segs []) (.segs []) D
  | segsS {D b xs xs'} : VR cx D (.segs xs) (.segs xs') D → VR cx D (.segs (.s b :: xs)) (.segs (.s b :: xs')) D
  | segsV {D x x' xs xs'} : VR cx D (.e x) (.e x') D → VR cx D (.segs xs) (.segs xs') D →
      VR cx D (.segs (.v x :: xs)) (.segs (.v x' :: xs')) D
  -- targets
  | tField {D x x' n} : VR cx D (.e x) (.e x') D → VR cx D (.t (.field x n)) (.t (.field x' n)) D
  | tIndex {D x x' k k'} : VR cx D (.e x) (.e x') D → VR cx D (.e k) (.e k') D →
      VR cx D (.t (.index x k)) (.t (.index x' k')) D
  | tNonLv {D x x'} : x.isLv = false → x'.isLv = false → VR cx D (.t x) (.t x') D
  -- function bodies
  | fnBody {D ps ps' v vt vt' r r' g g' a a' b b' D'} : ps.map TName.name = ps'.map TName.name →
      (∀ n ∈ ps'.map TName.name, DName.wat n ∉ D) → VR cx D (.b b) (.b b') D' → VR cx D (.f (.mk ps v vt r g a b)) (.f (.mk ps' v vt' r' g' a' b')) D
  -- statements
  | assign {D ts ts' vs vs'} : VR cx D (.ts ts) (.ts ts') D → VR cx D (.es vs) (.es vs') D →
      VR cx D (.s (.assign ts vs)) (.s (.assign ts' vs')) D
  | cassign {D op t t' v v'} : VR cx D (.t t) (.t t') D → VR cx D (.e v) (.e v') D →
      VR cx D (.s (.cassign op t v)) (.s (.cassign op t' v')) D
  | callStmt {D c c'} : VR cx D (.e c) (.e c') D → VR cx D (.s (.callStmt c)) (.s (.callStmt c')) D
  | doBlock {D b b' D'} : VR cx D (.b b) (.b b') D' → VR cx D (.s (.doBlock b)) (.s (.doBlock b')) D
  | function {D name m f f'} : (∀ r, name.head? = some r → DName.ref r ∉ D ∧ DName.wat r ∉ D) → VR cx D (.f (addSelf m f)) (.f (addSelf m f')) D →
      VR cx D (.s (.function name m f)) (.s (.function name m f')) D
  | gfor {D ns ns' vs vs' b b' D'} : ns.map TName.name = ns'.map TName.name →
      (∀ n ∈ ns'.map TName.name, DName.wat n ∉ D) → VR cx D (.es vs) (.es vs') D →
      VR cx D (.b b) (.b b') D' → VR cx D (.s (.gfor ns vs b)) (.s (.gfor ns' vs' b')) D
  | nforNone {D n n' a a' b b' body body' D'} : n.name = n'.name → DName.wat n'.name ∉ D → VR cx D (.e a) (.e a') D → VR cx D (.e b) (.e b') D →
      VR cx D (.b body) (.b body') D' → VR cx D (.s (.nfor n a b none body)) (.s (.nfor n' a' b' none body')) D
  | nforSome {D n n' a a' b b' st st' body body' D'} : n.name = n'.name → DName.wat n'.name ∉ D →
      VR cx D (.e a) (.e a') D →
      VR cx D (.e b) (.e b') D → VR cx D (.e st) (.e st') D → VR cx D (.b body) (.b body') D' →
      VR cx D (.s (.nfor n a b (some st) body)) (.s (.nfor n' a' b' (some st') body')) D
  | ifsNone {D brs brs'} : VR cx D (.branches brs) (.branches brs') D → VR cx D (.s (.ifs brs none)) (.s (.ifs brs' none)) D
  | ifsSome {D brs brs' b b' D'} : VR cx D (.branches brs) (.branches brs') D → VR cx D (.b b) (.b b') D' →
      VR cx D (.s (.ifs brs (some b))) (.s (.ifs brs' (some b'))) D
  | localAssign {D kind ns ns' vs vs'} : ns.map TName.name = ns'.map TName.name →
      (∀ n ∈ ns'.map TName.name, DName.wat n ∉ D) → VR cx D (.es vs) (.es vs') D →
      VR cx D (.s (.localAssign kind ns vs)) (.s (.localAssign kind ns' vs')) D
  | localFn {D kind name f f'} : DName.wat name ∉ D → VR cx D (.f f) (.f f') D →
      VR cx D (.s (.localFn kind name f)) (.s (.localFn kind name f')) D
  | rep {D b b' c c' D'} : VR cx D (.b b) (.b b') D' → VR cx D' (.e c) (.e c') D' → VR cx D (.rep b c) (.rep b' c') D
  | repeat_ {D b b' c c'} : VR cx D (.rep b c) (.rep b' c') D → VR cx D (.s (.repeat_ b c)) (.s (.repeat_ b' c')) D
  | while_ {D b b' c c' D'} : VR cx D (.e c) (.e c') D → VR cx D (.b b) (.b b') D' →
      VR cx D (.s (.while_ c b)) (.s (.while_ c' b')) D
  | typeDecl {D ex name ty ty'} : VR cx D (.s (.typeDecl ex name ty)) (.s (.typeDecl ex name ty')) D
  | typeFn {D ex name f f'} : VR cx D (.s (.typeFn ex name f)) (.s (.typeFn ex name f')) D
  -- statement lists, branches, last statements, blocks
  | ssNil {D} : VR cx D (.ss []) (.ss []) D
  | ssCons {D x x' xs xs' D'} : VR cx D (.s x) (.s x') D → VR cx D (.ss xs) (.ss xs') D' →
      VR cx D (.ss (x :: xs)) (.ss (x' :: xs')) D'
  | branchesNil {D} : VR cx D (.branches []) (.branches []) D
  | branchesCons {D c c' b b' xs xs' D'} : VR cx D (.e c) (.e c') D → VR cx D (.b b) (.b b') D' →
      VR cx D (.branches xs) (.branches xs') D → VR cx D (.branches ((c, b) :: xs)) (.branches ((c', b') :: xs')) D
  | ret {D es es'} : VR cx D (.es es) (.es es') D → VR cx D (.l (.ret es)) (.l (.ret es')) D
  | blockNone {D ss ss' D'} : VR cx D (.ss ss) (.ss ss') D' → VR cx D (.b (.mk ss none)) (.b (.mk ss' none)) D'
  | blockSome {D ss ss' l l' D'} : VR cx D (.ss ss) (.ss ss') D' → VR cx D' (.l l) (.l l') D' →
      VR cx D (.b (.mk ss (some l))) (.b (.mk ss' (some l'))) D'

/-- the closure-body relation of stage 4 -/
def VQ (cx : Cx) : QRel := fun D f f' => VR cx D (.f f) (.f f') D

end DarkluaModel.Sem.HeapU
