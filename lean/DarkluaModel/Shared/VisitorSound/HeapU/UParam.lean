import DarkluaModel.Shared.VisitorSound.HeapU.USet
/-!
# Stage 4: parametricity of the semantic helpers under renumbering

Arguments are related by `VsRel`, results too. External functions must return no heap references
(`OracleFlat`): their results are the same list on both sides and must be related to itself.
-/
namespace DarkluaModel.Sem.HeapU
variable {N : NumOps} {Q : QRel} {cx : Cx} {β : Inj N}

/-- external functions return values without table / closure ids -/
def OracleFlat (ρ : ExtOracle N) : Prop := ∀ name k args, ∀ v ∈ ρ name k args, Val.flat v

theorem vsRel_flat {vs : List (Val N)} (h : ∀ v ∈ vs, Val.flat v) : VsRel β vs vs := by
  induction vs with
  | nil => exact .nil
  | cons v vs ih => exact .cons (VRel.flat (h v List.mem_cons_self)) (ih fun w hw => h w (List.mem_cons_of_mem _ hw))

def CallOK (Q : QRel) (cx : Cx) (call : CallFn N) : Prop :=
  ∀ (β : Inj N) c c' args args' σ σ', CRel Q cx β c c' → VsRel β args args' → SRel Q cx β σ σ' →
    RRel Q cx β AVs (call c args σ) (call c' args' σ')

structure LibP (Q : QRel) (cx : Cx) (call : CallFn N) (ρ : ExtOracle N) (d : Nat) : Prop where
  callVal : ∀ {β : Inj N} f f' args args' σ σ', VRel β f f' → VsRel β args args' → SRel Q cx β σ σ' →
    RRel Q cx β AVs (callVal call ρ d f args σ) (Sem.callVal call ρ d f' args' σ')
  tostringVal : ∀ {β : Inj N} v v' σ σ', VRel β v v' → SRel Q cx β σ σ' →
    RRel Q cx β AEq (tostringVal call ρ d v σ) (Sem.tostringVal call ρ d v' σ')
  formatAux : ∀ {β : Inj N} fmt args args' acc σ σ', VsRel β args args' → SRel Q cx β σ σ' →
    RRel Q cx β AEq (formatAux call ρ d fmt args acc σ) (Sem.formatAux call ρ d fmt args' acc σ')
  libCall : ∀ {β : Inj N} name args args' σ σ', VsRel β args args' → SRel Q cx β σ σ' →
    RRel Q cx β AVs (libCall call ρ d name args σ) (Sem.libCall call ρ d name args' σ')

variable {call : CallFn N} {ρ : ExtOracle N}

theorem libP_zero : LibP Q cx call ρ 0 where
  callVal := fun _ _ _ _ _ _ _ _ _ => by simp only [Sem.callVal]; exact RRel.timeout
  tostringVal := fun _ _ _ _ _ _ => by simp only [Sem.tostringVal]; exact RRel.timeout
  formatAux := fun _ _ _ _ _ _ _ _ => by simp only [Sem.formatAux]; exact RRel.timeout
  libCall := fun _ _ _ _ _ _ _ => by simp only [Sem.libCall]; exact RRel.timeout

/-- the branch of `callVal` for values that are neither closures nor builtins: `__call` -/
theorem callMeta_rel {d : Nat} (ih : LibP Q cx call ρ d) {v v' : Val N} (hv : VRel β v v')
    {args args' : List (Val N)} (ha : VsRel β args args') {σ σ' : State N} (h : SRel Q cx β σ σ') :
    RRel Q cx β AVs
      (match σ.metamethod v "__call" with
        | .nil => errS ("attempt to call a " ++ v.typeName ++ " value") σ
        | m => Sem.callVal call ρ d m (v :: args) σ)
      (match σ'.metamethod v' "__call" with
        | .nil => errS ("attempt to call a " ++ v'.typeName ++ " value") σ'
        | m => Sem.callVal call ρ d m (v' :: args') σ') := by
  have hm := h.metamethod hv "__call"
  rw [VRel.typeName hv]
  revert hm
  generalize σ.metamethod v "__call" = m
  generalize σ'.metamethod v' "__call" = m'
  intro hm
  cases m <;> cases m' <;> simp only [VRel] at hm
  · exact RRel.errS h
  all_goals exact ih.callVal _ _ _ _ _ _ (by simp only [VRel]; exact hm) (.cons hv ha) h

theorem callVal_succ (hc : CallOK Q cx call) (hρ : OracleFlat ρ) {d : Nat} (ih : LibP Q cx call ρ d) (f f' : Val N)
    (args args' : List (Val N)) (σ σ' : State N) (hf : VRel β f f') (ha : VsRel β args args')
    (h : SRel Q cx β σ σ') :
    RRel Q cx β AVs (callVal call ρ (d + 1) f args σ) (callVal call ρ (d + 1) f' args' σ') := by
  cases f <;> cases f' <;> simp only [VRel] at hf
  case fn.fn id id' =>
    simp only [callVal]
    obtain ⟨c, c', h1, h2, hcc⟩ := h.clo hf
    rw [h1, h2]
    exact hc _ _ _ _ _ _ _ hcc ha h
  case builtin.builtin name name' =>
    subst hf
    simp only [callVal]
    split
    · exact ih.libCall _ _ _ _ _ ha h
    · rw [h.canonList ha, h.extCount]
      exact RRel.ok (A := AVs) (vsRel_flat (hρ _ _ _)) (h.pushTrace _)
  case nil.nil => simp only [callVal]; exact callMeta_rel ih (v := .nil) (v' := .nil) trivial ha h
  case bool.bool b b' => subst hf; simp only [callVal]; exact callMeta_rel ih (v := .bool b) (v' := .bool b) rfl ha h
  case num.num x x' => subst hf; simp only [callVal]; exact callMeta_rel ih (v := .num x) (v' := .num x) rfl ha h
  case str.str x x' => subst hf; simp only [callVal]; exact callMeta_rel ih (v := .str x) (v' := .str x) rfl ha h
  case tbl.tbl x x' => simp only [callVal]; exact callMeta_rel ih (v := .tbl x) (v' := .tbl x') hf ha h

theorem tostringVal_succ {d : Nat} (ih : LibP Q cx call ρ d) (v v' : Val N) (σ σ' : State N) (hv : VRel β v v')
    (h : SRel Q cx β σ σ') :
    RRel Q cx β AEq (tostringVal call ρ (d + 1) v σ) (tostringVal call ρ (d + 1) v' σ') := by
  simp only [tostringVal]
  have hm := h.metamethod hv "__tostring"
  rw [VRel.tostringBasic hv]
  revert hm
  generalize σ.metamethod v "__tostring" = m
  generalize σ'.metamethod v' "__tostring" = m'
  intro hm
  have fin : ∀ (β1 : Inj N) (rs rs' : List (Val N)), VsRel β1 rs rs' → ∀ (s s' : State N), SRel Q cx β1 s s' →
      RRel Q cx β1 AEq
        (match first rs with
          | .str x => (Res.ok x s : Res N (List UInt8))
          | .num x => .ok (N.toStr x) s
          | _ => errS "'__tostring' must return a string" s)
        (match first rs' with
          | .str x => .ok x s'
          | .num x => .ok (N.toStr x) s'
          | _ => errS "'__tostring' must return a string" s') := by
    intro β1 rs rs' hrs s s' hs
    have h1 := VRel.first hrs
    revert h1
    generalize first rs = r
    generalize first rs' = r'
    intro h1
    cases r <;> cases r' <;> simp only [VRel] at h1 <;>
      first | exact RRel.errS hs | (subst h1; exact RRel.ok (A := AEq) rfl hs)
  cases m <;> cases m' <;> simp only [VRel] at hm
  · exact RRel.ok (A := AEq) rfl h
  all_goals
    exact RRel.bind (ih.callVal _ _ _ _ _ _ (by simp only [VRel]; exact hm) (.cons hv .nil) h)
      fun β1 _ rs rs' hrs s s' hs => fin β1 rs rs' hrs s s' hs

theorem formatAux_succ {d : Nat} (ih : LibP Q cx call ρ d) (fmt : List UInt8) (args args' : List (Val N))
    (acc : List UInt8) (σ σ' : State N) (ha : VsRel β args args') (h : SRel Q cx β σ σ') :
    RRel Q cx β AEq (formatAux call ρ (d + 1) fmt args acc σ) (formatAux call ρ (d + 1) fmt args' acc σ') := by
  unfold formatAux
  split
  · exact RRel.ok (A := AEq) rfl h
  · exact ih.formatAux _ _ _ _ _ _ ha h
  · cases ha with
    | nil => exact RRel.errS h
    | cons h1 t =>
      exact RRel.bind (ih.tostringVal _ _ _ _ h1 h) fun β1 hle s s' hs s1 s1' hs1 => by
        cases hs; exact ih.formatAux _ _ _ _ _ _ (VsRel.mono hle t) hs1
  · cases ha with
    | nil => exact RRel.errS h
    | cons h1 t =>
      simp only [VRel.toNumber h1]
      split
      · exact ih.formatAux _ _ _ _ _ _ t h
      · exact RRel.errS h
  · exact RRel.errS h
  · exact ih.formatAux _ _ _ _ _ _ ha h

/-! ### the library functions -/

theorem VsRel.dropN {vs vs' : List (Val N)} (h : VsRel β vs vs') : ∀ n, VsRel β (dropN n vs) (Sem.dropN n vs')
  | 0 => by simp only [Sem.dropN]; exact h
  | n + 1 => by
    cases h with
    | nil => simp only [Sem.dropN]; exact .nil
    | cons _ t => simp only [Sem.dropN]; exact VsRel.dropN t n

theorem mapM_rel {α : Type} {f : Val N → Option α} (hf : ∀ v v', VRel β v v' → f v' = f v) {vs vs' : List (Val N)}
    (h : VsRel β vs vs') : vs'.mapM f = vs.mapM f := by
  induction h with
  | nil => rfl
  | cons h1 _ ih => simp only [List.mapM_cons, hf _ _ h1, ih]

/-- leaves of the library-function proofs: an error, or related result lists built from the hypotheses -/
macro "vleaf" : tactic => `(tactic| first
  | exact RRel.errS ‹SRel _ _ _ _ _›
  | (refine RRel.ok (A := AVs) ?_ ‹SRel _ _ _ _ _›
     (repeat (first | exact Forall2.nil | apply Forall2.cons | assumption | exact rfl | exact trivial | (simp only [VRel]; assumption)))
     done))

/-- case analysis on a related pair of values: seven cases, same constructor on both sides -/
syntax "vcases " ident " : " term " , " term : tactic
macro_rules
  | `(tactic| vcases $h : $x , $y) => `(tactic|
      (revert $h:ident; generalize $x = v; generalize $y = v'; intro $h:ident
       cases v <;> cases v' <;> simp only [VRel] at $h:ident <;> try subst $h:ident))

theorem next_tail {σ σ' : State N} (h : SRel Q cx β σ σ') {es es' : List (Val N × Val N)} (ht : Forall2 (ERel β) es es')
    {k k' : Val N} (hk : VRel β k k') :
    RRel Q cx β AVs
      (match nextEntry k es with
        | some (some (k', v')) => (Res.ok [k', v'] σ : Res N (List (Val N)))
        | some none => .ok [.nil] σ
        | none => errS "invalid key to 'next'" σ)
      (match nextEntry k' es' with
        | some (some (k', v')) => .ok [k', v'] σ'
        | some none => .ok [.nil] σ'
        | none => errS "invalid key to 'next'" σ') := by
  have hn := nextEntry_rel h.injT h.injF ht hk
  revert hn
  generalize nextEntry k es = r
  generalize nextEntry k' es' = r'
  intro hn
  cases r <;> cases r' <;> simp only [OptRel] at hn
  · exact RRel.errS h
  · rename_i x y
    cases x <;> cases y <;> simp only [OptRel] at hn
    · exact RRel.ok (A := AVs) (.cons trivial .nil) h
    · rename_i p q
      obtain ⟨a, b⟩ := p; obtain ⟨a', b'⟩ := q
      exact RRel.ok (A := AVs) (.cons hn.1 (.cons hn.2 .nil)) h

theorem libCall_succ {d : Nat} (ih : LibP Q cx call ρ d) (name : String) (args args' : List (Val N))
    (σ σ' : State N) (ha : VsRel β args args') (h : SRel Q cx β σ σ') :
    RRel Q cx β AVs (libCall call ρ (d + 1) name args σ) (libCall call ρ (d + 1) name args' σ') := by
  have h0 := VRel.first ha
  have h1 := VRel.first (ha.drop 1)
  have h2 := VRel.first (ha.drop 2)
  have hlen := ha.length
  simp only [libCall, VRel.toNumber h0, VRel.toNumber h1, VRel.toNumber h2, VRel.toStringPrim h0,
    VRel.truthy h0, VRel.typeName h0, ← hlen]
  split
  · -- select
    vcases h0 : first args , first args' <;> try simp only [toNumber?, Option.bind]
    all_goals repeat' (first | vleaf | exact RRel.ok (A := AVs) ((ha.drop 1).dropN _) h | split)
  · -- type
    cases ha with
    | nil => exact RRel.errS h
    | cons _ _ => simp only []; vleaf
  · -- tostring
    exact RRel.bind (ih.tostringVal _ _ _ _ h0 h) fun β1 _ s s' hs σ1 σ1' hs1 => by
      cases hs; exact RRel.ok (A := AVs) (.cons rfl .nil) hs1
  · -- tonumber
    vcases h0 : first args , first args'
    all_goals try simp only []
    all_goals first | vleaf | (refine RRel.ok (A := AVs) (.cons (VRel.flat ?_) .nil) h; split <;> trivial)
  · -- rawget
    vcases h0 : first args , first args'
    all_goals try simp only []
    all_goals first | vleaf | exact RRel.ok (A := AVs) (.cons (h.rawGet h0 h1) .nil) h
  · -- rawset
    vcases h0 : first args , first args'
    all_goals try simp only []
    all_goals first | vleaf | exact RRel.ok (A := AVs) (.cons (show VRel β (.tbl _) (.tbl _) from h0) .nil) (h.rawSet h0 h1 h2)
  · -- rawequal
    rw [VRel.rawEq h.injT h.injF h0 h1]; vleaf
  · -- rawlen
    vcases h0 : first args , first args'
    all_goals try simp only []
    all_goals first | vleaf | (rw [h.border h0]; vleaf)
  · -- setmetatable
    vcases h0 : first args , first args' <;> vcases h1 : first (List.drop 1 args) , first (List.drop 1 args')
    all_goals try simp only []
    all_goals first
      | vleaf
      | exact RRel.ok (A := AVs) (.cons (show VRel β (.tbl _) (.tbl _) from h0) .nil)
          (h.setMt h0 (show OptRel β.t (some _) (some _) from h1))
      | exact RRel.ok (A := AVs) (.cons (show VRel β (.tbl _) (.tbl _) from h0) .nil)
          (h.setMt h0 (show OptRel β.t none none from trivial))
  · -- getmetatable
    have hm := h.metaOf h0
    revert hm
    generalize σ.metaOf (first args) = m
    generalize σ'.metaOf (first args') = m'
    intro hm
    cases m <;> cases m' <;> simp only [OptRel] at hm <;> vleaf
  · -- next
    vcases h0 : first args , first args'
    all_goals try simp only []
    all_goals first | vleaf | skip
    -- the table case
    have ht := (h.getTable h0).entries
    vcases h1 : first (List.drop 1 args) , first (List.drop 1 args')
    all_goals try simp only []
    case nil.nil =>
      revert ht
      generalize (σ.getTable _).entries = es
      generalize (σ'.getTable _).entries = es'
      intro ht
      cases ht with
      | nil => vleaf
      | @cons p q _ _ hpq _ =>
        obtain ⟨k, v⟩ := p; obtain ⟨k', v'⟩ := q
        exact RRel.ok (A := AVs) (.cons hpq.1 (.cons hpq.2 .nil)) h
    all_goals first
      | exact next_tail h ht (show VRel β (.bool _) (.bool _) from rfl)
      | exact next_tail h ht (show VRel β (.num _) (.num _) from rfl)
      | exact next_tail h ht (show VRel β (.str _) (.str _) from rfl)
      | exact next_tail h ht (show VRel β (.builtin _) (.builtin _) from rfl)
      | exact next_tail h ht (show VRel β (.tbl _) (.tbl _) from h1)
      | exact next_tail h ht (show VRel β (.fn _) (.fn _) from h1)
  · -- pairs
    vcases h0 : first args , first args'
    all_goals try simp only []
    all_goals vleaf
  · -- ipairs
    vcases h0 : first args , first args'
    all_goals try simp only []
    all_goals vleaf
  · -- ipairs_iter
    generalize (toNumber? (first (List.drop 1 args))).bind N.toNat? = o
    vcases h0 : first args , first args'
    all_goals cases o
    all_goals try simp only []
    all_goals first | vleaf | skip
    rename_i a b i
    have hr := h.rawGet h0 (show VRel β (.num (N.ofNat (i + 1))) (.num (N.ofNat (i + 1))) from rfl)
    vcases hr : σ.rawGet a (.num (N.ofNat (i + 1))) , σ'.rawGet b (.num (N.ofNat (i + 1)))
    all_goals try simp only []
    all_goals vleaf
  · -- unpack
    vcases h0 : first args , first args'
    all_goals try simp only []
    all_goals first | vleaf | (rw [h.border h0]; exact RRel.ok (A := AVs) (h.unpackAux h0 _ _) h)
  · -- table.unpack
    vcases h0 : first args , first args'
    all_goals try simp only []
    all_goals first | vleaf | (rw [h.border h0]; exact RRel.ok (A := AVs) (h.unpackAux h0 _ _) h)
  · -- pcall
    have hr := ih.callVal _ _ _ _ _ _ h0 (ha.drop 1) h
    revert hr
    generalize callVal call ρ d (first args) (List.drop 1 args) σ = r
    generalize callVal call ρ d (first args') (List.drop 1 args') σ' = r'
    intro hr
    cases r <;> cases r' <;> simp only [RRel] at hr ⊢
    · obtain ⟨β', hle, hv, hs⟩ := hr
      exact ⟨β', hle, .cons rfl hv, hs⟩
    · exact hr
    · obtain ⟨β', hle, hv, hs⟩ := hr
      exact ⟨β', hle, .cons rfl (.cons hv .nil), hs⟩
    · exact hr
    · exact hr
    · exact hr
  · -- error
    exact RRel.err h0 h
  · -- assert
    split
    · exact RRel.ok (A := AVs) ha h
    · refine RRel.err ?_ h
      have hd := ha.drop 1
      revert hd
      generalize List.drop 1 args = l
      generalize List.drop 1 args' = l'
      intro hd
      cases hd with
      | nil => exact rfl
      | cons hx _ => exact hx
  · repeat' (first | vleaf | split)   -- math.floor
  · repeat' (first | vleaf | split)   -- math.sqrt
  · repeat' (first | vleaf | split)   -- math.abs
  · repeat' (first | vleaf | split)   -- math.max
  · repeat' (first | vleaf | split)   -- math.min
  · -- string.format
    vcases h0 : first args , first args'
    all_goals try simp only []
    all_goals first | vleaf | skip
    exact RRel.bind (ih.formatAux _ _ _ _ _ _ (ha.drop 1) h) fun β1 _ s s' hs σ1 σ1' hs1 => by
      cases hs; exact RRel.ok (A := AVs) (.cons rfl .nil) hs1
  · -- string.char
    rw [mapM_rel (fun v v' hv => by rw [VRel.toNumber hv]) ha]
    repeat' (first | vleaf | split)
  · repeat' (first | vleaf | split)   -- string.rep
  · repeat' (first | vleaf | split)   -- string.len
  · -- string.sub
    vcases h2 : first (List.drop 2 args) , first (List.drop 2 args')
    all_goals repeat' (first | vleaf | split)
  · repeat' (first | vleaf | split)   -- string.byte
  · repeat' (first | vleaf | split)   -- string.upper
  · repeat' (first | vleaf | split)   -- string.lower
  · -- table.insert
    generalize args.length = len
    vcases h0 : first args , first args'
    all_goals rcases len with _ | _ | _ | len
    all_goals try simp only []
    all_goals first | vleaf | skip
    rw [h.border h0]
    exact RRel.ok (A := AVs) .nil (h.rawSet h0 rfl h1)
  · -- table.remove
    generalize args.length = len
    vcases h0 : first args , first args'
    all_goals rcases len with _ | _ | len
    all_goals try simp only []
    all_goals first | vleaf | skip
    rw [h.border h0]
    split
    · vleaf
    · exact RRel.ok (A := AVs) (.cons (h.rawGet h0 rfl) .nil) (h.rawSet h0 rfl (show VRel β .nil .nil from trivial))
  · -- table.concat
    vcases h1 : first (List.drop 1 args) , first (List.drop 1 args') <;> vcases h0 : first args , first args'
    all_goals try simp only []
    all_goals first | vleaf | skip
    all_goals
      rw [h.border h0, mapM_rel (f := toStringPrim?) (fun v v' hv => VRel.toStringPrim hv) (h.unpackAux h0 _ _)]
      repeat' (first | vleaf | split)
  · vleaf

theorem libP_succ (hc : CallOK Q cx call) (hρ : OracleFlat ρ) {d : Nat} (ih : LibP Q cx call ρ d) : LibP Q cx call ρ (d + 1) where
  callVal := fun f f' args args' σ σ' hf ha h => callVal_succ hc hρ ih f f' args args' σ σ' hf ha h
  tostringVal := fun v v' σ σ' hv h => tostringVal_succ ih v v' σ σ' hv h
  formatAux := fun fmt args args' acc σ σ' ha h => formatAux_succ ih fmt args args' acc σ σ' ha h
  libCall := fun name args args' σ σ' ha h => libCall_succ ih name args args' σ σ' ha h

theorem libP (hc : CallOK Q cx call) (hρ : OracleFlat ρ) : ∀ d, LibP Q cx call ρ d
  | 0 => libP_zero
  | d + 1 => libP_succ hc hρ (libP hc hρ d)

end DarkluaModel.Sem.HeapU
