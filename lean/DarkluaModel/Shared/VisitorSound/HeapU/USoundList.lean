import DarkluaModel.Shared.VisitorSound.HeapU.USound
/-!
# Stage 4 compatibility lemmas: lists, table entries, interpolation segments, targets
-/
namespace DarkluaModel.Sem.HeapU
variable {Q : QRel} {cx : Cx} {D : List DName}

theorem SoundEs.nil : SoundEs Q cx D [] [] := by
  intro N call ρ k env env' σ σ' β hp hs he; simp only [evalEs]; exact RRel.ok (A := AVs) .nil hs

/-- `hlen`: both tails are empty or both are not (the last element is evaluated multi-valued) -/
theorem SoundEs.cons {x x' xs xs'} (hlen : xs = [] ↔ xs' = []) (ihx : SoundE Q cx D x x')
    (ihxs : SoundEs Q cx D xs xs') : SoundEs Q cx D (x :: xs) (x' :: xs') := by
  intro N call ρ k env env' σ σ' β hp hs he
  cases xs with
  | nil =>
    rw [hlen.mp rfl]
    simp only [evalEs]; exact ihx N call ρ k env env' σ σ' β hp hs he
  | cons y ys =>
    cases xs' with
    | nil => exact absurd (hlen.mpr rfl) (by simp)
    | cons y' ys' =>
      simp only [evalEs]
      exact RRel.bind (ihx N call ρ k env env' σ σ' β hp hs he) fun β1 h1 _ _ hv _ _ h =>
        RRel.bind (ihxs N call ρ k env env' _ _ _ hp h (he.mono h1)) fun _ h2 _ _ hw _ _ h =>
          RRel.ok (A := AVs) (.cons ((VRel.first hv).mono h2) hw) h

theorem SoundTs.nil : SoundTs Q cx D [] [] := by
  intro N call ρ k env env' σ σ' β hp hs he; simp only [evalTargets]
  exact RRel.ok (A := ATargets D) ⟨.nil, fun _ h => absurd h (by simp)⟩ hs

theorem SoundTs.cons {x x' xs xs'} (ihx : SoundT Q cx D x x') (ihxs : SoundTs Q cx D xs xs') :
    SoundTs Q cx D (x :: xs) (x' :: xs') := by
  intro N call ρ k env env' σ σ' β hp hs he
  simp only [evalTargets]
  refine RRel.bind (ihx N call ρ k env env' σ σ' β hp hs he) fun β1 h1 tg tg' htg _ _ h => ?_
  refine RRel.bind (ihxs N call ρ k env env' _ _ _ hp h (he.mono h1)) fun β2 h2 ts ts' hts _ _ h => ?_
  obtain ⟨hr, hok⟩ := htg
  obtain ⟨hrs, hoks⟩ := hts
  refine RRel.ok (A := ATargets D) ⟨.cons (hr.mono h2) hrs, fun t ht => ?_⟩ h
  cases ht with
  | head => exact hok
  | tail _ ht => exact hoks t ht

theorem SoundElifs.nil : SoundElifs Q cx D [] [] := by
  intro N call ρ k env env' σ σ' β hp hs he; simp only [evalElifs]; exact RRel.ok (A := AOVs) trivial hs

theorem SoundElifs.cons {c c' t t' xs xs'} (ihc : SoundE Q cx D c c') (iht : SoundE Q cx D t t')
    (ihxs : SoundElifs Q cx D xs xs') : SoundElifs Q cx D ((c, t) :: xs) ((c', t') :: xs') := by
  intro N call ρ k env env' σ σ' β hp hs he
  simp only [evalElifs]
  refine RRel.bind (ihc N call ρ k env env' σ σ' β hp hs he) fun β1 h1 _ _ hv _ _ h => ?_
  rw [VRel.truthy (VRel.first hv)]
  split
  · exact RRel.bind (iht N call ρ k env env' _ _ _ hp h (he.mono h1)) fun _ _ _ _ hv _ _ h =>
      RRel.ok (A := AOVs) (show VsRel _ [_] [_] from .cons (VRel.first hv) .nil) h
  · exact ihxs N call ρ k env env' _ _ _ hp h (he.mono h1)

theorem SoundEntries.nil : SoundEntries Q cx D [] [] := by
  intro N call ρ k env env' t t' i σ σ' β hp hs he ht; simp only [evalEntries]; exact RRel.ok (A := AEq) rfl hs

theorem SoundEntries.pos {v v' xs xs'} (hlen : xs = [] ↔ xs' = []) (ihv : SoundE Q cx D v v')
    (ihxs : SoundEntries Q cx D xs xs') : SoundEntries Q cx D (.pos v :: xs) (.pos v' :: xs') := by
  intro N call ρ k env env' t t' i σ σ' β hp hs he ht
  cases xs with
  | nil =>
    rw [hlen.mp rfl]
    simp only [evalEntries]
    exact RRel.bind (ihv N call ρ k env env' σ σ' β hp hs he) fun _ h1 _ _ hv _ _ h =>
      RRel.ok (A := AEq) rfl (h.setMany (h1.t _ _ ht) _ hv)
  | cons y ys =>
    cases xs' with
    | nil => exact absurd (hlen.mpr rfl) (by simp)
    | cons y' ys' =>
      simp only [evalEntries]
      exact RRel.bind (ihv N call ρ k env env' σ σ' β hp hs he) fun β1 h1 _ _ hv _ _ h =>
        ihxs N call ρ k env env' _ _ _ _ _ _ hp (h.rawSet (h1.t _ _ ht) rfl (VRel.first hv)) (he.mono h1) (h1.t _ _ ht)

theorem SoundEntries.named {key v v' xs xs'} (ihv : SoundE Q cx D v v') (ihxs : SoundEntries Q cx D xs xs') :
    SoundEntries Q cx D (.named key v :: xs) (.named key v' :: xs') := by
  intro N call ρ k env env' t t' i σ σ' β hp hs he ht
  simp only [evalEntries]
  exact RRel.bind (ihv N call ρ k env env' σ σ' β hp hs he) fun β1 h1 _ _ hv _ _ h =>
    ihxs N call ρ k env env' _ _ _ _ _ _ hp
      (h.rawSet (h1.t _ _ ht) (by simp only [strVal, VRel]) (VRel.first hv)) (he.mono h1) (h1.t _ _ ht)

theorem SoundEntries.keyed {ke ke' v v' xs xs'} (ihk : SoundE Q cx D ke ke') (ihv : SoundE Q cx D v v')
    (ihxs : SoundEntries Q cx D xs xs') : SoundEntries Q cx D (.keyed ke v :: xs) (.keyed ke' v' :: xs') := by
  intro N call ρ k env env' t t' i σ σ' β hp hs he ht
  simp only [evalEntries]
  refine RRel.bind (ihk N call ρ k env env' σ σ' β hp hs he) fun β1 h1 ks ks' hk _ _ h =>
    RRel.bind (ihv N call ρ k env env' _ _ _ hp h (he.mono h1)) fun β2 h2 vs vs' hv s s' h => ?_
  have he2 := (he.mono h1).mono h2
  have ht2 := h2.t _ _ (h1.t _ _ ht)
  have hk0 := (VRel.first hk).mono h2
  have hset : ∀ {key key' : Val N}, VRel β2 key key' →
      RRel Q cx β2 AEq (evalEntries call ρ k env t i xs (s.rawSet t key (first vs)))
        (evalEntries call ρ k env' t' i xs' (s'.rawSet t' key' (first vs'))) :=
    fun hkey => ihxs N call ρ k env env' _ _ _ _ _ _ hp (h.rawSet ht2 hkey (VRel.first hv)) he2 ht2
  revert hset
  vcases hk0 : first ks , first ks'
  all_goals intro hset
  all_goals try simp only []
  · exact RRel.errS h
  · exact hset (by vr)
  · split
    · exact RRel.errS h
    · exact hset (by vr)
  all_goals exact hset (by vr)

theorem SoundSegs.nil : SoundSegs Q cx D [] [] := by
  intro N call ρ k env env' acc σ σ' β hp hs he; simp only [evalSegs]; exact RRel.ok (A := AEq) rfl hs

theorem SoundSegs.s {b xs xs'} (ihxs : SoundSegs Q cx D xs xs') : SoundSegs Q cx D (.s b :: xs) (.s b :: xs') := by
  intro N call ρ k env env' acc σ σ' β hp hs he
  simp only [evalSegs]
  exact ihxs N call ρ k env env' _ _ _ _ hp hs he

theorem SoundSegs.v {x x' xs xs'} (ihx : SoundE Q cx D x x') (ihxs : SoundSegs Q cx D xs xs') :
    SoundSegs Q cx D (.v x :: xs) (.v x' :: xs') := by
  intro N call ρ k env env' acc σ σ' β hp hs he
  simp only [evalSegs]
  exact RRel.bind (ihx N call ρ k env env' σ σ' β hp hs he) fun β1 h1 _ _ hv _ _ h =>
    RRel.bind (tostringVal_param hp.call hp.flat _ (VRel.first hv) h) fun β2 h2 _ _ hs _ _ h => by
      cases hs; exact ihxs N call ρ k env env' _ _ _ _ hp h ((he.mono h1).mono h2)

/-! ### targets -/

theorem SoundT.var {a : String} (ha : DName.ref a ∉ D ∧ DName.wat a ∉ D) : SoundT Q cx D (.var a) (.var a) := by
  intro N call ρ k env env' σ σ' β hp hs he; simp only [evalTarget]
  exact RRel.ok (A := ATarget D) ⟨rfl, ha⟩ hs

theorem SoundT.field {x x' n} (ih : SoundE Q cx D x x') : SoundT Q cx D (.field x n) (.field x' n) := by
  intro N call ρ k env env' σ σ' β hp hs he
  simp only [evalTarget]
  exact RRel.bind (ih N call ρ k env env' σ σ' β hp hs he) fun _ _ _ _ hv _ _ h =>
    RRel.ok (A := ATarget D) ⟨⟨VRel.first hv, by simp only [strVal, VRel]⟩, trivial⟩ h

theorem SoundT.index {x x' i i'} (ih : SoundE Q cx D x x') (ihi : SoundE Q cx D i i') :
    SoundT Q cx D (.index x i) (.index x' i') := by
  intro N call ρ k env env' σ σ' β hp hs he
  simp only [evalTarget]
  exact RRel.bind (ih N call ρ k env env' σ σ' β hp hs he) fun β1 h1 _ _ hv _ _ h =>
    RRel.bind (ihi N call ρ k env env' _ _ _ hp h (he.mono h1)) fun _ h2 _ _ hi _ _ h =>
      RRel.ok (A := ATarget D) ⟨⟨(VRel.first hv).mono h2, VRel.first hi⟩, trivial⟩ h

theorem SoundT.nonLv {x x' : Expr} (h : x.isLv = false) (h' : x'.isLv = false) : SoundT Q cx D x x' := by
  intro N call ρ k env env' σ σ' β hp hs he
  rw [evalTarget_nonLv _ _ _ _ _ h, evalTarget_nonLv _ _ _ _ _ h']
  exact RRel.errS hs

end DarkluaModel.Sem.HeapU
