import DarkluaModel.Shared.VisitorSound.HeapU.UCtx
/-!
# `Sem.HeapU`: one source, two simultaneous leaf substitutions

A chain of `Vk…` links cannot carry a leaf whose two sides mention ONE-SIDED names (`M.x()` on the left against
`__ref_require("x")` on the right): every intermediate program of a chain is run on both sides, and `NoRef D` must
hold of it while the one-sided names are dead (`.ref M ∈ D`). Such rewrites are related in ONE simultaneous `VR`
derivation instead: both programs are images of the same SOURCE under two substitutions that replace the same
expression nodes.

`m : Expr → Option (Expr × Expr)` — the matcher: what a source expression node is replaced by on the left and on
the right (the node is then not descended into); `subE m true` / `subE m false` … are the two substitutions.
`subB_vr`: if the source references no dead name (`NoRefB D src`; it may READ always-watched names only through
matched nodes) and every matched node is replaced by `VR`-related leaves, then
`VR cx D (.b (subB m true src)) (.b (subB m false src)) D`. Feed that to `fundB` / `observe_of_soundB`.
-/
namespace DarkluaModel.Sem.HeapU
open Heap (addSelf)

abbrev Matcher := Expr → Option (Expr × Expr)

/-- the replacement of a matched node on the chosen side, `d` (the node rebuilt from its substituted children)
otherwise -/
def pick (m : Matcher) (side : Bool) (e d : Expr) : Expr :=
  match m e with
  | some p => if side then p.1 else p.2
  | none => d

mutual
  def subE (m : Matcher) (sd : Bool) : Expr → Expr
    | .paren e => pick m sd (.paren e) (.paren (subE m sd e))
    | .un op e => pick m sd (.un op e) (.un op (subE m sd e))
    | .bin op l r => pick m sd (.bin op l r) (.bin op (subE m sd l) (subE m sd r))
    | .call f mt k args => pick m sd (.call f mt k args) (.call (subE m sd f) mt k (subEs m sd args))
    | .field e n => pick m sd (.field e n) (.field (subE m sd e) n)
    | .index e k => pick m sd (.index e k) (.index (subE m sd e) (subE m sd k))
    | .fn f => pick m sd (.fn f) (.fn (subF m sd f))
    | .table es => pick m sd (.table es) (.table (subEntries m sd es))
    | .ifx c t el e => pick m sd (.ifx c t el e) (.ifx (subE m sd c) (subE m sd t) (subElifs m sd el) (subE m sd e))
    | .interp segs => pick m sd (.interp segs) (.interp (subSegs m sd segs))
    | .cast e ty => pick m sd (.cast e ty) (.cast (subE m sd e) ty)
    | .inst e tys => pick m sd (.inst e tys) (.inst (subE m sd e) tys)
    | .nil => pick m sd .nil .nil
    | .true => pick m sd .true .true
    | .false => pick m sd .false .false
    | .vararg => pick m sd .vararg .vararg
    | .num x => pick m sd (.num x) (.num x)
    | .str x => pick m sd (.str x) (.str x)
    | .var x => pick m sd (.var x) (.var x)
  def subEs (m : Matcher) (sd : Bool) : List Expr → List Expr
    | [] => []
    | e :: es => subE m sd e :: subEs m sd es
  def subElifs (m : Matcher) (sd : Bool) : List (Expr × Expr) → List (Expr × Expr)
    | [] => []
    | (c, t) :: es => (subE m sd c, subE m sd t) :: subElifs m sd es
  def subEntries (m : Matcher) (sd : Bool) : List Entry → List Entry
    | [] => []
    | .pos v :: es => .pos (subE m sd v) :: subEntries m sd es
    | .named k v :: es => .named k (subE m sd v) :: subEntries m sd es
    | .keyed k v :: es => .keyed (subE m sd k) (subE m sd v) :: subEntries m sd es
  def subSegs (m : Matcher) (sd : Bool) : List Seg → List Seg
    | [] => []
    | .s b :: es => .s b :: subSegs m sd es
    | .v e :: es => .v (subE m sd e) :: subSegs m sd es
  /-- assignment targets: the target node itself is never replaced, its sub-expressions are -/
  def subT (m : Matcher) (sd : Bool) : Expr → Expr
    | .field e n => .field (subE m sd e) n
    | .index e k => .index (subE m sd e) (subE m sd k)
    | .paren e => .paren e
    | .un op e => .un op e
    | .bin op l r => .bin op l r
    | .call f mt k args => .call f mt k args
    | .fn f => .fn f
    | .table es => .table es
    | .ifx c t el e => .ifx c t el e
    | .interp segs => .interp segs
    | .cast e ty => .cast e ty
    | .inst e tys => .inst e tys
    | .nil => .nil
    | .true => .true
    | .false => .false
    | .vararg => .vararg
    | .num x => .num x
    | .str x => .str x
    | .var x => .var x
  def subTs (m : Matcher) (sd : Bool) : List Expr → List Expr
    | [] => []
    | e :: es => subT m sd e :: subTs m sd es
  def subF (m : Matcher) (sd : Bool) : FnBody → FnBody
    | .mk ps v vt r g a b => .mk ps v vt r g a (subB m sd b)
  def subS (m : Matcher) (sd : Bool) : Stmt → Stmt
    | .assign ts vs => .assign (subTs m sd ts) (subEs m sd vs)
    | .cassign op t v => .cassign op (subT m sd t) (subE m sd v)
    | .callStmt c => .callStmt (subE m sd c)
    | .doBlock b => .doBlock (subB m sd b)
    | .function name mt f => .function name mt (subF m sd f)
    | .gfor ns vs b => .gfor ns (subEs m sd vs) (subB m sd b)
    | .nfor n a b none body => .nfor n (subE m sd a) (subE m sd b) none (subB m sd body)
    | .nfor n a b (some st) body => .nfor n (subE m sd a) (subE m sd b) (some (subE m sd st)) (subB m sd body)
    | .ifs brs none => .ifs (subBranches m sd brs) none
    | .ifs brs (some b) => .ifs (subBranches m sd brs) (some (subB m sd b))
    | .localAssign k ns vs => .localAssign k ns (subEs m sd vs)
    | .localFn k n f => .localFn k n (subF m sd f)
    | .repeat_ b c => .repeat_ (subB m sd b) (subE m sd c)
    | .while_ c b => .while_ (subE m sd c) (subB m sd b)
    | .typeDecl ex n ty => .typeDecl ex n ty
    | .typeFn ex n f => .typeFn ex n f
  def subBranches (m : Matcher) (sd : Bool) : List (Expr × Block) → List (Expr × Block)
    | [] => []
    | (c, b) :: es => (subE m sd c, subB m sd b) :: subBranches m sd es
  def subSs (m : Matcher) (sd : Bool) : List Stmt → List Stmt
    | [] => []
    | s :: ss => subS m sd s :: subSs m sd ss
  def subL (m : Matcher) (sd : Bool) : Last → Last
    | .ret es => .ret (subEs m sd es)
    | .brk => .brk
    | .cont => .cont
  def subB (m : Matcher) (sd : Bool) : Block → Block
    | .mk ss none => .mk (subSs m sd ss) none
    | .mk ss (some l) => .mk (subSs m sd ss) (some (subL m sd l))
end

theorem addSelf_subF (m : Matcher) (sd : Bool) (mt : Option String) (f : FnBody) :
    addSelf mt (subF m sd f) = subF m sd (addSelf mt f) := by
  cases mt <;> cases f <;> simp only [addSelf, subF]

variable {cx : Cx} {D : List DName} {m : Matcher}

theorem pick_vr (hleaf : ∀ e p, m e = some p → NoRefE D e → VR cx D (.e p.1) (.e p.2) D) (e : Expr)
    (hn : NoRefE D e) {x y : Expr} (h : VR cx D (.e x) (.e y) D) :
    VR cx D (.e (pick m true e x)) (.e (pick m false e y)) D := by
  unfold pick
  cases hm : m e with
  | none => exact h
  | some p => simpa using hleaf e p hm hn

section
variable (hleaf : ∀ e p, m e = some p → NoRefE D e → VR cx D (.e p.1) (.e p.2) D)
include hleaf

mutual
  theorem subE_vr : ∀ (e : Expr), NoRefE D e → VR cx D (.e (subE m true e)) (.e (subE m false e)) D
    | .nil, h => by simp only [subE]; exact pick_vr hleaf _ h (.reflE h)
    | .true, h => by simp only [subE]; exact pick_vr hleaf _ h (.reflE h)
    | .false, h => by simp only [subE]; exact pick_vr hleaf _ h (.reflE h)
    | .vararg, h => by simp only [subE]; exact pick_vr hleaf _ h (.reflE h)
    | .num _, h => by simp only [subE]; exact pick_vr hleaf _ h (.reflE h)
    | .str _, h => by simp only [subE]; exact pick_vr hleaf _ h (.reflE h)
    | .var _, h => by simp only [subE]; exact pick_vr hleaf _ h (.reflE h)
    | .paren e, h => by
      simp only [subE]; exact pick_vr hleaf _ h (.paren (subE_vr e (NoRefE.paren.mp h)))
    | .un _ e, h => by
      simp only [subE]; exact pick_vr hleaf _ h (.un (subE_vr e (NoRefE.un.mp h)))
    | .bin _ l r, h => by
      simp only [subE]
      exact pick_vr hleaf _ h (.bin (subE_vr l (NoRefE.bin.mp h).1) (subE_vr r (NoRefE.bin.mp h).2))
    | .call f _ _ args, h => by
      simp only [subE]
      exact pick_vr hleaf _ h (.call (subE_vr f (NoRefE.call.mp h).1) (subEs_vr args (NoRefE.call.mp h).2))
    | .field e _, h => by
      simp only [subE]; exact pick_vr hleaf _ h (.field (subE_vr e (NoRefE.field.mp h)))
    | .index e k, h => by
      simp only [subE]
      exact pick_vr hleaf _ h (.index (subE_vr e (NoRefE.index.mp h).1) (subE_vr k (NoRefE.index.mp h).2))
    | .fn f, h => by
      simp only [subE]; exact pick_vr hleaf _ h (.fn (subF_vr f (NoRefE.fn.mp h)))
    | .table es, h => by
      simp only [subE]; exact pick_vr hleaf _ h (.table (subEntries_vr es (NoRefE.table.mp h)))
    | .ifx c t el e, h => by
      simp only [subE]
      exact pick_vr hleaf _ h (.ifx (subE_vr c (NoRefE.ifx.mp h).1) (subE_vr t (NoRefE.ifx.mp h).2.1)
        (subElifs_vr el (NoRefE.ifx.mp h).2.2.1) (subE_vr e (NoRefE.ifx.mp h).2.2.2))
    | .interp segs, h => by
      simp only [subE]; exact pick_vr hleaf _ h (.interp (subSegs_vr segs (NoRefE.interp.mp h)))
    | .cast e _, h => by
      simp only [subE]; exact pick_vr hleaf _ h (.cast (subE_vr e (NoRefE.cast.mp h)))
    | .inst e _, h => by
      simp only [subE]; exact pick_vr hleaf _ h (.inst (subE_vr e (NoRefE.inst.mp h)))
  theorem subEs_vr : ∀ (es : List Expr), NoRefEs D es → VR cx D (.es (subEs m true es)) (.es (subEs m false es)) D
    | [], _ => by simp only [subEs]; exact .esNil
    | e :: es, h => by
      simp only [subEs]
      exact .esCons (subE_vr e (NoRefEs.cons.mp h).1) (subEs_vr es (NoRefEs.cons.mp h).2)
  theorem subElifs_vr : ∀ (es : List (Expr × Expr)), NoRefElifs D es →
      VR cx D (.elifs (subElifs m true es)) (.elifs (subElifs m false es)) D
    | [], _ => by simp only [subElifs]; exact .elifsNil
    | (c, t) :: es, h => by
      simp only [subElifs]
      exact .elifsCons (subE_vr c (NoRefElifs.cons.mp h).1) (subE_vr t (NoRefElifs.cons.mp h).2.1)
        (subElifs_vr es (NoRefElifs.cons.mp h).2.2)
  theorem subEntries_vr : ∀ (es : List Entry), NoRefEntries D es →
      VR cx D (.entries (subEntries m true es)) (.entries (subEntries m false es)) D
    | [], _ => by simp only [subEntries]; exact .entriesNil
    | .pos v :: es, h => by
      simp only [subEntries]
      exact .entriesPos (subE_vr v (NoRefEntries.pos.mp h).1) (subEntries_vr es (NoRefEntries.pos.mp h).2)
    | .named _ v :: es, h => by
      simp only [subEntries]
      exact .entriesNamed (subE_vr v (NoRefEntries.named.mp h).1) (subEntries_vr es (NoRefEntries.named.mp h).2)
    | .keyed k v :: es, h => by
      simp only [subEntries]
      exact .entriesKeyed (subE_vr k (NoRefEntries.keyed.mp h).1) (subE_vr v (NoRefEntries.keyed.mp h).2.1)
        (subEntries_vr es (NoRefEntries.keyed.mp h).2.2)
  theorem subSegs_vr : ∀ (es : List Seg), NoRefSegs D es → VR cx D (.segs (subSegs m true es)) (.segs (subSegs m false es)) D
    | [], _ => by simp only [subSegs]; exact .segsNil
    | .s _ :: es, h => by simp only [subSegs]; exact .segsS (subSegs_vr es (NoRefSegs.s.mp h))
    | .v e :: es, h => by
      simp only [subSegs]
      exact .segsV (subE_vr e (NoRefSegs.v.mp h).1) (subSegs_vr es (NoRefSegs.v.mp h).2)
  theorem subT_vr : ∀ (e : Expr), NoRefT D e → VR cx D (.t (subT m true e)) (.t (subT m false e)) D
    | .var _, h => by simp only [subT]; exact .reflT h
    | .field x _, h => by simp only [subT]; exact .tField (subE_vr x (NoRefT.field.mp h))
    | .index x k, h => by
      simp only [subT]; exact .tIndex (subE_vr x (NoRefT.index.mp h).1) (subE_vr k (NoRefT.index.mp h).2)
    | .nil, _ => by simp only [subT]; exact .tNonLv rfl rfl
    | .true, _ => by simp only [subT]; exact .tNonLv rfl rfl
    | .false, _ => by simp only [subT]; exact .tNonLv rfl rfl
    | .vararg, _ => by simp only [subT]; exact .tNonLv rfl rfl
    | .num _, _ => by simp only [subT]; exact .tNonLv rfl rfl
    | .str _, _ => by simp only [subT]; exact .tNonLv rfl rfl
    | .paren _, _ => by simp only [subT]; exact .tNonLv rfl rfl
    | .un _ _, _ => by simp only [subT]; exact .tNonLv rfl rfl
    | .bin _ _ _, _ => by simp only [subT]; exact .tNonLv rfl rfl
    | .call _ _ _ _, _ => by simp only [subT]; exact .tNonLv rfl rfl
    | .fn _, _ => by simp only [subT]; exact .tNonLv rfl rfl
    | .table _, _ => by simp only [subT]; exact .tNonLv rfl rfl
    | .ifx _ _ _ _, _ => by simp only [subT]; exact .tNonLv rfl rfl
    | .interp _, _ => by simp only [subT]; exact .tNonLv rfl rfl
    | .cast _ _, _ => by simp only [subT]; exact .tNonLv rfl rfl
    | .inst _ _, _ => by simp only [subT]; exact .tNonLv rfl rfl
  theorem subTs_vr : ∀ (es : List Expr), NoRefTs D es → VR cx D (.ts (subTs m true es)) (.ts (subTs m false es)) D
    | [], _ => by simp only [subTs]; exact .tsNil
    | e :: es, h => by
      simp only [subTs]
      exact .tsCons (subT_vr e (NoRefTs.cons.mp h).1) (subTs_vr es (NoRefTs.cons.mp h).2)
  theorem subF_vr : ∀ (f : FnBody), NoRefF D f → VR cx D (.f (subF m true f)) (.f (subF m false f)) D
    | .mk _ _ _ _ _ _ b, h => by
      simp only [subF]
      exact .fnBody rfl (Heap.NoWat.names (NoRefF.mk.mp h).1) (subB_vr b (NoRefF.mk.mp h).2)
  theorem subS_vr : ∀ (s : Stmt), NoRefS D s → VR cx D (.s (subS m true s)) (.s (subS m false s)) D
    | .assign ts vs, h => by
      simp only [subS]; exact .assign (subTs_vr ts (NoRefS.assign.mp h).1) (subEs_vr vs (NoRefS.assign.mp h).2)
    | .cassign _ t v, h => by
      simp only [subS]; exact .cassign (subT_vr t (NoRefS.cassign.mp h).1) (subE_vr v (NoRefS.cassign.mp h).2)
    | .callStmt c, h => by simp only [subS]; exact .callStmt (subE_vr c (NoRefS.callStmt.mp h))
    | .doBlock b, h => by simp only [subS]; exact .doBlock (subB_vr b (NoRefS.doBlock.mp h))
    | .function [] mt (.mk ps v vt r g a b), h => by
      have hF := Heap.NoRefF.addSelf (NoRefS.functionNil.mp h).2 (NoRefS.functionNil.mp h).1
      simp only [subS, subF]
      refine .function (fun _ hr => by simp at hr) ?_
      cases mt <;> simp only [addSelf] at hF ⊢ <;>
        exact .fnBody rfl (Heap.NoWat.names (NoRefF.mk.mp hF).1) (subB_vr b (NoRefF.mk.mp hF).2)
    | .function (root :: _) mt (.mk ps v vt r g a b), h => by
      have hF := Heap.NoRefF.addSelf (NoRefS.functionCons.mp h).2.2.2 (NoRefS.functionCons.mp h).2.2.1
      simp only [subS, subF]
      refine .function (fun _ hr => by
        cases hr; exact ⟨(NoRefS.functionCons.mp h).1, (NoRefS.functionCons.mp h).2.1⟩) ?_
      cases mt <;> simp only [addSelf] at hF ⊢ <;>
        exact .fnBody rfl (Heap.NoWat.names (NoRefF.mk.mp hF).1) (subB_vr b (NoRefF.mk.mp hF).2)
    | .gfor _ vs b, h => by
      simp only [subS]
      exact .gfor rfl (Heap.NoWat.names (NoRefS.gfor.mp h).1) (subEs_vr vs (NoRefS.gfor.mp h).2.1)
        (subB_vr b (NoRefS.gfor.mp h).2.2)
    | .nfor (.mk _ _) a b none body, h => by
      simp only [subS]
      exact .nforNone rfl (NoRefS.nforNone.mp h).1 (subE_vr a (NoRefS.nforNone.mp h).2.1)
        (subE_vr b (NoRefS.nforNone.mp h).2.2.1) (subB_vr body (NoRefS.nforNone.mp h).2.2.2)
    | .nfor (.mk _ _) a b (some st) body, h => by
      simp only [subS]
      exact .nforSome rfl (NoRefS.nforSome.mp h).1 (subE_vr a (NoRefS.nforSome.mp h).2.1)
        (subE_vr b (NoRefS.nforSome.mp h).2.2.1) (subE_vr st (NoRefS.nforSome.mp h).2.2.2.1)
        (subB_vr body (NoRefS.nforSome.mp h).2.2.2.2)
    | .ifs brs none, h => by simp only [subS]; exact .ifsNone (subBranches_vr brs (NoRefS.ifsNone.mp h))
    | .ifs brs (some b), h => by
      simp only [subS]
      exact .ifsSome (subBranches_vr brs (NoRefS.ifsSome.mp h).1) (subB_vr b (NoRefS.ifsSome.mp h).2)
    | .localAssign _ _ vs, h => by
      simp only [subS]
      exact .localAssign rfl (Heap.NoWat.names (NoRefS.localAssign.mp h).1) (subEs_vr vs (NoRefS.localAssign.mp h).2)
    | .localFn _ _ f, h => by
      simp only [subS]; exact .localFn (NoRefS.localFn.mp h).1 (subF_vr f (NoRefS.localFn.mp h).2)
    | .repeat_ b c, h => by
      simp only [subS]
      exact .repeat_ (.rep (subB_vr b (NoRefS.repeat_.mp h).1) (subE_vr c (NoRefS.repeat_.mp h).2))
    | .while_ c b, h => by
      simp only [subS]; exact .while_ (subE_vr c (NoRefS.while_.mp h).1) (subB_vr b (NoRefS.while_.mp h).2)
    | .typeDecl _ _ _, _ => by simp only [subS]; exact .typeDecl
    | .typeFn _ _ _, _ => by simp only [subS]; exact .typeFn
  theorem subBranches_vr : ∀ (es : List (Expr × Block)), NoRefBranches D es →
      VR cx D (.branches (subBranches m true es)) (.branches (subBranches m false es)) D
    | [], _ => by simp only [subBranches]; exact .branchesNil
    | (c, b) :: es, h => by
      simp only [subBranches]
      exact .branchesCons (subE_vr c (NoRefBranches.cons.mp h).1) (subB_vr b (NoRefBranches.cons.mp h).2.1)
        (subBranches_vr es (NoRefBranches.cons.mp h).2.2)
  theorem subSs_vr : ∀ (ss : List Stmt), NoRefSs D ss → VR cx D (.ss (subSs m true ss)) (.ss (subSs m false ss)) D
    | [], _ => by simp only [subSs]; exact .ssNil
    | s :: ss, h => by
      simp only [subSs]
      exact .ssCons (subS_vr s (NoRefSs.cons.mp h).1) (subSs_vr ss (NoRefSs.cons.mp h).2)
  theorem subL_vr : ∀ (l : Last), NoRefL D l → VR cx D (.l (subL m true l)) (.l (subL m false l)) D
    | .ret es, h => by simp only [subL]; exact .ret (subEs_vr es (NoRefL.ret.mp h))
    | .brk, h => by simp only [subL]; exact .reflL h
    | .cont, h => by simp only [subL]; exact .reflL h
  /-- **two substitutions of one source are `VR`-related** -/
  theorem subB_vr : ∀ (b : Block), NoRefB D b → VR cx D (.b (subB m true b)) (.b (subB m false b)) D
    | .mk ss none, h => by simp only [subB]; exact .blockNone (subSs_vr ss (NoRefB.none.mp h))
    | .mk ss (some l), h => by
      simp only [subB]
      exact .blockSome (subSs_vr ss (NoRefB.some.mp h).1) (subL_vr l (NoRefB.some.mp h).2)
end
end

end DarkluaModel.Sem.HeapU
