import DarkluaModel.Shared.VisitorSound.HeapU.UParam
import DarkluaModel.Shared.Driver
/-!
# Flat oracles (`OracleFlat`): which oracles qualify, and the oracle the harness uses

An oracle is a function of `(name, call counter, CANONICAL arguments)`: it never sees heap ids. A table or
closure id in its RESULT is therefore a forged reference — a number that means different objects in two runs
that allocate differently — and the stage-4 theorems are false for such oracles (the original and the rewritten
program would read different objects through it). `OracleFlat ρ` excludes exactly that: every result is a
scalar (`nil`, boolean, number, string) or a builtin name.

* `oracleFlat_iff` — `OracleFlat` is the pointwise decidable check `Val.isFlat`;
* `ExtOracle.ofScalarsU` — the oracles that factor through canonical scalars; all of them are flat, and every
  flat oracle is of this form up to the number representation (`oracleFlat_ofScalars`);
* `driverOracle_flat` — the oracle of the model driver (`Shared/Driver.lean`, the one the harness runs) is
  flat: theorems instantiated at `driverOracle` need no hypothesis (`OracleFlat.driver`).
-/
namespace DarkluaModel.Sem.HeapU
variable {N : NumOps}

def Val.isFlat : Val N → Bool
  | .tbl _ => false
  | .fn _ => false
  | _ => true

theorem Val.isFlat_iff (v : Val N) : Val.isFlat v = true ↔ Val.flat v := by
  cases v <;> simp [Val.isFlat, Val.flat]

theorem oracleFlat_iff (ρ : ExtOracle N) :
    OracleFlat ρ ↔ ∀ name k args, (ρ name k args).all Val.isFlat = true := by
  constructor
  · intro h name k args
    exact List.all_eq_true.mpr fun v hv => (Val.isFlat_iff v).mpr (h name k args v hv)
  · intro h name k args v hv
    exact (Val.isFlat_iff v).mp (List.all_eq_true.mp (h name k args) v hv)

/-- results without heap references -/
inductive Scalar (N : NumOps) where
  | nil
  | bool (b : Bool)
  | num (x : N.F)
  | str (s : List UInt8)
  | builtin (name : String)

def Scalar.toVal : Scalar N → Val N
  | .nil => .nil
  | .bool b => .bool b
  | .num x => .num x
  | .str s => .str s
  | .builtin n => .builtin n

theorem Scalar.toVal_flat (s : Scalar N) : Val.flat s.toVal := by cases s <;> trivial

/-- an oracle given by scalar results -/
def _root_.DarkluaModel.Sem.ExtOracle.ofScalarsU (g : String → Nat → List CVal → List (Scalar N)) : ExtOracle N :=
  fun name k args => (g name k args).map Scalar.toVal

theorem oracleFlat_ofScalars (g : String → Nat → List CVal → List (Scalar N)) : OracleFlat (ExtOracle.ofScalarsU g) := by
  intro name k args v hv
  obtain ⟨s, _, rfl⟩ := List.mem_map.mp hv
  exact s.toVal_flat

def Scalar.ofVal : Val N → Scalar N
  | .bool b => .bool b
  | .num x => .num x
  | .str s => .str s
  | .builtin n => .builtin n
  | _ => .nil

/-- conversely every flat oracle is given by scalar results -/
theorem OracleFlat.eq_ofScalars {ρ : ExtOracle N} (h : OracleFlat ρ) :
    ρ = ExtOracle.ofScalarsU fun name k args => (ρ name k args).map Scalar.ofVal := by
  funext name k args
  simp only [ExtOracle.ofScalarsU, List.map_map]
  symm
  calc List.map (Scalar.toVal ∘ Scalar.ofVal) (ρ name k args)
      = List.map id (ρ name k args) := List.map_congr_left fun v hv => by
        have := h name k args v hv
        cases v <;> first | rfl | exact absurd this (by simp [Val.flat])
    _ = ρ name k args := List.map_id _

/-- **the oracle the harness runs is flat** -/
theorem driverOracle_flat : OracleFlat DarkluaModel.Shared.driverOracle := by
  intro name k args v hv
  simp only [DarkluaModel.Shared.driverOracle] at hv
  split at hv
  · simp only [List.mem_singleton] at hv; subst hv; trivial
  · split at hv
    · simp only [List.mem_singleton] at hv; subst hv; trivial
    · cases hv

/-- a constant-result oracle is flat when its results are -/
theorem oracleFlat_const {vs : List (Val N)} (h : ∀ v ∈ vs, Val.flat v) : OracleFlat (fun _ _ _ => vs) :=
  fun _ _ _ v hv => h v hv

end DarkluaModel.Sem.HeapU
