import DarkluaModel.Shared.VisitorSound.HeapU.USteps
import DarkluaModel.Shared.VisitorSound.Heap.HSteps
/-!
# `Sem.HeapU`: what a leaf knows about watched names — bindings, facts about watched globals, call facts

* `EnvOK.watL` / `watR`: under `.wat n ∈ D` the two environments bind `n` exactly as `cx.bindL` / `cx.bindR` say;
  `EnvOK.alwaysL` / `alwaysR` for the names of `cx.W` (watched in every environment pair).
* watched GLOBALS (`n ∈ cx.W`, bound on neither side): `SRel.readGlobal` (value fact `cx.G`), `SoundE.injectGlobal`,
  `CtxOK` / `CtxEqE` / `CtxEqS` / `CtxLeE` / `CtxLeS` (contextual exact steps on the original side),
  `IdGlobal` + `SoundE.dropIdCall` (`name(e)` ~ `e` for a watched global known to act as the identity),
  with the links `VkE.injectGlobal`, `VkE.ofCtxEq`, `VkS.ofCtxEq`, `VkE.ofCtxLe`, `VkS.ofCtxLe`, `VkE.dropIdCall`.
  (Ports of stage 3, `Shared/VisitorSound/Heap/HSteps.lean`; `idBody` / `callClosure_idBody` are shared.)
-/
namespace DarkluaModel.Sem.HeapU
open Heap (idBody callClosure_idBody)
variable {cx : Cx} {N : NumOps} {β : Inj N} {D : List DName} {env env' : Env N}

/-! ### bindings of watched names -/

theorem EnvOK.watL (he : EnvOK cx β D env env') {n : String} (h : DName.wat n ∈ D) :
    lookupAssoc n env.locals = lookupAssoc n cx.bindL := (he.loc.wb n h).1
theorem EnvOK.watR (he : EnvOK cx β D env env') {n : String} (h : DName.wat n ∈ D) :
    lookupAssoc n env'.locals = lookupAssoc n cx.bindR := (he.loc.wb n h).2
/-- the names of `cx.W` are watched in every environment pair -/
theorem EnvOK.alwaysL (he : EnvOK cx β D env env') {n : String} (h : n ∈ cx.W) :
    lookupAssoc n env.locals = lookupAssoc n cx.bindL := he.watL (he.loc.dw n h)
theorem EnvOK.alwaysR (he : EnvOK cx β D env env') {n : String} (h : n ∈ cx.W) :
    lookupAssoc n env'.locals = lookupAssoc n cx.bindR := he.watR (he.loc.dw n h)

/-- a watched name bound to cell `c` on the left reads that cell -/
theorem EnvOK.lookupVarL (he : EnvOK cx β D env env') {n : String} {c : Nat} (h : DName.wat n ∈ D)
    (hb : lookupAssoc n cx.bindL = some c) (σ : State N) : lookupVar env n σ = σ.getCell c := by
  simp only [lookupVar, he.watL h, hb]
theorem EnvOK.lookupVarR (he : EnvOK cx β D env env') {n : String} {c : Nat} (h : DName.wat n ∈ D)
    (hb : lookupAssoc n cx.bindR = some c) (σ' : State N) : lookupVar env' n σ' = σ'.getCell c := by
  simp only [lookupVar, he.watR h, hb]
/-- a watched name bound on neither side reads the global -/
theorem EnvOK.lookupVarGL (he : EnvOK cx β D env env') {n : String} (h : DName.wat n ∈ D)
    (hb : lookupAssoc n cx.bindL = none) (σ : State N) : lookupVar env n σ = σ.getGlobal n := by
  simp only [lookupVar, he.watL h, hb]
theorem EnvOK.lookupVarGR (he : EnvOK cx β D env env') {n : String} (h : DName.wat n ∈ D)
    (hb : lookupAssoc n cx.bindR = none) (σ' : State N) : lookupVar env' n σ' = σ'.getGlobal n := by
  simp only [lookupVar, he.watR h, hb]

/-- a watched global with a value fact reads that value, on both sides -/
theorem SRel.readGlobal {Q : QRel} {σ σ' : State N} (hs : SRel Q cx β σ σ') (he : EnvOK cx β D env env')
    {name : String} {v : Val N} (hW : name ∈ cx.W) (hL : lookupAssoc name cx.bindL = none)
    (hR : lookupAssoc name cx.bindR = none) (hv : (name, v) ∈ cx.G N) :
    Sem.lookupVar env name σ = v ∧ Sem.lookupVar env' name σ' = v :=
  ⟨by rw [he.lookupVarGL (he.loc.dw name hW) hL]; exact (hs.ginv _ hv).1,
   by rw [he.lookupVarGR (he.loc.dw name hW) hR]; exact (hs.ginv _ hv).2⟩

/-! ### value facts -/

/-- **Context step.** A watched global `name` whose value is known (`cx.G`) can be replaced by an expression
`value` that always evaluates, purely, to that value. -/
theorem SoundE.injectGlobal {Q : QRel} {name : String} {value : Expr} (hW : name ∈ cx.W)
    (hL : lookupAssoc name cx.bindL = none := by rfl) (hR : lookupAssoc name cx.bindR = none := by rfl)
    (hval : ∀ (N : NumOps) (call : CallFn N) (ρ : ExtOracle N) (k : Nat) (env : Env N) (σ : State N),
      ∃ v, (name, v) ∈ cx.G N ∧ evalE call ρ k env value σ = .ok [v] σ) :
    SoundE Q cx D (.var name) value := by
  intro N call ρ k env env' σ σ' β _ hs he
  obtain ⟨v, hv, hev⟩ := hval N call ρ k env' σ'
  have hl := (hs.readGlobal he hW hL hR hv).1
  have hg : VRel β v v := by
    have := hs.getGlobal name
    rw [(hs.ginv _ hv).1, (hs.ginv _ hv).2] at this
    exact this
  simp only [evalE, hl, hev]
  exact RRel.ok (.cons hg .nil) hs

theorem VkE.injectGlobal {name : String} {value : Expr} (hW : name ∈ cx.W)
    (hL : lookupAssoc name cx.bindL = none := by rfl) (hR : lookupAssoc name cx.bindR = none := by rfl)
    (hval : ∀ (N : NumOps) (call : CallFn N) (ρ : ExtOracle N) (k : Nat) (env : Env N) (σ : State N),
      ∃ v, (name, v) ∈ cx.G N ∧ evalE call ρ k env value σ = .ok [v] σ)
    (hnr : ∀ D, NoRefE D value) : (VkE cx) (.var name) value :=
  fun D _ _ => ⟨.genE fun _ _ => SoundE.injectGlobal hW hL hR hval, hnr D⟩

/-! ### contextual exact steps on the original side -/

/-- what a hook may assume about the ORIGINAL side's run-time context at a node judged under the dead set `D`:
every name watched by `D` is bound as the context says (`none`: it reads the global), the always-watched names are
watched, the value facts and the function facts about watched globals hold -/
structure CtxOK (cx : Cx) (D : List DName) {N : NumOps} (env : Env N) (σ : State N) : Prop where
  bound : ∀ n, DName.wat n ∈ D → lookupAssoc n env.locals = lookupAssoc n cx.bindL
  watched : ∀ n ∈ cx.W, DName.wat n ∈ D
  facts : ∀ p ∈ cx.G N, σ.getGlobal p.1 = p.2
  fnFacts : ∀ p ∈ cx.F, FnGlobal σ p.1 p.2

theorem CtxOK.of {Q : QRel} {σ σ' : State N} (hs : SRel Q cx β σ σ') (he : EnvOK cx β D env env') : CtxOK cx D env σ :=
  ⟨fun n hn => he.watL hn, he.loc.dw, fun p hp => (hs.ginv p hp).1, fun p hp => (hs.finv p hp).1⟩

/-- contextual exact equality: same result and state in every context satisfying `CtxOK` -/
def CtxEqE (cx : Cx) (D : List DName) (a a' : Expr) : Prop :=
  ∀ (N : NumOps) (call : CallFn N) (ρ : ExtOracle N) (k : Nat) (env : Env N) (σ : State N),
    CtxOK cx D env σ → evalE call ρ k env a' σ = evalE call ρ k env a σ
def CtxEqS (cx : Cx) (D : List DName) (a a' : Stmt) : Prop :=
  ∀ (N : NumOps) (call : CallFn N) (ρ : ExtOracle N) (k : Nat) (env : Env N) (σ : State N),
    CtxOK cx D env σ → execS call ρ k env a' σ = execS call ρ k env a σ

theorem SoundE.ofCtxEq {Q : QRel} {a a' : Expr} (h : CtxEqE cx D a a') (hrefl : SoundE Q cx D a' a') :
    SoundE Q cx D a a' := by
  intro N call ρ k env env' σ σ' β hc hs he
  rw [← h N call ρ k env σ (.of hs he)]
  exact hrefl N call ρ k env env' σ σ' β hc hs he

theorem SoundS.ofCtxEq {Q : QRel} {a a' : Stmt} (h : CtxEqS cx D a a') (hrefl : SoundS Q cx D a' a') :
    SoundS Q cx D a a' := by
  intro N call ρ k env env' σ σ' β hc hs he
  rw [← h N call ρ k env σ (.of hs he)]
  exact hrefl N call ρ k env env' σ σ' β hc hs he

theorem VkE.ofCtxEq {a a' : Expr} (h : ∀ D, WatOK cx D → CtxEqE cx D a a')
    (hnr : ∀ D, WatOK cx D → NoRefE D a → NoRefE D a') : (VkE cx) a a' :=
  fun D hd hn => ⟨.genE fun _ hq => SoundE.ofCtxEq (h D hd) (reflE hq a' D (hnr D hd hn)), hnr D hd hn⟩

theorem VkS.ofCtxEq {a a' : Stmt} (h : ∀ D, WatOK cx D → CtxEqS cx D a a')
    (hnr : ∀ D, WatOK cx D → NoRefS D a → NoRefS D a') : (VkS cx) a a' :=
  fun D hd hn => ⟨.genS fun _ hq => SoundS.ofCtxEq (h D hd) (reflS hq a' D (hnr D hd hn)), hnr D hd hn⟩

/-- contextual equality up to budget exhaustion of the original (`cx.upto`), with the context's assumption on the
call handler available -/
def CtxLeE (cx : Cx) (D : List DName) (a a' : Expr) : Prop :=
  ∀ (N : NumOps) (call : CallFn N) (ρ : ExtOracle N) (k : Nat) (env : Env N) (σ : State N),
    cx.CF N ρ k call → CtxOK cx D env σ →
      (cx.upto = true ∧ evalE call ρ k env a σ = .timeout) ∨ evalE call ρ k env a' σ = evalE call ρ k env a σ
def CtxLeS (cx : Cx) (D : List DName) (a a' : Stmt) : Prop :=
  ∀ (N : NumOps) (call : CallFn N) (ρ : ExtOracle N) (k : Nat) (env : Env N) (σ : State N),
    cx.CF N ρ k call → CtxOK cx D env σ →
      (cx.upto = true ∧ execS call ρ k env a σ = .timeout) ∨ execS call ρ k env a' σ = execS call ρ k env a σ

theorem SoundE.ofCtxLe {Q : QRel} {a a' : Expr} (h : CtxLeE cx D a a') (hrefl : SoundE Q cx D a' a') :
    SoundE Q cx D a a' := by
  intro N call ρ k env env' σ σ' β hc hs he
  rcases h N call ρ k env σ hc.cf (.of hs he) with h1 | h1
  · rw [h1.2]; exact RRel.timeout_left h1.1 _
  · rw [← h1]; exact hrefl N call ρ k env env' σ σ' β hc hs he

theorem SoundS.ofCtxLe {Q : QRel} {a a' : Stmt} (h : CtxLeS cx D a a') (hrefl : SoundS Q cx D a' a') :
    SoundS Q cx D a a' := by
  intro N call ρ k env env' σ σ' β hc hs he
  rcases h N call ρ k env σ hc.cf (.of hs he) with h1 | h1
  · rw [h1.2]; exact RRel.timeout_left h1.1 _
  · rw [← h1]; exact hrefl N call ρ k env env' σ σ' β hc hs he

theorem VkE.ofCtxLe {a a' : Expr} (h : ∀ D, WatOK cx D → CtxLeE cx D a a')
    (hnr : ∀ D, WatOK cx D → NoRefE D a → NoRefE D a') : (VkE cx) a a' :=
  fun D hd hn => ⟨.genE fun _ hq => SoundE.ofCtxLe (h D hd) (reflE hq a' D (hnr D hd hn)), hnr D hd hn⟩

theorem VkS.ofCtxLe {a a' : Stmt} (h : ∀ D, WatOK cx D → CtxLeS cx D a a')
    (hnr : ∀ D, WatOK cx D → NoRefS D a → NoRefS D a') : (VkS cx) a a' :=
  fun D hd hn => ⟨.genS fun _ hq => SoundS.ofCtxLe (h D hd) (reflS hq a' D (hnr D hd hn)), hnr D hd hn⟩

/-! ### call facts -/

/-- what the context must know about a watched global `name` that acts as the identity on its arguments: it holds
the closure number `id` (fact `G`), whose body is `body` (fact `F`), and the call handler runs closures with that
body (and an empty captured environment) as the identity — or runs out of budget (`CF`; true of `callClosure ρ n`
for `function(...) return ... end`, `Heap.callClosure_idBody`). -/
structure IdGlobal (cx : Cx) (name : String) (id : Nat) (body : FnBody) : Prop where
  watched : name ∈ cx.W
  unboundL : lookupAssoc name cx.bindL = none := by rfl
  unboundR : lookupAssoc name cx.bindR = none := by rfl
  upto : cx.upto = true
  isFn : ∀ N, (name, Val.fn id) ∈ cx.G N
  hasBody : (name, body) ∈ cx.F
  runs : ∀ (N : NumOps) (ρ : ExtOracle N) (k : Nat) (call : CallFn N), cx.CF N ρ k call →
    ∀ (clo : Closure N) args σ, clo.body = body → clo.env = [] →
      call clo args σ = .ok args σ ∨ call clo args σ = .timeout

/-- **Call fact step.** `name(e)` (all values of `e` handed through) against `e'`, when `name` is a watched global
known to act as the identity (`IdGlobal`) — the shape of `remove_assertions` / `remove_debug_profiling` in
expression position. -/
theorem SoundE.dropIdCall {Q : QRel} {name : String} {id : Nat} {body : FnBody} {kd : ArgKind}
    {e e' : Expr} (hI : IdGlobal cx name id body) (ih : SoundE Q cx D e e') :
    SoundE Q cx D (.call (.var name) none kd [e]) e' := by
  intro N call ρ k env env' σ σ' β hc hs he
  have hl : lookupVar env name σ = .fn id :=
    (hs.readGlobal he hI.watched hI.unboundL hI.unboundR (hI.isFn N)).1
  simp only [evalE, evalEs, Res.bind, first, List.headD, hl]
  have h1 := ih N call ρ k env env' σ σ' β hc hs he
  revert h1
  generalize evalE call ρ k env e σ = r
  generalize evalE call ρ k env' e' σ' = r'
  intro h1
  cases r <;> cases r' <;> simp only [RRel] at h1
  · obtain ⟨β1, hle, ha, hs1⟩ := h1
    rename_i avs σ2 avs' σ2'
    simp only []
    cases k with
    | zero => simp only [callVal]; exact RRel.timeout_left hI.upto _
    | succ k =>
      obtain ⟨id2, clo, hg, hclo, hb, henv⟩ := (hs1.finv _ hI.hasBody).1
      have hid : id2 = id := by
        have := (hs1.ginv _ (hI.isFn N)).1
        simp only [] at this
        rw [this] at hg
        injection hg with hg; exact hg.symm
      subst hid
      simp only [callVal, hclo]
      rcases hI.runs N ρ (k + 1) call hc.cf clo avs σ2 hb henv with h2 | h2
      · rw [h2]; exact ⟨β1, hle, ha, hs1⟩
      · rw [h2]; exact RRel.timeout_left hI.upto _
  · exact RRel.timeout_right h1 _
  · obtain ⟨β1, hle, hv, hs1⟩ := h1
    exact ⟨β1, hle, hv, hs1⟩
  · exact RRel.timeout_right h1 _
  · exact RRel.timeout_left h1 _
  · exact RRel.timeout_left h1 _
  · trivial

theorem VkE.dropIdCall {name : String} {id : Nat} {body : FnBody} {kd : ArgKind} {e : Expr}
    (hI : IdGlobal cx name id body) : (VkE cx) (.call (.var name) none kd [e]) e :=
  fun D _ hn =>
    have he : NoRefE D e := (NoRefEs.cons.mp (NoRefE.call.mp hn).2).1
    ⟨.genE fun _ hq => SoundE.dropIdCall hI (reflE hq e D he), he⟩

end DarkluaModel.Sem.HeapU
