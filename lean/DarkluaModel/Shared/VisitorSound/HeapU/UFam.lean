import DarkluaModel.Shared.VisitorSound.HeapU.ULinks
import DarkluaModel.Shared.VisitorSound.Heap.HFam
/-!
# Unified stage-4 instance of `CongFam`: chains of `VR cx` links
-/
namespace DarkluaModel.Sem.HeapU
open Heap (addSelf addSelf_none ch_pairs)
variable {cx : Cx}

/-- a `var` target only rewrites to itself -/
theorem chainT_var {e e' : Expr} (h : Chain (VkT cx) e e') : ∀ a, e = .var a → e' = .var a := by
  induction h with
  | refl => exact fun _ h => h
  | cons hl _ ih => exact fun a ha => ih a (hl.var a ha)

/-! ### link-level congruences -/

theorem vk_paren {x x'} (h : (VkE cx) x x') : (VkE cx) (.paren x) (.paren x') := fun D hd hn =>
  ⟨.paren (h D hd (NoRefE.paren.mp hn)).1, NoRefE.paren.mpr (h D hd (NoRefE.paren.mp hn)).2⟩
theorem vk_un {op x x'} (h : (VkE cx) x x') : (VkE cx) (.un op x) (.un op x') := fun D hd hn =>
  ⟨.un (h D hd (NoRefE.un.mp hn)).1, NoRefE.un.mpr (h D hd (NoRefE.un.mp hn)).2⟩
theorem vk_bin {op l l' r r'} (h1 : (VkE cx) l l') (h2 : (VkE cx) r r') : (VkE cx) (.bin op l r) (.bin op l' r') := fun D hd hn =>
  have hh := NoRefE.bin.mp hn
  ⟨.bin (h1 D hd hh.1).1 (h2 D hd hh.2).1, NoRefE.bin.mpr ⟨(h1 D hd hh.1).2, (h2 D hd hh.2).2⟩⟩
theorem vk_call {f f' m k args args'} (h1 : (VkE cx) f f') (h2 : Forall2 (VkE cx) args args') :
    (VkE cx) (.call f m k args) (.call f' m k args') := fun D hd hn =>
  have hh := NoRefE.call.mp hn
  ⟨.call (h1 D hd hh.1).1 (vkEs h2 D hd hh.2).1, NoRefE.call.mpr ⟨(h1 D hd hh.1).2, (vkEs h2 D hd hh.2).2⟩⟩
theorem vk_field {x x' n} (h : (VkE cx) x x') : (VkE cx) (.field x n) (.field x' n) := fun D hd hn =>
  ⟨.field (h D hd (NoRefE.field.mp hn)).1, NoRefE.field.mpr (h D hd (NoRefE.field.mp hn)).2⟩
theorem vk_index {x x' k k'} (h1 : (VkE cx) x x') (h2 : (VkE cx) k k') : (VkE cx) (.index x k) (.index x' k') := fun D hd hn =>
  have hh := NoRefE.index.mp hn
  ⟨.index (h1 D hd hh.1).1 (h2 D hd hh.2).1, NoRefE.index.mpr ⟨(h1 D hd hh.1).2, (h2 D hd hh.2).2⟩⟩
theorem vk_fn {f f'} (h : (VkF cx) f f') : (VkE cx) (.fn f) (.fn f') := fun D hd hn => by
  have hh := h D hd none (NoRefE.fn.mp hn) (fun h => by simp at h)
  rw [addSelf_none, addSelf_none] at hh
  exact ⟨.fn hh.1, NoRefE.fn.mpr hh.2⟩
theorem vk_table {es es'} (h : Forall2 (EntryRel (VkE cx)) es es') : (VkE cx) (.table es) (.table es') := fun D hd hn =>
  ⟨.table (vkEntries h D hd (NoRefE.table.mp hn)).1, NoRefE.table.mpr (vkEntries h D hd (NoRefE.table.mp hn)).2⟩
theorem vk_ifx {c c' t t' el el' e e'} (h1 : (VkE cx) c c') (h2 : (VkE cx) t t') (h3 : Forall2 (PairRel (VkE cx) (VkE cx)) el el')
    (h4 : (VkE cx) e e') : (VkE cx) (.ifx c t el e) (.ifx c' t' el' e') := fun D hd hn =>
  have hh := NoRefE.ifx.mp hn
  ⟨.ifx (h1 D hd hh.1).1 (h2 D hd hh.2.1).1 (vkElifs h3 D hd hh.2.2.1).1 (h4 D hd hh.2.2.2).1,
    NoRefE.ifx.mpr ⟨(h1 D hd hh.1).2, (h2 D hd hh.2.1).2, (vkElifs h3 D hd hh.2.2.1).2, (h4 D hd hh.2.2.2).2⟩⟩
theorem vk_interp {s s'} (h : Forall2 (SegRel (VkE cx)) s s') : (VkE cx) (.interp s) (.interp s') := fun D hd hn =>
  ⟨.interp (vkSegs h D hd (NoRefE.interp.mp hn)).1, NoRefE.interp.mpr (vkSegs h D hd (NoRefE.interp.mp hn)).2⟩
theorem vk_cast {x x' ty ty'} (h : (VkE cx) x x') : (VkE cx) (.cast x ty) (.cast x' ty') := fun D hd hn =>
  ⟨.cast (h D hd (NoRefE.cast.mp hn)).1, NoRefE.cast.mpr (h D hd (NoRefE.cast.mp hn)).2⟩
theorem vk_inst {x x' ty ty'} (h : (VkE cx) x x') : (VkE cx) (.inst x ty) (.inst x' ty') := fun D hd hn =>
  ⟨.inst (h D hd (NoRefE.inst.mp hn)).1, NoRefE.inst.mpr (h D hd (NoRefE.inst.mp hn)).2⟩
theorem vk_tField {x x' n} (h : (VkE cx) x x') : (VkT cx) (.field x n) (.field x' n) :=
  ⟨fun D hd hn => ⟨.tField (h D hd (NoRefT.field.mp hn)).1, NoRefT.field.mpr (h D hd (NoRefT.field.mp hn)).2⟩,
    fun _ h => by cases h⟩
theorem vk_tIndex {x x' k k'} (h1 : (VkE cx) x x') (h2 : (VkE cx) k k') : (VkT cx) (.index x k) (.index x' k') :=
  ⟨fun D hd hn =>
    have hh := NoRefT.index.mp hn
    ⟨.tIndex (h1 D hd hh.1).1 (h2 D hd hh.2).1, NoRefT.index.mpr ⟨(h1 D hd hh.1).2, (h2 D hd hh.2).2⟩⟩,
    fun _ h => by cases h⟩
theorem vk_tNonLv {e e' : Expr} (h1 : e.isLv = false) (h2 : e'.isLv = false) : (VkT cx) e e' :=
  ⟨fun _ _ _ => ⟨.tNonLv h1 h2, Heap.NoRefT.nonLv h2⟩, fun a ha => by subst ha; simp [Expr.isLv] at h1⟩

/-! ### chain-level congruences (expressions) -/

theorem ch_entries {es es'} (h : Forall2 (EntryRel (Chain (VkE cx))) es es') : Chain (Forall2 (EntryRel (VkE cx))) es es' := by
  refine Chain.forall2 (Visitor.EntryRel.refl VkE.refl) (Forall2.imp (fun a b hab => ?_) h)
  cases a <;> cases b <;> simp only [EntryRel] at hab
  · exact Chain.map (L' := EntryRel (VkE cx)) Entry.pos (fun _ _ h => h) hab
  · obtain ⟨rfl, hab⟩ := hab
    exact Chain.map (L' := EntryRel (VkE cx)) (Entry.named _) (fun _ _ h => ⟨rfl, h⟩) hab
  · exact Chain.map2 (L' := EntryRel (VkE cx)) Entry.keyed VkE.refl VkE.refl (fun _ _ _ _ h1 h2 => ⟨h1, h2⟩) hab.1 hab.2

theorem ch_segs {es es'} (h : Forall2 (SegRel (Chain (VkE cx))) es es') : Chain (Forall2 (SegRel (VkE cx))) es es' := by
  refine Chain.forall2 (Visitor.SegRel.refl VkE.refl) (Forall2.imp (fun a b hab => ?_) h)
  cases a <;> cases b <;> simp only [SegRel] at hab
  · subst hab; exact .refl _
  · exact Chain.map (L' := SegRel (VkE cx)) Seg.v (fun _ _ h => h) hab

/-! ### link-level congruences (statements) -/

theorem vk_assign {ts ts' vs vs'} (h1 : Forall2 (VkT cx) ts ts') (h2 : Forall2 (VkE cx) vs vs') :
    (VkS cx) (.assign ts vs) (.assign ts' vs') := fun D hd hn =>
  have hh := NoRefS.assign.mp hn
  ⟨.assign (vkTs h1 D hd hh.1).1 (vkEs h2 D hd hh.2).1, NoRefS.assign.mpr ⟨(vkTs h1 D hd hh.1).2, (vkEs h2 D hd hh.2).2⟩⟩
theorem vk_cassign {op t t' v v'} (h1 : (VkT cx) t t') (h2 : (VkE cx) v v') :
    (VkS cx) (.cassign op t v) (.cassign op t' v') := fun D hd hn =>
  have hh := NoRefS.cassign.mp hn
  ⟨.cassign (h1.hr D hd hh.1).1 (h2 D hd hh.2).1, NoRefS.cassign.mpr ⟨(h1.hr D hd hh.1).2, (h2 D hd hh.2).2⟩⟩
theorem vk_callStmt {c c'} (h : (VkE cx) c c') : (VkS cx) (.callStmt c) (.callStmt c') := fun D hd hn =>
  ⟨.callStmt (h D hd (NoRefS.callStmt.mp hn)).1, NoRefS.callStmt.mpr (h D hd (NoRefS.callStmt.mp hn)).2⟩
theorem vk_doBlock {b b'} (h : (VkB cx) b b') : (VkS cx) (.doBlock b) (.doBlock b') := fun D hd hn =>
  let ⟨⟨_, hb⟩, hnb⟩ := h D hd (NoRefS.doBlock.mp hn)
  ⟨.doBlock hb, NoRefS.doBlock.mpr hnb⟩
theorem vk_function {name m f f'} (h : (VkF cx) f f') : (VkS cx) (.function name m f) (.function name m f') :=
  fun D hd hn => by
  cases name with
  | nil =>
    have hn' := NoRefS.functionNil.mp hn
    have hh := h D hd m hn'.2 hn'.1
    exact ⟨.function (fun _ hr => by simp at hr) hh.1, NoRefS.functionNil.mpr ⟨hn'.1, hh.2⟩⟩
  | cons root path =>
    have hn' := NoRefS.functionCons.mp hn
    have hh := h D hd m hn'.2.2.2 hn'.2.2.1
    exact ⟨.function (fun _ hr => by cases hr; exact ⟨hn'.1, hn'.2.1⟩) hh.1,
      NoRefS.functionCons.mpr ⟨hn'.1, hn'.2.1, hn'.2.2.1, hh.2⟩⟩
theorem vk_gfor {ns ns' vs vs' b b'} (hnm : ns.map TName.name = ns'.map TName.name) (h1 : Forall2 (VkE cx) vs vs')
    (h2 : (VkB cx) b b') : (VkS cx) (.gfor ns vs b) (.gfor ns' vs' b') := fun D hd hn =>
  have hh := NoRefS.gfor.mp hn
  let ⟨⟨_, hb⟩, hnb⟩ := h2 D hd hh.2.2
  ⟨.gfor hnm (Heap.NoWat.names (Heap.NoWat.congr hnm hh.1)) (vkEs h1 D hd hh.2.1).1 hb,
    NoRefS.gfor.mpr ⟨Heap.NoWat.congr hnm hh.1, (vkEs h1 D hd hh.2.1).2, hnb⟩⟩
theorem vk_nfor {n n' a a' b b' st st' body body'} (hnm : TName.name n = TName.name n') (h1 : (VkE cx) a a') (h2 : (VkE cx) b b')
    (h3 : OptRel (VkE cx) st st') (h4 : (VkB cx) body body') :
    (VkS cx) (.nfor n a b st body) (.nfor n' a' b' st' body') := fun D hd hn => by
  obtain ⟨nm, ty⟩ := n
  obtain ⟨nm', ty'⟩ := n'
  simp only [TName.name] at hnm
  subst hnm
  cases st <;> cases st' <;> simp only [OptRel] at h3
  · have hh := NoRefS.nforNone.mp hn
    obtain ⟨⟨_, hb⟩, hnb⟩ := h4 D hd hh.2.2.2
    exact ⟨.nforNone rfl hh.1 (h1 D hd hh.2.1).1 (h2 D hd hh.2.2.1).1 hb,
      NoRefS.nforNone.mpr ⟨hh.1, (h1 D hd hh.2.1).2, (h2 D hd hh.2.2.1).2, hnb⟩⟩
  · have hh := NoRefS.nforSome.mp hn
    obtain ⟨⟨_, hb⟩, hnb⟩ := h4 D hd hh.2.2.2.2
    exact ⟨.nforSome rfl hh.1 (h1 D hd hh.2.1).1 (h2 D hd hh.2.2.1).1 (h3 D hd hh.2.2.2.1).1 hb,
      NoRefS.nforSome.mpr ⟨hh.1, (h1 D hd hh.2.1).2, (h2 D hd hh.2.2.1).2, (h3 D hd hh.2.2.2.1).2, hnb⟩⟩
theorem vk_ifs {brs brs' els els'} (h1 : Forall2 (PairRel (VkE cx) (VkB cx)) brs brs') (h2 : OptRel (VkB cx) els els') :
    (VkS cx) (.ifs brs els) (.ifs brs' els') := fun D hd hn => by
  cases els <;> cases els' <;> simp only [OptRel] at h2
  · have hh := NoRefS.ifsNone.mp hn
    exact ⟨.ifsNone (vkBranches h1 D hd hh).1, NoRefS.ifsNone.mpr (vkBranches h1 D hd hh).2⟩
  · have hh := NoRefS.ifsSome.mp hn
    obtain ⟨⟨_, hb⟩, hnb⟩ := h2 D hd hh.2
    exact ⟨.ifsSome (vkBranches h1 D hd hh.1).1 hb, NoRefS.ifsSome.mpr ⟨(vkBranches h1 D hd hh.1).2, hnb⟩⟩
theorem vk_localAssign {kind ns ns' vs vs'} (hnm : ns.map TName.name = ns'.map TName.name) (h : Forall2 (VkE cx) vs vs') :
    (VkS cx) (.localAssign kind ns vs) (.localAssign kind ns' vs') := fun D hd hn =>
  have hh := NoRefS.localAssign.mp hn
  ⟨.localAssign hnm (Heap.NoWat.names (Heap.NoWat.congr hnm hh.1)) (vkEs h D hd hh.2).1,
    NoRefS.localAssign.mpr ⟨Heap.NoWat.congr hnm hh.1, (vkEs h D hd hh.2).2⟩⟩
theorem vk_localFn {kind name f f'} (h : (VkF cx) f f') : (VkS cx) (.localFn kind name f) (.localFn kind name f') := fun D hd hn => by
  have hn' := NoRefS.localFn.mp hn
  have hh := h D hd none hn'.2 (fun h => by simp at h)
  rw [addSelf_none, addSelf_none] at hh
  exact ⟨.localFn hn'.1 hh.1, NoRefS.localFn.mpr ⟨hn'.1, hh.2⟩⟩
theorem vk_repeat {b b' c c'} (h : (VkRep cx) (b, c) (b', c')) : (VkS cx) (.repeat_ b c) (.repeat_ b' c') := fun D hd hn =>
  have hh := NoRefS.repeat_.mp hn
  ⟨.repeat_ (h D hd hh.1 hh.2).1, NoRefS.repeat_.mpr (h D hd hh.1 hh.2).2⟩
theorem vk_while {b b' c c'} (h1 : (VkE cx) c c') (h2 : (VkB cx) b b') : (VkS cx) (.while_ c b) (.while_ c' b') := fun D hd hn =>
  have hh := NoRefS.while_.mp hn
  let ⟨⟨_, hb⟩, hnb⟩ := h2 D hd hh.2
  ⟨.while_ (h1 D hd hh.1).1 hb, NoRefS.while_.mpr ⟨(h1 D hd hh.1).2, hnb⟩⟩
theorem vk_typeDecl {ex name ty ty'} : (VkS cx) (.typeDecl ex name ty) (.typeDecl ex name ty') := fun _ _ _ =>
  ⟨.typeDecl, fun _ _ => rfl⟩
theorem vk_typeFn {ex name f f'} : (VkS cx) (.typeFn ex name f) (.typeFn ex name f') := fun _ _ _ =>
  ⟨.typeFn, fun _ _ => rfl⟩
theorem vk_ret {es es'} (h : Forall2 (VkE cx) es es') : (VkL cx) (.ret es) (.ret es') := fun D hd hn =>
  ⟨.ret (vkEs h D hd (NoRefL.ret.mp hn)).1, NoRefL.ret.mpr (vkEs h D hd (NoRefL.ret.mp hn)).2⟩
theorem vk_block {ss ss' l l'} (h1 : Forall2 (VkS cx) ss ss') (h2 : OptRel (VkL cx) l l') : (VkBo cx) (.mk ss l) (.mk ss' l') :=
  fun D hd hn => by
  cases l <;> cases l' <;> simp only [OptRel] at h2
  · have hh := NoRefB.none.mp hn
    exact ⟨.blockNone (vkSs h1 D hd hh).1, NoRefB.none.mpr (vkSs h1 D hd hh).2⟩
  · have hh := NoRefB.some.mp hn
    exact ⟨.blockSome (vkSs h1 D hd hh.1).1 (h2 D hd hh.2).1, NoRefB.some.mpr ⟨(vkSs h1 D hd hh.1).2, (h2 D hd hh.2).2⟩⟩
theorem vk_fnBody {ps ps' v vt vt' r r' g g' a a' b b'} (hnm : ps.map TName.name = ps'.map TName.name)
    (h : (VkB cx) b b') : (VkF cx) (.mk ps v vt r g a b) (.mk ps' v vt' r' g' a' b') := fun D hd m hn hs => by
  have hn' := NoRefF.mk.mp hn
  obtain ⟨⟨_, hb⟩, hnb⟩ := h D hd hn'.2
  have hw' := Heap.NoWat.congr hnm hn'.1
  refine ⟨?_, NoRefF.mk.mpr ⟨hw', hnb⟩⟩
  cases m with
  | none => exact .fnBody hnm (Heap.NoWat.names hw') hb
  | some _ =>
    refine .fnBody (by simp only [List.map_cons, hnm]) ?_ hb
    intro n hn
    simp only [List.map_cons, TName.name, List.mem_cons] at hn
    rcases hn with rfl | hn
    · exact hs rfl
    · exact Heap.NoWat.names hw' n hn

/-- the congruence family: chains of `VR cx` links -/
def vFam (cx : Cx) : CongFam where
  relE := Chain (VkE cx)
  relT := Chain (VkT cx)
  relS := Chain (VkS cx)
  relL := Chain (VkL cx)
  relB := Chain (VkB cx)
  relBo := Chain (VkBo cx)
  relRep := fun b c b' c' => Chain (VkRep cx) (b, c) (b', c')
  relF := Chain (VkF cx)
  reflE := .refl
  reflT := .refl
  reflS := .refl
  reflL := .refl
  reflB := .refl
  reflBo := .refl
  reflF := .refl
  transE := Chain.trans
  transT := Chain.trans
  transS := Chain.trans
  transL := Chain.trans
  transB := Chain.trans
  transBo := Chain.trans
  transRep := Chain.trans
  boToB := fun h => Chain.map (L' := (VkB cx)) id (fun _ _ h => h.toB) h
  repOfOpen := fun hb hc =>
    Chain.map2 (L' := (VkRep cx)) Prod.mk VkBo.refl VkE.refl
      (fun _ _ _ _ h1 h2 D hd hnb hnc => ⟨.rep (h1 D hd hnb).1 (h2 D hd hnc).1, (h1 D hd hnb).2, (h2 D hd hnc).2⟩) hb hc
  paren := fun h => Chain.map (L' := (VkE cx)) Expr.paren (fun _ _ => vk_paren) h
  un := fun {op _ _} h => Chain.map (L' := (VkE cx)) (Expr.un op) (fun _ _ => vk_un) h
  bin := fun {op _ _ _ _} h1 h2 =>
    Chain.map2 (L' := (VkE cx)) (Expr.bin op) VkE.refl VkE.refl (fun _ _ _ _ => vk_bin) h1 h2
  call := fun {_ _ m k _ _} hf ha =>
    Chain.map2 (L2 := Forall2 (VkE cx)) (L' := (VkE cx)) (fun f args => Expr.call f m k args) VkE.refl
      (Forall2.refl VkE.refl) (fun _ _ _ _ => vk_call) hf (Chain.forall2 VkE.refl ha)
  field := fun {_ _ n} h => Chain.map (L' := (VkE cx)) (Expr.field · n) (fun _ _ => vk_field) h
  index := fun h1 h2 => Chain.map2 (L' := (VkE cx)) Expr.index VkE.refl VkE.refl (fun _ _ _ _ => vk_index) h1 h2
  fn := fun h => Chain.map (L' := (VkE cx)) Expr.fn (fun _ _ => vk_fn) h
  table := fun h => Chain.map (L' := (VkE cx)) Expr.table (fun _ _ => vk_table) (ch_entries h)
  ifx := fun h1 h2 h3 h4 =>
    Chain.map4 (L3 := Forall2 (PairRel (VkE cx) (VkE cx))) (L5 := (VkE cx)) Expr.ifx VkE.refl VkE.refl
      (Forall2.refl fun p => ⟨VkE.refl p.1, VkE.refl p.2⟩) VkE.refl (fun _ _ _ _ _ _ _ _ => vk_ifx)
      h1 h2 (ch_pairs VkE.refl VkE.refl h3) h4
  interp := fun h => Chain.map (L' := (VkE cx)) Expr.interp (fun _ _ => vk_interp) (ch_segs h)
  cast := fun {_ _ ty ty'} h =>
    (Chain.map (L' := (VkE cx)) (Expr.cast · ty) (fun _ _ => vk_cast) h).trans (.single (vk_cast (VkE.refl _)))
  inst := fun {_ _ ty ty'} h =>
    (Chain.map (L' := (VkE cx)) (Expr.inst · ty) (fun _ _ => vk_inst) h).trans (.single (vk_inst (VkE.refl _)))
  tField := fun {_ _ n} h => Chain.map (L' := (VkT cx)) (Expr.field · n) (fun _ _ => vk_tField) h
  tIndex := fun h1 h2 => Chain.map2 (L' := (VkT cx)) Expr.index VkE.refl VkE.refl (fun _ _ _ _ => vk_tIndex) h1 h2
  tNonLv := fun h1 h2 _ => .single (vk_tNonLv h1 h2)
  tVar := fun {a b} h => by
    have := chainT_var h a rfl
    injection this with h1
    exact h1.symm
  assign := fun h1 h2 =>
    Chain.map2 (L := Forall2 (VkT cx)) (L2 := Forall2 (VkE cx)) (L' := (VkS cx)) Stmt.assign (Forall2.refl VkT.refl)
      (Forall2.refl VkE.refl) (fun _ _ _ _ => vk_assign) (Chain.forall2 VkT.refl h1) (Chain.forall2 VkE.refl h2)
  cassign := fun {op _ _ _ _} h1 h2 =>
    Chain.map2 (L' := (VkS cx)) (Stmt.cassign op) VkT.refl VkE.refl (fun _ _ _ _ => vk_cassign) h1 h2
  callStmt := fun h => Chain.map (L' := (VkS cx)) Stmt.callStmt (fun _ _ => vk_callStmt) h
  doBlock := fun h => Chain.map (L' := (VkS cx)) Stmt.doBlock (fun _ _ => vk_doBlock) h
  function := fun {name m _ _} h => Chain.map (L' := (VkS cx)) (Stmt.function name m) (fun _ _ => vk_function) h
  gfor := fun {ns ns' _ _ _ _} hnm h1 h2 =>
    (Chain.map2 (L := Forall2 (VkE cx)) (L' := (VkS cx)) (Stmt.gfor ns) (Forall2.refl VkE.refl) VkB.refl
      (fun _ _ _ _ => vk_gfor rfl) (Chain.forall2 VkE.refl h1) h2).trans
      (.single (vk_gfor hnm (Forall2.refl VkE.refl _) (VkB.refl _)))
  nfor := fun {n n' _ _ _ _ _ _ _ _} hnm h1 h2 h3 h4 =>
    (Chain.map4 (L3 := OptRel (VkE cx)) (L5 := (VkS cx)) (Stmt.nfor n) VkE.refl VkE.refl (OptRel.refl VkE.refl) VkB.refl
      (fun _ _ _ _ _ _ _ _ => vk_nfor rfl) h1 h2 (Chain.optRel VkE.refl h3) h4).trans
      (.single (vk_nfor hnm (VkE.refl _) (VkE.refl _) (OptRel.refl VkE.refl _) (VkB.refl _)))
  ifs := fun h1 h2 =>
    Chain.map2 (L := Forall2 (PairRel (VkE cx) (VkB cx))) (L2 := OptRel (VkB cx)) (L' := (VkS cx)) Stmt.ifs
      (Forall2.refl fun p => ⟨VkE.refl p.1, VkB.refl p.2⟩) (OptRel.refl VkB.refl) (fun _ _ _ _ => vk_ifs)
      (ch_pairs VkE.refl VkB.refl h1) (Chain.optRel VkB.refl h2)
  localAssign := fun {kind ns ns' _ _} hnm h =>
    (Chain.map (L := Forall2 (VkE cx)) (L' := (VkS cx)) (Stmt.localAssign kind ns) (fun _ _ => vk_localAssign rfl)
      (Chain.forall2 VkE.refl h)).trans (.single (vk_localAssign hnm (Forall2.refl VkE.refl _)))
  localFn := fun {kind name _ _} h => Chain.map (L' := (VkS cx)) (Stmt.localFn kind name) (fun _ _ => vk_localFn) h
  repeat_ := fun h => Chain.map (L := (VkRep cx)) (L' := (VkS cx)) (fun p => Stmt.repeat_ p.1 p.2) (fun _ _ => vk_repeat) h
  while_ := fun h1 h2 => Chain.map2 (L' := (VkS cx)) Stmt.while_ VkE.refl VkB.refl (fun _ _ _ _ => vk_while) h1 h2
  typeDecl := .single vk_typeDecl
  typeFn := .single vk_typeFn
  ret := fun h => Chain.map (L := Forall2 (VkE cx)) (L' := (VkL cx)) Last.ret (fun _ _ => vk_ret) (Chain.forall2 VkE.refl h)
  block := fun h1 h2 =>
    Chain.map2 (L := Forall2 (VkS cx)) (L2 := OptRel (VkL cx)) (L' := (VkBo cx)) Block.mk (Forall2.refl VkS.refl)
      (OptRel.refl VkL.refl) (fun _ _ _ _ => vk_block) (Chain.forall2 VkS.refl h1) (Chain.optRel VkL.refl h2)
  fnBody := fun {ps ps' v vt vt' r r' g g' a a' _ _} hnm h =>
    (Chain.map (L' := (VkF cx)) (FnBody.mk ps v vt r g a) (fun _ _ => vk_fnBody rfl) h).trans
      (.single (vk_fnBody hnm (VkB.refl _)))

end DarkluaModel.Sem.HeapU
