import DarkluaModel.Shared.VisitorSound.HeapU.URel
/-!
# Stage 4: state accessors respect the relation
-/
namespace DarkluaModel.Sem.HeapU
variable {N : NumOps} {Q : QRel} {cx : Cx} {β : Inj N}

theorem lookup_grel {g g' : List (String × Val N)} (h : Forall2 (GRel β) g g') (n : String) :
    OptRel (VRel β) (lookupAssoc n g) (lookupAssoc n g') := by
  induction h with
  | nil => simp only [lookupAssoc, OptRel]
  | @cons a b _ _ h1 _ ih =>
    obtain ⟨k, v⟩ := a; obtain ⟨k', v'⟩ := b
    obtain ⟨hk, hv⟩ := h1
    simp only [] at hk hv
    subst hk
    simp only [lookupAssoc]
    split
    · exact hv
    · exact ih

theorem setAssoc_grel {g g' : List (String × Val N)} (h : Forall2 (GRel β) g g') (n : String) {v v' : Val N}
    (hv : VRel β v v') : Forall2 (GRel β) (setAssoc n v g) (setAssoc n v' g') := by
  induction h with
  | nil => exact .cons ⟨rfl, hv⟩ .nil
  | @cons a b _ _ h1 t ih =>
    obtain ⟨k, w⟩ := a; obtain ⟨k', w'⟩ := b
    obtain ⟨hk, hw⟩ := h1
    simp only [] at hk hw
    subst hk
    simp only [setAssoc]
    split
    · exact .cons ⟨rfl, hv⟩ t
    · exact .cons ⟨rfl, hw⟩ ih

theorem rawGetEntries_rel (ht : Injective β.t) (hf : Injective β.f) {es es' : List (Val N × Val N)}
    (h : Forall2 (ERel β) es es') {k k' : Val N} (hk : VRel β k k') :
    VRel β (rawGetEntries k es) (rawGetEntries k' es') := by
  induction h with
  | nil => simp only [rawGetEntries, VRel]
  | @cons a b _ _ h1 _ ih =>
    obtain ⟨x, y⟩ := a; obtain ⟨x', y'⟩ := b
    simp only [rawGetEntries, VRel.rawEq ht hf h1.1 hk]
    split
    · exact h1.2
    · exact ih

theorem vrel_nil_iff {v v' : Val N} (h : VRel β v v') : v' = .nil ↔ v = .nil := by
  cases v <;> cases v' <;> simp only [VRel] at h <;> simp

theorem rawSetEntries_rel (ht : Injective β.t) (hf : Injective β.f) {es es' : List (Val N × Val N)}
    (h : Forall2 (ERel β) es es') {k k' v v' : Val N} (hk : VRel β k k') (hv : VRel β v v') :
    Forall2 (ERel β) (rawSetEntries k v es) (rawSetEntries k' v' es') := by
  induction h with
  | nil =>
    cases v <;> cases v' <;> simp only [VRel] at hv <;> simp only [rawSetEntries] <;>
      first | exact .nil | exact .cons ⟨hk, by simp only [VRel]; exact hv⟩ .nil | exact .cons ⟨hk, by simp only [VRel]⟩ .nil
  | @cons a b _ _ h1 t ih =>
    obtain ⟨x, y⟩ := a; obtain ⟨x', y'⟩ := b
    simp only [rawSetEntries, VRel.rawEq ht hf h1.1 hk]
    split
    · cases v <;> cases v' <;> simp only [VRel] at hv <;> simp only [] <;>
        first | exact t | exact .cons ⟨h1.1, by simp only [VRel]; exact hv⟩ t | exact .cons ⟨h1.1, by simp only [VRel]⟩ t
    · exact .cons h1 ih

theorem borderAux_rel (ht : Injective β.t) (hf : Injective β.f) {es es' : List (Val N × Val N)}
    (h : Forall2 (ERel β) es es') : ∀ fuel n, borderAux es' fuel n = borderAux es fuel n
  | 0, _ => rfl
  | fuel + 1, n => by
    have hk : VRel β (.num (N.ofNat (n + 1)) : Val N) (.num (N.ofNat (n + 1))) := rfl
    have hr := rawGetEntries_rel ht hf h hk
    simp only [borderAux]
    have hiff := vrel_nil_iff hr
    cases h1 : rawGetEntries (.num (N.ofNat (n + 1))) es <;> cases h2 : rawGetEntries (.num (N.ofNat (n + 1))) es' <;>
      rw [h1, h2] at hr <;> simp only [VRel] at hr <;> simp only [borderAux_rel ht hf h fuel]

theorem forall2_length {α γ : Type} {R : α → γ → Prop} {l : List α} {l' : List γ} (h : Forall2 R l l') :
    l.length = l'.length := by
  induction h with
  | nil => rfl
  | cons _ _ ih => simp only [List.length_cons, ih]

theorem nextEntry_rel (ht : Injective β.t) (hf : Injective β.f) {es es' : List (Val N × Val N)}
    (h : Forall2 (ERel β) es es') {k k' : Val N} (hk : VRel β k k') :
    OptRel (OptRel (ERel β)) (nextEntry k es) (nextEntry k' es') := by
  induction h with
  | nil => simp only [nextEntry, OptRel]
  | @cons a b _ _ h1 t ih =>
    obtain ⟨x, y⟩ := a; obtain ⟨x', y'⟩ := b
    simp only [nextEntry, VRel.rawEq ht hf h1.1 hk]
    split
    · cases t with
      | nil => simp only [OptRel]
      | cons h2 _ => simp only [OptRel]; exact h2
    · exact ih

section
variable {σ σ' : State N} (h : SRel Q cx β σ σ')
include h

theorem SRel.getGlobal (n : String) : VRel β (σ.getGlobal n) (σ'.getGlobal n) := by
  have := lookup_grel h.globals n
  simp only [State.getGlobal]
  cases h1 : lookupAssoc n σ.globals <;> cases h2 : lookupAssoc n σ'.globals <;> rw [h1, h2] at this <;>
    simp only [OptRel] at this
  · simp only [Option.getD, VRel]
  · exact this

theorem SRel.getCell {a b : Nat} (hab : β.c a b) : VRel β (σ.getCell a) (σ'.getCell b) := by
  obtain ⟨v, v', h1, h2, hv⟩ := h.cell hab
  simp only [State.getCell, h1, h2, Option.getD]; exact hv

theorem SRel.getTable {a b : Nat} (hab : β.t a b) : TRel β (σ.getTable a) (σ'.getTable b) := by
  obtain ⟨t, t', h1, h2, ht⟩ := h.tbl hab
  simp only [State.getTable, h1, h2, Option.getD]; exact ht

theorem SRel.rawGet {a b : Nat} (hab : β.t a b) {k k' : Val N} (hk : VRel β k k') :
    VRel β (σ.rawGet a k) (σ'.rawGet b k') := by
  simp only [State.rawGet]
  exact rawGetEntries_rel h.injT h.injF (h.getTable hab).entries hk

theorem SRel.border {a b : Nat} (hab : β.t a b) : σ'.border b = σ.border a := by
  have ht := (h.getTable hab).entries
  simp only [State.border, ← forall2_length ht]
  exact borderAux_rel h.injT h.injF ht _ _

theorem SRel.metaOf {v v' : Val N} (hv : VRel β v v') : OptRel β.t (σ.metaOf v) (σ'.metaOf v') := by
  cases v <;> cases v' <;> simp only [VRel] at hv <;> simp only [State.metaOf, OptRel]
  exact (h.getTable hv).mt

theorem SRel.metamethod {v v' : Val N} (hv : VRel β v v') (name : String) :
    VRel β (σ.metamethod v name) (σ'.metamethod v' name) := by
  have := h.metaOf hv
  simp only [State.metamethod]
  cases h1 : σ.metaOf v <;> cases h2 : σ'.metaOf v' <;> rw [h1, h2] at this <;> simp only [OptRel] at this
  · simp only [VRel]
  · exact h.rawGet this (by simp only [strVal, VRel])

theorem SRel.canonAux (d : Nat) {v v' : Val N} (hv : VRel β v v') : canonAux σ' d v' = Sem.canonAux σ d v := by
  induction d generalizing v v' with
  | zero => cases v <;> cases v' <;> simp only [VRel] at hv <;> simp only [Sem.canonAux, hv]
  | succ d ih =>
    cases v <;> cases v' <;> simp only [VRel] at hv <;> simp only [Sem.canonAux, hv]
    have ht := (h.getTable hv).entries
    congr 1
    generalize (σ.getTable _).entries = es at ht
    generalize (σ'.getTable _).entries = es' at ht
    induction ht with
    | nil => rfl
    | @cons a b _ _ h1 _ ih2 =>
      obtain ⟨x, y⟩ := a; obtain ⟨x', y'⟩ := b
      simp only [List.map_cons, ih h1.1, ih h1.2, ih2]

theorem SRel.canon {v v' : Val N} (hv : VRel β v v') : σ'.canon v' = σ.canon v := h.canonAux 4 hv

theorem SRel.canonList {vs vs' : List (Val N)} (hv : VsRel β vs vs') : vs'.map σ'.canon = vs.map σ.canon := by
  induction hv with
  | nil => rfl
  | cons h1 _ ih => simp only [List.map_cons, h.canon h1, ih]

theorem SRel.extCount (n : String) : σ'.extCount n = σ.extCount n := by simp only [State.extCount, h.trace]

theorem SRel.unpackAux {a b : Nat} (hab : β.t a b) (n i : Nat) :
    VsRel β (Sem.unpackAux σ a n i) (Sem.unpackAux σ' b n i) := by
  induction n generalizing i with
  | zero => exact .nil
  | succ n ih => exact .cons (h.rawGet hab rfl) (ih _)

theorem SRel.lookupVar {D : List DName} {env env' : Env N} (he : EnvRel cx β D env.locals env'.locals)
    {n : String} (hn : DName.ref n ∉ D) : VRel β (Sem.lookupVar env n σ) (Sem.lookupVar env' n σ') := by
  have := he.rel n hn
  simp only [Sem.lookupVar]
  cases h1 : lookupAssoc n env.locals <;> cases h2 : lookupAssoc n env'.locals <;> rw [h1, h2] at this <;>
    simp only [OptRel] at this
  · exact h.getGlobal n
  · exact h.getCell this
end

end DarkluaModel.Sem.HeapU
