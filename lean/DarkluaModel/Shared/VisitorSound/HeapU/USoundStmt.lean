import DarkluaModel.Shared.VisitorSound.HeapU.USoundList
/-!
# Stage 4 compatibility lemmas: statements, statement lists, blocks

Statement lists and blocks carry an OUTPUT dead set `D' ⊇ D`: the names on which the environments
at the end of the list may disagree (names of declarations dropped / added on one side only).
-/
namespace DarkluaModel.Sem.HeapU

/-- control results of lists / blocks / last statements: environments agree outside `D` -/
def ACtl {N : NumOps} (cx : Cx) (D : List DName) : ARel N (Ctl N) := fun β c c' =>
  match c, c' with
  | .next e, .next e' => EnvOK cx β D e e'
  | .cont e, .cont e' => EnvOK cx β D e e'
  | .brk, .brk => True
  | .ret vs, .ret vs' => VsRel β vs vs'
  | _, _ => False

/-- control results of single statements: the environment of a `continue` is irrelevant (the
enclosing statement list replaces it) -/
def ACtlS {N : NumOps} (cx : Cx) (D : List DName) : ARel N (Ctl N) := fun β c c' =>
  match c, c' with
  | .next e, .next e' => EnvOK cx β D e e'
  | .cont _, .cont _ => True
  | .brk, .brk => True
  | .ret vs, .ret vs' => VsRel β vs vs'
  | _, _ => False

def AOCtlS {N : NumOps} (cx : Cx) (D : List DName) : ARel N (Option (Ctl N)) := fun β c c' =>
  match c, c' with
  | none, none => True
  | some c, some c' => ACtlS cx D β c c'
  | _, _ => False

def SoundS (Q : QRel) (cx : Cx) (D : List DName) (x y : Stmt) : Prop :=
  ∀ (N : NumOps) (call : CallFn N) (ρ : ExtOracle N) (k : Nat) (env env' : Env N) (σ σ' : State N) (β : Inj N),
    POK Q cx call ρ k → SRel Q cx β σ σ' → EnvOK cx β D env env' →
      RRel Q cx β (ACtlS cx D) (execS call ρ k env x σ) (execS call ρ k env' y σ')
def SoundSs (Q : QRel) (cx : Cx) (D : List DName) (x y : List Stmt) (D' : List DName) : Prop :=
  DSub D D' ∧
  ∀ (N : NumOps) (call : CallFn N) (ρ : ExtOracle N) (k : Nat) (env env' : Env N) (σ σ' : State N) (β : Inj N),
    POK Q cx call ρ k → SRel Q cx β σ σ' → EnvOK cx β D env env' →
      RRel Q cx β (ACtl cx D') (execSs call ρ k env x σ) (execSs call ρ k env' y σ')
def SoundBranches (Q : QRel) (cx : Cx) (D : List DName) (x y : List (Expr × Block)) : Prop :=
  ∀ (N : NumOps) (call : CallFn N) (ρ : ExtOracle N) (k : Nat) (env env' : Env N) (σ σ' : State N) (β : Inj N),
    POK Q cx call ρ k → SRel Q cx β σ σ' → EnvOK cx β D env env' →
      RRel Q cx β (AOCtlS cx D) (execBranches call ρ k env x σ) (execBranches call ρ k env' y σ')
def SoundL (Q : QRel) (cx : Cx) (D : List DName) (x y : Last) : Prop :=
  ∀ (N : NumOps) (call : CallFn N) (ρ : ExtOracle N) (k : Nat) (env env' : Env N) (σ σ' : State N) (β : Inj N),
    POK Q cx call ρ k → SRel Q cx β σ σ' → EnvOK cx β D env env' →
      RRel Q cx β (ACtl cx D) (execLast call ρ k env x σ) (execLast call ρ k env' y σ')
def SoundB (Q : QRel) (cx : Cx) (D : List DName) (x y : Block) (D' : List DName) : Prop :=
  DSub D D' ∧
  ∀ (N : NumOps) (call : CallFn N) (ρ : ExtOracle N) (k : Nat) (env env' : Env N) (σ σ' : State N) (β : Inj N),
    POK Q cx call ρ k → SRel Q cx β σ σ' → EnvOK cx β D env env' →
      RRel Q cx β (ACtl cx D') (execB call ρ k env x σ) (execB call ρ k env' y σ')
/-- one iteration of `repeat b until c` -/
def SoundRep (Q : QRel) (cx : Cx) (D : List DName) (b : Block) (c : Expr) (b' : Block) (c' : Expr) : Prop :=
  ∀ (N : NumOps) (call : CallFn N) (ρ : ExtOracle N) (k : Nat) (env env' : Env N) (σ σ' : State N) (β : Inj N),
    POK Q cx call ρ k → SRel Q cx β σ σ' → EnvOK cx β D env env' →
      RRel Q cx β (AOCtlS cx D) (repeatStep call ρ k env (fun e s => evalE call ρ k e c s) b σ)
        (repeatStep call ρ k env' (fun e s => evalE call ρ k e c' s) b' σ')

variable {Q : QRel} {cx : Cx} {D : List DName}

theorem ACtl.toS {N : NumOps} {D' : List DName} {β : Inj N} {c c' : Ctl N} (h : ACtl cx D' β c c')
    (hn : ∀ e, c ≠ .next e) : ACtlS cx D β c c' := by
  cases c <;> cases c' <;> simp only [ACtl, ACtlS] at h ⊢ <;> first | exact h | exact absurd rfl (hn _)

theorem ACtlS.shape {N : NumOps} {β : Inj N} {c c' : Ctl N} (h : ACtlS cx D β c c') : CtlShape β c c' := by
  cases c <;> cases c' <;> simp only [ACtlS, CtlShape] at h ⊢ <;> exact h

theorem ACtl.shape {N : NumOps} {β : Inj N} {c c' : Ctl N} (h : ACtl cx D β c c') : CtlShape β c c' := by
  cases c <;> cases c' <;> simp only [ACtl, CtlShape] at h ⊢ <;> exact h

theorem SoundS.step {a m b} (h : LeS cx.upto a m) (ih : SoundS Q cx D m b) : SoundS Q cx D a b := by
  intro N call ρ k env env' σ σ' β hp hs he
  cases h N call ρ k env σ with
  | inl h => rw [h.2]; exact RRel.timeout_left h.1 _
  | inr h => rw [← h]; exact ih N call ρ k env env' σ σ' β hp hs he
theorem SoundL.step {a m b} (h : LeL cx.upto a m) (ih : SoundL Q cx D m b) : SoundL Q cx D a b := by
  intro N call ρ k env env' σ σ' β hp hs he
  cases h N call ρ k env σ with
  | inl h => rw [h.2]; exact RRel.timeout_left h.1 _
  | inr h => rw [← h]; exact ih N call ρ k env env' σ σ' β hp hs he
theorem SoundB.step {a m b D'} (h : LeB cx.upto a m) (ih : SoundB Q cx D m b D') : SoundB Q cx D a b D' :=
  ⟨ih.1, fun N call ρ k env env' σ σ' β hp hs he => by
    cases h N call ρ k env σ with
    | inl h => rw [h.2]; exact RRel.timeout_left h.1 _
    | inr h => rw [← h]; exact ih.2 N call ρ k env env' σ σ' β hp hs he⟩

/-! ### statement lists, last statements, blocks -/

theorem SoundSs.nil : SoundSs Q cx D [] [] D :=
  ⟨DSub.refl D, fun N call ρ k env env' σ σ' β hp hs he => by
    simp only [execSs]; exact RRel.ok (A := ACtl cx D) he hs⟩

theorem SoundSs.cons {x x' xs xs' D'} (ihx : SoundS Q cx D x x') (ihxs : SoundSs Q cx D xs xs' D') :
    SoundSs Q cx D (x :: xs) (x' :: xs') D' :=
  ⟨ihxs.1, fun N call ρ k env env' σ σ' β hp hs he => by
    simp only [execSs]
    refine RRel.bind (ihx N call ρ k env env' σ σ' β hp hs he) fun β1 h1 c c' hcc _ _ h => ?_
    cases c <;> cases c' <;> simp only [ACtlS] at hcc
    · exact ihxs.2 N call ρ k _ _ _ _ _ hp h hcc
    · exact RRel.ok (A := ACtl cx D') trivial h
    · exact RRel.ok (A := ACtl cx D') ((he.mono h1).weaken ihxs.1) h
    · exact RRel.ok (A := ACtl cx D') hcc h⟩

theorem SoundL.ret {es es'} (ih : SoundEs Q cx D es es') : SoundL Q cx D (.ret es) (.ret es') := by
  intro N call ρ k env env' σ σ' β hp hs he
  simp only [execLast]
  exact RRel.bind (ih N call ρ k env env' σ σ' β hp hs he) fun _ _ _ _ hv _ _ h => RRel.ok (A := ACtl cx D) hv h

theorem SoundL.brk : SoundL Q cx D .brk .brk := by
  intro N call ρ k env env' σ σ' β hp hs he; simp only [execLast]; exact RRel.ok (A := ACtl cx D) trivial hs

theorem SoundL.cont : SoundL Q cx D .cont .cont := by
  intro N call ρ k env env' σ σ' β hp hs he; simp only [execLast]; exact RRel.ok (A := ACtl cx D) he hs

theorem SoundB.none {ss ss' D'} (ih : SoundSs Q cx D ss ss' D') : SoundB Q cx D (.mk ss none) (.mk ss' none) D' :=
  ⟨ih.1, fun N call ρ k env env' σ σ' β hp hs he => by
    simp only [execB]
    refine RRel.bind (ih.2 N call ρ k env env' σ σ' β hp hs he) fun β1 h1 c c' hcc _ _ h => ?_
    cases c <;> cases c' <;> simp only [ACtl] at hcc <;> exact RRel.ok (A := ACtl cx D') hcc h⟩

theorem SoundB.some {ss ss' l l' D'} (ih : SoundSs Q cx D ss ss' D') (ihl : SoundL Q cx D' l l') :
    SoundB Q cx D (.mk ss (some l)) (.mk ss' (some l')) D' :=
  ⟨ih.1, fun N call ρ k env env' σ σ' β hp hs he => by
    simp only [execB]
    refine RRel.bind (ih.2 N call ρ k env env' σ σ' β hp hs he) fun β1 h1 c c' hcc _ _ h => ?_
    cases c <;> cases c' <;> simp only [ACtl] at hcc
    · exact ihl N call ρ k _ _ _ _ _ hp h hcc
    all_goals exact RRel.ok (A := ACtl cx D') hcc h⟩

/-- the result of a nested block seen from the enclosing statement -/
theorem RRel.blockEnd {N : NumOps} {β β1 : Inj N} {D' : List DName} {env env' : Env N} {c c' : Ctl N}
    {σ σ' : State N} (he : EnvOK cx β D env env') (h1 : β.le β1) (h : SRel Q cx β1 σ σ') : ACtl cx D' β1 c c' →
    RRel Q cx β1 (ACtlS cx D)
      (match c with | .next _ => (Res.ok (Ctl.next env) σ : Res N (Ctl N)) | other => .ok other σ)
      (match c' with | .next _ => .ok (.next env') σ' | other => .ok other σ') := by
  intro hcc
  cases c <;> cases c' <;> simp only [ACtl] at hcc
  · exact RRel.ok (A := ACtlS cx D) (he.mono h1) h
  · exact RRel.ok (A := ACtlS cx D) trivial h
  · exact RRel.ok (A := ACtlS cx D) trivial h
  · exact RRel.ok (A := ACtlS cx D) hcc h

theorem SoundBranches.nil : SoundBranches Q cx D [] [] := by
  intro N call ρ k env env' σ σ' β hp hs he; simp only [execBranches]; exact RRel.ok (A := AOCtlS cx D) trivial hs

theorem SoundBranches.cons {c c' b b' xs xs' D'} (ihc : SoundE Q cx D c c') (ihb : SoundB Q cx D b b' D')
    (ihxs : SoundBranches Q cx D xs xs') : SoundBranches Q cx D ((c, b) :: xs) ((c', b') :: xs') := by
  intro N call ρ k env env' σ σ' β hp hs he
  simp only [execBranches]
  refine RRel.bind (ihc N call ρ k env env' σ σ' β hp hs he) fun β1 h1 _ _ hv _ _ h => ?_
  rw [VRel.truthy (VRel.first hv)]
  split
  · refine RRel.bind (ihb.2 N call ρ k env env' _ _ _ hp h (he.mono h1)) fun β2 h2 ct ct' hcc _ _ h => ?_
    have he2 := (he.mono h1).mono h2
    cases ct <;> cases ct' <;> simp only [ACtl] at hcc <;> refine RRel.ok (A := AOCtlS cx D) ?_ h <;>
      simp only [AOCtlS, ACtlS] <;> first | exact he2 | exact hcc
  · exact ihxs N call ρ k env env' _ _ _ hp h (he.mono h1)

end DarkluaModel.Sem.HeapU
