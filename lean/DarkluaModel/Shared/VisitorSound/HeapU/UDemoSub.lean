import DarkluaModel.Shared.VisitorSound.HeapU.USub
import DarkluaModel.Shared.VisitorSound.HeapU.UOracle
import DarkluaModel.Shared.VisitorSoundHeap
/-!
# Worked instance: an always-watched LOCAL with a known binding, established by a one-sided prelude

The original program is `local K = true; <src with every konst() replaced by K>`, the rewritten one is
`<src with every konst() replaced by true>` — `K` is bound on the left only, to cell 0 (`bindL`), whose content is
kept by the consumer's invariant `cx.I` (a PRIVATE left cell: below the frontier, related to nothing). The source
`src` is arbitrary (closures, loops, …) as long as it never mentions `K` itself. All the pieces a consumer with
one-sided preludes needs, in order: `SRel.init`, `extLeft` (the prelude only extends the heap), `bump` (the new cell
becomes private), `rebase` (switch to the context with the invariant), `EnvOK` by hand (`dw`, `wb`), the leaf
(`EnvOK.lookupVarL`, `hs.inv`), `subB_vr`, `fundB`, `observe_of_soundB`.
-/
namespace DarkluaModel.Demo.WatchedLocal
open Sem Sem.HeapU

def konst : Expr := .call (.var "konst") none .tuple []

/-- `konst()` is replaced by `K` on the left, by `true` on the right -/
def m : Matcher := fun e =>
  match e with
  | .call (.var "konst") none .tuple [] => some (.var "K", .true)
  | _ => none

def kcx : Cx where
  W := ["K"]
  bindL := [("K", 0)]
  I := fun _ β σ _ => σ.cells[0]? = some (.bool true) ∧ 0 < β.cL ∧ ∀ b, ¬ β.c 0 b
  stable := fun _ β β' σ σ' s s' he _ hf hI => by
    obtain ⟨h1, h2, h3⟩ := hI
    refine ⟨hf.cL 0 _ h2 h3 h1, Nat.lt_of_lt_of_le h2 he.front.1, fun b hb => ?_⟩
    rcases he.freshC 0 b hb with h | h
    · exact h3 b h
    · omega

def D0 : List DName := [.wat "K", .ref "K"]

/-- the leaf: `K` (left, the private cell) against `true` (right) -/
theorem leaf {Q : QRel} : SoundE Q kcx D0 (.var "K") .true := by
  intro N call ρ k env env' σ σ' β _ hs he
  have hK : DName.wat "K" ∈ D0 := by simp [D0]
  have hl : lookupVar env "K" σ = .bool true := by
    rw [he.lookupVarL hK (c := 0) rfl]
    simp only [State.getCell, hs.inv.1, Option.getD]
  simp only [evalE, hl]
  exact RRel.ok (.cons (by simp only [VRel]) .nil) hs

theorem hleaf : ∀ e p, m e = some p → NoRefE D0 e → VR kcx D0 (.e p.1) (.e p.2) D0 := by
  intro e p hm _
  simp only [m] at hm
  split at hm
  · cases hm; exact .genE fun _ _ => leaf
  · cases hm

def withPrelude : Block → Block
  | .mk ss l => .mk (.localAssign .loc [.mk "K" none] [.true] :: ss) l

/-- **whole-program theorem**: for every source that does not mention `K` -/
theorem run_eq (src : Block) (hsrc : NoRefB D0 src) {N : NumOps} (ρ : ExtOracle N) (hρ : OracleFlat ρ) (n : Nat)
    (externs : List String) :
    runProgram ρ n externs (subB m false src) = runProgram ρ n externs (withPrelude (subB m true src)) := by
  -- the state after the left prelude
  let σ0 : State N := initState externs
  let σL : State N := { σ0 with cells := σ0.cells ++ [.bool true] }
  have hx : StExt σ0 σL := ⟨rfl, rfl, fun i v h => by simp [σ0, initState] at h, fun _ _ h => h, fun _ _ h => h⟩
  have hs0 : SRel (VQ Cx.none) Cx.none initRel σ0 σ0 := SRel.init _ externs trivial
  have hs1 := (hs0.extLeft hx).bump
  have hs : SRel (VQ kcx) kcx (initRel.bump σL σ0) σL σ0 :=
    hs1.rebase (fun _ _ h => h) ⟨by simp [σL, σ0, initState], by simp [Inj.bump, σL, σ0, initState],
      fun _ h => h⟩
  have he : EnvOK kcx (initRel.bump σL σ0) D0 (⟨[("K", 0)], []⟩ : Env N) ⟨[], []⟩ :=
    ⟨.nil, fun nm hnm => by
        have : ¬ "K" = nm := fun e => hnm (by simp [D0, e])
        simp [lookupAssoc, this, OptRel],
      fun nm hnm => by simp [kcx] at hnm; simp [D0, hnm],
      fun nm hnm => by
        have : nm = "K" := by simpa [D0] using hnm
        subst this
        exact ⟨rfl, rfl⟩⟩
  have hvr := subB_vr (cx := kcx) hleaf src hsrc
  have hobs := observe_of_soundB (fundB hvr) ρ hρ (fun _ => trivial) n hs he
  rcases hobs with ⟨h, _⟩ | ⟨h, _⟩ | h
  · cases h
  · cases h
  · simp only [runProgram, runChunk_eq_wrapCtl]
    rw [h]
    cases hsub : subB m true src with
    | mk ss l =>
      have hc0 : (initState externs : State N).cells.length = 0 := rfl
      simp [withPrelude, execB, execSs, execS, evalEs, evalE, Res.bind, bindLocals, State.allocCell, first,
        TName.name, σL, σ0, hc0]

/-- non-vacuity: `local function f() return konst() end; emit(f())` — the matched node sits inside a closure -/
def sample : Block :=
  .mk [.localFn .loc "f" (.mk [] false none none [] [] (.mk [] (some (.ret [konst])))),
       .callStmt (.call (.var "emit") none .tuple [.call (.var "f") none .tuple []])] none

example : NoRefB D0 sample := NoRefB.ofBool rfl
example : subB m true sample =
    .mk [.localFn .loc "f" (.mk [] false none none [] [] (.mk [] (some (.ret [.var "K"])))),
         .callStmt (.call (.var "emit") none .tuple [.call (.var "f") none .tuple []])] none := rfl
example : subB m false sample =
    .mk [.localFn .loc "f" (.mk [] false none none [] [] (.mk [] (some (.ret [.true])))),
         .callStmt (.call (.var "emit") none .tuple [.call (.var "f") none .tuple []])] none := rfl

theorem run_eq_driver (src : Block) (hsrc : NoRefB D0 src) (n : Nat) (externs : List String) :
    runProgram Shared.driverOracle n externs (subB m false src) =
      runProgram Shared.driverOracle n externs (withPrelude (subB m true src)) :=
  run_eq src hsrc _ driverOracle_flat n externs

end DarkluaModel.Demo.WatchedLocal
