import DarkluaModel.Shared.VisitorSound.HeapU.UFund
import DarkluaModel.Shared.VisitorSound.Heap.Chain
/-!
# Stage 4 links: one `VR` rewriting step between closed-under-`NoRef` syntax, for every dead set

`(VkE cx) e e'` — for every dead set `D` that `e` does not reference, `e'` does not reference it either
and `VR cx D e e'`. Links are what hooks must provide; passes compose links into chains.
-/
namespace DarkluaModel.Sem.HeapU
open Heap (addSelf NoRefF.addSelf)
variable {cx : Cx}

/-- the names the context watches: watched globals and watched locals -/
def Cx.watched (cx : Cx) (n : String) : Prop :=
  n ∈ cx.W ∨ (lookupAssoc n cx.bindL).isSome = true ∨ (lookupAssoc n cx.bindR).isSome = true

/-- the dead set watches no more than the context does, and is in the context's class of dead sets -/
structure WatOK (cx : Cx) (D : List DName) : Prop where
  wat : ∀ n, DName.wat n ∈ D → cx.watched n
  ok : cx.Dok D

def VkE (cx : Cx) (e e' : Expr) : Prop := ∀ D, WatOK cx D → NoRefE D e → VR cx D (.e e) (.e e') D ∧ NoRefE D e'
/-- target links never rewrite a plain variable target -/
structure VkT (cx : Cx) (e e' : Expr) : Prop where
  hr : ∀ D, WatOK cx D → NoRefT D e → VR cx D (.t e) (.t e') D ∧ NoRefT D e'
  var : ∀ a, e = .var a → e' = .var a
def VkS (cx : Cx) (s s' : Stmt) : Prop := ∀ D, WatOK cx D → NoRefS D s → VR cx D (.s s) (.s s') D ∧ NoRefS D s'
def VkL (cx : Cx) (l l' : Last) : Prop := ∀ D, WatOK cx D → NoRefL D l → VR cx D (.l l) (.l l') D ∧ NoRefL D l'
/-- closed blocks: the final environment is discarded, the output dead set is arbitrary -/
def VkB (cx : Cx) (b b' : Block) : Prop := ∀ D, WatOK cx D → NoRefB D b → (∃ D', VR cx D (.b b) (.b b') D') ∧ NoRefB D b'
/-- open blocks: the final environments agree outside the input dead set -/
def VkBo (cx : Cx) (b b' : Block) : Prop := ∀ D, WatOK cx D → NoRefB D b → VR cx D (.b b) (.b b') D ∧ NoRefB D b'
def VkRep (cx : Cx) (p q : Block × Expr) : Prop :=
  ∀ D, WatOK cx D → NoRefB D p.1 → NoRefE D p.2 → VR cx D (.rep p.1 p.2) (.rep q.1 q.2) D ∧ NoRefB D q.1 ∧ NoRefE D q.2
def VkF (cx : Cx) (f f' : FnBody) : Prop :=
  ∀ D, WatOK cx D → ∀ (m : Option String), NoRefF D f → (m.isSome = true → DName.wat "self" ∉ D) →
    VR cx D (.f (addSelf m f)) (.f (addSelf m f')) D ∧ NoRefF D f'

/-! ### reflexivity of `HR` on `NoRef` syntax -/

theorem VR.reflE {D e} (h : NoRefE D e) : VR cx D (.e e) (.e e) D := .genE fun _ hq => HeapU.reflE hq e D h
theorem VR.reflT {D e} (h : NoRefT D e) : VR cx D (.t e) (.t e) D := .genT fun _ hq => HeapU.reflT hq e D h
theorem VR.reflS {D s} (h : NoRefS D s) : VR cx D (.s s) (.s s) D := .genS fun _ hq => HeapU.reflS hq s D h
theorem VR.reflSs {D s} (h : NoRefSs D s) : VR cx D (.ss s) (.ss s) D := .genSs fun _ hq => HeapU.reflSs hq s D h
theorem VR.reflL {D l} (h : NoRefL D l) : VR cx D (.l l) (.l l) D := .genL fun _ hq => HeapU.reflL hq l D h
theorem VR.reflB {D b} (h : NoRefB D b) : VR cx D (.b b) (.b b) D := .genB fun _ hq => HeapU.reflB hq b D h
theorem VR.reflF {D f} (h : NoRefF D f) : VR cx D (.f f) (.f f) D := VQ_refl D f h

theorem VkE.refl (e) : (VkE cx) e e := fun _ _ h => ⟨.reflE h, h⟩
theorem VkT.refl (e) : (VkT cx) e e := ⟨fun _ _ h => ⟨.reflT h, h⟩, fun _ h => h⟩
theorem VkS.refl (e) : (VkS cx) e e := fun _ _ h => ⟨.reflS h, h⟩
theorem VkL.refl (e) : (VkL cx) e e := fun _ _ h => ⟨.reflL h, h⟩
theorem VkB.refl (e) : (VkB cx) e e := fun D _ h => ⟨⟨D, .reflB h⟩, h⟩
theorem VkBo.refl (e) : (VkBo cx) e e := fun _ _ h => ⟨.reflB h, h⟩
theorem VkRep.refl (p) : (VkRep cx) p p := fun _ _ hb hc => ⟨.rep (.reflB hb) (.reflE hc), hb, hc⟩
theorem VkF.refl (f) : (VkF cx) f f := fun _ _ _ h hs => ⟨.reflF (NoRefF.addSelf h hs), h⟩

theorem VkBo.toB {b b'} (h : (VkBo cx) b b') : (VkB cx) b b' := fun D hd hn => ⟨⟨D, (h D hd hn).1⟩, (h D hd hn).2⟩

/-! ### exact steps as links -/

theorem VkE.ofEq {e e'} (h : EqE e e') (hn : ∀ D, WatOK cx D → NoRefE D e → NoRefE D e') : (VkE cx) e e' :=
  fun D hw hd => ⟨.stepE h.le (.reflE (hn D hw hd)), hn D hw hd⟩
theorem VkT.ofEq {e e'} (h : EqT e e') (hn : ∀ D, WatOK cx D → NoRefT D e → NoRefT D e') : (VkT cx) e e' :=
  ⟨fun D hw hd => ⟨.stepT h.le (.reflT (hn D hw hd)), hn D hw hd⟩, fun a ha => by subst ha; exact h.var_eq⟩
theorem VkS.ofEq {e e'} (h : EqS e e') (hn : ∀ D, WatOK cx D → NoRefS D e → NoRefS D e') : (VkS cx) e e' :=
  fun D hw hd => ⟨.stepS h.le (.reflS (hn D hw hd)), hn D hw hd⟩
theorem VkL.ofEq {e e'} (h : EqL e e') (hn : ∀ D, WatOK cx D → NoRefL D e → NoRefL D e') : (VkL cx) e e' :=
  fun D hw hd => ⟨.stepL h.le (.reflL (hn D hw hd)), hn D hw hd⟩
theorem VkBo.ofEq {e e'} (h : EqB e e') (hn : ∀ D, WatOK cx D → NoRefB D e → NoRefB D e') : (VkBo cx) e e' :=
  fun D hw hd => ⟨.stepB h.le (.reflB (hn D hw hd)), hn D hw hd⟩

/-! ### steps up to budget exhaustion of the original (`cx.upto`) as links -/

theorem VkE.ofLe {e e'} (h : LeE cx.upto e e') (hn : ∀ D, WatOK cx D → NoRefE D e → NoRefE D e') : (VkE cx) e e' :=
  fun D hw hd => ⟨.stepE h (.reflE (hn D hw hd)), hn D hw hd⟩
theorem VkS.ofLe {e e'} (h : LeS cx.upto e e') (hn : ∀ D, WatOK cx D → NoRefS D e → NoRefS D e') : (VkS cx) e e' :=
  fun D hw hd => ⟨.stepS h (.reflS (hn D hw hd)), hn D hw hd⟩
theorem VkL.ofLe {e e'} (h : LeL cx.upto e e') (hn : ∀ D, WatOK cx D → NoRefL D e → NoRefL D e') : (VkL cx) e e' :=
  fun D hw hd => ⟨.stepL h (.reflL (hn D hw hd)), hn D hw hd⟩
theorem VkBo.ofLe {e e'} (h : LeB cx.upto e e') (hn : ∀ D, WatOK cx D → NoRefB D e → NoRefB D e') : (VkBo cx) e e' :=
  fun D hw hd => ⟨.stepB h (.reflB (hn D hw hd)), hn D hw hd⟩

/-! ### lists of links -/

theorem vkEs {xs ys} (h : Forall2 (VkE cx) xs ys) : ∀ D, WatOK cx D → NoRefEs D xs → VR cx D (.es xs) (.es ys) D ∧ NoRefEs D ys := by
  induction h with
  | nil => exact fun D hd hn => ⟨.esNil, hn⟩
  | cons h1 _ ih =>
    intro D hd hn
    have := NoRefEs.cons.mp hn
    exact ⟨.esCons (h1 D hd this.1).1 (ih D hd this.2).1, NoRefEs.cons.mpr ⟨(h1 D hd this.1).2, (ih D hd this.2).2⟩⟩

theorem vkTs {xs ys} (h : Forall2 (VkT cx) xs ys) : ∀ D, WatOK cx D → NoRefTs D xs → VR cx D (.ts xs) (.ts ys) D ∧ NoRefTs D ys := by
  induction h with
  | nil => exact fun D hd hn => ⟨.tsNil, hn⟩
  | cons h1 _ ih =>
    intro D hd hn
    have := NoRefTs.cons.mp hn
    exact ⟨.tsCons (h1.hr D hd this.1).1 (ih D hd this.2).1, NoRefTs.cons.mpr ⟨(h1.hr D hd this.1).2, (ih D hd this.2).2⟩⟩

theorem vkSs {xs ys} (h : Forall2 (VkS cx) xs ys) : ∀ D, WatOK cx D → NoRefSs D xs → VR cx D (.ss xs) (.ss ys) D ∧ NoRefSs D ys := by
  induction h with
  | nil => exact fun D hd hn => ⟨.ssNil, hn⟩
  | cons h1 _ ih =>
    intro D hd hn
    have := NoRefSs.cons.mp hn
    exact ⟨.ssCons (h1 D hd this.1).1 (ih D hd this.2).1, NoRefSs.cons.mpr ⟨(h1 D hd this.1).2, (ih D hd this.2).2⟩⟩

theorem vkElifs {xs ys} (h : Forall2 (PairRel (VkE cx) (VkE cx)) xs ys) :
    ∀ D, WatOK cx D → NoRefElifs D xs → VR cx D (.elifs xs) (.elifs ys) D ∧ NoRefElifs D ys := by
  induction h with
  | nil => exact fun D hd hn => ⟨.elifsNil, hn⟩
  | @cons a b _ _ h1 _ ih =>
    intro D hd hn
    obtain ⟨a1, a2⟩ := a; obtain ⟨b1, b2⟩ := b
    have := NoRefElifs.cons.mp hn
    exact ⟨.elifsCons (h1.1 D hd this.1).1 (h1.2 D hd this.2.1).1 (ih D hd this.2.2).1,
      NoRefElifs.cons.mpr ⟨(h1.1 D hd this.1).2, (h1.2 D hd this.2.1).2, (ih D hd this.2.2).2⟩⟩

theorem vkBranches {xs ys} (h : Forall2 (PairRel (VkE cx) (VkB cx)) xs ys) :
    ∀ D, WatOK cx D → NoRefBranches D xs → VR cx D (.branches xs) (.branches ys) D ∧ NoRefBranches D ys := by
  induction h with
  | nil => exact fun D hd hn => ⟨.branchesNil, hn⟩
  | @cons a b _ _ h1 _ ih =>
    intro D hd hn
    obtain ⟨a1, a2⟩ := a; obtain ⟨b1, b2⟩ := b
    have := NoRefBranches.cons.mp hn
    obtain ⟨⟨D', hb⟩, hnb⟩ := h1.2 D hd this.2.1
    exact ⟨.branchesCons (h1.1 D hd this.1).1 hb (ih D hd this.2.2).1,
      NoRefBranches.cons.mpr ⟨(h1.1 D hd this.1).2, hnb, (ih D hd this.2.2).2⟩⟩

theorem vkEntries {xs ys} (h : Forall2 (EntryRel (VkE cx)) xs ys) :
    ∀ D, WatOK cx D → NoRefEntries D xs → VR cx D (.entries xs) (.entries ys) D ∧ NoRefEntries D ys := by
  induction h with
  | nil => exact fun D hd hn => ⟨.entriesNil, hn⟩
  | @cons a b _ _ h1 _ ih =>
    intro D hd hn
    cases a <;> cases b <;> simp only [EntryRel] at h1
    · have := NoRefEntries.pos.mp hn
      exact ⟨.entriesPos (h1 D hd this.1).1 (ih D hd this.2).1, NoRefEntries.pos.mpr ⟨(h1 D hd this.1).2, (ih D hd this.2).2⟩⟩
    · obtain ⟨rfl, h1⟩ := h1
      have := NoRefEntries.named.mp hn
      exact ⟨.entriesNamed (h1 D hd this.1).1 (ih D hd this.2).1,
        NoRefEntries.named.mpr ⟨(h1 D hd this.1).2, (ih D hd this.2).2⟩⟩
    · have := NoRefEntries.keyed.mp hn
      exact ⟨.entriesKeyed (h1.1 D hd this.1).1 (h1.2 D hd this.2.1).1 (ih D hd this.2.2).1,
        NoRefEntries.keyed.mpr ⟨(h1.1 D hd this.1).2, (h1.2 D hd this.2.1).2, (ih D hd this.2.2).2⟩⟩

theorem vkSegs {xs ys} (h : Forall2 (SegRel (VkE cx)) xs ys) :
    ∀ D, WatOK cx D → NoRefSegs D xs → VR cx D (.segs xs) (.segs ys) D ∧ NoRefSegs D ys := by
  induction h with
  | nil => exact fun D hd hn => ⟨.segsNil, hn⟩
  | @cons a b _ _ h1 _ ih =>
    intro D hd hn
    cases a <;> cases b <;> simp only [SegRel] at h1
    · subst h1
      have := NoRefSegs.s.mp hn
      exact ⟨.segsS (ih D hd this).1, NoRefSegs.s.mpr (ih D hd this).2⟩
    · have := NoRefSegs.v.mp hn
      exact ⟨.segsV (h1 D hd this.1).1 (ih D hd this.2).1, NoRefSegs.v.mpr ⟨(h1 D hd this.1).2, (ih D hd this.2).2⟩⟩

end DarkluaModel.Sem.HeapU
