import DarkluaModel.Shared.VisitorSound.Cong
/-!
# The generic lifting theorem `visit_rel` (see `Cong.lean`)

Induction on the visitor's fuel; inside one fuel level every visitor function is handled by
one `*_step` lemma. `nodeKids` / `stmtKids` are verbatim copies of the "visit the children"
parts of `Visitor.visitNode` / `Visitor.visitStmt` (tied to them by `rfl`,
`visitNode_succ` / `visitStmt_succ`) so that they can be reasoned about separately from
the hooks around them.
-/
namespace DarkluaModel.Visitor
variable {σ : Type}

theorem mapS_rel {α : Type} {R : α → α → Prop} {f : α → σ → α × σ} (h : ∀ x s, R x (f x s).1) :
    ∀ xs s, Forall2 R xs (mapS f xs s).1
  | [], _ => .nil
  | x :: xs, s => by
    simp only [mapS]
    exact .cons (h x s) (mapS_rel h xs _)

theorem optS_rel {α : Type} {R : α → α → Prop} {f : α → σ → α × σ} (h : ∀ x s, R x (f x s).1) :
    ∀ x s, OptRel R x (optS f x s).1
  | none, _ => trivial
  | some x, s => by simp only [optS, OptRel]; exact h x s

theorem tnameTy_name (f : Ty → σ → Ty × σ) (t : TName) (s : σ) : (tnameTy f t s).1.name = t.name := by
  cases t; simp only [tnameTy, TName.name]

theorem tnameInsert_name {f : String → σ → String × σ} (h : ∀ n s, (f n s).1 = n) (t : TName) (s : σ) :
    (tnameInsert f t s).1.name = t.name := by
  cases t; simp only [tnameInsert, TName.name, h]

theorem mapS_names {f : TName → σ → TName × σ} (h : ∀ t s, (f t s).1.name = t.name) :
    ∀ ts s, (mapS f ts s).1.map TName.name = ts.map TName.name
  | [], _ => rfl
  | t :: ts, s => by
    simp only [mapS, List.map_cons, h, mapS_names h ts]

variable (P : Processor σ) (sc : Bool)

/-- the children part of `visitNode` -/
def nodeKids (n : Nat) (e1 : Expr) (s1 : σ) : Expr × σ :=
  match e1 with
  | .bin op l r =>
    let (l', a) := visitExpr P sc n l s1
    let (r', b) := visitExpr P sc n r a
    (.bin op l' r', b)
  | .call f m k args =>
    let (f', a) := visitPrefix P sc n f s1
    let (args', b) : List Expr × σ :=
      match k with
      | .tuple => mapS (visitExpr P sc n) args a
      | _ => mapS (visitNode P sc n) args a
    (.call f' m k args', b)
  | .field x name => let (x', a) := visitPrefix P sc n x s1; (.field x' name, a)
  | .index x k =>
    let (x', a) := visitPrefix P sc n x s1
    let (k', b) := visitExpr P sc n k a
    (.index x' k', b)
  | .fn body => let (body', a) := visitFnBody P sc n false body s1; (.fn body', a)
  | .ifx c t elifs el =>
    let (c', a) := visitExpr P sc n c s1
    let (t', b) := visitExpr P sc n t a
    let (elifs', c2) := mapS (fun (p : Expr × Expr) st =>
      let (x, st1) := visitExpr P sc n p.1 st
      let (y, st2) := visitExpr P sc n p.2 st1
      ((x, y), st2)) elifs b
    let (el', d) := visitExpr P sc n el c2
    (.ifx c' t' elifs' el', d)
  | .paren x => let (x', a) := visitExpr P sc n x s1; (.paren x', a)
  | .interp segs => let (segs', a) := mapS (visitSeg P sc n) segs s1; (.interp segs', a)
  | .table entries => let (es', a) := mapS (visitEntry P sc n) entries s1; (.table es', a)
  | .un op x => let (x', a) := visitExpr P sc n x s1; (.un op x', a)
  | .cast x ty =>
    let (x', a) := visitExpr P sc n x s1
    let (ty', b) := visitTy P sc n ty a
    (.cast x' ty', b)
  | .inst x tys =>
    let (x', a) := visitPrefix P sc n x s1
    let (tys', b) := mapS (visitTy P sc n) tys a
    (.inst x' tys', b)
  | other => (other, s1)

theorem visitNode_succ (n : Nat) (e : Expr) (s : σ) :
    visitNode P sc (n + 1) e s =
      match e with
      | .nil | .true | .false | .vararg => (e, s)
      | _ =>
        let r1 := P.node e s
        let r2 := nodeKids P sc n r1.1 r1.2
        P.afterNode r2.1 r2.2 := by
  cases e <;> rfl

/-- the children part of `visitStmt` -/
def stmtKids (n : Nat) (st2 : Stmt) (s2 : σ) : Stmt × σ :=
  match st2 with
  | .assign targets values =>
    let (ts', a) := mapS (visitTarget P sc n) targets s2
    let (vs', b) := mapS (visitExpr P sc n) values a
    (.assign ts' vs', b)
  | .cassign op t v =>
    let (t', a) := visitTarget P sc n t s2
    let (v', b) := visitExpr P sc n v a
    (.cassign op t' v', b)
  | .doBlock b =>
    let ((b1, _), a) := P.scope b none s2
    let (b2, c) := visitBlock P sc n true b1 a
    (.doBlock b2, c)
  | .function name m body =>
    match name with
    | [] => (st2, s2)
    | root :: path =>
      if sc then
        let (r1, a) := P.node (.var root) s2
        let root' := match r1 with | .var x => x | _ => root
        let (body', b) := visitFnBody P sc n m.isSome body a
        (.function (root' :: path) m body', b)
      else
        match body with
        | .mk params variadic varTy ret generics attrs blk =>
          let (attrs', a0) := P.attrs attrs s2
          let (r1, a) := P.node (.var root) a0
          let root' := match r1 with | .var x => x | _ => root
          let ((body1, _), a2) := P.scope blk none a
          let (body2, a3) := visitBlock P sc n true body1 a2
          let (params', a4) := mapS (tnameTy (visitTy P sc n)) params a3
          let (varTy', a5) := optS (visitTy P sc n) varTy a4
          let (ret', a6) := optS (visitTy P sc n) ret a5
          (.function (root' :: path) m (.mk params' variadic varTy' ret' generics attrs' body2), a6)
  | .gfor names values body =>
    let (vs', a) := mapS (visitExpr P sc n) values s2
    if sc then
      let (names1, a1) := mapS (tnameTy (visitTy P sc n)) names a
      let a2 := P.push a1
      let (names2, a3) := mapS (tnameInsert P.insert) names1 a2
      let ((b1, _), a4) := P.scope body none a3
      let (b2, a5) := visitBlock P sc n true b1 a4
      (.gfor names2 vs' b2, P.pop a5)
    else
      let ((b1, _), a1) := P.scope body none a
      let (b2, a2) := visitBlock P sc n true b1 a1
      let (names', a3) := mapS (tnameTy (visitTy P sc n)) names a2
      (.gfor names' vs' b2, a3)
  | .nfor name start stop step body =>
    let (start', a) := visitExpr P sc n start s2
    let (stop', b) := visitExpr P sc n stop a
    let (step', c) := optS (visitExpr P sc n) step b
    if sc then
      let (name1, c1) := tnameTy (visitTy P sc n) name c
      let c2 := P.push c1
      let (name2, c3) := tnameInsert P.insert name1 c2
      let ((b1, _), c4) := P.scope body none c3
      let (b2, c5) := visitBlock P sc n true b1 c4
      (.nfor name2 start' stop' step' b2, P.pop c5)
    else
      let ((b1, _), c1) := P.scope body none c
      let (b2, c2) := visitBlock P sc n true b1 c1
      let (name', c3) := tnameTy (visitTy P sc n) name c2
      (.nfor name' start' stop' step' b2, c3)
  | .ifs branches els =>
    let (brs', a) := mapS (fun (p : Expr × Block) st =>
      let (c, st1) := visitExpr P sc n p.1 st
      let ((b1, _), st2) := P.scope p.2 none st1
      let (b2, st3) := visitBlock P sc n true b1 st2
      ((c, b2), st3)) branches s2
    let (els', b) := optS (fun blk st =>
      let ((b1, _), st1) := P.scope blk none st
      visitBlock P sc n true b1 st1) els a
    (.ifs brs' els', b)
  | .localAssign kind names values =>
    let (vs', a) := mapS (visitExpr P sc n) values s2
    let (names', b) := mapS (tnameTy (visitTy P sc n)) names a
    if sc then
      let ((names2, vs2), c) := insertLocals P names' vs' b
      (.localAssign kind names2 vs2, c)
    else (.localAssign kind names' vs', b)
  | .localFn kind name body =>
    if sc then
      -- signature annotations first, in the enclosing scope; then the function name; then the
      -- parameters and the body in a new scope (fix of F09b)
      match body with
      | .mk params variadic varTy ret generics attrs blk =>
        let (params1, a1) := mapS (tnameTy (visitTy P sc n)) params s2
        let (varTy', a2) := optS (visitTy P sc n) varTy a1
        let (ret', a3) := optS (visitTy P sc n) ret a2
        let (name', a4) := P.insertLocalFn name a3
        let a5 := P.push a4
        let (params2, a6) := mapS (tnameInsert P.insert) params1 a5
        let ((body1, _), a7) := P.scope blk none a6
        let (body2, a8) := visitBlock P sc n true body1 a7
        (.localFn kind name' (.mk params2 variadic varTy' ret' generics attrs body2), P.pop a8)
    else
      let (body', a) := visitFnBody P sc n false body s2
      (.localFn kind name body', a)
  | .repeat_ body cond =>
    if sc then
      let a := P.push s2
      let ((b1, c1), a1) := P.scope body (some cond) a
      let (b2, a2) := visitBlock P sc n false b1 a1
      let (c2, a3) := visitExpr P sc n (c1.getD cond) a2
      (.repeat_ b2 c2, P.pop a3)
    else
      let ((b1, c1), a1) := P.scope body (some cond) s2
      let (c2, a2) := visitExpr P sc n (c1.getD cond) a1
      let (b2, a3) := visitBlock P sc n true b1 a2
      (.repeat_ b2 c2, a3)
  | .while_ cond body =>
    let (c', a) := visitExpr P sc n cond s2
    let ((b1, _), a1) := P.scope body none a
    let (b2, a2) := visitBlock P sc n true b1 a1
    (.while_ c' b2, a2)
  | .typeDecl ex name ty => let (ty', a) := visitTy P sc n ty s2; (.typeDecl ex name ty', a)
  | .typeFn ex name body =>
    match body with
    | .mk params variadic varTy ret generics attrs blk =>
      if sc then
        -- scope visitors declare the parameters (fix of F09c)
        let (params1, a1) := mapS (tnameTy (visitTy P sc n)) params s2
        let (varTy', a2) := optS (visitTy P sc n) varTy a1
        let (ret', a3) := optS (visitTy P sc n) ret a2
        let a4 := P.push a3
        let (params2, a5) := mapS (tnameInsert P.insert) params1 a4
        let ((b1, _), a6) := P.scope blk none a5
        let (b2, a7) := visitBlock P sc n true b1 a6
        (.typeFn ex name (.mk params2 variadic varTy' ret' generics attrs b2), P.pop a7)
      else
        let ((b1, _), a1) := P.scope blk none s2
        let (b2, a2) := visitBlock P sc n true b1 a1
        let (params', a3) := mapS (tnameTy (visitTy P sc n)) params a2
        let (varTy', a4) := optS (visitTy P sc n) varTy a3
        let (ret', a5) := optS (visitTy P sc n) ret a4
        (.typeFn ex name (.mk params' variadic varTy' ret' generics attrs b2), a5)
  | other => (other, s2)

theorem visitStmt_succ (n : Nat) (st : Stmt) (s : σ) :
    visitStmt P sc (n + 1) st s =
      let r1 := P.stmt st s
      match r1.1 with
      | .callStmt c => let r := visitNode P sc n c r1.2; (.callStmt r.1, r.2)
      | _ =>
        let r2 := P.stmtNode r1.1 r1.2
        let r3 := stmtKids P sc n r2.1 r2.2
        P.afterStmtNode r3.1 r3.2 := by
  rfl

/-! ### the induction -/

theorem EntryRel.refl {R : Expr → Expr → Prop} (h : ∀ e, R e e) : ∀ x, EntryRel R x x
  | .pos _ => h _
  | .named _ _ => ⟨rfl, h _⟩
  | .keyed _ _ => ⟨h _, h _⟩

theorem SegRel.refl {R : Expr → Expr → Prop} (h : ∀ e, R e e) : ∀ x, SegRel R x x
  | .s _ => rfl
  | .v _ => h _

/-- the statement proved by induction on the fuel `n` -/
structure All (C : CongFam) (P : Processor σ) (sc : Bool) (n : Nat) : Prop where
  e : ∀ e s, C.relE e (visitExpr P sc n e s).1
  p : ∀ e s, C.relE e (visitPrefix P sc n e s).1
  t : ∀ e s, C.relT e (visitTarget P sc n e s).1
  nd : ∀ e s, C.relE e (visitNode P sc n e s).1 ∧ C.relT e (visitNode P sc n e s).1
  en : ∀ x s, EntryRel C.relE x (visitEntry P sc n x s).1
  sg : ∀ x s, SegRel C.relE x (visitSeg P sc n x s).1
  f : ∀ hs f s, C.relF f (visitFnBody P sc n hs f s).1
  st : ∀ x s, C.relS x (visitStmt P sc n x s).1
  l : ∀ x s, C.relL x (visitLast P sc n x s).1
  b : ∀ pushes b s, C.relBo b (visitBlock P sc n pushes b s).1

variable {P sc} {C : CongFam}

theorem all_zero : All C P sc 0 where
  e := fun e s => by simp only [visitExpr]; exact C.reflE e
  p := fun e s => by simp only [visitPrefix]; exact C.reflE e
  t := fun e s => by simp only [visitTarget]; exact C.reflT e
  nd := fun e s => by simp only [visitNode]; exact ⟨C.reflE e, C.reflT e⟩
  en := fun x s => by simp only [visitEntry]; exact EntryRel.refl C.reflE x
  sg := fun x s => by simp only [visitSeg]; exact SegRel.refl C.reflE x
  f := fun hs f s => by simp only [visitFnBody]; exact C.reflF f
  st := fun x s => by simp only [visitStmt]; exact C.reflS x
  l := fun x s => by simp only [visitLast]; exact C.reflL x
  b := fun pushes b s => by simp only [visitBlock]; exact C.reflBo b

theorem nodeKids_rel {n : Nat} (A : All C P sc n) (e1 : Expr) (s1 : σ) :
    C.relE e1 (nodeKids P sc n e1 s1).1 ∧ C.relT e1 (nodeKids P sc n e1 s1).1 := by
  have key : ∀ e', (e1.isLv = false → e'.isLv = false) →
      (∀ x n, e1 = .field x n → C.relT e1 e') → (∀ x k, e1 = .index x k → C.relT e1 e') →
      (∀ x, e1 = .var x → C.relT e1 e') → C.relE e1 e' → C.relE e1 e' ∧ C.relT e1 e' := by
    intro e' hs hf hi hv hE
    refine ⟨hE, ?_⟩
    cases e1 with
    | field x n => exact hf x n rfl
    | index x k => exact hi x k rfl
    | var x => exact hv x rfl
    | _ => exact C.tNonLv rfl (hs rfl) hE
  cases e1 with
  | bin op l r =>
    simp only [nodeKids]
    exact key _ (fun _ => rfl) (by intros; contradiction) (by intros; contradiction) (by intros; contradiction)
      (C.bin (A.e _ _) (A.e _ _))
  | call f m k args =>
    simp only [nodeKids]
    refine key _ (fun _ => rfl) (by intros; contradiction) (by intros; contradiction) (by intros; contradiction)
      (C.call (A.p _ _) ?_)
    cases k
    · exact mapS_rel A.e _ _
    · exact mapS_rel (fun x s => (A.nd x s).1) _ _
    · exact mapS_rel (fun x s => (A.nd x s).1) _ _
  | field x name =>
    simp only [nodeKids]
    exact ⟨C.field (A.p _ _), C.tField (A.p _ _)⟩
  | index x k =>
    simp only [nodeKids]
    exact ⟨C.index (A.p _ _) (A.e _ _), C.tIndex (A.p _ _) (A.e _ _)⟩
  | fn body =>
    simp only [nodeKids]
    exact key _ (fun _ => rfl) (by intros; contradiction) (by intros; contradiction) (by intros; contradiction)
      (C.fn (A.f _ _ _))
  | ifx c t elifs el =>
    simp only [nodeKids]
    refine key _ (fun _ => rfl) (by intros; contradiction) (by intros; contradiction) (by intros; contradiction)
      (C.ifx (A.e _ _) (A.e _ _) ?_ (A.e _ _))
    exact mapS_rel (R := PairRel C.relE C.relE) (fun p s => ⟨A.e _ _, A.e _ _⟩) _ _
  | paren x =>
    simp only [nodeKids]
    exact key _ (fun _ => rfl) (by intros; contradiction) (by intros; contradiction) (by intros; contradiction)
      (C.paren (A.e _ _))
  | interp segs =>
    simp only [nodeKids]
    exact key _ (fun _ => rfl) (by intros; contradiction) (by intros; contradiction) (by intros; contradiction)
      (C.interp (mapS_rel A.sg _ _))
  | table entries =>
    simp only [nodeKids]
    exact key _ (fun _ => rfl) (by intros; contradiction) (by intros; contradiction) (by intros; contradiction)
      (C.table (mapS_rel A.en _ _))
  | un op x =>
    simp only [nodeKids]
    exact key _ (fun _ => rfl) (by intros; contradiction) (by intros; contradiction) (by intros; contradiction)
      (C.un (A.e _ _))
  | cast x ty =>
    simp only [nodeKids]
    exact key _ (fun _ => rfl) (by intros; contradiction) (by intros; contradiction) (by intros; contradiction)
      (C.cast (A.e _ _))
  | inst x tys =>
    simp only [nodeKids]
    exact key _ (fun _ => rfl) (by intros; contradiction) (by intros; contradiction) (by intros; contradiction)
      (C.inst (A.p _ _))
  | _ => exact ⟨C.reflE _, C.reflT _⟩

theorem insertLocals_rel (H : HooksRel C P) : ∀ (names : List TName) (vs : List Expr) (s : σ),
    (insertLocals P names vs s).1.1.map TName.name = names.map TName.name ∧
      Forall2 C.relE vs (insertLocals P names vs s).1.2
  | [], vs, s => by
    exact ⟨rfl, Forall2.refl C.reflE vs⟩
  | .mk n ty :: ns, [], s => by
    simp only [insertLocals, List.map_cons, TName.name, H.insertLocalName]
    exact ⟨by rw [(insertLocals_rel H ns [] _).1], (insertLocals_rel H ns [] _).2⟩
  | .mk n ty :: ns, v :: vs, s => by
    simp only [insertLocals, List.map_cons, TName.name, H.insertLocalName]
    exact ⟨by rw [(insertLocals_rel H ns vs _).1],
      .cons (H.insertLocalVal n v s) (insertLocals_rel H ns vs _).2⟩

theorem scope_visit_rel (H : HooksRel C P) {n : Nat} (A : All C P sc n) (b : Block)
    (pushes : Bool) (s s' : σ) :
    C.relB b (visitBlock P sc n pushes (P.scope b none s).1.1 s').1 :=
  C.transB (H.scopeB b s) (C.boToB (A.b _ _ _))

theorem fnBody_rel (H : HooksRel C P) {n : Nat} (A : All C P sc n) (hs : Bool) (f : FnBody) (s : σ) :
    C.relF f (visitFnBody P sc (n + 1) hs f s).1 := by
  cases f with
  | mk params variadic varTy ret generics attrs body =>
    simp only [visitFnBody]
    cases sc
    · simp only [Bool.false_eq_true, if_false]
      exact C.fnBody (mapS_names (tnameTy_name _) _ _).symm (scope_visit_rel H A _ _ _ _)
    · simp only [if_true]
      refine C.fnBody ?_ (scope_visit_rel H A _ _ _ _)
      rw [mapS_names (tnameInsert_name H.insert), mapS_names (tnameTy_name _)]

theorem stmtKids_rel (H : HooksRel C P) {n : Nat} (A : All C P sc n) (st : Stmt) (s2 : σ) :
    C.relS st (stmtKids P sc n st s2).1 := by
  cases st with
  | assign targets values =>
    simp only [stmtKids]
    exact C.assign (mapS_rel A.t _ _) (mapS_rel A.e _ _)
  | cassign op t v =>
    simp only [stmtKids]
    exact C.cassign (A.t _ _) (A.e _ _)
  | callStmt c => exact C.reflS _
  | doBlock b =>
    simp only [stmtKids]
    exact C.doBlock (scope_visit_rel H A _ _ _ _)
  | function name m body =>
    cases name with
    | nil => exact C.reflS _
    | cons root path =>
      have hroot : ∀ s, (match (P.node (.var root) s).1 with | .var x => x | _ => root) = root := by
        intro s
        have h := (H.node (.var root) s).2
        split
        · next x hx => rw [hx] at h; exact (C.tVar h).symm
        · rfl
      cases sc
      · cases body with
        | mk params variadic varTy ret generics attrs blk =>
          simp only [stmtKids, Bool.false_eq_true, if_false, hroot]
          exact C.function (C.fnBody (mapS_names (tnameTy_name _) _ _).symm (scope_visit_rel H A _ _ _ _))
      · simp only [stmtKids, if_true, hroot]
        exact C.function (A.f _ _ _)
  | gfor names values body =>
    simp only [stmtKids]
    cases sc
    · simp only [Bool.false_eq_true, if_false]
      exact C.gfor (mapS_names (tnameTy_name _) _ _).symm (mapS_rel A.e _ _) (scope_visit_rel H A _ _ _ _)
    · simp only [if_true]
      refine C.gfor ?_ (mapS_rel A.e _ _) (scope_visit_rel H A _ _ _ _)
      rw [mapS_names (tnameInsert_name H.insert), mapS_names (tnameTy_name _)]
  | nfor name start stop step body =>
    simp only [stmtKids]
    cases sc
    · simp only [Bool.false_eq_true, if_false]
      exact C.nfor (tnameTy_name _ _ _).symm (A.e _ _) (A.e _ _) (optS_rel A.e _ _) (scope_visit_rel H A _ _ _ _)
    · simp only [if_true]
      refine C.nfor ?_ (A.e _ _) (A.e _ _) (optS_rel A.e _ _) (scope_visit_rel H A _ _ _ _)
      rw [tnameInsert_name H.insert, tnameTy_name]
  | ifs branches els =>
    simp only [stmtKids]
    refine C.ifs ?_ ?_
    · exact mapS_rel (R := PairRel C.relE C.relB) (fun p s => ⟨A.e _ _, scope_visit_rel H A _ _ _ _⟩) _ _
    · exact optS_rel (R := C.relB) (fun b s => scope_visit_rel H A _ _ _ _) _ _
  | localAssign kind names values =>
    simp only [stmtKids]
    cases sc
    · simp only [Bool.false_eq_true, if_false]
      exact C.localAssign (mapS_names (tnameTy_name _) _ _).symm (mapS_rel A.e _ _)
    · simp only [if_true]
      refine C.localAssign ?_ (Forall2.trans (fun a b c => @CongFam.transE C a b c) (mapS_rel A.e _ _) (insertLocals_rel H _ _ _).2)
      rw [(insertLocals_rel H _ _ _).1, mapS_names (tnameTy_name _)]
  | localFn kind name body =>
    simp only [stmtKids]
    cases sc
    · simp only [Bool.false_eq_true, if_false]
      exact C.localFn (A.f _ _ _)
    · cases body with
      | mk params variadic varTy ret generics attrs blk =>
        simp only [if_true, H.insertLocalFn]
        refine C.localFn (C.fnBody ?_ (scope_visit_rel H A _ _ _ _))
        rw [mapS_names (tnameInsert_name H.insert), mapS_names (tnameTy_name _)]
  | repeat_ body cond =>
    simp only [stmtKids]
    cases sc
    · simp only [Bool.false_eq_true, if_false]
      exact C.repeat_ (C.transRep (H.scopeR _ _ _) (C.repOfOpen (A.b _ _ _) (A.e _ _)))
    · simp only [if_true]
      exact C.repeat_ (C.transRep (H.scopeR _ _ _) (C.repOfOpen (A.b _ _ _) (A.e _ _)))
  | while_ cond body =>
    simp only [stmtKids]
    exact C.while_ (A.e _ _) (scope_visit_rel H A _ _ _ _)
  | typeDecl ex name ty =>
    simp only [stmtKids]
    exact C.typeDecl
  | typeFn ex name body =>
    cases body
    simp only [stmtKids]
    cases sc
    · simp only [Bool.false_eq_true, if_false]
      exact C.typeFn
    · simp only [if_true]
      exact C.typeFn

theorem all_succ (H : HooksRel C P) {n : Nat} (A : All C P sc n) : All C P sc (n + 1) where
  e := fun e s => by simp only [visitExpr]; exact C.transE (H.expr e s) (A.nd _ _).1
  p := fun e s => by simp only [visitPrefix]; exact C.transE (H.pref e s) (A.nd _ _).1
  t := fun e s => by simp only [visitTarget]; exact C.transT (H.target e s) (A.nd _ _).2
  nd := fun e s => by
    rw [visitNode_succ]
    split
    · exact ⟨C.reflE _, C.reflT _⟩
    · exact ⟨C.reflE _, C.reflT _⟩
    · exact ⟨C.reflE _, C.reflT _⟩
    · exact ⟨C.reflE _, C.reflT _⟩
    · have h1 := H.node e s
      have h2 := nodeKids_rel A (P.node e s).1 (P.node e s).2
      have h3 := H.afterNode (nodeKids P sc n (P.node e s).1 (P.node e s).2).1
        (nodeKids P sc n (P.node e s).1 (P.node e s).2).2
      exact ⟨C.transE h1.1 (C.transE h2.1 h3.1), C.transT h1.2 (C.transT h2.2 h3.2)⟩
  en := fun x s => by
    cases x <;> simp only [visitEntry, EntryRel]
    · exact A.e _ _
    · exact ⟨trivial, A.e _ _⟩
    · exact ⟨A.e _ _, A.e _ _⟩
  sg := fun x s => by
    cases x <;> simp only [visitSeg, SegRel]
    exact A.e _ _
  f := fnBody_rel H A
  st := fun x s => by
    rw [visitStmt_succ]
    have h1 := H.stmt x s
    simp only []
    split
    · next c hc =>
      rw [hc] at h1
      exact C.transS h1 (C.callStmt (A.nd _ _).1)
    · exact C.transS h1 (C.transS (H.stmtNode _ _) (C.transS (stmtKids_rel H A _ _) (H.afterStmtNode _ _)))
  l := fun x s => by
    simp only [visitLast]
    have h1 := H.last x s
    split
    · next es hes =>
      rw [hes] at h1
      exact C.transL h1 (C.ret (mapS_rel A.e _ _))
    · exact h1
  b := fun pushes b s => by
    simp only [visitBlock]
    generalize (if (sc && pushes) = true then P.push s else s) = s0
    have h1 := H.block b s0
    rcases hb : (P.block b s0).1 with ⟨stmts, last⟩
    rw [hb] at h1
    simp only []
    exact C.transBo h1 (C.transBo (C.block (mapS_rel A.st _ _) (optS_rel A.l _ _)) (H.afterBlock _ _))

theorem all_fuel (H : HooksRel C P) : ∀ n, All C P sc n
  | 0 => all_zero
  | n + 1 => all_succ H (all_fuel H n)

/-- **Generic lifting theorem.** If every hook of `P` maps nodes to `C`-related nodes, a visitor
pass (any fuel, either visitor flavour, any initial processor state) maps a block to a
`C`-related block. -/
theorem visit_rel (H : HooksRel C P) (sc : Bool) (fuel : Nat) (pushes : Bool) (b : Block) (s : σ) :
    C.relB b (visitBlock P sc fuel pushes b s).1 :=
  C.boToB ((all_fuel H fuel).b pushes b s)

theorem runDefault_rel (H : HooksRel C P) (b : Block) (s : σ) : C.relB b (runDefault P b s).1 :=
  visit_rel H false _ true b s

theorem runScoped_rel (H : HooksRel C P) (b : Block) (s : σ) : C.relB b (runScoped P b s).1 :=
  visit_rel H true _ true b s

end DarkluaModel.Visitor
