import DarkluaModel.Shared.VisitorSound.Exact
/-!
# Stage 2: the congruence closure of exact steps

`R md a b` — the syntax `b` is obtained from `a` by replacing, hereditarily and at any depth
(also inside function bodies), nodes by equivalent nodes. The steps are `LeE md` … `LeB md`:
with `md = false` exact equivalence (`EqE` …), with `md = true` "the original node times out
(budget exhausted) or the new node behaves exactly like it" — the right notion for rules that
delete loops (`while false do … end` times out at budget 0, its deletion does not).
All syntactic categories are put into one sum type `Node`, so that `R` is a single (non-mutual)
inductive predicate and plain `induction` works. Types, attributes and generics are unconstrained
(no semantics); parameter / loop variable names and variadicity must agree.
-/
namespace DarkluaModel
open Sem

namespace Sem
/-- step relation: (`md = true` and the original times out) or exact equality -/
def LeE (md : Bool) (e e' : Expr) : Prop :=
  ∀ (N : NumOps) (call : CallFn N) (ρ : ExtOracle N) (k : Nat) (env : Env N) (σ : State N),
    (md = true ∧ evalE call ρ k env e σ = .timeout) ∨ evalE call ρ k env e' σ = evalE call ρ k env e σ
def LeT (md : Bool) (e e' : Expr) : Prop :=
  ∀ (N : NumOps) (call : CallFn N) (ρ : ExtOracle N) (k : Nat) (env : Env N) (σ : State N),
    (md = true ∧ evalTarget call ρ k env e σ = .timeout) ∨
      evalTarget call ρ k env e' σ = evalTarget call ρ k env e σ
def LeS (md : Bool) (e e' : Stmt) : Prop :=
  ∀ (N : NumOps) (call : CallFn N) (ρ : ExtOracle N) (k : Nat) (env : Env N) (σ : State N),
    (md = true ∧ execS call ρ k env e σ = .timeout) ∨ execS call ρ k env e' σ = execS call ρ k env e σ
def LeL (md : Bool) (e e' : Last) : Prop :=
  ∀ (N : NumOps) (call : CallFn N) (ρ : ExtOracle N) (k : Nat) (env : Env N) (σ : State N),
    (md = true ∧ execLast call ρ k env e σ = .timeout) ∨ execLast call ρ k env e' σ = execLast call ρ k env e σ
def LeB (md : Bool) (e e' : Block) : Prop :=
  ∀ (N : NumOps) (call : CallFn N) (ρ : ExtOracle N) (k : Nat) (env : Env N) (σ : State N),
    (md = true ∧ execB call ρ k env e σ = .timeout) ∨ execB call ρ k env e' σ = execB call ρ k env e σ

theorem EqE.le {md e e'} (h : EqE e e') : LeE md e e' := fun N call ρ k env σ => .inr (h N call ρ k env σ)
theorem EqT.le {md e e'} (h : EqT e e') : LeT md e e' := fun N call ρ k env σ => .inr (h N call ρ k env σ)
theorem EqS.le {md e e'} (h : EqS e e') : LeS md e e' := fun N call ρ k env σ => .inr (h N call ρ k env σ)
theorem EqL.le {md e e'} (h : EqL e e') : LeL md e e' := fun N call ρ k env σ => .inr (h N call ρ k env σ)
theorem EqB.le {md e e'} (h : EqB e e') : LeB md e e' := fun N call ρ k env σ => .inr (h N call ρ k env σ)
theorem LeE.refl {md} (e) : LeE md e e := fun _ _ _ _ _ _ => .inr rfl
theorem LeT.refl {md} (e) : LeT md e e := fun _ _ _ _ _ _ => .inr rfl
theorem LeS.refl {md} (e) : LeS md e e := fun _ _ _ _ _ _ => .inr rfl
theorem LeL.refl {md} (e) : LeL md e e := fun _ _ _ _ _ _ => .inr rfl
theorem LeB.refl {md} (e) : LeB md e e := fun _ _ _ _ _ _ => .inr rfl
end Sem

inductive Node where
  | e (x : Expr)
  | t (x : Expr)
  | es (xs : List Expr)
  | ts (xs : List Expr)
  | elifs (xs : List (Expr × Expr))
  | entries (xs : List Entry)
  | segs (xs : List Seg)
  | f (x : FnBody)
  | s (x : Stmt)
  | ss (xs : List Stmt)
  | branches (xs : List (Expr × Block))
  | l (x : Last)
  | b (x : Block)
  /-- a `repeat` body with its `until` condition (heap-relation development only) -/
  | rep (x : Block) (c : Expr)

def Expr.isLeaf : Expr → Bool
  | .nil | .true | .false | .vararg | .num _ | .str _ | .var _ => Bool.true
  | _ => Bool.false

inductive R (md : Bool) : Node → Node → Prop
  -- exact steps and transitivity, per category
  | stepE {a m b} : LeE md a m → R md (.e m) (.e b) → R md (.e a) (.e b)
  | stepT {a m b} : LeT md a m → R md (.t m) (.t b) → R md (.t a) (.t b)
  | stepS {a m b} : LeS md a m → R md (.s m) (.s b) → R md (.s a) (.s b)
  | stepL {a m b} : LeL md a m → R md (.l m) (.l b) → R md (.l a) (.l b)
  | stepB {a m b} : LeB md a m → R md (.b m) (.b b) → R md (.b a) (.b b)
  | transE {a b c} : R md (.e a) (.e b) → R md (.e b) (.e c) → R md (.e a) (.e c)
  | transT {a b c} : R md (.t a) (.t b) → R md (.t b) (.t c) → R md (.t a) (.t c)
  | transS {a b c} : R md (.s a) (.s b) → R md (.s b) (.s c) → R md (.s a) (.s c)
  | transL {a b c} : R md (.l a) (.l b) → R md (.l b) (.l c) → R md (.l a) (.l c)
  | transB {a b c} : R md (.b a) (.b b) → R md (.b b) (.b c) → R md (.b a) (.b c)
  -- expressions
  | leaf {x} : x.isLeaf = true → R md (.e x) (.e x)
  | paren {x x'} : R md (.e x) (.e x') → R md (.e (.paren x)) (.e (.paren x'))
  | un {op x x'} : R md (.e x) (.e x') → R md (.e (.un op x)) (.e (.un op x'))
  | bin {op l l' r r'} : R md (.e l) (.e l') → R md (.e r) (.e r') → R md (.e (.bin op l r)) (.e (.bin op l' r'))
  | call {f f' m k args args'} : R md (.e f) (.e f') → R md (.es args) (.es args') →
      R md (.e (.call f m k args)) (.e (.call f' m k args'))
  | field {x x' n} : R md (.e x) (.e x') → R md (.e (.field x n)) (.e (.field x' n))
  | index {x x' k k'} : R md (.e x) (.e x') → R md (.e k) (.e k') → R md (.e (.index x k)) (.e (.index x' k'))
  | fn {f f'} : R md (.f f) (.f f') → R md (.e (.fn f)) (.e (.fn f'))
  | table {es es'} : R md (.entries es) (.entries es') → R md (.e (.table es)) (.e (.table es'))
  | ifx {c c' t t' el el' e e'} : R md (.e c) (.e c') → R md (.e t) (.e t') → R md (.elifs el) (.elifs el') →
      R md (.e e) (.e e') → R md (.e (.ifx c t el e)) (.e (.ifx c' t' el' e'))
  | interp {segs segs'} : R md (.segs segs) (.segs segs') → R md (.e (.interp segs)) (.e (.interp segs'))
  | cast {x x' ty ty'} : R md (.e x) (.e x') → R md (.e (.cast x ty)) (.e (.cast x' ty'))
  | inst {x x' tys tys'} : R md (.e x) (.e x') → R md (.e (.inst x tys)) (.e (.inst x' tys'))
  -- lists of expressions
  | esNil : R md (.es []) (.es [])
  | esCons {x x' xs xs'} : R md (.e x) (.e x') → R md (.es xs) (.es xs') → R md (.es (x :: xs)) (.es (x' :: xs'))
  | tsNil : R md (.ts []) (.ts [])
  | tsCons {x x' xs xs'} : R md (.t x) (.t x') → R md (.ts xs) (.ts xs') → R md (.ts (x :: xs)) (.ts (x' :: xs'))
  | elifsNil : R md (.elifs []) (.elifs [])
  | elifsCons {c c' t t' xs xs'} : R md (.e c) (.e c') → R md (.e t) (.e t') → R md (.elifs xs) (.elifs xs') →
      R md (.elifs ((c, t) :: xs)) (.elifs ((c', t') :: xs'))
  | entriesNil : R md (.entries []) (.entries [])
  | entriesPos {v v' xs xs'} : R md (.e v) (.e v') → R md (.entries xs) (.entries xs') →
      R md (.entries (.pos v :: xs)) (.entries (.pos v' :: xs'))
  | entriesNamed {k v v' xs xs'} : R md (.e v) (.e v') → R md (.entries xs) (.entries xs') →
      R md (.entries (.named k v :: xs)) (.entries (.named k v' :: xs'))
  | entriesKeyed {k k' v v' xs xs'} : R md (.e k) (.e k') → R md (.e v) (.e v') → R md (.entries xs) (.entries xs') →
      R md (.entries (.keyed k v :: xs)) (.entries (.keyed k' v' :: xs'))
  | segsNil : R md (.segs []) (.segs [])
  | segsS {b xs xs'} : R md (.segs xs) (.segs xs') → R md (.segs (.s b :: xs)) (.segs (.s b :: xs'))
  | segsV {x x' xs xs'} : R md (.e x) (.e x') → R md (.segs xs) (.segs xs') → R md (.segs (.v x :: xs)) (.segs (.v x' :: xs'))
  -- targets
  | tVar {a} : R md (.t (.var a)) (.t (.var a))
  | tField {x x' n} : R md (.e x) (.e x') → R md (.t (.field x n)) (.t (.field x' n))
  | tIndex {x x' k k'} : R md (.e x) (.e x') → R md (.e k) (.e k') → R md (.t (.index x k)) (.t (.index x' k'))
  | tNonLv {x x'} : x.isLv = false → x'.isLv = false → R md (.t x) (.t x')
  -- function bodies
  | fnBody {ps ps' v vt vt' r r' g g' a a' b b'} : ps.map TName.name = ps'.map TName.name →
      R md (.b b) (.b b') → R md (.f (.mk ps v vt r g a b)) (.f (.mk ps' v vt' r' g' a' b'))
  -- statements
  | assign {ts ts' vs vs'} : R md (.ts ts) (.ts ts') → R md (.es vs) (.es vs') →
      R md (.s (.assign ts vs)) (.s (.assign ts' vs'))
  | cassign {op t t' v v'} : R md (.t t) (.t t') → R md (.e v) (.e v') → R md (.s (.cassign op t v)) (.s (.cassign op t' v'))
  | callStmt {c c'} : R md (.e c) (.e c') → R md (.s (.callStmt c)) (.s (.callStmt c'))
  | doBlock {b b'} : R md (.b b) (.b b') → R md (.s (.doBlock b)) (.s (.doBlock b'))
  | function {name m f f'} : R md (.f f) (.f f') → R md (.s (.function name m f)) (.s (.function name m f'))
  | gfor {ns ns' vs vs' b b'} : ns.map TName.name = ns'.map TName.name → R md (.es vs) (.es vs') →
      R md (.b b) (.b b') → R md (.s (.gfor ns vs b)) (.s (.gfor ns' vs' b'))
  | nforNone {n n' a a' b b' body body'} : n.name = n'.name → R md (.e a) (.e a') → R md (.e b) (.e b') →
      R md (.b body) (.b body') → R md (.s (.nfor n a b none body)) (.s (.nfor n' a' b' none body'))
  | nforSome {n n' a a' b b' st st' body body'} : n.name = n'.name → R md (.e a) (.e a') → R md (.e b) (.e b') →
      R md (.e st) (.e st') → R md (.b body) (.b body') →
      R md (.s (.nfor n a b (some st) body)) (.s (.nfor n' a' b' (some st') body'))
  | ifsNone {brs brs'} : R md (.branches brs) (.branches brs') → R md (.s (.ifs brs none)) (.s (.ifs brs' none))
  | ifsSome {brs brs' b b'} : R md (.branches brs) (.branches brs') → R md (.b b) (.b b') →
      R md (.s (.ifs brs (some b))) (.s (.ifs brs' (some b')))
  | localAssign {kind ns ns' vs vs'} : ns.map TName.name = ns'.map TName.name → R md (.es vs) (.es vs') →
      R md (.s (.localAssign kind ns vs)) (.s (.localAssign kind ns' vs'))
  | localFn {kind name f f'} : R md (.f f) (.f f') → R md (.s (.localFn kind name f)) (.s (.localFn kind name f'))
  | repeat_ {b b' c c'} : R md (.b b) (.b b') → R md (.e c) (.e c') → R md (.s (.repeat_ b c)) (.s (.repeat_ b' c'))
  | while_ {b b' c c'} : R md (.e c) (.e c') → R md (.b b) (.b b') → R md (.s (.while_ c b)) (.s (.while_ c' b'))
  | typeDecl {ex name ty ty'} : R md (.s (.typeDecl ex name ty)) (.s (.typeDecl ex name ty'))
  | typeFn {ex name f f'} : R md (.s (.typeFn ex name f)) (.s (.typeFn ex name f'))
  -- statement lists, branches, last statements, blocks
  | ssNil : R md (.ss []) (.ss [])
  | ssCons {x x' xs xs'} : R md (.s x) (.s x') → R md (.ss xs) (.ss xs') → R md (.ss (x :: xs)) (.ss (x' :: xs'))
  | branchesNil : R md (.branches []) (.branches [])
  | branchesCons {c c' b b' xs xs'} : R md (.e c) (.e c') → R md (.b b) (.b b') → R md (.branches xs) (.branches xs') →
      R md (.branches ((c, b) :: xs)) (.branches ((c', b') :: xs'))
  | ret {es es'} : R md (.es es) (.es es') → R md (.l (.ret es)) (.l (.ret es'))
  | brk : R md (.l .brk) (.l .brk)
  | cont : R md (.l .cont) (.l .cont)
  | blockNone {ss ss'} : R md (.ss ss) (.ss ss') → R md (.b (.mk ss none)) (.b (.mk ss' none))
  | blockSome {ss ss' l l'} : R md (.ss ss) (.ss ss') → R md (.l l) (.l l') → R md (.b (.mk ss (some l))) (.b (.mk ss' (some l')))

/-! ### reflexivity (structural recursion over the syntax) -/
variable {md : Bool}
mutual
  theorem R.reflE : ∀ e : Expr, R md (.e e) (.e e)
    | .nil => .leaf rfl | .true => .leaf rfl | .false => .leaf rfl | .vararg => .leaf rfl
    | .num _ => .leaf rfl | .str _ => .leaf rfl | .var _ => .leaf rfl
    | .paren e => .paren (R.reflE e)
    | .un _ e => .un (R.reflE e)
    | .bin _ l r => .bin (R.reflE l) (R.reflE r)
    | .call f _ _ args => .call (R.reflE f) (R.reflEs args)
    | .field e _ => .field (R.reflE e)
    | .index e k => .index (R.reflE e) (R.reflE k)
    | .fn body => .fn (R.reflF body)
    | .table es => .table (R.reflEntries es)
    | .ifx c t elifs e => .ifx (R.reflE c) (R.reflE t) (R.reflElifs elifs) (R.reflE e)
    | .interp segs => .interp (R.reflSegs segs)
    | .cast e _ => .cast (R.reflE e)
    | .inst e _ => .inst (R.reflE e)
  theorem R.reflEs : ∀ es : List Expr, R md (.es es) (.es es)
    | [] => .esNil
    | e :: es => .esCons (R.reflE e) (R.reflEs es)
  theorem R.reflElifs : ∀ es : List (Expr × Expr), R md (.elifs es) (.elifs es)
    | [] => .elifsNil
    | (c, t) :: es => .elifsCons (R.reflE c) (R.reflE t) (R.reflElifs es)
  theorem R.reflEntries : ∀ es : List Entry, R md (.entries es) (.entries es)
    | [] => .entriesNil
    | .pos v :: es => .entriesPos (R.reflE v) (R.reflEntries es)
    | .named _ v :: es => .entriesNamed (R.reflE v) (R.reflEntries es)
    | .keyed k v :: es => .entriesKeyed (R.reflE k) (R.reflE v) (R.reflEntries es)
  theorem R.reflSegs : ∀ es : List Seg, R md (.segs es) (.segs es)
    | [] => .segsNil
    | .s _ :: es => .segsS (R.reflSegs es)
    | .v e :: es => .segsV (R.reflE e) (R.reflSegs es)
  theorem R.reflF : ∀ f : FnBody, R md (.f f) (.f f)
    | .mk _ _ _ _ _ _ b => .fnBody rfl (R.reflB b)
  theorem R.reflS : ∀ s : Stmt, R md (.s s) (.s s)
    | .assign ts vs => .assign (R.reflTs ts) (R.reflEs vs)
    | .cassign _ t v => .cassign (R.reflT t) (R.reflE v)
    | .callStmt c => .callStmt (R.reflE c)
    | .doBlock b => .doBlock (R.reflB b)
    | .function _ _ body => .function (R.reflF body)
    | .gfor _ vs body => .gfor rfl (R.reflEs vs) (R.reflB body)
    | .nfor _ a b none body => .nforNone rfl (R.reflE a) (R.reflE b) (R.reflB body)
    | .nfor _ a b (some st) body => .nforSome rfl (R.reflE a) (R.reflE b) (R.reflE st) (R.reflB body)
    | .ifs brs none => .ifsNone (R.reflBranches brs)
    | .ifs brs (some b) => .ifsSome (R.reflBranches brs) (R.reflB b)
    | .localAssign _ _ vs => .localAssign rfl (R.reflEs vs)
    | .localFn _ _ body => .localFn (R.reflF body)
    | .repeat_ b c => .repeat_ (R.reflB b) (R.reflE c)
    | .while_ c b => .while_ (R.reflE c) (R.reflB b)
    | .typeDecl _ _ _ => .typeDecl
    | .typeFn _ _ _ => .typeFn
  theorem R.reflT : ∀ e : Expr, R md (.t e) (.t e)
    | .var _ => .tVar
    | .field x _ => .tField (R.reflE x)
    | .index x k => .tIndex (R.reflE x) (R.reflE k)
    | .nil => .tNonLv rfl rfl | .true => .tNonLv rfl rfl | .false => .tNonLv rfl rfl
    | .vararg => .tNonLv rfl rfl | .num _ => .tNonLv rfl rfl | .str _ => .tNonLv rfl rfl
    | .paren _ => .tNonLv rfl rfl | .un _ _ => .tNonLv rfl rfl | .bin _ _ _ => .tNonLv rfl rfl
    | .call _ _ _ _ => .tNonLv rfl rfl | .fn _ => .tNonLv rfl rfl | .table _ => .tNonLv rfl rfl
    | .ifx _ _ _ _ => .tNonLv rfl rfl | .interp _ => .tNonLv rfl rfl | .cast _ _ => .tNonLv rfl rfl
    | .inst _ _ => .tNonLv rfl rfl
  theorem R.reflTs : ∀ es : List Expr, R md (.ts es) (.ts es)
    | [] => .tsNil
    | e :: es => .tsCons (R.reflT e) (R.reflTs es)
  theorem R.reflBranches : ∀ es : List (Expr × Block), R md (.branches es) (.branches es)
    | [] => .branchesNil
    | (c, b) :: es => .branchesCons (R.reflE c) (R.reflB b) (R.reflBranches es)
  theorem R.reflSs : ∀ ss : List Stmt, R md (.ss ss) (.ss ss)
    | [] => .ssNil
    | s :: ss => .ssCons (R.reflS s) (R.reflSs ss)
  theorem R.reflL : ∀ l : Last, R md (.l l) (.l l)
    | .ret es => .ret (R.reflEs es)
    | .brk => .brk
    | .cont => .cont
  theorem R.reflB : ∀ b : Block, R md (.b b) (.b b)
    | .mk ss none => .blockNone (R.reflSs ss)
    | .mk ss (some l) => .blockSome (R.reflSs ss) (R.reflL l)
end

end DarkluaModel
