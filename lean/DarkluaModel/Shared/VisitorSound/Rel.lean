import DarkluaModel.Shared.VisitorSound.Exact
/-!
# Stage 2: the congruence closure of exact steps

`R a b` — the syntax `b` is obtained from `a` by replacing, hereditarily and at any depth
(also inside function bodies), nodes by exactly equivalent nodes (`EqE`/`EqT`/`EqS`/`EqL`/`EqB`).
All syntactic categories are put into one sum type `Node`, so that `R` is a single (non-mutual)
inductive predicate and plain `induction` works. Types, attributes and generics are unconstrained
(no semantics); parameter / loop variable names and variadicity must agree.
-/
namespace DarkluaModel
open Sem

inductive Node where
  | e (x : Expr)
  | t (x : Expr)
  | es (xs : List Expr)
  | ts (xs : List Expr)
  | elifs (xs : List (Expr × Expr))
  | entries (xs : List Entry)
  | segs (xs : List Seg)
  | f (x : FnBody)
  | s (x : Stmt)
  | ss (xs : List Stmt)
  | branches (xs : List (Expr × Block))
  | l (x : Last)
  | b (x : Block)

def Expr.isLeaf : Expr → Bool
  | .nil | .true | .false | .vararg | .num _ | .str _ | .var _ => Bool.true
  | _ => Bool.false

inductive R : Node → Node → Prop
  -- exact steps and transitivity, per category
  | stepE {a m b} : EqE a m → R (.e m) (.e b) → R (.e a) (.e b)
  | stepT {a m b} : EqT a m → R (.t m) (.t b) → R (.t a) (.t b)
  | stepS {a m b} : EqS a m → R (.s m) (.s b) → R (.s a) (.s b)
  | stepL {a m b} : EqL a m → R (.l m) (.l b) → R (.l a) (.l b)
  | stepB {a m b} : EqB a m → R (.b m) (.b b) → R (.b a) (.b b)
  | transE {a b c} : R (.e a) (.e b) → R (.e b) (.e c) → R (.e a) (.e c)
  | transT {a b c} : R (.t a) (.t b) → R (.t b) (.t c) → R (.t a) (.t c)
  | transS {a b c} : R (.s a) (.s b) → R (.s b) (.s c) → R (.s a) (.s c)
  | transL {a b c} : R (.l a) (.l b) → R (.l b) (.l c) → R (.l a) (.l c)
  | transB {a b c} : R (.b a) (.b b) → R (.b b) (.b c) → R (.b a) (.b c)
  -- expressions
  | leaf {x} : x.isLeaf = true → R (.e x) (.e x)
  | paren {x x'} : R (.e x) (.e x') → R (.e (.paren x)) (.e (.paren x'))
  | un {op x x'} : R (.e x) (.e x') → R (.e (.un op x)) (.e (.un op x'))
  | bin {op l l' r r'} : R (.e l) (.e l') → R (.e r) (.e r') → R (.e (.bin op l r)) (.e (.bin op l' r'))
  | call {f f' m k args args'} : R (.e f) (.e f') → R (.es args) (.es args') →
      R (.e (.call f m k args)) (.e (.call f' m k args'))
  | field {x x' n} : R (.e x) (.e x') → R (.e (.field x n)) (.e (.field x' n))
  | index {x x' k k'} : R (.e x) (.e x') → R (.e k) (.e k') → R (.e (.index x k)) (.e (.index x' k'))
  | fn {f f'} : R (.f f) (.f f') → R (.e (.fn f)) (.e (.fn f'))
  | table {es es'} : R (.entries es) (.entries es') → R (.e (.table es)) (.e (.table es'))
  | ifx {c c' t t' el el' e e'} : R (.e c) (.e c') → R (.e t) (.e t') → R (.elifs el) (.elifs el') →
      R (.e e) (.e e') → R (.e (.ifx c t el e)) (.e (.ifx c' t' el' e'))
  | interp {segs segs'} : R (.segs segs) (.segs segs') → R (.e (.interp segs)) (.e (.interp segs'))
  | cast {x x' ty ty'} : R (.e x) (.e x') → R (.e (.cast x ty)) (.e (.cast x' ty'))
  | inst {x x' tys tys'} : R (.e x) (.e x') → R (.e (.inst x tys)) (.e (.inst x' tys'))
  -- lists of expressions
  | esNil : R (.es []) (.es [])
  | esCons {x x' xs xs'} : R (.e x) (.e x') → R (.es xs) (.es xs') → R (.es (x :: xs)) (.es (x' :: xs'))
  | tsNil : R (.ts []) (.ts [])
  | tsCons {x x' xs xs'} : R (.t x) (.t x') → R (.ts xs) (.ts xs') → R (.ts (x :: xs)) (.ts (x' :: xs'))
  | elifsNil : R (.elifs []) (.elifs [])
  | elifsCons {c c' t t' xs xs'} : R (.e c) (.e c') → R (.e t) (.e t') → R (.elifs xs) (.elifs xs') →
      R (.elifs ((c, t) :: xs)) (.elifs ((c', t') :: xs'))
  | entriesNil : R (.entries []) (.entries [])
  | entriesPos {v v' xs xs'} : R (.e v) (.e v') → R (.entries xs) (.entries xs') →
      R (.entries (.pos v :: xs)) (.entries (.pos v' :: xs'))
  | entriesNamed {k v v' xs xs'} : R (.e v) (.e v') → R (.entries xs) (.entries xs') →
      R (.entries (.named k v :: xs)) (.entries (.named k v' :: xs'))
  | entriesKeyed {k k' v v' xs xs'} : R (.e k) (.e k') → R (.e v) (.e v') → R (.entries xs) (.entries xs') →
      R (.entries (.keyed k v :: xs)) (.entries (.keyed k' v' :: xs'))
  | segsNil : R (.segs []) (.segs [])
  | segsS {b xs xs'} : R (.segs xs) (.segs xs') → R (.segs (.s b :: xs)) (.segs (.s b :: xs'))
  | segsV {x x' xs xs'} : R (.e x) (.e x') → R (.segs xs) (.segs xs') → R (.segs (.v x :: xs)) (.segs (.v x' :: xs'))
  -- targets
  | tVar {a} : R (.t (.var a)) (.t (.var a))
  | tField {x x' n} : R (.e x) (.e x') → R (.t (.field x n)) (.t (.field x' n))
  | tIndex {x x' k k'} : R (.e x) (.e x') → R (.e k) (.e k') → R (.t (.index x k)) (.t (.index x' k'))
  | tNonLv {x x'} : x.isLv = false → x'.isLv = false → R (.t x) (.t x')
  -- function bodies
  | fnBody {ps ps' v vt vt' r r' g g' a a' b b'} : ps.map TName.name = ps'.map TName.name →
      R (.b b) (.b b') → R (.f (.mk ps v vt r g a b)) (.f (.mk ps' v vt' r' g' a' b'))
  -- statements
  | assign {ts ts' vs vs'} : R (.ts ts) (.ts ts') → R (.es vs) (.es vs') →
      R (.s (.assign ts vs)) (.s (.assign ts' vs'))
  | cassign {op t t' v v'} : R (.t t) (.t t') → R (.e v) (.e v') → R (.s (.cassign op t v)) (.s (.cassign op t' v'))
  | callStmt {c c'} : R (.e c) (.e c') → R (.s (.callStmt c)) (.s (.callStmt c'))
  | doBlock {b b'} : R (.b b) (.b b') → R (.s (.doBlock b)) (.s (.doBlock b'))
  | function {name m f f'} : R (.f f) (.f f') → R (.s (.function name m f)) (.s (.function name m f'))
  | gfor {ns ns' vs vs' b b'} : ns.map TName.name = ns'.map TName.name → R (.es vs) (.es vs') →
      R (.b b) (.b b') → R (.s (.gfor ns vs b)) (.s (.gfor ns' vs' b'))
  | nforNone {n n' a a' b b' body body'} : n.name = n'.name → R (.e a) (.e a') → R (.e b) (.e b') →
      R (.b body) (.b body') → R (.s (.nfor n a b none body)) (.s (.nfor n' a' b' none body'))
  | nforSome {n n' a a' b b' st st' body body'} : n.name = n'.name → R (.e a) (.e a') → R (.e b) (.e b') →
      R (.e st) (.e st') → R (.b body) (.b body') →
      R (.s (.nfor n a b (some st) body)) (.s (.nfor n' a' b' (some st') body'))
  | ifsNone {brs brs'} : R (.branches brs) (.branches brs') → R (.s (.ifs brs none)) (.s (.ifs brs' none))
  | ifsSome {brs brs' b b'} : R (.branches brs) (.branches brs') → R (.b b) (.b b') →
      R (.s (.ifs brs (some b))) (.s (.ifs brs' (some b')))
  | localAssign {kind ns ns' vs vs'} : ns.map TName.name = ns'.map TName.name → R (.es vs) (.es vs') →
      R (.s (.localAssign kind ns vs)) (.s (.localAssign kind ns' vs'))
  | localFn {kind name f f'} : R (.f f) (.f f') → R (.s (.localFn kind name f)) (.s (.localFn kind name f'))
  | repeat_ {b b' c c'} : R (.b b) (.b b') → R (.e c) (.e c') → R (.s (.repeat_ b c)) (.s (.repeat_ b' c'))
  | while_ {b b' c c'} : R (.e c) (.e c') → R (.b b) (.b b') → R (.s (.while_ c b)) (.s (.while_ c' b'))
  | typeDecl {ex name ty ty'} : R (.s (.typeDecl ex name ty)) (.s (.typeDecl ex name ty'))
  | typeFn {ex name f f'} : R (.s (.typeFn ex name f)) (.s (.typeFn ex name f'))
  -- statement lists, branches, last statements, blocks
  | ssNil : R (.ss []) (.ss [])
  | ssCons {x x' xs xs'} : R (.s x) (.s x') → R (.ss xs) (.ss xs') → R (.ss (x :: xs)) (.ss (x' :: xs'))
  | branchesNil : R (.branches []) (.branches [])
  | branchesCons {c c' b b' xs xs'} : R (.e c) (.e c') → R (.b b) (.b b') → R (.branches xs) (.branches xs') →
      R (.branches ((c, b) :: xs)) (.branches ((c', b') :: xs'))
  | ret {es es'} : R (.es es) (.es es') → R (.l (.ret es)) (.l (.ret es'))
  | brk : R (.l .brk) (.l .brk)
  | cont : R (.l .cont) (.l .cont)
  | blockNone {ss ss'} : R (.ss ss) (.ss ss') → R (.b (.mk ss none)) (.b (.mk ss' none))
  | blockSome {ss ss' l l'} : R (.ss ss) (.ss ss') → R (.l l) (.l l') → R (.b (.mk ss (some l))) (.b (.mk ss' (some l')))

/-! ### reflexivity (structural recursion over the syntax) -/
mutual
  theorem R.reflE : ∀ e : Expr, R (.e e) (.e e)
    | .nil => .leaf rfl | .true => .leaf rfl | .false => .leaf rfl | .vararg => .leaf rfl
    | .num _ => .leaf rfl | .str _ => .leaf rfl | .var _ => .leaf rfl
    | .paren e => .paren (R.reflE e)
    | .un _ e => .un (R.reflE e)
    | .bin _ l r => .bin (R.reflE l) (R.reflE r)
    | .call f _ _ args => .call (R.reflE f) (R.reflEs args)
    | .field e _ => .field (R.reflE e)
    | .index e k => .index (R.reflE e) (R.reflE k)
    | .fn body => .fn (R.reflF body)
    | .table es => .table (R.reflEntries es)
    | .ifx c t elifs e => .ifx (R.reflE c) (R.reflE t) (R.reflElifs elifs) (R.reflE e)
    | .interp segs => .interp (R.reflSegs segs)
    | .cast e _ => .cast (R.reflE e)
    | .inst e _ => .inst (R.reflE e)
  theorem R.reflEs : ∀ es : List Expr, R (.es es) (.es es)
    | [] => .esNil
    | e :: es => .esCons (R.reflE e) (R.reflEs es)
  theorem R.reflElifs : ∀ es : List (Expr × Expr), R (.elifs es) (.elifs es)
    | [] => .elifsNil
    | (c, t) :: es => .elifsCons (R.reflE c) (R.reflE t) (R.reflElifs es)
  theorem R.reflEntries : ∀ es : List Entry, R (.entries es) (.entries es)
    | [] => .entriesNil
    | .pos v :: es => .entriesPos (R.reflE v) (R.reflEntries es)
    | .named _ v :: es => .entriesNamed (R.reflE v) (R.reflEntries es)
    | .keyed k v :: es => .entriesKeyed (R.reflE k) (R.reflE v) (R.reflEntries es)
  theorem R.reflSegs : ∀ es : List Seg, R (.segs es) (.segs es)
    | [] => .segsNil
    | .s _ :: es => .segsS (R.reflSegs es)
    | .v e :: es => .segsV (R.reflE e) (R.reflSegs es)
  theorem R.reflF : ∀ f : FnBody, R (.f f) (.f f)
    | .mk _ _ _ _ _ _ b => .fnBody rfl (R.reflB b)
  theorem R.reflS : ∀ s : Stmt, R (.s s) (.s s)
    | .assign ts vs => .assign (R.reflTs ts) (R.reflEs vs)
    | .cassign _ t v => .cassign (R.reflT t) (R.reflE v)
    | .callStmt c => .callStmt (R.reflE c)
    | .doBlock b => .doBlock (R.reflB b)
    | .function _ _ body => .function (R.reflF body)
    | .gfor _ vs body => .gfor rfl (R.reflEs vs) (R.reflB body)
    | .nfor _ a b none body => .nforNone rfl (R.reflE a) (R.reflE b) (R.reflB body)
    | .nfor _ a b (some st) body => .nforSome rfl (R.reflE a) (R.reflE b) (R.reflE st) (R.reflB body)
    | .ifs brs none => .ifsNone (R.reflBranches brs)
    | .ifs brs (some b) => .ifsSome (R.reflBranches brs) (R.reflB b)
    | .localAssign _ _ vs => .localAssign rfl (R.reflEs vs)
    | .localFn _ _ body => .localFn (R.reflF body)
    | .repeat_ b c => .repeat_ (R.reflB b) (R.reflE c)
    | .while_ c b => .while_ (R.reflE c) (R.reflB b)
    | .typeDecl _ _ _ => .typeDecl
    | .typeFn _ _ _ => .typeFn
  theorem R.reflT : ∀ e : Expr, R (.t e) (.t e)
    | .var _ => .tVar
    | .field x _ => .tField (R.reflE x)
    | .index x k => .tIndex (R.reflE x) (R.reflE k)
    | .nil => .tNonLv rfl rfl | .true => .tNonLv rfl rfl | .false => .tNonLv rfl rfl
    | .vararg => .tNonLv rfl rfl | .num _ => .tNonLv rfl rfl | .str _ => .tNonLv rfl rfl
    | .paren _ => .tNonLv rfl rfl | .un _ _ => .tNonLv rfl rfl | .bin _ _ _ => .tNonLv rfl rfl
    | .call _ _ _ _ => .tNonLv rfl rfl | .fn _ => .tNonLv rfl rfl | .table _ => .tNonLv rfl rfl
    | .ifx _ _ _ _ => .tNonLv rfl rfl | .interp _ => .tNonLv rfl rfl | .cast _ _ => .tNonLv rfl rfl
    | .inst _ _ => .tNonLv rfl rfl
  theorem R.reflTs : ∀ es : List Expr, R (.ts es) (.ts es)
    | [] => .tsNil
    | e :: es => .tsCons (R.reflT e) (R.reflTs es)
  theorem R.reflBranches : ∀ es : List (Expr × Block), R (.branches es) (.branches es)
    | [] => .branchesNil
    | (c, b) :: es => .branchesCons (R.reflE c) (R.reflB b) (R.reflBranches es)
  theorem R.reflSs : ∀ ss : List Stmt, R (.ss ss) (.ss ss)
    | [] => .ssNil
    | s :: ss => .ssCons (R.reflS s) (R.reflSs ss)
  theorem R.reflL : ∀ l : Last, R (.l l) (.l l)
    | .ret es => .ret (R.reflEs es)
    | .brk => .brk
    | .cont => .cont
  theorem R.reflB : ∀ b : Block, R (.b b) (.b b)
    | .mk ss none => .blockNone (R.reflSs ss)
    | .mk ss (some l) => .blockSome (R.reflSs ss) (R.reflL l)
end

end DarkluaModel
