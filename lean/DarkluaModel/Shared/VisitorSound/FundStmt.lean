import DarkluaModel.Shared.VisitorSound.Fund
/-!
# Fundamental theorem: statement cases, the induction, and call levels
-/
namespace DarkluaModel.Sem
variable {md : Bool}

/-- the tail shared by loops and blocks-in-statements: a loop result becomes a control result -/
theorem RRel.loopEnd {N : NumOps} {env : Env N} {r : Option (List (Val N))} {σ σ' : State N} (h : SRel md σ σ') :
    RRel md (match r with | some rv => (Res.ok (Ctl.ret rv) σ : Res N (Ctl N)) | none => .ok (.next env) σ)
      (match r with | some rv => .ok (.ret rv) σ' | none => .ok (.next env) σ') := by
  cases r <;> exact RRel.ok h

theorem SoundS.assign {ts ts' vs vs'} (iht : SoundTs md ts ts') (ihv : SoundEs md vs vs') :
    SoundS md (.assign ts vs) (.assign ts' vs') := by
  intro N call ρ k env σ σ' hc hs
  simp only [execS]
  exact RRel.bind (iht N call ρ k env σ σ' hc hs) fun _ _ _ h =>
    RRel.bind (ihv N call ρ k env _ _ hc h) fun _ _ _ h =>
      RRel.bind (storeTargets_param hc _ _ _ _ h) fun _ _ _ h => RRel.ok h

theorem SoundS.cassign {op t t' v v'} (iht : SoundT md t t') (ihv : SoundE md v v') :
    SoundS md (.cassign op t v) (.cassign op t' v') := by
  intro N call ρ k env σ σ' hc hs
  simp only [execS]
  refine RRel.bind (iht N call ρ k env σ σ' hc hs) fun tg s s' h => ?_
  have hold : RRel md (match tg with
        | .var n => (Res.ok (lookupVar env n s) s : Res N (Val N))
        | .slot t key => indexVal call ρ k t key s)
      (match tg with
        | .var n => .ok (lookupVar env n s') s'
        | .slot t key => indexVal call ρ k t key s') := by
    cases tg
    · simp only [h.lookupVar]; exact RRel.ok h
    · exact indexVal_param hc _ _ _ h
  exact RRel.bind hold fun _ _ _ h =>
    RRel.bind (ihv N call ρ k env _ _ hc h) fun _ _ _ h =>
      RRel.bind (binopVal_param hc _ _ _ _ h) fun _ _ _ h =>
        RRel.bind (storeTarget_param hc _ _ _ _ h) fun _ _ _ h => RRel.ok h

theorem SoundS.callStmt {c c'} (ih : SoundE md c c') : SoundS md (.callStmt c) (.callStmt c') := by
  intro N call ρ k env σ σ' hc hs
  simp only [execS]
  exact RRel.bind (ih N call ρ k env σ σ' hc hs) fun _ _ _ h => RRel.ok h

theorem SoundS.doBlock {b b'} (ih : SoundB md b b') : SoundS md (.doBlock b) (.doBlock b') := by
  intro N call ρ k env σ σ' hc hs
  simp only [execS]
  refine RRel.bind (ih N call ρ k env σ σ' hc hs) fun c _ _ h => ?_
  cases c <;> exact RRel.ok h

theorem SoundS.function {name m f f'} (hf : R md (.f f) (.f f')) :
    SoundS md (.function name m f) (.function name m f') := by
  intro N call ρ k env σ σ' hc hs
  cases hf with
  | @fnBody ps ps' v vt vt' r r' g g' a a' b b' hn hb =>
    have key : ∀ (F F' : FnBody), R md (.f F) (.f F') →
        RRel md
          (match name, m with
            | [n], none => (Res.ok (Ctl.next env) (assignVar env n (.fn (σ.allocClosure ⟨F, env.locals, []⟩).1)
                (σ.allocClosure ⟨F, env.locals, []⟩).2) : Res N (Ctl N))
            | root :: path, _ =>
              (walkFields call ρ k (lookupVar env root (σ.allocClosure ⟨F, env.locals, []⟩).2)
                (path ++ (match m with | some mm => [mm] | none => []))
                (σ.allocClosure ⟨F, env.locals, []⟩).2).bind fun (tv, last) σ2 =>
                (setIndexVal call ρ k tv (strVal last) (.fn (σ.allocClosure ⟨F, env.locals, []⟩).1) σ2).bind
                  fun _ σ3 => .ok (.next env) σ3
            | [], _ => errS "function statement without a name" (σ.allocClosure ⟨F, env.locals, []⟩).2)
          (match name, m with
            | [n], none => .ok (.next env) (assignVar env n (.fn (σ'.allocClosure ⟨F', env.locals, []⟩).1)
                (σ'.allocClosure ⟨F', env.locals, []⟩).2)
            | root :: path, _ =>
              (walkFields call ρ k (lookupVar env root (σ'.allocClosure ⟨F', env.locals, []⟩).2)
                (path ++ (match m with | some mm => [mm] | none => []))
                (σ'.allocClosure ⟨F', env.locals, []⟩).2).bind fun (tv, last) σ2 =>
                (setIndexVal call ρ k tv (strVal last) (.fn (σ'.allocClosure ⟨F', env.locals, []⟩).1) σ2).bind
                  fun _ σ3 => .ok (.next env) σ3
            | [], _ => errS "function statement without a name" (σ'.allocClosure ⟨F', env.locals, []⟩).2) := by
      intro F F' hF
      have ha := hs.allocClosure (c := ⟨F, env.locals, []⟩) (c' := ⟨F', env.locals, []⟩) ⟨rfl, rfl, hF⟩
      rw [ha.1]
      split
      · exact RRel.ok (ha.2.assignVar _ _ _)
      · rw [ha.2.lookupVar]
        exact RRel.bind (walkFields_param hc _ _ _ ha.2) fun _ _ _ h =>
          RRel.bind (setIndexVal_param hc _ _ _ _ h) fun _ _ _ h => RRel.ok h
      · exact RRel.errS ha.2
    cases m with
    | none => simp only [execS]; exact key _ _ (.fnBody hn hb)
    | some mm =>
      simp only [execS]
      exact key _ _ (.fnBody (by simp only [List.map_cons, hn]) hb)

theorem SoundS.gfor {ns ns' vs vs' b b'} (hn : ns.map TName.name = ns'.map TName.name) (ihv : SoundEs md vs vs')
    (ihb : SoundB md b b') : SoundS md (.gfor ns vs b) (.gfor ns' vs' b') := by
  intro N call ρ k env σ σ' hc hs
  simp only [execS, hn]
  refine RRel.bind (ihv N call ρ k env σ σ' hc hs) fun vals _ _ h => ?_
  refine RRel.bind ?_ fun r _ _ h => RRel.loopEnd h
  apply gforLoop_rel
  · intro c s s' h; exact callVal_param hc _ _ _ h
  · intro rs s s' h
    have hb := h.bindLocals (ns'.map TName.name) rs env.locals
    rw [hb.1]
    exact ihb N call ρ k _ _ _ hc hb.2
  · exact h

theorem nfor_tail {N : NumOps} {call : CallFn N} {ρ : ExtOracle N} {k : Nat} {env : Env N} (hc : CallOK md call)
    {n n' : TName} {body body' : Block} (hn : n.name = n'.name) (ihbody : SoundB md body body')
    (a b c : List (Val N)) {σ σ' : State N} (h : SRel md σ σ') :
    RRel md
      (match toNumber? (first a), toNumber? (first b), toNumber? (first c) with
        | some x, some y, some z =>
          (forLoop (fun i σ =>
              execB call ρ k { env with locals := (n.name, (σ.allocCell (.num i)).1) :: env.locals } body
                (σ.allocCell (.num i)).2)
            y z k x σ).bind fun r σ4 =>
            match r with
            | some rv => (Res.ok (Ctl.ret rv) σ4 : Res N (Ctl N))
            | none => .ok (Ctl.next env) σ4
        | _, _, _ => errS "'for' initial value, limit and step must be numbers" σ)
      (match toNumber? (first a), toNumber? (first b), toNumber? (first c) with
        | some x, some y, some z =>
          (forLoop (fun i σ =>
              execB call ρ k { env with locals := (n'.name, (σ.allocCell (.num i)).1) :: env.locals } body'
                (σ.allocCell (.num i)).2)
            y z k x σ').bind fun r σ4 =>
            match r with
            | some rv => (Res.ok (Ctl.ret rv) σ4 : Res N (Ctl N))
            | none => .ok (Ctl.next env) σ4
        | _, _, _ => errS "'for' initial value, limit and step must be numbers" σ') := by
  split
  · refine RRel.bind ?_ fun r _ _ h => RRel.loopEnd h
    apply forLoop_rel
    · intro i s s' h
      have ha := h.allocCell (.num i)
      rw [ha.1, hn]
      exact ihbody N call ρ k _ _ _ hc ha.2
    · exact h
  · exact RRel.errS h

theorem SoundS.nforNone {n n' a a' b b' body body'} (hn : TName.name n = TName.name n') (iha : SoundE md a a')
    (ihb : SoundE md b b') (ihbody : SoundB md body body') :
    SoundS md (.nfor n a b none body) (.nfor n' a' b' none body') := by
  intro N call ρ k env σ σ' hc hs
  simp only [execS]
  exact RRel.bind (iha N call ρ k env σ σ' hc hs) fun _ _ _ h =>
    RRel.bind (ihb N call ρ k env _ _ hc h) fun _ _ _ h =>
      RRel.bind (RRel.ok h) fun _ _ _ h => nfor_tail hc hn ihbody _ _ _ h

theorem SoundS.nforSome {n n' a a' b b' st st' body body'} (hn : TName.name n = TName.name n') (iha : SoundE md a a')
    (ihb : SoundE md b b') (ihst : SoundE md st st') (ihbody : SoundB md body body') :
    SoundS md (.nfor n a b (some st) body) (.nfor n' a' b' (some st') body') := by
  intro N call ρ k env σ σ' hc hs
  simp only [execS]
  exact RRel.bind (iha N call ρ k env σ σ' hc hs) fun _ _ _ h =>
    RRel.bind (ihb N call ρ k env _ _ hc h) fun _ _ _ h =>
      RRel.bind (ihst N call ρ k env _ _ hc h) fun _ _ _ h => nfor_tail hc hn ihbody _ _ _ h

theorem SoundS.ifsNone {brs brs'} (ih : SoundBranches md brs brs') : SoundS md (.ifs brs none) (.ifs brs' none) := by
  intro N call ρ k env σ σ' hc hs
  simp only [execS]
  refine RRel.bind (ih N call ρ k env σ σ' hc hs) fun r _ _ h => ?_
  cases r <;> exact RRel.ok h

theorem SoundS.ifsSome {brs brs' b b'} (ih : SoundBranches md brs brs') (ihb : SoundB md b b') :
    SoundS md (.ifs brs (some b)) (.ifs brs' (some b')) := by
  intro N call ρ k env σ σ' hc hs
  simp only [execS]
  refine RRel.bind (ih N call ρ k env σ σ' hc hs) fun r _ _ h => ?_
  cases r
  · refine RRel.bind (ihb N call ρ k env _ _ hc h) fun c _ _ h => ?_
    cases c <;> exact RRel.ok h
  · exact RRel.ok h

theorem SoundS.localAssign {kind ns ns' vs vs'} (hn : ns.map TName.name = ns'.map TName.name)
    (ihv : SoundEs md vs vs') : SoundS md (.localAssign kind ns vs) (.localAssign kind ns' vs') := by
  intro N call ρ k env σ σ' hc hs
  simp only [execS, hn]
  refine RRel.bind (ihv N call ρ k env σ σ' hc hs) fun vals s s' h => ?_
  have hb := h.bindLocals (ns'.map TName.name) vals env.locals
  rw [hb.1]
  exact RRel.ok hb.2

theorem SoundS.localFn {kind name f f'} (hf : R md (.f f) (.f f')) :
    SoundS md (.localFn kind name f) (.localFn kind name f') := by
  intro N call ρ k env σ σ' hc hs
  simp only [execS]
  have h1 := hs.allocCell .nil
  rw [h1.1]
  have h2 := h1.2.allocClosure (c := ⟨f, (name, (σ.allocCell .nil).1) :: env.locals, []⟩)
    (c' := ⟨f', (name, (σ.allocCell .nil).1) :: env.locals, []⟩) ⟨rfl, rfl, hf⟩
  rw [h2.1]
  exact RRel.ok (h2.2.setCell _ _)

theorem SoundS.repeat_ {b b' c c'} (ihb : SoundB md b b') (ihc : SoundE md c c') :
    SoundS md (.repeat_ b c) (.repeat_ b' c') := by
  intro N call ρ k env σ σ' hc hs
  simp only [execS, repeatStep_eq_execB]
  refine RRel.bind (whileLoop_rel (fun s s' h => ?_) _ hs) fun r _ _ h => RRel.loopEnd h
  refine RRel.bind (ihb N call ρ k env _ _ hc h) fun ctl _ _ h => ?_
  cases ctl
  · refine RRel.bind (ihc N call ρ k _ _ _ hc h) fun _ _ _ h => ?_
    split <;> exact RRel.ok h
  · exact RRel.ok h
  · refine RRel.bind (ihc N call ρ k _ _ _ hc h) fun _ _ _ h => ?_
    split <;> exact RRel.ok h
  · exact RRel.ok h

theorem SoundS.while_ {b b' c c'} (ihc : SoundE md c c') (ihb : SoundB md b b') :
    SoundS md (.while_ c b) (.while_ c' b') := by
  intro N call ρ k env σ σ' hc hs
  simp only [execS]
  refine RRel.bind (whileLoop_rel (fun s s' h => ?_) _ hs) fun r _ _ h => RRel.loopEnd h
  refine RRel.bind (ihc N call ρ k env _ _ hc h) fun _ _ _ h => ?_
  split
  · exact RRel.bind (ihb N call ρ k env _ _ hc h) fun _ _ _ h => RRel.ok h
  · exact RRel.ok h

theorem SoundS.typeDecl {ex name ty ty'} : SoundS md (.typeDecl ex name ty) (.typeDecl ex name ty') := by
  intro N call ρ k env σ σ' hc hs; simp only [execS]; exact RRel.ok hs

theorem SoundS.typeFn {ex name f f'} : SoundS md (.typeFn ex name f) (.typeFn ex name f') := by
  intro N call ρ k env σ σ' hc hs; simp only [execS]; exact RRel.ok hs

/-! ### the fundamental theorem -/

theorem fund {a b : Node} (h : R md a b) : Sound md a b := by
  induction h with
  | stepE h _ ih => exact SoundE.step h ih
  | stepT h _ ih => exact SoundT.step h ih
  | stepS h _ ih => exact SoundS.step h ih
  | stepL h _ ih => exact SoundL.step h ih
  | stepB h _ ih => exact SoundB.step h ih
  | transE _ _ ih1 ih2 => exact SoundE.trans ih1 ih2
  | transT _ _ ih1 ih2 => exact SoundT.trans ih1 ih2
  | transS _ _ ih1 ih2 => exact SoundS.trans ih1 ih2
  | transL _ _ ih1 ih2 => exact SoundL.trans ih1 ih2
  | transB _ _ ih1 ih2 => exact SoundB.trans ih1 ih2
  | leaf h => exact SoundE.leaf h
  | paren _ ih => exact SoundE.paren ih
  | un _ ih => exact SoundE.un ih
  | bin _ _ ih1 ih2 => exact SoundE.bin ih1 ih2
  | call _ _ ih1 ih2 => exact SoundE.call ih1 ih2
  | field _ ih => exact SoundE.field ih
  | index _ _ ih1 ih2 => exact SoundE.index ih1 ih2
  | fn h _ => exact SoundE.fn h
  | table _ ih => exact SoundE.table ih
  | ifx _ _ _ _ ih1 ih2 ih3 ih4 => exact SoundE.ifx ih1 ih2 ih3 ih4
  | interp _ ih => exact SoundE.interp ih
  | cast _ ih => exact SoundE.cast ih
  | inst _ ih => exact SoundE.inst ih
  | esNil => exact SoundEs.nil
  | esCons _ h2 ih1 ih2 => exact SoundEs.cons h2 ih1 ih2
  | tsNil => exact SoundTs.nil
  | tsCons _ _ ih1 ih2 => exact SoundTs.cons ih1 ih2
  | elifsNil => exact SoundElifs.nil
  | elifsCons _ _ _ ih1 ih2 ih3 => exact SoundElifs.cons ih1 ih2 ih3
  | entriesNil => exact SoundEntries.nil
  | entriesPos _ h2 ih1 ih2 => exact SoundEntries.pos h2 ih1 ih2
  | entriesNamed _ _ ih1 ih2 => exact SoundEntries.named ih1 ih2
  | entriesKeyed _ _ _ ih1 ih2 ih3 => exact SoundEntries.keyed ih1 ih2 ih3
  | segsNil => exact SoundSegs.nil
  | segsS _ ih => exact SoundSegs.s ih
  | segsV _ _ ih1 ih2 => exact SoundSegs.v ih1 ih2
  | tVar => exact SoundT.var
  | tField _ ih => exact SoundT.field ih
  | tIndex _ _ ih1 ih2 => exact SoundT.index ih1 ih2
  | tNonLv h h' => exact SoundT.nonLv h h'
  | fnBody _ _ _ => trivial
  | assign _ _ ih1 ih2 => exact SoundS.assign ih1 ih2
  | cassign _ _ ih1 ih2 => exact SoundS.cassign ih1 ih2
  | callStmt _ ih => exact SoundS.callStmt ih
  | doBlock _ ih => exact SoundS.doBlock ih
  | function h _ => exact SoundS.function h
  | gfor hn _ _ ih1 ih2 => exact SoundS.gfor hn ih1 ih2
  | nforNone hn _ _ _ ih1 ih2 ih3 => exact SoundS.nforNone hn ih1 ih2 ih3
  | nforSome hn _ _ _ _ ih1 ih2 ih3 ih4 => exact SoundS.nforSome hn ih1 ih2 ih3 ih4
  | ifsNone _ ih => exact SoundS.ifsNone ih
  | ifsSome _ _ ih1 ih2 => exact SoundS.ifsSome ih1 ih2
  | localAssign hn _ ih => exact SoundS.localAssign hn ih
  | localFn h _ => exact SoundS.localFn h
  | repeat_ _ _ ih1 ih2 => exact SoundS.repeat_ ih1 ih2
  | while_ _ _ ih1 ih2 => exact SoundS.while_ ih1 ih2
  | typeDecl => exact SoundS.typeDecl
  | typeFn => exact SoundS.typeFn
  | ssNil => exact SoundSs.nil
  | ssCons _ _ ih1 ih2 => exact SoundSs.cons ih1 ih2
  | branchesNil => exact SoundBranches.nil
  | branchesCons _ _ _ ih1 ih2 ih3 => exact SoundBranches.cons ih1 ih2 ih3
  | ret _ ih => exact SoundL.ret ih
  | brk => exact SoundL.brk
  | cont => exact SoundL.cont
  | blockNone _ ih => exact SoundB.none ih
  | blockSome _ _ ih1 ih2 => exact SoundB.some ih1 ih2

theorem fundB {b b' : Block} (h : R md (.b b) (.b b')) : SoundB md b b' := fund h
theorem fundT {e e' : Expr} (h : R md (.t e) (.t e')) : SoundT md e e' := fund h

/-! ### call levels -/

theorem RRel.retWrap {N : NumOps} {r r' : Res N (Ctl N)} : RRel md r r' →
    RRel md (match r with
        | .ok (.ret vs) σ2 => (Res.ok vs σ2 : Res N (List (Val N)))
        | .ok _ σ2 => .ok [] σ2
        | .err v σ2 => .err v σ2
        | .timeout => .timeout)
      (match r' with
        | .ok (.ret vs) σ2 => .ok vs σ2
        | .ok _ σ2 => .ok [] σ2
        | .err v σ2 => .err v σ2
        | .timeout => .timeout) := by
  intro hr
  cases r <;> cases r' <;> simp only [RRel] at hr
  · obtain ⟨rfl, h⟩ := hr
    rename_i c _ _
    cases c <;> exact RRel.ok h
  · obtain ⟨rfl, h⟩ := hr
    exact RRel.err h
  · exact RRel.timeout_left hr _
  · exact RRel.timeout_left hr _
  · exact RRel.timeout

theorem callClosure_ok {N : NumOps} (ρ : ExtOracle N) : ∀ n, CallOK md (callClosure ρ n)
  | 0 => fun _ _ _ _ _ _ _ => RRel.timeout
  | n + 1 => by
    intro c c' args σ σ' hcc hs
    obtain ⟨body, cenv, va⟩ := c
    obtain ⟨body', cenv', va'⟩ := c'
    obtain ⟨he, hv, hb⟩ := hcc
    simp only [] at he hv hb
    subst he hv
    cases hb with
    | @fnBody ps ps' v vt vt' r r' g g' a a' b b' hn hbb =>
      simp only [callClosure, hn]
      have hl := hs.bindLocals (List.map TName.name ps') args cenv
      rw [hl.1]
      exact RRel.retWrap (fundB hbb N _ ρ n _ _ _ (callClosure_ok ρ n) hl.2)

/-- `R`-related chunks run on related states give related results, at every level -/
theorem runChunk_rel {N : NumOps} (ρ : ExtOracle N) (n : Nat) {b b' : Block} (h : R md (.b b) (.b b'))
    {σ σ' : State N} (hs : SRel md σ σ') : RRel md (runChunk ρ n b σ) (runChunk ρ n b' σ') := by
  unfold runChunk
  exact RRel.retWrap (fundB h N _ ρ n _ _ _ (callClosure_ok ρ n) hs)

theorem observe_rel {N : NumOps} {r r' : Res N (List (Val N))} (h : RRel md r r') :
    (md = true ∧ observe r = .timeout) ∨ observe r' = observe r := by
  cases r <;> cases r' <;> simp only [RRel] at h
  · obtain ⟨rfl, hs⟩ := h
    right
    simp only [observe, hs.trace]
    congr 1
    exact List.map_congr_left fun v _ => hs.canon v
  · obtain ⟨rfl, hs⟩ := h
    right
    simp only [observe, hs.trace, hs.canon]
  · exact .inl ⟨h, rfl⟩
  · exact .inl ⟨h, rfl⟩
  · exact .inr rfl

/-- **Observational refinement.** `R md`-related programs have the same outcome (returned canonical
values / raised value, and trace of external calls) for every oracle, level and externs —
unless (`md = true` only) the original program exhausts its budget. -/
theorem runProgram_rel' {N : NumOps} (ρ : ExtOracle N) (n : Nat) (externs : List String) {b b' : Block}
    (h : R md (.b b) (.b b')) :
    (md = true ∧ runProgram ρ n externs b = .timeout) ∨ runProgram ρ n externs b' = runProgram ρ n externs b :=
  observe_rel (runChunk_rel ρ n h (SRel.refl _))

/-- exact steps: unconditional equality of outcomes -/
theorem runProgram_rel {N : NumOps} (ρ : ExtOracle N) (n : Nat) (externs : List String) {b b' : Block}
    (h : R false (.b b) (.b b')) : runProgram ρ n externs b' = runProgram ρ n externs b := by
  cases runProgram_rel' ρ n externs h with
  | inl h => exact absurd h.1 (by decide)
  | inr h => exact h

/-- timeout-relaxed steps: equality of outcomes whenever the original finishes within its budget -/
theorem runProgram_upto {N : NumOps} (ρ : ExtOracle N) (n : Nat) (externs : List String) {b b' : Block}
    (h : R true (.b b) (.b b')) :
    runProgram ρ n externs b = .timeout ∨ runProgram ρ n externs b' = runProgram ρ n externs b := by
  cases runProgram_rel' ρ n externs h with
  | inl h => exact .inl h.2
  | inr h => exact .inr h

end DarkluaModel.Sem
